(* C18/Props.v — property theorems only.  Each is closed by [exact] of a lemma from Lemmas.v and followed by
   Print Assumptions (parsed by the check: must be "Closed under the global context").  The satisfiability
   Examples stand beside the lemmas in Lemmas.v (names *_ex).

   Property C18: for any sequence of count or step events, enable, disable, reset, restart and timeout, a
   counter's value equals its start value plus the number of hits accepted while enabled and outside its
   multiple-hit window times its interval in its direction, an accrual advances on its configured steps in any
   order and a sequence only in strict order.  Each posts its hit events once per accepted hit and its
   completion event exactly once per completion, at the moment the goal is reached, and then resets or disables
   as configured.

   Vocabulary (Model.v): [exec c s h] runs a history h : list (instant * op) — the external operations AND the
   expiries of the block's two delays (FireTimeout, FireWindow), at arbitrary instants; every theorem below
   quantifies over all such histories, so over every timing.  [timed_run_refines_exec] shows that the run the
   correspondence check compares with the real code (delays fire when the clock passes their deadline) is such
   a history.  [accepted c s o]: the hit arrives while enabled and (counter) outside the window / (accrual) on
   a step not yet done / (sequence) on the current step.  [completes c s o]: the block is not completed and the
   operation reaches the goal.  [ghost] is the bookkeeping of the formula: (base, n) with n the number of
   accepted hits since the last reset (explicit, by timeout, or on completion with reset_on_complete). *)
From Common Require Import Prelude.
From Coq Require Import Permutation.
From C18 Require Import Model Lemmas.
Open Scope Z_scope.

(* value = start + hit_value * (accepted hits since the last reset); hit_value = +-|interval| by direction.
   With the control events add/subtract/jump (outside the property's operation list) the base moves with them. *)
Theorem counter_value_formula :
  forall (c : cfg) (h : list (Z * op)),
    ckind c = KCounter ->
    let s := fst (exec c (init c) h) in
    let bn := ghost c (init c) h (start c, 0) in
    value s = fst bn + hit_value c * snd bn /\ 0 <= snd bn /\
    (no_control h = true -> value s = start c + hit_value c * snd bn).
Proof. exact counter_value_formula_l. Qed.
Print Assumptions counter_value_formula.

(* hit events: exactly one logicblock_<n>_hit per accepted hit, none otherwise (all three kinds) *)
Theorem hit_events_once_per_accepted_hit :
  forall c t s o, count_ev is_hit_ev (snd (step c t s o)) = if accepted c s o then 1%nat else 0%nat.
Proof. exact step_hit_events. Qed.
Print Assumptions hit_events_once_per_accepted_hit.

Theorem hit_events_count_along_history :
  forall c h s, count_ev is_hit_ev (snd (exec c s h)) = n_accepted c s h.
Proof. exact exec_hit_events. Qed.
Print Assumptions hit_events_count_along_history.

(* hits while disabled / inside the window / on the wrong sequence step change nothing and post nothing *)
Theorem rejected_hit_is_noop :
  forall c t s o, ckind c <> KAccrual -> (o = Count \/ exists k, o = Hit k) -> accepted c s o = false ->
    step c t s o = (s, []).
Proof. exact rejected_hit_noop. Qed.
Print Assumptions rejected_hit_is_noop.

(* completion: one event exactly at the operation that reaches the goal of a not yet completed block ... *)
Theorem complete_once :
  forall c t s o,
    count_ev is_complete_ev (snd (step c t s o)) = if completes c s o then 1%nat else 0%nat.
Proof. exact step_complete_events. Qed.
Print Assumptions complete_once.

(* ... followed by the configured reset / disable *)
Theorem complete_then_reset_or_disable :
  forall c t s o,
    completes c s o = true ->
    let s' := fst (step c t s o) in
    completed s' = negb (roc c) /\
    enabled s' = enabled s && negb (doc c) /\
    (roc c = true -> value s' = start_value c /\ steps s' = start_steps c) /\
    tmo s' = (if doc c then None else if roc c && (0 <? timeout c) then Some (t + timeout c) else None).
Proof. exact step_completes_state. Qed.
Print Assumptions complete_then_reset_or_disable.

(* ... and never a second time until the block is reset *)
Theorem complete_once_until_reset :
  forall c h s,
    roc c = false -> forallb (fun to => negb (is_reset_op (snd to))) h = true ->
    (count_ev is_complete_ev (snd (exec c s h)) <= 1)%nat /\
    (completed s = true -> count_ev is_complete_ev (snd (exec c s h)) = 0%nat).
Proof. intros c h s. exact (complete_once_l c h s). Qed.
Print Assumptions complete_once_until_reset.

(* "at the moment the goal is reached": for the property's operations (no add/subtract/jump) the accepted hit
   that takes the value from short of the goal to the goal always posts the completion event *)
Theorem goal_transition_completes :
  forall c h t, ckind c = KCounter -> no_control h = true ->
    let s := fst (exec c (init c) h) in
    accepted c s Count = true ->
    reached c (value s) = false -> reached c (value s + hit_value c) = true ->
    count_ev is_complete_ev (snd (step c t s Count)) = 1%nat.
Proof. exact goal_transition_completes_l. Qed.
Print Assumptions goal_transition_completes.

(* the guard [no_control] is needed: after a jump back below the goal of a completed, un-reset counter the
   second arrival at the goal is silent.  (Control events are outside the property's operation list; recorded
   as an observation in NOTES.md, replayed on the code by corpus/C18/blocks.1.json.) *)
Theorem control_ops_break_goal_transition :
  exists c h t, ckind c = KCounter /\
    let s := fst (exec c (init c) h) in
    accepted c s Count = true /\
    reached c (value s) = false /\ reached c (value s + hit_value c) = true /\
    count_ev is_complete_ev (snd (step c t s Count)) = 0%nat.
Proof. exact control_ops_break_goal_transition_l. Qed.
Print Assumptions control_ops_break_goal_transition.

(* accrual: steps in ANY order (and with repetitions); the completion event comes with the hit that sets the
   last missing step, not before *)
Theorem accrual_any_order :
  forall c tks t k s,
    ckind c = KAccrual -> enabled s = true -> completed s = false ->
    all_true (mark (map snd tks) (steps s)) = false ->
    all_true (mark (map snd tks ++ [k]) (steps s)) = true ->
    let r := exec c s (hits_of tks) in
    steps (fst r) = mark (map snd tks) (steps s) /\
    count_ev is_complete_ev (snd r) = 0%nat /\
    count_ev is_complete_ev (snd (step c t (fst r) (Hit k))) = 1%nat.
Proof. exact accrual_any_order_l. Qed.
Print Assumptions accrual_any_order.

Theorem accrual_order_irrelevant :
  forall ks ks', Permutation ks ks' -> forall l, mark ks l = mark ks' l.
Proof. exact mark_perm. Qed.
Print Assumptions accrual_order_irrelevant.

Theorem accrual_complete_iff_all_steps :
  forall n ks, all_true (mark ks (repeat false n)) = true <-> (forall i, (i < n)%nat -> In i ks).
Proof. exact accrual_complete_iff_all_steps_l. Qed.
Print Assumptions accrual_complete_iff_all_steps.

(* sequence: the position only advances on a hit of the current step; any other step is a no-op; the
   completion event comes with the hit of the last step *)
Theorem sequence_strict_order :
  forall c tks t k s,
    ckind c = KSequence -> enabled s = true -> completed s = false ->
    seq_adv (value s) (map snd tks) < Z.of_nat (nsteps c) ->
    let r := exec c s (hits_of tks) in
    value (fst r) = seq_adv (value s) (map snd tks) /\
    count_ev is_complete_ev (snd r) = 0%nat /\
    (Z.of_nat k = value (fst r) -> Z.of_nat (nsteps c) <= value (fst r) + 1 ->
     count_ev is_complete_ev (snd (step c t (fst r) (Hit k))) = 1%nat) /\
    (Z.of_nat k <> value (fst r) -> step c t (fst r) (Hit k) = (fst r, [])).
Proof. exact sequence_strict_order_l. Qed.
Print Assumptions sequence_strict_order.

(* hit window: the flag is set exactly while the window delay is pending; the delay is (re)armed only by an
   accepted hit, for now + window, and only its expiry clears the flag: the window always reopens *)
Theorem window_flag_iff_delay_pending :
  forall c h, ignore (fst (exec c (init c) h)) = isSome (win (fst (exec c (init c) h))).
Proof. exact window_invariant_l. Qed.
Print Assumptions window_flag_iff_delay_pending.

Theorem window_opens_and_closes :
  forall c t s o,
    let s' := fst (step c t s o) in
    (win s' = if opens_window c s o then Some (t + window c)
              else match o with FireWindow => None | _ => win s end) /\
    (ignore s' = if opens_window c s o then true
                 else match o with FireWindow => false | _ => ignore s end).
Proof. exact window_step_l. Qed.
Print Assumptions window_opens_and_closes.

(* timeout: posts <n>_timeout, resets, and re-arms itself *)
Theorem timeout_resets :
  forall c t s,
    let '(s', es) := step c t s FireTimeout in
    value s' = start_value c /\ steps s' = start_steps c /\ completed s' = false /\
    enabled s' = enabled s /\
    tmo s' = (if 0 <? timeout c then Some (t + timeout c) else None) /\
    es = [ETimeout; EUpdated (start_value c) (start_steps c) (enabled s)].
Proof. exact timeout_resets_l. Qed.
Print Assumptions timeout_resets.

(* the timed run compared with the real code is an execution of a history (the groups' operations plus delay
   expiries, each fired only when due: Lemmas.next_due_sound / advance_exec) *)
Theorem timed_run_refines_exec :
  forall c groups now s,
    exists h, fst (trun_aux c now s groups) = fst (exec c s h) /\
              events_of (snd (trun_aux c now s groups)) = snd (exec c s h).
Proof. intros c groups now s. exact (timed_run_refines_exec_l c groups now s). Qed.
Print Assumptions timed_run_refines_exec.
