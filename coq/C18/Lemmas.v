(* C18/Lemmas.v — proofs about the model of the logic blocks (Model.v). *)
From Common Require Import Prelude.
From Coq Require Import Permutation.
From C18 Require Import Model.
Open Scope Z_scope.

(* ---------------------------------------------------------------------------------------------- *)
(* automation: unfold the methods, split every test                                                *)

Ltac unf :=
  unfold step, do_count, do_setval, do_accrual_hit, do_sequence_hit, do_complete, do_reset, do_enable,
    do_disable, timer_start, upd, accepted, goal_reached_by, completes, resets, ghost_step,
    count_ev, set_enabled, set_completed, set_value, set_steps, set_ignore, set_tmo, set_win in *.

Ltac split_ifs :=
  repeat (cbn [fst snd enabled completed value steps ignore tmo win filter length app
               is_hit_ev is_complete_ev negb andb orb] in *;
          match goal with
          | |- context [if ?b then _ else _] => destruct b eqn:?
          | |- context [match ?x with KCounter => _ | KAccrual => _ | KSequence => _ end] => destruct x eqn:?
          | |- context [let '(_, _) := ?x in _] => destruct x eqn:?
          end).

Ltac fin := cbn in *; try congruence; try lia; auto.

(* ---------------------------------------------------------------------------------------------- *)
(* exec plumbing                                                                                   *)

Lemma exec_cons c s t o h :
  exec c s ((t, o) :: h) =
  (fst (exec c (fst (step c t s o)) h), snd (step c t s o) ++ snd (exec c (fst (step c t s o)) h)).
Proof. cbn [exec]. destruct (step c t s o) as [s1 e1]. cbn [fst snd]. destruct (exec c s1 h) as [s2 e2]. reflexivity. Qed.

Lemma exec_app c h1 : forall s h2,
  exec c s (h1 ++ h2) =
  (fst (exec c (fst (exec c s h1)) h2), snd (exec c s h1) ++ snd (exec c (fst (exec c s h1)) h2)).
Proof.
  induction h1 as [|[t o] h1 IH]; intros s h2.
  - cbn. destruct (exec c s h2); reflexivity.
  - rewrite <- app_comm_cons. rewrite !exec_cons. rewrite IH. cbn [fst snd]. rewrite app_assoc. reflexivity.
Qed.

Lemma count_ev_app p a b : count_ev p (a ++ b) = (count_ev p a + count_ev p b)%nat.
Proof. unfold count_ev. rewrite filter_app, app_length. reflexivity. Qed.

(* ---------------------------------------------------------------------------------------------- *)
(* explicit form of complete()                                                                     *)

Definition complete_state (c : cfg) (now : Z) (s : st) : st :=
  mkSt (enabled s && negb (doc c)) (negb (roc c))
       (if roc c then start_value c else value s)
       (if roc c then start_steps c else steps s)
       (ignore s)
       (if doc c then None else if roc c && (0 <? timeout c) then Some (now + timeout c) else None)
       (win s).

Definition complete_events (c : cfg) (s : st) : list ev :=
  EComplete ::
  (if roc c then [EUpdated (start_value c) (start_steps c) (enabled s)] else []) ++
  (if doc c then [EUpdated (if roc c then start_value c else value s)
                           (if roc c then start_steps c else steps s) false] else []).

Lemma do_complete_eq c now s :
  do_complete c now s =
  if completed s then (s, []) else (complete_state c now s, complete_events c s).
Proof.
  unfold do_complete, complete_state, complete_events, do_reset, do_disable, timer_start, upd,
    set_enabled, set_completed, set_value, set_steps, set_tmo.
  destruct (completed s); [reflexivity|].
  destruct (roc c), (doc c), (0 <? timeout c); cbn; try rewrite andb_true_r; try rewrite andb_false_r; reflexivity.
Qed.

Lemma complete_events_counts c s :
  count_ev is_hit_ev (complete_events c s) = 0%nat /\ count_ev is_complete_ev (complete_events c s) = 1%nat.
Proof. unfold complete_events, count_ev. destruct (roc c), (doc c); cbn; auto. Qed.

