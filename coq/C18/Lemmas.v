(* C18/Lemmas.v — proofs about the model of the logic blocks (Model.v). *)
From Common Require Import Prelude.
From Coq Require Import Permutation.
From C18 Require Import Model.
Open Scope Z_scope.

(* ---------------------------------------------------------------------------------------------- *)
(* automation: unfold the methods, split every test                                                *)

Ltac unf1 :=
  unfold step, do_count, do_setval, do_accrual_hit, do_sequence_hit, do_complete, do_reset, do_enable,
    do_disable, timer_start, upd, accepted, goal_reached_by, completes, resets, ghost_step,
    count_ev in *.

(* reduce setters / projections on explicit states only (never Z arithmetic) *)
Ltac rs :=
  cbn [set_enabled set_completed set_value set_steps set_ignore set_tmo set_win
       enabled completed value steps ignore tmo win fst snd negb andb orb app filter length
       is_hit_ev is_complete_ev] in *.

Ltac atom b :=
  match b with
  | negb ?x => atom x
  | andb ?x _ => atom x
  | orb ?x _ => atom x
  | _ => b
  end.

Ltac split_ifs :=
  repeat (rs;
          match goal with
          | |- context [if ?b then _ else _] => let a := atom b in destruct a eqn:?
          | |- context [match ?x with KCounter => _ | KAccrual => _ | KSequence => _ end] => destruct x eqn:?
          end).

Ltac unf := repeat unf1.

(* destruct the state with its three flags, and the two completion options *)
Ltac cases_st s c :=
  destruct s as [[] [] ?v ?l [] ?tm ?wi]; destruct (roc c) eqn:?; destruct (doc c) eqn:?.

Ltac fin := rs; try reflexivity; try congruence; try lia; auto.

(* ---------------------------------------------------------------------------------------------- *)
(* exec plumbing                                                                                   *)

Lemma exec_cons c s t o h :
  exec c s ((t, o) :: h) =
  (fst (exec c (fst (step c t s o)) h), snd (step c t s o) ++ snd (exec c (fst (step c t s o)) h)).
Proof. cbn [exec]. destruct (step c t s o) as [s1 e1]. cbn [fst snd]. destruct (exec c s1 h) as [s2 e2]. reflexivity. Qed.

Lemma exec_app c h1 : forall s h2,
  exec c s (h1 ++ h2) =
  (fst (exec c (fst (exec c s h1)) h2), snd (exec c s h1) ++ snd (exec c (fst (exec c s h1)) h2)).
Proof.
  induction h1 as [|[t o] h1 IH]; intros s h2.
  - cbn. destruct (exec c s h2); reflexivity.
  - rewrite <- app_comm_cons. rewrite !exec_cons. rewrite IH. cbn [fst snd]. rewrite app_assoc. reflexivity.
Qed.

Lemma count_ev_app p a b : count_ev p (a ++ b) = (count_ev p a + count_ev p b)%nat.
Proof. unfold count_ev. rewrite filter_app, app_length. reflexivity. Qed.

(* ---------------------------------------------------------------------------------------------- *)
(* explicit form of complete()                                                                     *)

Definition complete_state (c : cfg) (now : Z) (s : st) : st :=
  mkSt (enabled s && negb (doc c)) (negb (roc c))
       (if roc c then start_value c else value s)
       (if roc c then start_steps c else steps s)
       (ignore s)
       (if doc c then None else if roc c && (0 <? timeout c) then Some (now + timeout c) else None)
       (win s).

Definition complete_events (c : cfg) (s : st) : list ev :=
  EComplete ::
  (if roc c then [EUpdated (start_value c) (start_steps c) (enabled s)] else []) ++
  (if doc c then [EUpdated (if roc c then start_value c else value s)
                           (if roc c then start_steps c else steps s) false] else []).

Lemma do_complete_eq c now s :
  do_complete c now s =
  if completed s then (s, []) else (complete_state c now s, complete_events c s).
Proof.
  destruct s as [en co v l ig tm wi].
  unfold do_complete, complete_state, complete_events, do_reset, do_disable, timer_start, upd. rs.
  destruct co; [reflexivity|].
  destruct (roc c), (doc c), (0 <? timeout c); rs;
    try rewrite andb_true_r; try rewrite andb_false_r; reflexivity.
Qed.

Lemma complete_events_counts c s :
  count_ev is_hit_ev (complete_events c s) = 0%nat /\ count_ev is_complete_ev (complete_events c s) = 1%nat.
Proof. unfold complete_events, count_ev. destruct (roc c), (doc c); cbn; auto. Qed.

(* ---------------------------------------------------------------------------------------------- *)
(* counter: value of one step                                                                      *)

Definition value_after (c : cfg) (s : st) (o : op) : Z :=
  if resets c s o then start c
  else match o with
       | Count => if accepted c s o then value s + hit_value c else value s
       | Add z => value s + z
       | Sub z => value s - z
       | Jump z => z
       | _ => value s
       end.

Lemma step_value c t s o :
  ckind c = KCounter -> value (fst (step c t s o)) = value_after c s o.
Proof.
  intro K. unfold value_after. cases_st s c;
  destruct o; unf; unfold start_value; rewrite ?K; split_ifs; fin.
Qed.

Definition ginv (c : cfg) (s : st) (bn : Z * Z) : Prop := value s = fst bn + hit_value c * snd bn.

Lemma ghost_step_inv c t s o bn :
  ckind c = KCounter -> ginv c s bn -> ginv c (fst (step c t s o)) (ghost_step c s o bn).
Proof.
  intros K G. unfold ginv in *. rewrite step_value by assumption. unfold value_after, ghost_step.
  destruct (resets c s o); [cbn; lia|].
  destruct o; rewrite ?K; cbn [fst snd]; try lia.
  destruct (accepted c s Count); cbn [fst snd]; lia.
Qed.

Lemma ghost_inv c h : forall s bn,
  ckind c = KCounter -> ginv c s bn -> ginv c (fst (exec c s h)) (ghost c s h bn).
Proof.
  induction h as [|[t o] h IH]; intros s bn K G; [exact G|].
  rewrite exec_cons. cbn [fst ghost]. apply IH; [assumption|]. apply ghost_step_inv; assumption.
Qed.

Lemma ghost_step_base c s o bn :
  is_control o = false -> fst bn = start c -> fst (ghost_step c s o bn) = start c.
Proof.
  intros NC B. unfold ghost_step. destruct (resets c s o); [reflexivity|].
  destruct o; try discriminate; try assumption.
  destruct (accepted c s Count); assumption.
Qed.

Lemma ghost_base c h : forall s bn,
  no_control h = true -> fst bn = start c -> fst (ghost c s h bn) = start c.
Proof.
  induction h as [|[t o] h IH]; intros s bn NC B; [exact B|].
  cbn in NC. apply andb_true_iff in NC as [N1 N2]. cbn [ghost]. apply IH; [assumption|].
  apply ghost_step_base; [|assumption]. destruct (is_control o); [discriminate|reflexivity].
Qed.

Lemma ghost_step_nonneg c s o bn : 0 <= snd bn -> 0 <= snd (ghost_step c s o bn).
Proof.
  intro H. unfold ghost_step. destruct (resets c s o); [cbn; lia|].
  destruct o; try assumption; try (destruct (ckind c); cbn; assumption || lia).
  destruct (accepted c s Count); cbn; lia.
Qed.

Lemma ghost_nonneg c h : forall s bn, 0 <= snd bn -> 0 <= snd (ghost c s h bn).
Proof.
  induction h as [|[t o] h IH]; intros s bn H; [exact H|].
  cbn [ghost]. apply IH. apply ghost_step_nonneg; assumption.
Qed.

Lemma init_value c : ckind c = KCounter -> value (init c) = start c.
Proof. intro K. unfold init, start_value. rewrite K. destruct (boot_enabled c); unf; split_ifs; fin. Qed.

Lemma counter_value_formula_l :
  forall (c : cfg) (h : list (Z * op)),
    ckind c = KCounter ->
    let s := fst (exec c (init c) h) in
    let bn := ghost c (init c) h (start c, 0) in
    value s = fst bn + hit_value c * snd bn /\ 0 <= snd bn /\
    (no_control h = true -> value s = start c + hit_value c * snd bn).
Proof.
  intros c h K s bn.
  assert (G : ginv c s bn).
  { apply ghost_inv; [assumption|]. unfold ginv. cbn [fst snd]. rewrite init_value by assumption. lia. }
  split; [exact G|]. split; [apply ghost_nonneg; cbn; lia|].
  intro NC. unfold ginv in G. rewrite G. unfold bn. rewrite ghost_base; auto.
Qed.

(* ---------------------------------------------------------------------------------------------- *)
(* hit events                                                                                      *)

Lemma step_hit_events c t s o :
  count_ev is_hit_ev (snd (step c t s o)) = if accepted c s o then 1%nat else 0%nat.
Proof.
  destruct (ckind c) eqn:K; cases_st s c; destruct o; unf; rewrite ?K; split_ifs; fin.
Qed.

Lemma exec_hit_events c h : forall s,
  count_ev is_hit_ev (snd (exec c s h)) = n_accepted c s h.
Proof.
  induction h as [|[t o] h IH]; intro s; [reflexivity|].
  rewrite exec_cons. cbn [snd n_accepted]. rewrite count_ev_app, step_hit_events, IH. reflexivity.
Qed.

(* a hit that is not accepted leaves a counter / sequence untouched and posts nothing *)
Lemma rejected_hit_noop c t s o :
  ckind c <> KAccrual -> (o = Count \/ exists k, o = Hit k) -> accepted c s o = false ->
  step c t s o = (s, []).
Proof.
  intros K O A. destruct (ckind c) eqn:KK; try congruence;
    destruct O as [->|[k ->]]; unfold step, accepted in *; rewrite KK in *; try reflexivity.
  - unfold do_count. destruct (enabled s); [|reflexivity]. destruct (ignore s); [reflexivity|discriminate].
  - unfold do_sequence_hit. destruct (enabled s); [|reflexivity]. cbn in A. rewrite A. reflexivity.
Qed.

(* ---------------------------------------------------------------------------------------------- *)
(* completion                                                                                      *)

Lemma set_nth_already k : forall l, nth k l false = true -> set_nth k l = l.
Proof.
  induction k as [|k IH]; intros [|b l] H; cbn in *; try reflexivity.
  - subst; reflexivity.
  - rewrite IH; auto.
Qed.

Ltac already :=
  match goal with
  | H : nth ?k ?l false = true |- _ => rewrite (set_nth_already k l H) in *
  end.

Lemma step_complete_events c t s o :
  count_ev is_complete_ev (snd (step c t s o)) = if completes c s o then 1%nat else 0%nat.
Proof.
  destruct (ckind c) eqn:K; cases_st s c; destruct o; unf; rewrite ?K; split_ifs; fin;
    already; congruence.
Qed.

(* what the block looks like right after an operation that completes it *)
Lemma step_completes_state c t s o :
  completes c s o = true ->
  let s' := fst (step c t s o) in
  completed s' = negb (roc c) /\
  enabled s' = enabled s && negb (doc c) /\
  (roc c = true -> value s' = start_value c /\ steps s' = start_steps c) /\
  tmo s' = (if doc c then None else if roc c && (0 <? timeout c) then Some (t + timeout c) else None).
Proof.
  destruct (ckind c) eqn:K; cases_st s c; destruct o; unf; rewrite ?K; rs;
    try discriminate; split_ifs; rs; try discriminate; intros H; repeat split; intros; fin;
    try (already; congruence).
Qed.

Lemma completed_sticky c t s o :
  roc c = false -> is_reset_op o = false -> completed s = true ->
  completed (fst (step c t s o)) = true.
Proof.
  intros R O C. destruct (ckind c) eqn:K; destruct s as [[] co v l [] tm wi]; rs; subst co;
    destruct (doc c) eqn:?; destruct o; try discriminate; unf; rewrite ?K, ?R; split_ifs; fin.
Qed.

Lemma complete_once_l c h : forall s,
  roc c = false -> forallb (fun to => negb (is_reset_op (snd to))) h = true ->
  (count_ev is_complete_ev (snd (exec c s h)) <= 1)%nat /\
  (completed s = true -> count_ev is_complete_ev (snd (exec c s h)) = 0%nat).
Proof.
  induction h as [|[t o] h IH]; intros s R NR; [cbn; auto|].
  cbn in NR. apply andb_true_iff in NR as [N1 N2]. apply negb_true_iff in N1.
  rewrite exec_cons. cbn [snd]. rewrite count_ev_app, step_complete_events.
  destruct (IH (fst (step c t s o)) R N2) as [I1 I2].
  destruct (completes c s o) eqn:CP.
  - pose proof (step_completes_state c t s o CP) as [C1 _]. rewrite R in C1. cbn in C1.
    rewrite (I2 C1). split; [lia|]. intro C. unfold completes in CP. rewrite C in CP. discriminate.
  - split; [lia|]. intro C. rewrite I2; [reflexivity|]. apply completed_sticky; assumption.
Qed.

(* ---------------------------------------------------------------------------------------------- *)
(* counter: "at the moment the goal is reached"                                                    *)

Definition cinv (c : cfg) (s : st) : Prop := completed s = true -> reached c (value s) = true.

Lemma reached_mono c v : reached c v = true -> reached c (v + hit_value c) = true.
Proof.
  unfold reached, hit_value. destruct (goal c) as [g|]; [|discriminate].
  pose proof (Z.abs_nonneg (interval c)).
  destruct (down c); intro R; [apply Z.leb_le in R; apply Z.leb_le; lia|apply Z.leb_le in R; apply Z.leb_le; lia].
Qed.

Lemma cinv_step c t s o :
  ckind c = KCounter -> is_control o = false -> cinv c s -> cinv c (fst (step c t s o)).
Proof.
  intros K NC I. unfold cinv in *.
  destruct s as [en [] v l ig tm wi]; rs.
  - specialize (I eq_refl). pose proof (reached_mono c v I) as M.
    destruct en, ig; destruct (roc c) eqn:?; destruct (doc c) eqn:?; destruct o; try discriminate;
      unf; rewrite ?K; split_ifs; fin.
  - clear I. destruct en, ig; destruct (roc c) eqn:?; destruct (doc c) eqn:?; destruct o; try discriminate;
      unf; rewrite ?K; split_ifs; fin.
Qed.

Lemma cinv_exec c h : forall s,
  ckind c = KCounter -> no_control h = true -> cinv c s -> cinv c (fst (exec c s h)).
Proof.
  induction h as [|[t o] h IH]; intros s K NC I; [exact I|].
  cbn in NC. apply andb_true_iff in NC as [N1 N2]. apply negb_true_iff in N1.
  rewrite exec_cons. cbn [fst]. apply IH; auto. apply cinv_step; auto.
Qed.

Lemma cinv_init c : cinv c (init c).
Proof. unfold cinv, init. destruct (boot_enabled c); unf; split_ifs; fin. Qed.

Lemma goal_transition_completes_l :
  forall c h t, ckind c = KCounter -> no_control h = true ->
    let s := fst (exec c (init c) h) in
    accepted c s Count = true ->
    reached c (value s) = false -> reached c (value s + hit_value c) = true ->
    count_ev is_complete_ev (snd (step c t s Count)) = 1%nat.
Proof.
  intros c h t K NC s A R0 R1. rewrite step_complete_events.
  assert (I : cinv c s) by (apply cinv_exec; auto; apply cinv_init).
  unfold completes, goal_reached_by. rewrite K, A, R1.
  destruct (completed s) eqn:C; [|reflexivity]. rewrite (I C) in R0. discriminate.
Qed.

(* with a jump back below the goal the "completed" flag survives: the second arrival at the goal is silent *)
Definition jump_cfg : cfg := mkCfg KCounter 0 false 1 0 (Some 2) false false 0 0 true.
Definition jump_hist : list (Z * op) := [(2000, Count); (2125, Count); (2250, Jump 1)].

Lemma control_ops_break_goal_transition_l :
  exists c h t, ckind c = KCounter /\
    let s := fst (exec c (init c) h) in
    accepted c s Count = true /\
    reached c (value s) = false /\ reached c (value s + hit_value c) = true /\
    count_ev is_complete_ev (snd (step c t s Count)) = 0%nat.
Proof. exists jump_cfg, jump_hist, 2375. vm_compute. repeat split; reflexivity. Qed.

(* ---------------------------------------------------------------------------------------------- *)
(* timeout                                                                                         *)

Lemma timeout_resets_l c t s :
  let '(s', es) := step c t s FireTimeout in
  value s' = start_value c /\ steps s' = start_steps c /\ completed s' = false /\
  enabled s' = enabled s /\
  tmo s' = (if 0 <? timeout c then Some (t + timeout c) else None) /\
  es = [ETimeout; EUpdated (start_value c) (start_steps c) (enabled s)].
Proof. destruct s as [en co v l ig tm wi]. unf. split_ifs; fin; repeat split; fin. Qed.

(* ---------------------------------------------------------------------------------------------- *)
(* accrual                                                                                         *)

Lemma set_nth_length k : forall l, length (set_nth k l) = length l.
Proof. induction k; intros [|b l]; cbn; auto. Qed.

Lemma set_nth_oob k : forall l, (length l <= k)%nat -> set_nth k l = l.
Proof. induction k; intros [|b l] H; cbn in *; try reflexivity; try lia. rewrite IHk; auto; lia. Qed.

Lemma all_true_set_nth k : forall l, all_true l = true -> all_true (set_nth k l) = true.
Proof.
  unfold all_true. induction k; intros [|b l] H; cbn in *; auto.
  - apply andb_true_iff in H as [_ H]. exact H.
  - apply andb_true_iff in H as [H1 H2]. rewrite H1. cbn. apply IHk; exact H2.
Qed.

Lemma mark_length ks : forall l, length (mark ks l) = length l.
Proof. unfold mark. induction ks; intro l; cbn; auto. rewrite IHks. apply set_nth_length. Qed.

Lemma all_true_mark ks : forall l, all_true l = true -> all_true (mark ks l) = true.
Proof. unfold mark. induction ks; intros l H; cbn; auto. apply IHks. apply all_true_set_nth; exact H. Qed.

Lemma set_nth_comm a : forall b l, set_nth a (set_nth b l) = set_nth b (set_nth a l).
Proof. induction a; intros [|b'] [|x l']; cbn; try reflexivity. rewrite IHa. reflexivity. Qed.

Lemma mark_set_nth ks : forall k l, mark ks (set_nth k l) = set_nth k (mark ks l).
Proof.
  unfold mark. induction ks as [|a ks IH]; intros k l; cbn; [reflexivity|].
  rewrite (set_nth_comm a k). apply IH.
Qed.

Lemma mark_perm ks ks' : Permutation ks ks' -> forall l, mark ks l = mark ks' l.
Proof.
  induction 1; intro m.
  - reflexivity.
  - unfold mark in *. cbn. apply IHPermutation.
  - unfold mark. cbn. rewrite set_nth_comm. reflexivity.
  - rewrite IHPermutation1. apply IHPermutation2.
Qed.

Lemma mark_app a b l : mark (a ++ b) l = mark b (mark a l).
Proof. unfold mark. apply fold_left_app. Qed.

Lemma accrual_step_progress c t s k :
  ckind c = KAccrual -> enabled s = true -> all_true (set_nth k (steps s)) = false ->
  let r := step c t s (Hit k) in
  steps (fst r) = set_nth k (steps s) /\ enabled (fst r) = true /\ completed (fst r) = completed s /\
  count_ev is_complete_ev (snd r) = 0%nat.
Proof.
  intros K E A. destruct s as [en co v l ig tm wi]. rs. subst en.
  unfold step, do_accrual_hit. rewrite K. rs.
  destruct (Nat.ltb k (length l)) eqn:LT; rs.
  - destruct (nth k l false) eqn:N.
    + rewrite (set_nth_already k l N) in *. rs. rewrite A. rs. auto.
    + rs. rewrite A. rs. auto.
  - apply Nat.ltb_ge in LT. rewrite set_nth_oob by exact LT. auto.
Qed.

Lemma accrual_progress c tks : forall s,
  ckind c = KAccrual -> enabled s = true ->
  all_true (mark (map snd tks) (steps s)) = false ->
  let r := exec c s (hits_of tks) in
  steps (fst r) = mark (map snd tks) (steps s) /\ enabled (fst r) = true /\
  completed (fst r) = completed s /\ count_ev is_complete_ev (snd r) = 0%nat.
Proof.
  induction tks as [|[t k] tks IH]; intros s K E A.
  - cbn. auto.
  - cbn [map snd] in *. unfold hits_of in *. cbn [map fst snd]. rewrite exec_cons. cbn [fst snd].
    assert (A1 : all_true (set_nth k (steps s)) = false).
    { destruct (all_true (set_nth k (steps s))) eqn:X; [|reflexivity].
      unfold mark in A. cbn in A. fold (mark (map snd tks) (set_nth k (steps s))) in A.
      rewrite all_true_mark in A by exact X. discriminate. }
    destruct (accrual_step_progress c t s k K E A1) as (S1 & E1 & C1 & N1).
    specialize (IH (fst (step c t s (Hit k))) K E1).
    rewrite S1 in IH. unfold mark in A. cbn in A. specialize (IH A).
    destruct IH as (S2 & E2 & C2 & N2).
    rewrite S2, E2, C2, C1, count_ev_app, N1, N2. unfold mark. cbn. auto.
Qed.

Lemma accrual_any_order_l :
  forall c tks t k s,
    ckind c = KAccrual -> enabled s = true -> completed s = false ->
    all_true (mark (map snd tks) (steps s)) = false ->
    all_true (mark (map snd tks ++ [k]) (steps s)) = true ->
    let r := exec c s (hits_of tks) in
    steps (fst r) = mark (map snd tks) (steps s) /\
    count_ev is_complete_ev (snd r) = 0%nat /\
    count_ev is_complete_ev (snd (step c t (fst r) (Hit k))) = 1%nat.
Proof.
  intros c tks t k s K E C A B r.
  destruct (accrual_progress c tks s K E A) as (S1 & E1 & C1 & N1). fold r in S1, E1, C1, N1.
  split; [exact S1|]. split; [exact N1|].
  rewrite step_complete_events. unfold completes, goal_reached_by. rewrite K, C1, C, E1, S1. rs.
  rewrite mark_app in B. unfold mark at 1 in B. cbn [fold_left] in B. rewrite B.
  destruct (Nat.ltb k (length (mark (map snd tks) (steps s)))) eqn:LT; [reflexivity|].
  apply Nat.ltb_ge in LT. rewrite set_nth_oob in B by exact LT. congruence.
Qed.

(* which steps are set after marking, and when a fresh accrual is complete *)
Lemma nth_set_nth i k : forall l,
  nth i (set_nth k l) false = nth i l false || (Nat.eqb i k && Nat.ltb i (length l)).
Proof.
  revert i. induction k; intros [|i] [|b l]; cbn; rewrite ?orb_true_r, ?orb_false_r, ?andb_false_r;
    try reflexivity.
  apply IHk.
Qed.

Lemma nth_mark ks : forall i l,
  nth i (mark ks l) false = nth i l false || (existsb (Nat.eqb i) ks && Nat.ltb i (length l)).
Proof.
  unfold mark. induction ks as [|k ks IH]; intros i l; cbn [fold_left existsb].
  - cbn. rewrite orb_false_r. reflexivity.
  - rewrite IH, nth_set_nth, set_nth_length.
    destruct (nth i l false), (Nat.eqb i k), (existsb (Nat.eqb i) ks), (Nat.ltb i (length l)); reflexivity.
Qed.

Lemma all_true_nth : forall l, all_true l = true <-> (forall i, (i < length l)%nat -> nth i l false = true).
Proof.
  unfold all_true. induction l as [|b l IH]; cbn; split; intros H.
  - intros i Hi; lia.
  - reflexivity.
  - apply andb_true_iff in H as [H1 H2]. intros [|i] Hi; [exact H1|]. apply IH; [exact H2|lia].
  - apply andb_true_iff. split; [apply (H 0%nat); lia|]. apply IH. intros i Hi. apply (H (S i)). lia.
Qed.

Lemma nth_repeat_false i n : nth i (repeat false n) false = false.
Proof. revert i. induction n; intros [|i]; cbn; auto. Qed.

Lemma accrual_complete_iff_all_steps_l n ks :
  all_true (mark ks (repeat false n)) = true <-> (forall i, (i < n)%nat -> In i ks).
Proof.
  rewrite all_true_nth, mark_length, repeat_length. split; intros H i Hi; specialize (H i Hi).
  - rewrite nth_mark, nth_repeat_false, repeat_length in H. cbn in H.
    apply andb_true_iff in H as [H _]. apply existsb_exists in H as (x & Hx & E).
    apply Nat.eqb_eq in E. subst. exact Hx.
  - rewrite nth_mark, nth_repeat_false, repeat_length. cbn. apply andb_true_iff. split.
    + apply existsb_exists. exists i. split; [exact H|apply Nat.eqb_refl].
    + apply Nat.ltb_lt. exact Hi.
Qed.

(* ---------------------------------------------------------------------------------------------- *)
(* sequence                                                                                        *)

Lemma seq_adv_ge ks : forall v, v <= seq_adv v ks.
Proof.
  unfold seq_adv. induction ks as [|k ks IH]; intro v; cbn [fold_left]; [lia|].
  destruct (Z.of_nat k =? v); [specialize (IH (v + 1)); lia|apply IH].
Qed.

Lemma sequence_wrong_step_noop_l c t s k :
  ckind c = KSequence -> Z.of_nat k <> value s -> step c t s (Hit k) = (s, []).
Proof.
  intros K N. unfold step, do_sequence_hit. rewrite K. destruct (enabled s); [|reflexivity].
  apply Z.eqb_neq in N. rewrite N. reflexivity.
Qed.

Lemma sequence_step c t s k :
  ckind c = KSequence -> enabled s = true ->
  (if Z.of_nat k =? value s then value s + 1 else value s) < Z.of_nat (nsteps c) ->
  let r := step c t s (Hit k) in
  value (fst r) = (if Z.of_nat k =? value s then value s + 1 else value s) /\
  enabled (fst r) = true /\ completed (fst r) = completed s /\
  count_ev is_complete_ev (snd r) = 0%nat.
Proof.
  intros K E L. destruct s as [en co v l ig tm wi]. rs. subst en.
  unfold step, do_sequence_hit. rewrite K. rs.
  destruct (Z.of_nat k =? v) eqn:M; rs; [|auto].
  destruct (Z.of_nat (nsteps c) <=? v + 1) eqn:G; [apply Z.leb_le in G; lia|]. rs. auto.
Qed.

Lemma sequence_progress c tks : forall s,
  ckind c = KSequence -> enabled s = true ->
  seq_adv (value s) (map snd tks) < Z.of_nat (nsteps c) ->
  let r := exec c s (hits_of tks) in
  value (fst r) = seq_adv (value s) (map snd tks) /\ enabled (fst r) = true /\
  completed (fst r) = completed s /\ count_ev is_complete_ev (snd r) = 0%nat.
Proof.
  induction tks as [|[t k] tks IH]; intros s K E L.
  - cbn. auto.
  - unfold hits_of in *. cbn [map fst snd] in *. rewrite exec_cons. cbn [fst snd].
    unfold seq_adv in L. cbn [fold_left] in L.
    fold (seq_adv (if Z.of_nat k =? value s then value s + 1 else value s) (map snd tks)) in L.
    pose proof (seq_adv_ge (map snd tks) (if Z.of_nat k =? value s then value s + 1 else value s)) as GE.
    destruct (sequence_step c t s k K E ltac:(lia)) as (V1 & E1 & C1 & N1).
    specialize (IH (fst (step c t s (Hit k))) K E1). rewrite V1 in IH. specialize (IH L).
    destruct IH as (V2 & E2 & C2 & N2).
    rewrite V2, E2, C2, C1, count_ev_app, N1, N2. unfold seq_adv. cbn [fold_left]. auto.
Qed.

Lemma sequence_strict_order_l :
  forall c tks t k s,
    ckind c = KSequence -> enabled s = true -> completed s = false ->
    seq_adv (value s) (map snd tks) < Z.of_nat (nsteps c) ->
    let r := exec c s (hits_of tks) in
    value (fst r) = seq_adv (value s) (map snd tks) /\
    count_ev is_complete_ev (snd r) = 0%nat /\
    (Z.of_nat k = value (fst r) -> Z.of_nat (nsteps c) <= value (fst r) + 1 ->
     count_ev is_complete_ev (snd (step c t (fst r) (Hit k))) = 1%nat) /\
    (Z.of_nat k <> value (fst r) -> step c t (fst r) (Hit k) = (fst r, [])).
Proof.
  intros c tks t k s K E C L r.
  destruct (sequence_progress c tks s K E L) as (V1 & E1 & C1 & N1). fold r in V1, E1, C1, N1.
  split; [exact V1|]. split; [exact N1|]. split.
  - intros M G. rewrite step_complete_events. unfold completes, goal_reached_by, accepted.
    rewrite K, C1, C, E1. apply Z.eqb_eq in M. rewrite M. apply Z.leb_le in G. rewrite G. reflexivity.
  - intro N. apply sequence_wrong_step_noop_l; assumption.
Qed.

(* ---------------------------------------------------------------------------------------------- *)
(* hit window                                                                                      *)

Definition winv (s : st) : Prop := ignore s = isSome (win s).

Definition opens_window (c : cfg) (s : st) (o : op) : bool :=
  match o with Count => accepted c s o && (0 <? window c) | _ => false end.

Lemma window_step_l c t s o :
  let s' := fst (step c t s o) in
  (win s' = if opens_window c s o then Some (t + window c)
            else match o with FireWindow => None | _ => win s end) /\
  (ignore s' = if opens_window c s o then true
               else match o with FireWindow => false | _ => ignore s end).
Proof.
  unfold opens_window.
  destruct (ckind c) eqn:K; cases_st s c; destruct o; unf; rewrite ?K; split_ifs; fin.
Qed.

Lemma winv_step c t s o : winv s -> winv (fst (step c t s o)).
Proof.
  unfold winv. intro W. destruct (window_step_l c t s o) as [W1 W2]. rewrite W1, W2.
  destruct (opens_window c s o); [reflexivity|]. destruct o; auto.
Qed.

Lemma winv_init c : winv (init c).
Proof. unfold winv, init. destruct (boot_enabled c); unf; split_ifs; fin. Qed.

Lemma window_invariant_l c h : winv (fst (exec c (init c) h)).
Proof.
  generalize (winv_init c). generalize (init c).
  induction h as [|[t o] h IH]; intros s W; [exact W|].
  rewrite exec_cons. cbn [fst]. apply IH. apply winv_step. exact W.
Qed.

(* ---------------------------------------------------------------------------------------------- *)
(* the timed run is an execution of a history: the groups' operations plus delay expiries          *)

Lemma apply_ops_exec c t ops : forall s, apply_ops c t s ops = exec c s (map (pair t) ops).
Proof.
  induction ops as [|o ops IH]; intro s; [reflexivity|].
  cbn [apply_ops map exec]. destruct (step c t s o) as [s1 e1]. rewrite IH. reflexivity.
Qed.

Lemma next_due_sound s t d o :
  next_due s t = Some (d, o) ->
  d <= t /\ ((o = FireWindow /\ win s = Some d) \/ (o = FireTimeout /\ tmo s = Some d)).
Proof.
  unfold next_due. destruct (win s) as [w|], (tmo s) as [m|];
    repeat match goal with |- context [if ?b then _ else _] => destruct b eqn:? end;
    intro H; inversion H; subst; split;
    try (apply Z.leb_le; assumption); auto.
Qed.

Definition expiry_ok (t : Z) (to : Z * op) : Prop :=
  fst to <= t /\ (snd to = FireTimeout \/ snd to = FireWindow).

Lemma advance_exec fuel c t : forall s,
  exists h, fst (advance fuel c t s) = fst (exec c s h) /\
            map snd (snd (advance fuel c t s)) = snd (exec c s h) /\
            Forall (expiry_ok t) h.
Proof.
  induction fuel as [|f IH]; intro s.
  - exists []. cbn. auto.
  - cbn [advance]. destruct (next_due s t) as [[d o]|] eqn:N.
    + destruct (next_due_sound s t d o N) as [D O].
      destruct (IH (fst (step c d s o))) as (h & H1 & H2 & H3).
      exists ((d, o) :: h). rewrite exec_cons.
      destruct (step c d s o) as [s1 e1]. cbn [fst snd] in *.
      destruct (advance f c t s1) as [s2 e2]. cbn [fst snd] in *.
      split; [exact H1|]. split.
      * rewrite map_app, map_map. cbn [snd]. rewrite map_id, H2. reflexivity.
      * constructor; [|exact H3]. split; [exact D|]. cbn. destruct O as [[-> _]|[-> _]]; auto.
    + exists []. cbn. auto.
Qed.

Lemma events_of_app a b : events_of (a ++ b) = events_of a ++ events_of b.
Proof. induction a as [|[t e|] a IH]; cbn; [reflexivity| |]; rewrite IH; reflexivity. Qed.

Lemma events_of_stamped (l : list (Z * ev)) :
  events_of (map (fun te => OEv (fst te) (snd te)) l) = map snd l.
Proof. induction l as [|[t e] l IH]; cbn; [reflexivity|]. rewrite IH. reflexivity. Qed.

Lemma events_of_at t l : events_of (map (OEv t) l) = l.
Proof. induction l as [|e l IH]; cbn; [reflexivity|]. rewrite IH. reflexivity. Qed.

Lemma timed_run_refines_exec_l c groups : forall now s,
  exists h, fst (trun_aux c now s groups) = fst (exec c s h) /\
            events_of (snd (trun_aux c now s groups)) = snd (exec c s h).
Proof.
  induction groups as [|[t ops] g IH]; intros now s.
  - exists []. cbn. auto.
  - cbn [trun_aux].
    destruct (advance_exec (fuel_for now t) c t s) as (h1 & A1 & A2 & _).
    destruct (advance (fuel_for now t) c t s) as [s1 e1]. cbn [fst snd] in *.
    rewrite apply_ops_exec.
    destruct (exec c s1 (map (pair t) ops)) as [s2 e2] eqn:X2.
    destruct (IH t s2) as (h3 & B1 & B2).
    destruct (trun_aux c t s2 g) as [s3 o3]. cbn [fst snd] in *.
    exists (h1 ++ map (pair t) ops ++ h3).
    rewrite !exec_app. cbn [fst snd]. rewrite <- A1, X2. cbn [fst snd]. rewrite <- A2.
    split; [exact B1|].
    rewrite !events_of_app, events_of_stamped, events_of_at. cbn [events_of]. rewrite B2.
    reflexivity.
Qed.

(* ---------------------------------------------------------------------------------------------- *)
(* the hypotheses of the theorems are satisfiable on non-trivial states                            *)

(* counter: up by 2 from 5, goal 11, 250 ms window, stays enabled and un-reset on completion *)
Definition ex_counter : cfg := mkCfg KCounter 0 false 2 5 (Some 11) false false 250 0 true.
Definition ex_counter_hist : list (Z * op) :=
  [(2000, Count); (2125, Count) (* inside the window *); (2250, FireWindow); (2250, Disable);
   (2375, Count) (* disabled *); (2500, Enable); (2500, Count)].

Example counter_value_formula_ex :
  ckind ex_counter = KCounter /\ no_control ex_counter_hist = true /\
  value (fst (exec ex_counter (init ex_counter) ex_counter_hist)) = 9 /\
  ghost ex_counter (init ex_counter) ex_counter_hist (start ex_counter, 0) = (5, 2) /\
  n_accepted ex_counter (init ex_counter) ex_counter_hist = 2%nat /\
  count_ev is_hit_ev (snd (exec ex_counter (init ex_counter) ex_counter_hist)) = 2%nat.
Proof. vm_compute. repeat split; reflexivity. Qed.

(* with control events: add 3, then a jump; the formula follows base and n *)
Example counter_value_formula_control_ex :
  let h := ex_counter_hist ++ [(2750, FireWindow); (2750, Add 3); (2875, Count); (3000, Jump 1);
                               (3250, FireWindow); (3250, Count)] in
  value (fst (exec ex_counter (init ex_counter) h)) = 3 /\
  ghost ex_counter (init ex_counter) h (start ex_counter, 0) = (1, 1).
Proof. vm_compute. split; reflexivity. Qed.

(* complete once: five accepted hits run past the goal 11, one completion event *)
Definition ex_complete_hist : list (Z * op) :=
  [(2000, Count); (2250, FireWindow); (2250, Count); (2500, FireWindow); (2500, Count);
   (2750, FireWindow); (2750, Count); (3000, FireWindow); (3000, Count); (3000, Disable); (3125, Enable)].

Example complete_once_ex :
  roc ex_counter = false /\
  forallb (fun to => negb (is_reset_op (snd to))) ex_complete_hist = true /\
  value (fst (exec ex_counter (init ex_counter) ex_complete_hist)) = 15 /\
  count_ev is_complete_ev (snd (exec ex_counter (init ex_counter) ex_complete_hist)) = 1%nat.
Proof. vm_compute. repeat split; reflexivity. Qed.

Example goal_transition_completes_ex :
  let h := [(2000, Count); (2250, FireWindow); (2250, Count); (2500, FireWindow)] in
  let s := fst (exec ex_counter (init ex_counter) h) in
  no_control h = true /\ accepted ex_counter s Count = true /\
  reached ex_counter (value s) = false /\ reached ex_counter (value s + hit_value ex_counter) = true /\
  completes ex_counter s Count = true.
Proof. vm_compute. repeat split; reflexivity. Qed.

(* completion with reset and disable: the state after the completing step *)
Definition ex_counter_rd : cfg := mkCfg KCounter 0 true 1 3 (Some 1) true true 0 1000 true.
Example step_completes_state_ex :
  let s := fst (exec ex_counter_rd (init ex_counter_rd) [(2000, Count)]) in
  completes ex_counter_rd s Count = true /\
  snd (step ex_counter_rd 2125 s Count) =
    [EUpdated 1 [] true; ELegacyHit 1 (Some (2, 0)); EHit 1 (Some (2, 0)); EComplete;
     EUpdated 3 [] true; EUpdated 3 [] false].
Proof. vm_compute. split; reflexivity. Qed.

Definition ex_accrual : cfg := mkCfg KAccrual 3 false 1 0 None true false 0 0 true.
Example accrual_any_order_ex :
  let s := init ex_accrual in
  let tks := [(2000, 2%nat); (2125, 0%nat); (2250, 2%nat)] in
  enabled s = true /\ completed s = false /\
  all_true (mark (map snd tks) (steps s)) = false /\
  all_true (mark (map snd tks ++ [1%nat]) (steps s)) = true /\
  steps (fst (exec ex_accrual s (hits_of tks))) = [true; false; true].
Proof. vm_compute. repeat split; reflexivity. Qed.

Definition ex_sequence : cfg := mkCfg KSequence 3 false 1 0 None true true 0 0 true.
Example sequence_strict_order_ex :
  let s := init ex_sequence in
  let tks := [(2000, 1%nat); (2125, 0%nat); (2250, 2%nat); (2375, 1%nat); (2500, 0%nat)] in
  enabled s = true /\ completed s = false /\
  seq_adv (value s) (map snd tks) = 2 /\ 2 < Z.of_nat (nsteps ex_sequence) /\
  Z.of_nat (nsteps ex_sequence) <= 2 + 1 /\
  snd (step ex_sequence 2625 (fst (exec ex_sequence s (hits_of tks))) (Hit 2)) =
    [EUpdated 3 [] true; EHit 3 None; EComplete; EUpdated 0 [] true; EUpdated 0 [] false].
Proof. vm_compute. repeat split; try reflexivity; intro; discriminate. Qed.

Example window_invariant_ex :
  let s := fst (exec ex_counter (init ex_counter) [(2000, Count)]) in
  ignore s = true /\ win s = Some 2250 /\ accepted ex_counter s Count = false /\
  step ex_counter 2125 s Count = (s, []).
Proof. vm_compute. repeat split; reflexivity. Qed.

(* timed run: the window expiry at 2250 and the periodic timeout are inserted by the run itself *)
Definition ex_timed : cfg := mkCfg KCounter 0 false 1 0 (Some 3) false false 250 1000 true.
Example timed_run_ex :
  run (ex_timed, [(2000, [Count]); (2125, [Count]); (2250, [Count]); (3000, [])]) =
  [OEv 1000 ETimeout; OEv 1000 (EUpdated 0 [] true); OEv 2000 ETimeout; OEv 2000 (EUpdated 0 [] true);
   OEv 2000 (EUpdated 1 [] true); OEv 2000 (ELegacyHit 1 (Some (1, 2))); OEv 2000 (EHit 1 (Some (1, 2)));
   OSnap 2000 1 [] true false true true true;
   OSnap 2125 1 [] true false true true true;
   OEv 2250 (EUpdated 2 [] true); OEv 2250 (ELegacyHit 2 (Some (2, 1))); OEv 2250 (EHit 2 (Some (2, 1)));
   OSnap 2250 2 [] true false true true true;
   OEv 3000 ETimeout; OEv 3000 (EUpdated 0 [] true);
   OSnap 3000 0 [] true false false true false].
Proof. vm_compute. reflexivity. Qed.
