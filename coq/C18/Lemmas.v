From Common Require Import Prelude.
From C18 Require Import Model.
