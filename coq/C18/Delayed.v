(* C18/Delayed.v — control events configured with a delay (`count_events: {ev: 500ms}`, the same for
   enable/disable/reset/restart_events) of machine-level blocks.

   mpf/core/device_manager.py: create_machinewide_device_control_events registers, for an event with a
   delay, the handler _control_event_handler(callback=method, ms_delay=delay, delay_mgr=machine.delay), which
   calls delay_mgr.add(ms, callback) WITHOUT a name: DelayManager.add draws a fresh uuid, so every posted
   occurrence becomes its own pending delay and is delivered (the device method is called) at post time +
   delay; nothing replaces anything.  An event without delay calls the method directly.

   A post is (instant, delay, operations run by the delivery).  [dgroups] turns the posts (in posting order)
   into the operation groups of the timed run [Model.trun]: a delivery is inserted after every group that is
   due no later (stable), a delayed post leaves an empty group at its posting instant (the harness takes a
   state snapshot there: the post itself must not change anything).  Definitions and proofs. *)
From Common Require Import Prelude.
From Coq Require Import Permutation Sorted.
From C18 Require Import Model Lemmas.
Open Scope Z_scope.

Definition post := (Z * Z * list op)%type.
Definition group := (Z * list op)%type.

Fixpoint insert (d : Z) (ops : list op) (g : list group) : list group :=
  match g with
  | [] => [(d, ops)]
  | x :: r => if fst x <=? d then x :: insert d ops r else (d, ops) :: g
  end.

(* what one post contributes *)
Definition post_groups (p : post) : list group :=
  let '(t, d, ops) := p in
  if d =? 0 then [(t, ops)] else [(t, []); (t + d, ops)].

Definition add_post (g : list group) (p : post) : list group :=
  fold_left (fun g x => insert (fst x) (snd x) g) (post_groups p) g.

Definition dgroups (ps : list post) : list group := fold_left add_post ps [].

Definition run_delayed (i : cfg * list post) : list obs :=
  trun (fst i) 0 (init (fst i)) (dgroups (snd i)).

(* ---------------------------------------------------------------------------------------------- *)
(* every post is delivered exactly once, at post time + delay                                       *)

Lemma insert_perm d ops g : Permutation (insert d ops g) ((d, ops) :: g).
Proof.
  induction g as [|x r IH]; cbn [insert]; [reflexivity|].
  destruct (fst x <=? d); [|reflexivity].
  rewrite IH. apply perm_swap.
Qed.

Lemma fold_insert_perm l : forall g,
  Permutation (fold_left (fun g x => insert (fst x) (snd x) g) l g) (l ++ g).
Proof.
  induction l as [|x l IH]; intro g; cbn [fold_left List.app]; [reflexivity|].
  rewrite IH. rewrite insert_perm. destruct x as [d ops]. cbn [fst snd].
  symmetry. apply Permutation_middle.
Qed.

Lemma dgroups_perm_gen ps : forall g,
  Permutation (fold_left add_post ps g) (flat_map post_groups ps ++ g).
Proof.
  induction ps as [|p ps IH]; intro g; cbn [fold_left flat_map List.app]; [reflexivity|].
  rewrite IH. unfold add_post. rewrite fold_insert_perm.
  rewrite <- List.app_assoc. rewrite Permutation_app_swap_app. reflexivity.
Qed.

Lemma dgroups_perm ps : Permutation (dgroups ps) (flat_map post_groups ps).
Proof. unfold dgroups. rewrite dgroups_perm_gen. rewrite List.app_nil_r. reflexivity. Qed.

(* ... in the order of their due instants *)
Definition gle (a b : group) : Prop := fst a <= fst b.

Lemma insert_hd_le d ops g y :
  Forall (gle y) g -> fst y <= d -> Forall (gle y) (insert d ops g).
Proof.
  intros H Hy. induction g as [|x r IH]; cbn [insert].
  - constructor; [exact Hy | constructor].
  - inversion H; subst. destruct (fst x <=? d).
    + constructor; [assumption | apply IH; assumption].
    + constructor; [exact Hy | constructor; assumption].
Qed.

Lemma insert_sorted d ops g : StronglySorted gle g -> StronglySorted gle (insert d ops g).
Proof.
  induction 1 as [|x r Hs IH Hx]; cbn [insert].
  - constructor; constructor.
  - destruct (fst x <=? d) eqn:E.
    + apply Z.leb_le in E. constructor; [exact IH | apply insert_hd_le; assumption].
    + apply Z.leb_gt in E. constructor.
      * constructor; assumption.
      * constructor; [unfold gle; cbn [fst]; lia|].
        eapply Forall_impl; [|exact Hx]. intros a Ha. unfold gle in *. cbn [fst]. lia.
Qed.

Lemma fold_insert_sorted l : forall g, StronglySorted gle g ->
  StronglySorted gle (fold_left (fun g x => insert (fst x) (snd x) g) l g).
Proof. induction l as [|x l IH]; intros g H; cbn [fold_left]; [exact H | apply IH, insert_sorted, H]. Qed.

Lemma dgroups_sorted_gen ps : forall g, StronglySorted gle g -> StronglySorted gle (fold_left add_post ps g).
Proof.
  induction ps as [|p ps IH]; intros g H; cbn [fold_left]; [exact H|].
  apply IH. unfold add_post. apply fold_insert_sorted, H.
Qed.

Lemma dgroups_sorted ps : StronglySorted gle (dgroups ps).
Proof. apply dgroups_sorted_gen. constructor. Qed.

(* ... and a delivery never overtakes a group that is due no later: it is placed after all of them
   (order of posting preserved among equal instants; a delivery due at t runs before an undelayed post
   made at t because that post is processed later) *)
Lemma insert_spec d ops g : StronglySorted gle g ->
  insert d ops g = filter (fun x => fst x <=? d) g ++ (d, ops) :: filter (fun x => negb (fst x <=? d)) g.
Proof.
  induction 1 as [|x r Hs IH Hx]; cbn [insert filter List.app]; [reflexivity|].
  destruct (fst x <=? d) eqn:E; cbn [negb List.app].
  - rewrite IH. reflexivity.
  - apply Z.leb_gt in E.
    assert (Hall : forall y, In y r -> (fst y <=? d) = false).
    { intros y Hy. rewrite Forall_forall in Hx. specialize (Hx y Hy). unfold gle in Hx. apply Z.leb_gt. lia. }
    assert (F1 : filter (fun x => fst x <=? d) r = []).
    { clear -Hall. induction r as [|y r IH]; cbn [filter]; [reflexivity|].
      rewrite (Hall y (or_introl eq_refl)). apply IH. intros z Hz. apply Hall. right. exact Hz. }
    assert (F2 : filter (fun x => negb (fst x <=? d)) r = r).
    { clear -Hall. induction r as [|y r IH]; cbn [filter]; [reflexivity|].
      rewrite (Hall y (or_introl eq_refl)). cbn [negb]. f_equal. apply IH. intros z Hz. apply Hall. right. exact Hz. }
    rewrite F1, F2. reflexivity.
Qed.

(* ---------------------------------------------------------------------------------------------- *)
(* number of delivered operations of one sort = number posted                                        *)

Definition is_count (o : op) : bool := match o with Count => true | _ => false end.
Definition n_ops (p : op -> bool) (g : list group) : nat := length (filter p (concat (map snd g))).

Lemma n_ops_perm p g g' : Permutation g g' -> n_ops p g = n_ops p g'.
Proof.
  unfold n_ops. induction 1 as [|x l l' H IH|x y l|l l' l'' H1 IH1 H2 IH2]; cbn [map concat].
  - reflexivity.
  - rewrite !filter_app, !app_length. rewrite IH. reflexivity.
  - rewrite !filter_app, !app_length. lia.
  - congruence.
Qed.

Definition posted (p : op -> bool) (ps : list post) : nat :=
  length (filter p (concat (map (fun x : post => snd x) ps))).

Lemma n_ops_post_groups p (x : post) g :
  n_ops p (post_groups x ++ g) = (length (filter p (snd x)) + n_ops p g)%nat.
Proof.
  destruct x as [[t d] ops]. unfold post_groups, n_ops. cbn [snd]. destruct (d =? 0); cbn [List.app map concat snd];
    rewrite ?filter_app, ?app_length; cbn [filter length]; lia.
Qed.

Lemma delivered_count_l p ps : n_ops p (dgroups ps) = posted p ps.
Proof.
  rewrite (n_ops_perm p _ _ (dgroups_perm ps)). unfold posted.
  induction ps as [|x ps IH]; cbn [flat_map map concat]; [reflexivity|].
  rewrite n_ops_post_groups. rewrite filter_app, app_length. rewrite IH. reflexivity.
Qed.

(* ---------------------------------------------------------------------------------------------- *)
(* end to end: an always-enabled counter without window, timeout and goal counts EVERY posted hit,
   whatever the delays and however close together the posts are                                      *)

Definition plain_counter (c : cfg) : Prop :=
  ckind c = KCounter /\ window c = 0 /\ timeout c = 0 /\ goal c = None /\ boot_enabled c = true.

Definition quiet (s : st) : Prop :=
  enabled s = true /\ ignore s = false /\ tmo s = None /\ win s = None.

Definition only_counts (g : list group) : Prop := Forall (fun x => Forall (fun o => o = Count) (snd x)) g.

Lemma advance_quiet fuel c t s : quiet s -> advance fuel c t s = (s, []).
Proof.
  intros (_ & _ & Ht & Hw). destruct fuel; cbn [advance]; [reflexivity|].
  unfold next_due. rewrite Ht, Hw. reflexivity.
Qed.

Lemma count_quiet c t s : plain_counter c -> quiet s ->
  quiet (fst (step c t s Count)) /\ value (fst (step c t s Count)) = value s + hit_value c /\
  count_ev is_hit_ev (snd (step c t s Count)) = 1%nat.
Proof.
  intros (Hk & Hw & Ht & Hg & _) (He & Hi & Htm & Hwi).
  unfold step. rewrite Hk. unfold do_count. rewrite He, Hi. cbn [negb].
  unfold reached. rewrite Hg. rewrite Hw. cbn [Z.ltb Z.compare].
  destruct s; cbn in *; subst. unfold quiet, count_ev. cbn. repeat split; reflexivity.
Qed.

Lemma apply_counts_quiet c t ops : plain_counter c -> Forall (fun o => o = Count) ops -> forall s, quiet s ->
  quiet (fst (apply_ops c t s ops)) /\
  value (fst (apply_ops c t s ops)) = value s + hit_value c * Z.of_nat (length ops) /\
  count_ev is_hit_ev (snd (apply_ops c t s ops)) = length ops.
Proof.
  intros Hc. induction 1 as [|o ops Ho Hf IH]; intros s Hq; cbn [apply_ops length].
  - cbn [fst snd]. repeat split; try apply Hq. lia.
  - subst o. destruct (count_quiet c t s Hc Hq) as (Hq1 & Hv1 & He1).
    destruct (step c t s Count) as [s1 e1]. cbn [fst snd] in *.
    specialize (IH s1 Hq1). destruct (apply_ops c t s1 ops) as [s2 e2]. cbn [fst snd] in *.
    destruct IH as (Hq2 & Hv2 & He2). repeat split; try apply Hq2.
    + rewrite Hv2, Hv1. lia.
    + rewrite count_ev_app. rewrite He1, He2. reflexivity.
Qed.

Lemma trun_counts c : plain_counter c -> forall groups, only_counts groups -> forall now s, quiet s ->
  value (fst (trun_aux c now s groups)) = value s + hit_value c * Z.of_nat (n_ops is_count groups) /\
  count_ev is_hit_ev (events_of (snd (trun_aux c now s groups))) = n_ops is_count groups.
Proof.
  intros Hc. induction 1 as [|[t ops] g Hx Hf IH]; intros now s Hq; cbn [trun_aux].
  - cbn [fst snd events_of]. unfold n_ops. cbn. split; [lia | reflexivity].
  - rewrite (advance_quiet _ c t s Hq). cbn [snd] in Hx.
    destruct (apply_counts_quiet c t ops Hc Hx s Hq) as (Hq2 & Hv2 & He2).
    destruct (apply_ops c t s ops) as [s2 e2]. cbn [fst snd] in *.
    specialize (IH t s2 Hq2). destruct (trun_aux c t s2 g) as [s3 o3]. cbn [fst snd] in *.
    destruct IH as (Hv3 & He3).
    assert (Hn : n_ops is_count ((t, ops) :: g) = (length ops + n_ops is_count g)%nat).
    { unfold n_ops. cbn [map concat snd]. rewrite filter_app, app_length. f_equal.
      clear -Hx. induction Hx as [|o l Ho Hl IHl]; cbn [filter length]; [reflexivity|]. subst o. cbn [is_count length]. congruence. }
    rewrite Hn. split.
    + rewrite Hv3, Hv2. lia.
    + cbn [map List.app]. rewrite events_of_app. cbn [events_of]. rewrite events_of_at.
      unfold count_ev in *. rewrite filter_app, app_length. rewrite He2. f_equal. exact He3.
Qed.

Lemma init_quiet c : plain_counter c -> quiet (init c) /\ value (init c) = start c.
Proof.
  intros (Hk & Hw & Ht & Hg & Hb). unfold init. rewrite Hb. unfold do_enable, timer_start, start_value. rewrite Hk, Ht.
  cbn. unfold quiet. cbn. repeat split; reflexivity.
Qed.

Definition count_posts (ps : list post) : Prop := Forall (fun x : post => snd x = [Count]) ps.

Lemma only_counts_perm g g' : Permutation g g' -> only_counts g' -> only_counts g.
Proof. intros P H. unfold only_counts in *. rewrite Forall_forall in *. intros x Hx. apply H. eapply Permutation_in; eauto. Qed.

Lemma delayed_counter_counts_every_post_l c ps :
  plain_counter c -> count_posts ps ->
  let r := trun_aux c 0 (init c) (dgroups ps) in
  value (fst r) = start c + hit_value c * Z.of_nat (length ps) /\
  count_ev is_hit_ev (events_of (snd r)) = length ps.
Proof.
  intros Hc Hp r. subst r.
  destruct (init_quiet c Hc) as (Hq & Hv).
  assert (Ho : only_counts (dgroups ps)).
  { eapply only_counts_perm; [apply dgroups_perm|]. unfold only_counts. apply Forall_forall. intros x Hx.
    apply in_flat_map in Hx as (p & Hp1 & Hp2). unfold count_posts in Hp. rewrite Forall_forall in Hp.
    specialize (Hp p Hp1). destruct p as [[t d] ops]. cbn [snd] in Hp. subst ops. unfold post_groups in Hp2.
    destruct (d =? 0); cbn in Hp2; intuition; subst; cbn [snd]; repeat constructor. }
  destruct (trun_counts c Hc (dgroups ps) Ho 0 (init c) Hq) as (H1 & H2).
  assert (Hn : n_ops is_count (dgroups ps) = length ps).
  { rewrite delivered_count_l. unfold posted. clear -Hp. induction Hp as [|x l Hx Hl IH]; cbn [map concat]; [reflexivity|].
    rewrite Hx. cbn [List.app filter is_count length]. congruence. }
  rewrite Hn in *. rewrite Hv in H1. split; assumption.
Qed.

(* the delayed run is a timed run, hence an execution of a history: every theorem over histories applies *)
Lemma delayed_run_refines_exec_l c ps :
  exists h, fst (trun_aux c 0 (init c) (dgroups ps)) = fst (exec c (init c) h) /\
            events_of (snd (trun_aux c 0 (init c) (dgroups ps))) = snd (exec c (init c) h).
Proof. apply timed_run_refines_exec_l. Qed.

(* ---------------------------------------------------------------------------------------------- *)
(* examples *)

Definition ex_plain : cfg := mkCfg KCounter 0 false 1 0 None true true 0 0 true.
(* two delayed hits 250 ms apart with a 500 ms delay, and an undelayed one in between *)
Definition ex_posts : list post := [(2000, 500, [Count]); (2125, 0, [Count]); (2250, 500, [Count])].

Example dgroups_ex :
  dgroups ex_posts = [(2000, []); (2125, [Count]); (2250, []); (2500, [Count]); (2750, [Count])].
Proof. vm_compute. reflexivity. Qed.

Example delayed_counter_counts_every_post_ex :
  plain_counter ex_plain /\ count_posts ex_posts /\
  value (fst (trun_aux ex_plain 0 (init ex_plain) (dgroups ex_posts))) = 3.
Proof. split; [|split]; [unfold plain_counter; cbn; auto | repeat constructor | vm_compute; reflexivity]. Qed.

(* a delivery due at the instant of an undelayed post runs first; equal due instants keep posting order *)
Example delivery_order_ex :
  dgroups [(2000, 250, [Enable]); (2125, 125, [Reset]); (2250, 0, [Count])]
  = [(2000, []); (2125, []); (2250, [Enable]); (2250, [Reset]); (2250, [Count])].
Proof. vm_compute. reflexivity. Qed.

Example insert_spec_ex :
  StronglySorted gle [(1, [Count]); (3, [])] /\ insert 3 [Reset] [(1, [Count]); (3, [])] = [(1, [Count]); (3, []); (3, [Reset])].
Proof. split; [repeat constructor; unfold gle; cbn; lia | reflexivity]. Qed.
