(* C18/Extra.v — further lemmas about the machine-level model: the value formula spelled out per direction and for
   interval 0, the hit window at its boundary in the timed run, one event bound to two consecutive steps. *)
From Common Require Import Prelude.
From C18 Require Import Model Lemmas.
Open Scope Z_scope.

(* ---- direction / interval -------------------------------------------------------------------- *)
Lemma hit_value_direction_l c :
  hit_value c = (if down c then - Z.abs (interval c) else Z.abs (interval c)) /\
  (down c = true -> hit_value c <= 0) /\ (down c = false -> 0 <= hit_value c) /\
  hit_value (mkCfg (ckind c) (nsteps c) (down c) (- interval c) (start c) (goal c) (roc c) (doc c) (window c)
                   (timeout c) (boot_enabled c)) = hit_value c.
Proof.
  unfold hit_value. cbn [down interval]. rewrite Z.abs_opp. destruct (down c); repeat split; try discriminate; lia.
Qed.

Lemma counter_value_by_direction_l c h :
  ckind c = KCounter -> no_control h = true ->
  let s := fst (exec c (init c) h) in
  let n := snd (ghost c (init c) h (start c, 0)) in
  0 <= n /\
  (down c = false -> value s = start c + Z.abs (interval c) * n) /\
  (down c = true -> value s = start c - Z.abs (interval c) * n) /\
  (interval c = 0 -> value s = start c).
Proof.
  intros K NC s n. destruct (counter_value_formula_l c h K) as (_ & N & F). specialize (F NC).
  fold s in F. fold n in F, N. unfold hit_value in F. split; [exact N|]. repeat split; intro D; rewrite D in F.
  - exact F.
  - lia.
  - rewrite F. cbn. destruct (down c); cbn; lia.
Qed.

(* ---- the hit window at its boundary ----------------------------------------------------------- *)
Lemma fuel_pos now t : exists f, fuel_for now t = S f.
Proof. unfold fuel_for. exists (2 * Z.to_nat ((t - now) / grid) + 3)%nat. lia. Qed.

(* a hit posted exactly when the window ends is counted: the window's delay is due at that instant and fires
   first; any earlier hit is ignored *)
Lemma window_boundary_l c now s w t :
  ckind c = KCounter -> enabled s = true -> ignore s = true -> win s = Some w -> tmo s = None ->
  count_ev is_hit_ev (events_of (snd (trun_aux c now s [(t, [Count])]))) = if w <=? t then 1%nat else 0%nat.
Proof.
  intros K E I W T. cbn [trun_aux]. destruct (fuel_pos now t) as [f F]. rewrite F. cbn [advance].
  unfold next_due. rewrite W, T. destruct (w <=? t) eqn:L.
  - cbn [step].
    assert (A : advance f c t (set_win None (set_ignore false s)) = (set_win None (set_ignore false s), [])).
    { destruct f; cbn [advance]; [reflexivity|]. unfold next_due. destruct s; cbn in *. subst. reflexivity. }
    rewrite A. cbn [map List.app apply_ops].
    pose proof (step_hit_events c t (set_win None (set_ignore false s)) Count) as H.
    destruct (step c t (set_win None (set_ignore false s)) Count) as [s1 e1]. cbn [fst snd] in *.
    rewrite List.app_nil_r. rewrite events_of_app. cbn [events_of]. rewrite events_of_at.
    unfold count_ev in *. rewrite List.app_nil_r. rewrite H.
    unfold accepted. rewrite K. destruct s; cbn in *. subst. reflexivity.
  - cbn [map List.app apply_ops].
    pose proof (step_hit_events c t s Count) as H.
    destruct (step c t s Count) as [s1 e1]. cbn [fst snd] in *.
    rewrite List.app_nil_r. rewrite events_of_app. cbn [events_of]. rewrite events_of_at.
    unfold count_ev in *. rewrite List.app_nil_r. rewrite H.
    unfold accepted. rewrite K, E, I. reflexivity.
Qed.

(* the other order at the boundary instant (the hit handled before the window's expiry) ignores the hit *)
Lemma window_boundary_other_order_l c s w :
  ckind c = KCounter -> ignore s = true ->
  snd (exec c s [(w, Count); (w, FireWindow)]) = [] /\ value (fst (exec c s [(w, Count); (w, FireWindow)])) = value s.
Proof.
  intros K I. cbn [exec step]. rewrite K. unfold do_count. rewrite I. destruct (enabled s); cbn; destruct s; auto.
Qed.

(* ---- one event bound to two consecutive steps of a sequence ------------------------------------ *)
(* the handlers run in descending step order (priority = step): step k+1 is tried first and is not the current
   step, then step k advances: one step and one hit event per posted event *)
Lemma sequence_shared_event_l c t s k :
  ckind c = KSequence -> enabled s = true -> value s = Z.of_nat k ->
  let r := apply_ops c t s [Hit (S k); Hit k] in
  count_ev is_hit_ev (snd r) = 1%nat /\
  (Z.of_nat k + 1 < Z.of_nat (nsteps c) -> value (fst r) = Z.of_nat k + 1 /\ count_ev is_complete_ev (snd r) = 0%nat).
Proof.
  intros K E V r. subst r. cbn [apply_ops].
  assert (N : step c t s (Hit (S k)) = (s, [])).
  { apply rejected_hit_noop; [rewrite K; discriminate | right; eexists; reflexivity|].
    unfold accepted. rewrite K, E, V. cbn [andb]. apply Z.eqb_neq. lia. }
  rewrite N.
  pose proof (step_hit_events c t s (Hit k)) as H.
  assert (A : accepted c s (Hit k) = true) by (unfold accepted; rewrite K, E, V; cbn [andb]; apply Z.eqb_refl).
  rewrite A in H.
  assert (VV : Z.of_nat k + 1 < Z.of_nat (nsteps c) ->
               value (fst (step c t s (Hit k))) = Z.of_nat k + 1 /\ count_ev is_complete_ev (snd (step c t s (Hit k))) = 0%nat).
  { intro L. unfold step. rewrite K. unfold do_sequence_hit. rewrite E, V, Z.eqb_refl. cbn [negb].
    apply Z.leb_gt in L. rewrite L. destruct s; cbn. auto. }
  destruct (step c t s (Hit k)) as [s1 e1]. cbn [fst snd List.app] in *. rewrite List.app_nil_r. auto.
Qed.

(* in ascending order (what equal priorities would give) the same event would advance two steps *)
Example sequence_shared_event_ascending_ex :
  let c := mkCfg KSequence 3 false 1 0 None true true 0 0 true in
  value (fst (apply_ops c 2000 (init c) [Hit 1%nat; Hit 0%nat])) = 1 /\
  value (fst (apply_ops c 2000 (init c) [Hit 0%nat; Hit 1%nat])) = 2.
Proof. vm_compute. auto. Qed.

Example window_boundary_ex :
  let c := mkCfg KCounter 0 false 1 0 None true true 250 0 true in
  let s := fst (step c 2000 (init c) Count) in
  win s = Some 2250 /\ ignore s = true /\
  value (fst (trun_aux c 2000 s [(2250, [Count])])) = 2 /\ value (fst (trun_aux c 2000 s [(2125, [Count])])) = 1.
Proof. vm_compute. auto. Qed.

Example counter_value_by_direction_ex :
  let c := mkCfg KCounter 0 true 2 10 None true true 0 0 true in
  let h := [(2000, Count); (2125, Disable); (2250, Count); (2375, Enable); (2500, Count)] in
  no_control h = true /\ value (fst (exec c (init c) h)) = 6 /\ snd (ghost c (init c) h (start c, 0)) = 2.
Proof. vm_compute. auto. Qed.
