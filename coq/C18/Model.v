(* C18/Model.v — executable model of mpf/devices/logic_blocks.py (LogicBlock, Counter, Accrual,
   Sequence) for blocks configured at machine level (persist_state: false), including the two
   delays a block owns ("timeout", "ignore_hits_within_window").  Time is Z milliseconds.
   Definitions only; proofs are in Lemmas.v.

   One state type serves the three kinds: [value] is the counter value / the sequence position,
   [steps] is the accrual's list of booleans (empty for the other kinds). *)
From Common Require Import Prelude.
Open Scope Z_scope.

Inductive kind := KCounter | KAccrual | KSequence.

Record cfg := mkCfg {
  ckind : kind;
  nsteps : nat;            (* accrual / sequence: len(config['events']) *)
  down : bool;             (* direction == 'down' *)
  interval : Z;            (* count_interval *)
  start : Z;               (* starting_count *)
  goal : option Z;         (* count_complete_value *)
  roc : bool;              (* reset_on_complete *)
  doc : bool;              (* disable_on_complete *)
  window : Z;              (* multiple_hit_window, ms; 0 = none *)
  timeout : Z;             (* logic_block_timeout, ms; 0 = none *)
  boot_enabled : bool      (* not config['enable_events'] : enabled by device_added_system_wide *)
}.

Record st := mkSt {
  enabled : bool;
  completed : bool;
  value : Z;
  steps : list bool;
  ignore : bool;           (* Counter.ignore_hits *)
  tmo : option Z;          (* deadline of the pending "timeout" delay *)
  win : option Z           (* deadline of the pending "ignore_hits_within_window" delay *)
}.

Inductive op :=
| Count                    (* Counter.count *)
| Hit (k : nat)            (* Accrual.hit(step=k) / Sequence.hit(step=k) *)
| Enable | Disable | Reset | Restart
| Add (z : Z) | Sub (z : Z) | Jump (z : Z)      (* Counter.event_add / event_subtract / event_jump *)
| FireTimeout              (* the "timeout" delay expires: _logic_block_timeout *)
| FireWindow.              (* the window delay expires: stop_ignoring_hits *)

Inductive ev :=
| EUpdated (v : Z) (l : list bool) (en : bool)   (* logicblock_<n>_updated(value, enabled) *)
| ELegacyHit (cnt : Z) (hr : option (Z * Z))     (* counter_<n>_hit(count[, hits, remaining]) *)
| EHit (a : Z) (hr : option (Z * Z))             (* logicblock_<n>_hit(count.. | step) *)
| EComplete                                      (* logicblock_<n>_complete *)
| ETimeout                                       (* <n>_timeout *)
| EUpdatedAny (en : bool).   (* never produced by the model: an observed accrual update event whose value argument
                                is not compared, used only on dispatches where the recorded defect
                                "updated-value-aliased" is observed (see NOTES.md) *)

(* ---- setters ---------------------------------------------------------------------------- *)
(* (written with a match so that unfolding them does not copy the state term) *)
Definition set_enabled b s := match s with mkSt _ c v l i t w => mkSt b c v l i t w end.
Definition set_completed b s := match s with mkSt e _ v l i t w => mkSt e b v l i t w end.
Definition set_value x s := match s with mkSt e c _ l i t w => mkSt e c x l i t w end.
Definition set_steps x s := match s with mkSt e c v _ i t w => mkSt e c v x i t w end.
Definition set_ignore b s := match s with mkSt e c v l _ t w => mkSt e c v l b t w end.
Definition set_tmo d s := match s with mkSt e c v l i _ w => mkSt e c v l i d w end.
Definition set_win d s := match s with mkSt e c v l i t _ => mkSt e c v l i t d end.

(* ---- configuration-derived values --------------------------------------------------------- *)
(* Counter._initialize: hit_value = count_interval, sign forced by the direction *)
Definition hit_value (c : cfg) : Z := if down c then - Z.abs (interval c) else Z.abs (interval c).

(* get_start_value *)
Definition start_value (c : cfg) : Z := match ckind c with KCounter => start c | _ => 0 end.
Definition start_steps (c : cfg) : list bool :=
  match ckind c with KAccrual => repeat false (nsteps c) | _ => [] end.

(* Counter.check_complete *)
Definition reached (c : cfg) (v : Z) : bool :=
  match goal c with
  | None => false
  | Some g => if down c then v <=? g else g <=? v
  end.

Definition all_true (l : list bool) : bool := forallb (fun b => b) l.

Fixpoint set_nth (k : nat) (l : list bool) : list bool :=
  match l, k with
  | [], _ => []
  | _ :: r, O => true :: r
  | b :: r, S k' => b :: set_nth k' r
  end.

(* ---- LogicBlock methods ------------------------------------------------------------------- *)
Definition upd (s : st) : ev := EUpdated (value s) (steps s) (enabled s).

(* _logic_block_timer_start: delay.reset("timeout", ms) *)
Definition timer_start (c : cfg) (now : Z) (s : st) : st :=
  if 0 <? timeout c then set_tmo (Some (now + timeout c)) s else s.

Definition do_reset (c : cfg) (now : Z) (s : st) : st * list ev :=
  let s1 := set_steps (start_steps c) (set_value (start_value c) (set_completed false s)) in
  (timer_start c now s1, [upd s1]).

Definition do_enable (c : cfg) (now : Z) (s : st) : st * list ev :=
  let s1 := set_enabled true s in
  (timer_start c now s1, [upd s1]).

Definition do_disable (s : st) : st * list ev :=
  let s1 := set_enabled false s in
  (set_tmo None s1, [upd s1]).

Definition do_complete (c : cfg) (now : Z) (s : st) : st * list ev :=
  if completed s then (s, [])
  else
    let s1 := set_tmo None (set_completed true s) in
    let '(s2, e2) := if roc c then do_reset c now s1 else (s1, []) in
    let '(s3, e3) := if doc c then do_disable s2 else (s2, []) in
    (s3, EComplete :: e2 ++ e3).

(* ---- Counter ------------------------------------------------------------------------------ *)
Definition hit_args (c : cfg) (v : Z) : option (Z * Z) :=
  match goal c with
  | None => None
  | Some g => Some (if down c then (start c - v, v - g) else (v - start c, g - v))
  end.

Definition do_count (c : cfg) (now : Z) (s : st) : st * list ev :=
  if negb (enabled s) then (s, [])
  else if ignore s then (s, [])
  else
    let v := value s + hit_value c in
    let s1 := set_value v s in
    let '(s2, e2) := if reached c v then do_complete c now s1 else (s1, []) in
    let s3 := if 0 <? window c
              then set_win (Some (now + window c)) (set_ignore true s2) else s2 in
    (s3, upd s1 :: ELegacyHit v (hit_args c v) :: EHit v (hit_args c v) :: e2).

(* event_add / event_subtract / event_jump: not guarded by enabled *)
Definition do_setval (c : cfg) (now : Z) (s : st) (v : Z) : st * list ev :=
  let s1 := set_value v s in
  let '(s2, e2) := if reached c v then do_complete c now s1 else (s1, []) in
  (s2, upd s1 :: e2).

(* ---- Accrual ------------------------------------------------------------------------------ *)
Definition do_accrual_hit (c : cfg) (now : Z) (s : st) (k : nat) : st * list ev :=
  if negb (enabled s) then (s, [])
  else if negb (Nat.ltb k (length (steps s))) then (s, [])      (* outside the configured steps *)
  else
    let already := nth k (steps s) false in
    let s1 := if already then s else set_steps (set_nth k (steps s)) s in
    let e1 := if already then [] else [upd s1; EHit (Z.of_nat k) None] in
    let '(s2, e2) := if all_true (steps s1) then do_complete c now s1 else (s1, []) in
    (s2, e1 ++ e2).

(* ---- Sequence ----------------------------------------------------------------------------- *)
Definition do_sequence_hit (c : cfg) (now : Z) (s : st) (k : nat) : st * list ev :=
  if negb (enabled s) then (s, [])
  else if negb (Z.of_nat k =? value s) then (s, [])
  else
    let v := value s + 1 in
    let s1 := set_value v s in
    let '(s2, e2) := if Z.of_nat (nsteps c) <=? v then do_complete c now s1 else (s1, []) in
    (s2, upd s1 :: EHit v None :: e2).

(* ---- one operation at time [now] ------------------------------------------------------------ *)
Definition step (c : cfg) (now : Z) (s : st) (o : op) : st * list ev :=
  match o with
  | Count => match ckind c with KCounter => do_count c now s | _ => (s, []) end
  | Hit k => match ckind c with
             | KAccrual => do_accrual_hit c now s k
             | KSequence => do_sequence_hit c now s k
             | KCounter => (s, [])
             end
  | Enable => do_enable c now s
  | Disable => do_disable s
  | Reset => do_reset c now s
  | Restart => let '(s1, e1) := do_reset c now s in
               let '(s2, e2) := do_enable c now s1 in (s2, e1 ++ e2)
  | Add z => match ckind c with KCounter => do_setval c now s (value s + z) | _ => (s, []) end
  | Sub z => match ckind c with KCounter => do_setval c now s (value s - z) | _ => (s, []) end
  | Jump z => match ckind c with KCounter => do_setval c now s z | _ => (s, []) end
  | FireTimeout => let '(s1, e1) := do_reset c now (set_tmo None s) in (s1, ETimeout :: e1)
  | FireWindow => (set_win None (set_ignore false s), [])
  end.

(* device_added_system_wide at time 0 *)
Definition init (c : cfg) : st :=
  let s0 := mkSt false false (start_value c) (start_steps c) false None None in
  if boot_enabled c then fst (do_enable c 0 s0) else s0.

(* a history: operations with the instants at which they happen *)
Fixpoint exec (c : cfg) (s : st) (h : list (Z * op)) : st * list ev :=
  match h with
  | [] => (s, [])
  | (t, o) :: h' =>
      let '(s1, e1) := step c t s o in
      let '(s2, e2) := exec c s1 h' in
      (s2, e1 ++ e2)
  end.

(* ---- the timed run: the block's own delays fire when the clock passes their deadlines -------- *)
Definition dueb (d : option Z) (t : Z) : bool :=
  match d with Some x => x <=? t | None => false end.

(* earliest pending deadline that is <= t (window first on a tie: the two callbacks commute) *)
Definition next_due (s : st) (t : Z) : option (Z * op) :=
  match win s, tmo s with
  | Some w, Some m =>
      if w <=? m then (if w <=? t then Some (w, FireWindow) else None)
      else (if m <=? t then Some (m, FireTimeout) else None)
  | Some w, None => if w <=? t then Some (w, FireWindow) else None
  | None, Some m => if m <=? t then Some (m, FireTimeout) else None
  | None, None => None
  end.

Fixpoint advance (fuel : nat) (c : cfg) (t : Z) (s : st) : st * list (Z * ev) :=
  match fuel with
  | O => (s, [])
  | S f =>
      match next_due s t with
      | None => (s, [])
      | Some (d, o) =>
          let '(s1, e1) := step c d s o in
          let '(s2, e2) := advance f c t s1 in
          (s2, map (fun e => (d, e)) e1 ++ e2)
      end
  end.

Fixpoint apply_ops (c : cfg) (t : Z) (s : st) (ops : list op) : st * list ev :=
  match ops with
  | [] => (s, [])
  | o :: r =>
      let '(s1, e1) := step c t s o in
      let '(s2, e2) := apply_ops c t s1 r in
      (s2, e1 ++ e2)
  end.

Inductive obs :=
| OEv (t : Z) (e : ev)
| OSnap (t : Z) (v : Z) (l : list bool) (en comp ign tpend wpend : bool).

Definition isSome {A} (o : option A) : bool := match o with Some _ => true | None => false end.

Definition snap (t : Z) (s : st) : obs :=
  OSnap t (value s) (steps s) (enabled s) (completed s) (ignore s) (isSome (tmo s)) (isSome (win s)).

(* every delay of a block is at least [grid] ms long in the stated domain, so at most two delays
   fire per grid interval *)
Definition grid : Z := 125.
Definition fuel_for (now t : Z) : nat := (2 * Z.to_nat ((t - now) / grid) + 4)%nat.

(* groups: (instant, operations applied at that instant in this order); one snapshot per group *)
Fixpoint trun_aux (c : cfg) (now : Z) (s : st) (groups : list (Z * list op)) : st * list obs :=
  match groups with
  | [] => (s, [])
  | (t, ops) :: g' =>
      let '(s1, e1) := advance (fuel_for now t) c t s in
      let '(s2, e2) := apply_ops c t s1 ops in
      let '(s3, o3) := trun_aux c t s2 g' in
      (s3, map (fun te => OEv (fst te) (snd te)) e1 ++ map (OEv t) e2 ++ snap t s2 :: o3)
  end.

Definition trun c now s groups : list obs := snd (trun_aux c now s groups).

Definition run (i : cfg * list (Z * list op)) : list obs := trun (fst i) 0 (init (fst i)) (snd i).

(* the events of an observation list, without instants and snapshots *)
Fixpoint events_of (l : list obs) : list ev :=
  match l with
  | [] => []
  | OEv _ e :: r => e :: events_of r
  | OSnap _ _ _ _ _ _ _ _ :: r => events_of r
  end.

(* ---- decidable equality of observations ------------------------------------------------------- *)
Definition zz_eqb (a b : Z * Z) : bool := (fst a =? fst b) && (snd a =? snd b).
Definition bl_eqb : list bool -> list bool -> bool := list_eqb Bool.eqb.

Definition ev_eqb (a b : ev) : bool :=
  match a, b with
  | EUpdated v l e, EUpdated v' l' e' => (v =? v') && bl_eqb l l' && Bool.eqb e e'
  | EUpdated _ _ e, EUpdatedAny e' => Bool.eqb e e'
  | ELegacyHit x h, ELegacyHit x' h' => (x =? x') && option_eqb zz_eqb h h'
  | EHit x h, EHit x' h' => (x =? x') && option_eqb zz_eqb h h'
  | EComplete, EComplete => true
  | ETimeout, ETimeout => true
  | _, _ => false
  end.

Definition obs_eqb (a b : obs) : bool :=
  match a, b with
  | OEv t e, OEv t' e' => (t =? t') && ev_eqb e e'
  | OSnap t v l a1 a2 a3 a4 a5, OSnap t' v' l' b1 b2 b3 b4 b5 =>
      (t =? t') && (v =? v') && bl_eqb l l' && Bool.eqb a1 b1 && Bool.eqb a2 b2 && Bool.eqb a3 b3
      && Bool.eqb a4 b4 && Bool.eqb a5 b5
  | _, _ => false
  end.

Definition out_eqb : list obs -> list obs -> bool := list_eqb obs_eqb.

(* ---- specification vocabulary used by the theorems ----------------------------------------- *)
(* a hit is ACCEPTED: the block is enabled and (counter) outside its multiple-hit window,
   (accrual) the step is one of the block's and not yet done, (sequence) it is the current step *)
Definition accepted (c : cfg) (s : st) (o : op) : bool :=
  match ckind c, o with
  | KCounter, Count => enabled s && negb (ignore s)
  | KAccrual, Hit k => enabled s && Nat.ltb k (length (steps s)) && negb (nth k (steps s) false)
  | KSequence, Hit k => enabled s && (Z.of_nat k =? value s)
  | _, _ => false
  end.

(* the goal is reached by this operation *)
Definition goal_reached_by (c : cfg) (s : st) (o : op) : bool :=
  match ckind c, o with
  | KCounter, Count => accepted c s o && reached c (value s + hit_value c)
  | KCounter, Add z => reached c (value s + z)
  | KCounter, Sub z => reached c (value s - z)
  | KCounter, Jump z => reached c z
  | KAccrual, Hit k => enabled s && Nat.ltb k (length (steps s)) && all_true (set_nth k (steps s))
  | KSequence, Hit k => accepted c s o && (Z.of_nat (nsteps c) <=? value s + 1)
  | _, _ => false
  end.

Definition completes (c : cfg) (s : st) (o : op) : bool :=
  negb (completed s) && goal_reached_by c s o.

(* the operation resets the block: explicitly, by timeout, or on completion with reset_on_complete *)
Definition resets (c : cfg) (s : st) (o : op) : bool :=
  match o with
  | Reset | Restart | FireTimeout => true
  | _ => completes c s o && roc c
  end.

Definition is_control (o : op) : bool :=
  match o with Add _ | Sub _ | Jump _ => true | _ => false end.
Definition no_control (h : list (Z * op)) : bool := forallb (fun to => negb (is_control (snd to))) h.

Definition is_hit_ev (e : ev) : bool := match e with EHit _ _ => true | _ => false end.
Definition is_complete_ev (e : ev) : bool := match e with EComplete => true | _ => false end.
Definition count_ev (p : ev -> bool) (l : list ev) : nat := length (filter p l).

(* ghost bookkeeping for the value formula: value = base + hit_value * n where n counts the accepted
   hits since the last reset / jump and base is the start value plus the control adjustments *)
Definition ghost_step (c : cfg) (s : st) (o : op) (bn : Z * Z) : Z * Z :=
  if resets c s o then (start c, 0)
  else match o with
       | Count => if accepted c s o then (fst bn, snd bn + 1) else bn
       | Add z => match ckind c with KCounter => (fst bn + z, snd bn) | _ => bn end
       | Sub z => match ckind c with KCounter => (fst bn - z, snd bn) | _ => bn end
       | Jump z => match ckind c with KCounter => (z, 0) | _ => bn end
       | _ => bn
       end.

Fixpoint ghost (c : cfg) (s : st) (h : list (Z * op)) (bn : Z * Z) : Z * Z :=
  match h with
  | [] => bn
  | (t, o) :: h' => ghost c (fst (step c t s o)) h' (ghost_step c s o bn)
  end.

(* number of accepted operations along a history *)
Fixpoint n_accepted (c : cfg) (s : st) (h : list (Z * op)) : nat :=
  match h with
  | [] => O
  | (t, o) :: h' => ((if accepted c s o then 1 else 0) + n_accepted c (fst (step c t s o)) h')%nat
  end.

(* accrual / sequence specifications *)
Definition mark (ks : list nat) (l : list bool) : list bool := fold_left (fun l k => set_nth k l) ks l.
Definition seq_adv (v : Z) (ks : list nat) : Z :=
  fold_left (fun v k => if (Z.of_nat k =? v) then v + 1 else v) ks v.
Definition hits_of (tks : list (Z * nat)) : list (Z * op) := map (fun tk => (fst tk, Hit (snd tk))) tks.
Definition is_reset_op (o : op) : bool :=
  match o with Reset | Restart | FireTimeout => true | _ => false end.
