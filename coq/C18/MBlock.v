(* C18/MBlock.v — life cycle of a logic block that is configured in a MODE (mpf/devices/logic_blocks.py:
   device_loaded_in_mode, device_removed_from_mode, _initialize/_start_enabled; mpf/core/mode.py start/stop),
   and configuration values that are templates (`count_complete_value: machine.x`, `starting_count: machine.y`,
   evaluated every time they are used, so they may change during a history).

   * mode not running: the block has no state (_state = None); count/step/enable/disable/reset/restart events have no
     handler (mode handlers) or find `enabled` falsy (accrual/sequence step handlers, registered machine-wide), the
     counter's add/subtract/jump control events return on `not self._state`: nothing happens, nothing is posted;
   * mode start: persist_state and a state saved in the player -> that state object is used again (no enable, the
     timeout is NOT re-armed); otherwise a fresh state with the start value, and when `_start_enabled`
     (= start_enabled if given, else `not enable_events`) the handler event_enable on mode_<m>_starting
     (priority mode.priority + 1); in both cases post_update_event on mode_<m>_starting afterwards;
   * mode stop: delay.clear() (timeout and hit window), ignore_hits = False, _state = None; with persist_state the
     state object lives on in the player variable (value, enabled, completed kept), without it it is dropped.

   Definitions and proofs. *)
From Common Require Import Prelude.
From C18 Require Import Model Lemmas.
Open Scope Z_scope.

Record mcfg := mkM {
  mstart_enabled : option bool;   (* start_enabled: None = not given *)
  menable_events : bool;          (* enable_events configured *)
  mpersist : bool                 (* persist_state *)
}.

(* LogicBlock._initialize *)
Definition eff_start (mc : mcfg) : bool :=
  match mstart_enabled mc with Some b => b | None => negb (menable_events mc) end.

Record mst := mkMS {
  mcur : cfg;               (* the configuration with the current values of the templates *)
  mrun : option st;         (* None: the mode is not running *)
  msaved : option st        (* the state kept in the player variable (persist_state) *)
}.

Inductive mop :=
| MStart | MStop
| MOp (o : op)
| MSetGoal (g : Z)          (* the machine variable behind count_complete_value changes *)
| MSetStart (z : Z).        (* the machine variable behind starting_count changes *)

Definition set_goal (c : cfg) (g : option Z) : cfg :=
  mkCfg (ckind c) (nsteps c) (down c) (interval c) (start c) g (roc c) (doc c) (window c) (timeout c) (boot_enabled c).
Definition set_start (c : cfg) (z : Z) : cfg :=
  mkCfg (ckind c) (nsteps c) (down c) (interval c) z (goal c) (roc c) (doc c) (window c) (timeout c) (boot_enabled c).

Definition fresh (c : cfg) : st := mkSt false false (start_value c) (start_steps c) false None None.
(* device_removed_from_mode: the delays are cleared, the hit window closed *)
Definition drop_delays (s : st) : st := set_win None (set_tmo None (set_ignore false s)).
Definition restore (mc : mcfg) (ms : mst) : option st := if mpersist mc then msaved ms else None.

Definition mstep (mc : mcfg) (t : Z) (ms : mst) (o : mop) : mst * list ev :=
  let c := mcur ms in
  match o with
  | MStart =>
      match mrun ms with
      | Some _ => (ms, [])                                   (* already active *)
      | None =>
          match restore mc ms with
          | Some s => (mkMS c (Some s) (msaved ms), [upd s])
          | None =>
              let '(s1, e1) := if eff_start mc then do_enable c t (fresh c) else (fresh c, []) in
              (mkMS c (Some s1) (msaved ms), e1 ++ [upd s1])
          end
      end
  | MStop =>
      match mrun ms with
      | None => (ms, [])
      | Some s => (mkMS c None (if mpersist mc then Some (drop_delays s) else None), [])
      end
  | MOp o' =>
      match mrun ms with
      | None => (ms, [])
      | Some s => let '(s1, e1) := step c t s o' in (mkMS c (Some s1) (msaved ms), e1)
      end
  | MSetGoal g => (mkMS (set_goal c (Some g)) (mrun ms) (msaved ms), [])
  | MSetStart z => (mkMS (set_start c z) (mrun ms) (msaved ms), [])
  end.

Fixpoint mexec (mc : mcfg) (ms : mst) (h : list (Z * mop)) : mst * list ev :=
  match h with
  | [] => (ms, [])
  | (t, o) :: h' =>
      let '(m1, e1) := mstep mc t ms o in
      let '(m2, e2) := mexec mc m1 h' in
      (m2, e1 ++ e2)
  end.

(* ---- timed run ------------------------------------------------------------------------------- *)
Definition madvance (fuel : nat) (t : Z) (ms : mst) : mst * list (Z * ev) :=
  match mrun ms with
  | None => (ms, [])
  | Some s => let '(s1, e1) := advance fuel (mcur ms) t s in (mkMS (mcur ms) (Some s1) (msaved ms), e1)
  end.

Fixpoint mapply (mc : mcfg) (t : Z) (ms : mst) (ops : list mop) : mst * list ev :=
  match ops with
  | [] => (ms, [])
  | o :: r =>
      let '(m1, e1) := mstep mc t ms o in
      let '(m2, e2) := mapply mc t m1 r in
      (m2, e1 ++ e2)
  end.

Inductive mobs :=
| MO (o : obs)
| MNoState (t : Z).       (* snapshot while the mode is not running: value/enabled/completed are None *)

Definition msnap (t : Z) (ms : mst) : mobs :=
  match mrun ms with Some s => MO (snap t s) | None => MNoState t end.

Fixpoint mtrun_aux (mc : mcfg) (now : Z) (ms : mst) (groups : list (Z * list mop)) : mst * list mobs :=
  match groups with
  | [] => (ms, [])
  | (t, ops) :: g' =>
      let '(m1, e1) := madvance (fuel_for now t) t ms in
      let '(m2, e2) := mapply mc t m1 ops in
      let '(m3, o3) := mtrun_aux mc t m2 g' in
      (m3, map (fun te => MO (OEv (fst te) (snd te))) e1 ++ map (fun e => MO (OEv t e)) e2 ++ msnap t m2 :: o3)
  end.

Definition mrun_case (i : mcfg * cfg * list (Z * list mop)) : list mobs :=
  let '(mc, c, groups) := i in snd (mtrun_aux mc 0 (mkMS c None None) groups).

Definition mobs_eqb (a b : mobs) : bool :=
  match a, b with
  | MO x, MO y => obs_eqb x y
  | MNoState t, MNoState t' => t =? t'
  | _, _ => false
  end.
Definition mout_eqb : list mobs -> list mobs -> bool := list_eqb mobs_eqb.

Fixpoint mevents_of (l : list mobs) : list ev :=
  match l with
  | [] => []
  | MO (OEv _ e) :: r => e :: mevents_of r
  | _ :: r => mevents_of r
  end.

(* ---------------------------------------------------------------------------------------------- *)
(* life cycle                                                                                      *)

Lemma mode_stopped_ignores_ops_l mc t ms o : mrun ms = None -> mstep mc t ms (MOp o) = (ms, []).
Proof. intro H. unfold mstep. rewrite H. reflexivity. Qed.

Lemma mode_running_is_block_step_l mc t ms s o : mrun ms = Some s ->
  mstep mc t ms (MOp o) = (mkMS (mcur ms) (Some (fst (step (mcur ms) t s o))) (msaved ms), snd (step (mcur ms) t s o)).
Proof. intro H. unfold mstep. rewrite H. destruct (step (mcur ms) t s o). reflexivity. Qed.

Lemma mode_stop_l mc t ms s : mrun ms = Some s ->
  let r := mstep mc t ms MStop in
  mrun (fst r) = None /\ snd r = [] /\
  msaved (fst r) = (if mpersist mc then Some (drop_delays s) else None) /\
  value (drop_delays s) = value s /\ steps (drop_delays s) = steps s /\ enabled (drop_delays s) = enabled s /\
  completed (drop_delays s) = completed s /\ ignore (drop_delays s) = false /\
  tmo (drop_delays s) = None /\ win (drop_delays s) = None.
Proof. intro H. unfold mstep. rewrite H. destruct s. cbn. repeat split; reflexivity. Qed.

Lemma mode_start_l mc t ms : mrun ms = None ->
  let r := mstep mc t ms MStart in
  let c := mcur ms in
  match restore mc ms with
  | Some s => mrun (fst r) = Some s /\ snd r = [upd s]
  | None =>
      exists s, mrun (fst r) = Some s /\
        value s = start_value c /\ steps s = start_steps c /\ completed s = false /\ ignore s = false /\ win s = None /\
        enabled s = eff_start mc /\
        tmo s = (if eff_start mc && (0 <? timeout c) then Some (t + timeout c) else None) /\
        snd r = (if eff_start mc then [EUpdated (start_value c) (start_steps c) true] else [])
                ++ [EUpdated (start_value c) (start_steps c) (eff_start mc)]
  end.
Proof.
  intro H. unfold mstep. rewrite H. destruct (restore mc ms) as [s|]; [split; reflexivity|].
  destruct (eff_start mc); unfold do_enable, timer_start, fresh, upd; cbn [fst snd andb].
  - destruct (0 <? timeout (mcur ms)); eexists; cbn; repeat split; reflexivity.
  - eexists; cbn; repeat split; reflexivity.
Qed.

(* a stop followed by a start: without persist_state the block begins again from its start value whatever happened
   before, with persist_state it continues with the value / enabled / completed it had (delays gone) *)
Lemma mode_restart_l mc t t' ms s : mrun ms = Some s ->
  let m1 := fst (mstep mc t ms MStop) in
  let r := mstep mc t' m1 MStart in
  if mpersist mc
  then mrun (fst r) = Some (drop_delays s) /\ snd r = [EUpdated (value s) (steps s) (enabled s)]
  else exists s', mrun (fst r) = Some s' /\ value s' = start_value (mcur ms) /\ steps s' = start_steps (mcur ms) /\
                  completed s' = false /\ enabled s' = eff_start mc.
Proof.
  intro H.
  assert (E : fst (mstep mc t ms MStop) = mkMS (mcur ms) None (if mpersist mc then Some (drop_delays s) else None)).
  { unfold mstep. rewrite H. reflexivity. }
  rewrite E.
  pose proof (mode_start_l mc t' (mkMS (mcur ms) None (if mpersist mc then Some (drop_delays s) else None)) eq_refl) as S.
  cbn zeta in S. unfold restore in S. cbn [msaved mcur] in S.
  destruct (mpersist mc).
  - destruct S as [S1 S2]. split; [exact S1|]. rewrite S2. destruct s; reflexivity.
  - destruct S as (s' & S1 & S2 & S3 & S4 & _ & _ & S7 & _). exists s'. auto.
Qed.

(* ---------------------------------------------------------------------------------------------- *)
(* value formula over mode-level histories with changing start / goal                               *)

Definition mghost_step (mc : mcfg) (ms : mst) (o : mop) (bn : Z * Z) : Z * Z :=
  match o with
  | MOp o' => match mrun ms with Some s => ghost_step (mcur ms) s o' bn | None => bn end
  | MStart => match mrun ms with
              | Some _ => bn
              | None => match restore mc ms with Some _ => bn | None => (start (mcur ms), 0) end
              end
  | _ => bn
  end.

Fixpoint mghost (mc : mcfg) (ms : mst) (h : list (Z * mop)) (bn : Z * Z) : Z * Z :=
  match h with
  | [] => bn
  | (t, o) :: h' => mghost mc (fst (mstep mc t ms o)) h' (mghost_step mc ms o bn)
  end.

Definition minv (mc : mcfg) (ms : mst) (bn : Z * Z) : Prop :=
  ckind (mcur ms) = KCounter /\
  match mrun ms with
  | Some s => ginv (mcur ms) s bn
  | None => match restore mc ms with Some s => ginv (mcur ms) s bn | None => True end
  end.

Lemma ginv_cfg c c' s bn : hit_value c' = hit_value c -> ginv c s bn -> ginv c' s bn.
Proof. unfold ginv. intros -> H. exact H. Qed.

Lemma minv_step mc t ms o bn : minv mc ms bn -> minv mc (fst (mstep mc t ms o)) (mghost_step mc ms o bn).
Proof.
  intros [K I]. unfold mstep, mghost_step, minv.
  destruct o as [| |o'|g|z].
  - (* start *)
    destruct (mrun ms) as [s|] eqn:R; cbn [fst mcur mrun]; [rewrite R; auto|].
    destruct (restore mc ms) as [s|] eqn:S; cbn [fst mcur mrun]; [auto|].
    destruct (eff_start mc); unfold do_enable, timer_start, fresh; cbn [fst snd mcur mrun]; split; try assumption;
      unfold ginv, start_value; rewrite K;
      try destruct (0 <? timeout (mcur ms)); cbn; lia.
  - (* stop *)
    destruct (mrun ms) as [s|] eqn:R; cbn [fst mcur mrun].
    + split; [assumption|]. unfold restore. cbn [msaved]. destruct (mpersist mc); [|exact Logic.I].
      unfold ginv in *. destruct s; cbn in *. exact I.
    + rewrite R. auto.
  - (* block operation *)
    destruct (mrun ms) as [s|] eqn:R.
    + pose proof (ghost_step_inv (mcur ms) t s o' bn K I) as G.
      destruct (step (mcur ms) t s o') as [s1 e1]. cbn [fst mcur mrun] in *. auto.
    + cbn [fst]. rewrite R. auto.
  - (* goal template changes *)
    cbn [fst mcur mrun]. split; [exact K|].
    unfold restore in *. cbn [msaved].
    destruct (mrun ms); [|destruct (if mpersist mc then msaved ms else None)]; auto;
      eapply ginv_cfg; try eassumption; reflexivity.
  - cbn [fst mcur mrun]. split; [exact K|].
    unfold restore in *. cbn [msaved].
    destruct (mrun ms); [|destruct (if mpersist mc then msaved ms else None)]; auto;
      eapply ginv_cfg; try eassumption; reflexivity.
Qed.

Lemma mexec_cons mc ms t o h :
  mexec mc ms ((t, o) :: h) =
  (fst (mexec mc (fst (mstep mc t ms o)) h), snd (mstep mc t ms o) ++ snd (mexec mc (fst (mstep mc t ms o)) h)).
Proof. cbn [mexec]. destruct (mstep mc t ms o) as [m1 e1]. cbn [fst snd]. destruct (mexec mc m1 h). reflexivity. Qed.

Lemma minv_exec mc h : forall ms bn, minv mc ms bn -> minv mc (fst (mexec mc ms h)) (mghost mc ms h bn).
Proof.
  induction h as [|[t o] h IH]; intros ms bn I; [exact I|].
  rewrite mexec_cons. cbn [fst mghost]. apply IH, minv_step, I.
Qed.

Lemma hit_value_step_cfg mc t ms o : hit_value (mcur (fst (mstep mc t ms o))) = hit_value (mcur ms).
Proof.
  unfold mstep. destruct o; try (destruct (mrun ms); try destruct (restore mc ms);
    try destruct (eff_start mc); try destruct (step _ _ _ _); reflexivity); reflexivity.
Qed.

Lemma hit_value_exec_cfg mc h : forall ms, hit_value (mcur (fst (mexec mc ms h))) = hit_value (mcur ms).
Proof.
  induction h as [|[t o] h IH]; intro ms; [reflexivity|].
  rewrite mexec_cons. cbn [fst]. rewrite IH. apply hit_value_step_cfg.
Qed.

(* from a mode that has not run yet: whenever the block exists its value is base + hit_value * n, where (base, n)
   restarts at (current start value, 0) with every fresh state (mode start without a kept state) and every reset,
   n counts the hits accepted since then, and base follows add / subtract / jump *)
Lemma mode_counter_value_formula_l mc c h :
  ckind c = KCounter ->
  let m := fst (mexec mc (mkMS c None None) h) in
  let bn := mghost mc (mkMS c None None) h (start c, 0) in
  forall s, mrun m = Some s -> value s = fst bn + hit_value c * snd bn.
Proof.
  intros K m bn s R.
  assert (I : minv mc m bn).
  { apply minv_exec. split; [exact K|]. cbn. unfold restore. cbn. destruct (mpersist mc); exact Logic.I. }
  destruct I as [_ I]. rewrite R in I. unfold ginv in I. rewrite I.
  unfold m. rewrite hit_value_exec_cfg. reflexivity.
Qed.

(* hit / completion events along a mode-level history are those of the block operations performed while running *)
Lemma mstep_hit_events mc t ms o :
  count_ev is_hit_ev (snd (mstep mc t ms o)) =
  match o, mrun ms with
  | MOp o', Some s => if accepted (mcur ms) s o' then 1%nat else 0%nat
  | _, _ => 0%nat
  end.
Proof.
  unfold mstep. destruct o as [| |o'|g|z]; try reflexivity.
  - destruct (mrun ms); [reflexivity|]. destruct (restore mc ms); [reflexivity|].
    destruct (eff_start mc); reflexivity.
  - destruct (mrun ms); reflexivity.
  - destruct (mrun ms) as [s|]; [|reflexivity].
    pose proof (step_hit_events (mcur ms) t s o') as H. destruct (step (mcur ms) t s o'). exact H.
Qed.

Lemma mstep_complete_events mc t ms o :
  count_ev is_complete_ev (snd (mstep mc t ms o)) =
  match o, mrun ms with
  | MOp o', Some s => if completes (mcur ms) s o' then 1%nat else 0%nat
  | _, _ => 0%nat
  end.
Proof.
  unfold mstep. destruct o as [| |o'|g|z]; try reflexivity.
  - destruct (mrun ms); [reflexivity|]. destruct (restore mc ms); [reflexivity|].
    destruct (eff_start mc); reflexivity.
  - destruct (mrun ms); reflexivity.
  - destruct (mrun ms) as [s|]; [|reflexivity].
    pose proof (step_complete_events (mcur ms) t s o') as H. destruct (step (mcur ms) t s o'). exact H.
Qed.

(* the goal is evaluated when it is used: after the template's value changed, the NEXT accepted hit is judged
   against the new value; a counter that stays completed (no reset on complete) never completes again *)
Lemma goal_reevaluated_l mc t ms s g o :
  mrun ms = Some s ->
  let m1 := fst (mstep mc t ms (MSetGoal g)) in
  mrun m1 = Some s /\ goal (mcur m1) = Some g /\
  count_ev is_complete_ev (snd (mstep mc t m1 (MOp o))) =
    (if completes (set_goal (mcur ms) (Some g)) s o then 1%nat else 0%nat).
Proof.
  intros R m1. subst m1. rewrite mstep_complete_events. unfold mstep. cbn [fst mrun mcur]. rewrite R.
  cbn [goal set_goal]. auto.
Qed.

(* ---- the timed mode-level run is an execution of a mode-level history ------------------------- *)
Lemma mapply_mexec mc t ops : forall ms, mapply mc t ms ops = mexec mc ms (map (pair t) ops).
Proof.
  induction ops as [|o ops IH]; intro ms; [reflexivity|].
  cbn [mapply map mexec]. destruct (mstep mc t ms o) as [m1 e1]. rewrite IH. reflexivity.
Qed.

Lemma mexec_app mc h1 : forall ms h2,
  mexec mc ms (h1 ++ h2) =
  (fst (mexec mc (fst (mexec mc ms h1)) h2), snd (mexec mc ms h1) ++ snd (mexec mc (fst (mexec mc ms h1)) h2)).
Proof.
  induction h1 as [|[t o] h1 IH]; intros ms h2.
  - cbn. destruct (mexec mc ms h2); reflexivity.
  - rewrite <- app_comm_cons. rewrite !mexec_cons. rewrite IH. cbn [fst snd]. rewrite app_assoc. reflexivity.
Qed.

Lemma mexec_ops mc h : forall ms s, mrun ms = Some s ->
  mexec mc ms (map (fun to => (fst to, MOp (snd to))) h) =
  (mkMS (mcur ms) (Some (fst (exec (mcur ms) s h))) (msaved ms), snd (exec (mcur ms) s h)).
Proof.
  induction h as [|[t o] h IH]; intros ms s R.
  - cbn. destruct ms; cbn in *; subst; reflexivity.
  - cbn [map fst snd]. rewrite mexec_cons, exec_cons. rewrite (mode_running_is_block_step_l mc t ms s o R).
    cbn [fst snd].
    rewrite (IH (mkMS (mcur ms) (Some (fst (step (mcur ms) t s o))) (msaved ms)) (fst (step (mcur ms) t s o)) eq_refl).
    reflexivity.
Qed.

Lemma madvance_mexec mc fuel t ms :
  exists h, fst (madvance fuel t ms) = fst (mexec mc ms h) /\
            map snd (snd (madvance fuel t ms)) = snd (mexec mc ms h).
Proof.
  unfold madvance. destruct (mrun ms) as [s|] eqn:R.
  - destruct (advance_exec fuel (mcur ms) t s) as (h & H1 & H2 & _).
    exists (map (fun to => (fst to, MOp (snd to))) h). rewrite (mexec_ops mc h ms s R).
    destruct (advance fuel (mcur ms) t s) as [s1 e1]. cbn [fst snd] in *. rewrite H1, H2. auto.
  - exists []. cbn. auto.
Qed.

Lemma mevents_of_app a b : mevents_of (a ++ b) = mevents_of a ++ mevents_of b.
Proof. induction a as [|[[t e|]|t] a IH]; cbn; [reflexivity| | |]; rewrite IH; reflexivity. Qed.

Lemma mevents_of_stamped (l : list (Z * ev)) :
  mevents_of (map (fun te => MO (OEv (fst te) (snd te))) l) = map snd l.
Proof. induction l as [|[t e] l IH]; cbn; [reflexivity|]. rewrite IH. reflexivity. Qed.

Lemma mevents_of_at t l : mevents_of (map (fun e => MO (OEv t e)) l) = l.
Proof. induction l as [|e l IH]; cbn; [reflexivity|]. rewrite IH. reflexivity. Qed.

Lemma mevents_of_snap t m r : mevents_of (msnap t m :: r) = mevents_of r.
Proof. unfold msnap. destruct (mrun m); reflexivity. Qed.

Lemma mode_timed_run_refines_mexec_l mc groups : forall now ms,
  exists h, fst (mtrun_aux mc now ms groups) = fst (mexec mc ms h) /\
            mevents_of (snd (mtrun_aux mc now ms groups)) = snd (mexec mc ms h).
Proof.
  induction groups as [|[t ops] g IH]; intros now ms.
  - exists []. cbn. auto.
  - cbn [mtrun_aux].
    destruct (madvance_mexec mc (fuel_for now t) t ms) as (h1 & A1 & A2).
    destruct (madvance (fuel_for now t) t ms) as [m1 e1]. cbn [fst snd] in *.
    rewrite mapply_mexec.
    destruct (mexec mc m1 (map (pair t) ops)) as [m2 e2] eqn:X2.
    destruct (IH t m2) as (h3 & B1 & B2).
    destruct (mtrun_aux mc t m2 g) as [m3 o3]. cbn [fst snd] in *.
    exists (h1 ++ map (pair t) ops ++ h3).
    rewrite !mexec_app. cbn [fst snd]. rewrite <- A1, X2. cbn [fst snd]. rewrite <- A2.
    split; [exact B1|].
    rewrite !mevents_of_app, mevents_of_stamped, mevents_of_at, mevents_of_snap. rewrite B2.
    reflexivity.
Qed.

(* ---------------------------------------------------------------------------------------------- *)
(* examples *)

Definition exm_cfg : cfg := mkCfg KCounter 0 false 1 0 (Some 3) false false 250 1000 false.
Definition exm_cfg0 : cfg := mkCfg KCounter 0 false 1 0 (Some 3) false false 0 1000 false.
Definition exm_plain : mcfg := mkM None false false.      (* no start_enabled, no enable_events: starts enabled *)
Definition exm_persist : mcfg := mkM (Some true) true true.
Definition exm_hist : list (Z * mop) :=
  [(2000, MOp Count); (2125, MStart); (2250, MOp Count); (2625, MOp Count); (2750, MStop); (2875, MOp Count);
   (3000, MSetStart 5); (3125, MStart); (3250, MOp Count)].

(* without persist_state: the hit while stopped is lost, the two hits before the stop are dropped, the new run
   begins at the new start value 5; with persist_state the block continues at 2 *)
Example mode_counter_value_formula_ex :
  (exists s, mrun (fst (mexec exm_plain (mkMS exm_cfg0 None None) exm_hist)) = Some s /\ value s = 6) /\
  mghost exm_plain (mkMS exm_cfg0 None None) exm_hist (0, 0) = (5, 1) /\
  (exists s, mrun (fst (mexec exm_persist (mkMS exm_cfg0 None None) exm_hist)) = Some s /\ value s = 3 /\ completed s = true) /\
  mghost exm_persist (mkMS exm_cfg0 None None) exm_hist (0, 0) = (0, 3).
Proof. vm_compute. repeat split; eexists; repeat split. Qed.

Example mode_start_ex :
  eff_start (mkM None true false) = false /\ eff_start (mkM None false false) = true /\
  eff_start (mkM (Some true) true false) = true /\ eff_start (mkM (Some false) false false) = false /\
  snd (mstep (mkM (Some true) true false) 2000 (mkMS exm_cfg None None) MStart)
    = [EUpdated 0 [] true; EUpdated 0 [] true] /\
  snd (mstep (mkM None true false) 2000 (mkMS exm_cfg None None) MStart) = [EUpdated 0 [] false].
Proof. vm_compute. repeat split. Qed.

(* goal 3 -> 2 while the value is 1: the next hit completes; a later raise of the goal does not un-complete *)
Example goal_reevaluated_ex :
  snd (mexec exm_plain (mkMS exm_cfg0 None None)
         [(2000, MStart); (2125, MOp Count); (2250, MSetGoal 2); (2500, MOp Count); (2625, MSetGoal 9); (2875, MOp Count)])
  = [EUpdated 0 [] true; EUpdated 0 [] true;
     EUpdated 1 [] true; ELegacyHit 1 (Some (1, 2)); EHit 1 (Some (1, 2));
     EUpdated 2 [] true; ELegacyHit 2 (Some (2, 0)); EHit 2 (Some (2, 0)); EComplete;
     EUpdated 3 [] true; ELegacyHit 3 (Some (3, 6)); EHit 3 (Some (3, 6))].
Proof. vm_compute. reflexivity. Qed.

Example mode_timed_run_ex :
  mrun_case (exm_plain, exm_cfg, [(2000, [MOp Count]); (2125, [MStart]); (2250, [MOp Count]); (3250, [MStop]); (4500, [])])
  = [MNoState 2000;
     MO (OEv 2125 (EUpdated 0 [] true)); MO (OEv 2125 (EUpdated 0 [] true)); MO (OSnap 2125 0 [] true false false true false);
     MO (OEv 2250 (EUpdated 1 [] true)); MO (OEv 2250 (ELegacyHit 1 (Some (1, 2)))); MO (OEv 2250 (EHit 1 (Some (1, 2))));
     MO (OSnap 2250 1 [] true false true true true);
     MO (OEv 3125 ETimeout); MO (OEv 3125 (EUpdated 0 [] true));
     MNoState 3250; MNoState 4500].
Proof. vm_compute. reflexivity. Qed.
