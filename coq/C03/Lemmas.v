(* C03/Lemmas.v — proofs about the model of Model.v.  Stdlib only, no axioms. *)
From Common Require Import Prelude.
From C03 Require Import Model.
Open Scope Z_scope.

(* ------------------------------------------------------------------------------------------------ *)
(* generic fold invariants                                                                           *)
Lemma fold_inv {X Y} (f : X -> Y -> X) (P : X -> Prop) (l : list Y) :
  (forall a b, P a -> P (f a b)) -> forall a, P a -> P (fold_left f l a).
Proof. intros H. induction l as [|y l IH]; cbn; intros a Ha; [exact Ha | apply IH, H, Ha]. Qed.

Lemma fold_inv_in {X Y} (f : X -> Y -> X) (P : X -> Prop) (l : list Y) :
  (forall a b, In b l -> P a -> P (f a b)) -> forall a, P a -> P (fold_left f l a).
Proof.
  induction l as [|y l IH]; cbn; intros H a Ha; [exact Ha|].
  apply IH; [intros; apply H; auto | apply H; auto].
Qed.

(* ------------------------------------------------------------------------------------------------ *)
(* 1. the switch fields are touched by real changes only                                             *)
Definition sw_eq (s s' : state) : Prop :=
  inv s' = inv s /\ sst s' = sst s /\ hw s' = hw s /\ lc s' = lc s.

Lemma sw_eq_refl s : sw_eq s s. Proof. repeat split. Qed.
Lemma sw_eq_trans a b c : sw_eq a b -> sw_eq b c -> sw_eq a c.
Proof. unfold sw_eq; intros (?&?&?&?) (?&?&?&?); repeat split; congruence. Qed.

Lemma add_sw now s cb st ms : sw_eq s (add now s cb st ms).
Proof. repeat split. Qed.
Lemma rem_sw s cb st ms : sw_eq s (rem s cb st ms).
Proof. repeat split. Qed.
Lemma set_tm_sw s T : sw_eq s (set_tm s T).
Proof. repeat split. Qed.

Lemma run_acts_sw now l s : sw_eq s (run_acts now s l).
Proof.
  unfold run_acts. apply (fold_inv (run_act now) (sw_eq s)); [|apply sw_eq_refl].
  intros a b Ha. eapply sw_eq_trans; [exact Ha|]. destruct b; [apply add_sw | apply rem_sw].
Qed.

Lemma set_dv_sw s d : sw_eq s (set_dv s d).
Proof. repeat split. Qed.

Lemma invoke_sw A now s cb v : sw_eq s (fst (invoke A now s cb v)).
Proof.
  unfold invoke. destruct (is_rcb cb); [|apply run_acts_sw].
  destruct (rc (dv s)); cbn [fst]; [apply sw_eq_refl | apply set_dv_sw].
Qed.

Lemma recycle_passed_sw now s : sw_eq s (fst (recycle_passed now s)).
Proof. unfold recycle_passed. destruct (rc (dv s)) as [[t v0]|]; cbn [fst]; [apply set_dv_sw | apply sw_eq_refl]. Qed.

Lemma call_one_sw A now v s0 acc e : sw_eq s0 (fst acc) -> sw_eq s0 (fst (call_one A now v acc e)).
Proof.
  destruct acc as [s lg]; unfold call_one; cbn [fst]. intros H.
  destruct (negb (live s v e)); [exact H|].
  destruct (snd e =? 0); cbn [fst].
  - eapply sw_eq_trans; [exact H | apply invoke_sw].
  - eapply sw_eq_trans; [exact H | apply set_tm_sw].
Qed.

Lemma call_handlers_sw A now s v : sw_eq s (fst (call_handlers A now s v)).
Proof.
  unfold call_handlers.
  apply (fold_inv (call_one A now v) (fun acc => sw_eq s (fst acc))); [|apply sw_eq_refl].
  intros; apply call_one_sw; assumption.
Qed.

Lemma proc_one_sw A now k s0 acc e : sw_eq s0 (fst acc) -> sw_eq s0 (fst (proc_one A now k acc e)).
Proof.
  destruct acc as [s lg]; unfold proc_one; cbn [fst]. intros H.
  destruct (existsb _ _); cbn [fst]; [|exact H].
  eapply sw_eq_trans; [exact H | apply run_acts_sw].
Qed.

Lemma proc_key_sw A now s0 acc k : sw_eq s0 (fst acc) -> sw_eq s0 (fst (proc_key A now acc k)).
Proof.
  destruct acc as [s lg]; unfold proc_key; cbn [fst]. intros H.
  destruct (k <=? now); [|exact H].
  pose proof (fold_inv (proc_one A now k) (fun acc => sw_eq s0 (fst acc)) (tbl_get (get_tbl s) k)
                (fun a b Ha => proc_one_sw A now k s0 a b Ha) (s, lg) H) as H1.
  destruct (fold_left _ _ _) as [s1 lg1]; cbn [fst] in *.
  eapply sw_eq_trans; [exact H1 | apply set_tm_sw].
Qed.

Lemma process_sw A now s w : sw_eq s (fst (process A now s w)).
Proof.
  unfold process.
  destruct (cur _) as [c|]; [|apply set_tm_sw].
  destruct (timed _) as [d|]; [|apply set_tm_sw].
  match goal with |- context [fold_left ?f ?l ?a0] =>
    pose proof (fold_inv f (fun acc => sw_eq s (fst acc)) l
                  (fun x y Hx => proc_key_sw A now s x y Hx) a0 (set_tm_sw _ _)) as H1;
    destruct (fold_left f l a0) as [s2 lg] end.
  cbn [fst] in *. eapply sw_eq_trans; [exact H1 | apply set_tm_sw].
Qed.

(* what a report does to the switch fields *)
Lemma report_state A now s lg v :
  let s' := fst (report A now s lg v) in
  inv s' = inv s /\ sst s' = logical_of (inv s) lg v.
Proof.
  unfold report. destruct (Bool.eqb _ _) eqn:E; cbn [fst].
  - apply eqb_prop in E. split; [reflexivity | symmetry; exact E].
  - destruct (mutes (dv s)); cbn [fst]; [|split; reflexivity].
    destruct (call_handlers_sw A now
               (mkS (inv s) (logical_of (inv s) lg v) (hw_of (inv s) lg v) now (rg s) (cancel (tm s)) (dv s))
               (logical_of (inv s) lg v)) as (H1 & H2 & _).
    cbn in H1, H2. split; assumption.
Qed.

Lemma logical_hw nc lg v : hw_of nc lg v = xorb (logical_of nc lg v) nc.
Proof. destruct nc, lg, v; reflexivity. Qed.

Lemma report_hw A now s lg v :
  hw s = xorb (sst s) (inv s) ->
  let s' := fst (report A now s lg v) in hw s' = xorb (sst s') (inv s').
Proof.
  intros Hc. unfold report. destruct (Bool.eqb _ _) eqn:E; cbn [fst]; [exact Hc|].
  destruct (mutes (dv s)); cbn [fst]; [|cbn; apply logical_hw].
  destruct (call_handlers_sw A now
               (mkS (inv s) (logical_of (inv s) lg v) (hw_of (inv s) lg v) now (rg s) (cancel (tm s)) (dv s))
               (logical_of (inv s) lg v)) as (H1 & H2 & H3 & _).
  cbn in H1, H2, H3. rewrite H1, H2, H3. apply logical_hw.
Qed.

(* the logical value of the last report of a history (None: no report yet) *)
Fixpoint last_logical (nc : bool) (evs : list (Z * ev)) (cur0 : bool) : bool :=
  match evs with
  | [] => cur0
  | (_, EOp (OReport lg v)) :: evs' => last_logical nc evs' (logical_of nc lg v)
  | _ :: evs' => last_logical nc evs' cur0
  end.

Lemma step_sw_other A s te :
  (forall lg v, snd te <> EOp (OReport lg v)) -> sw_eq s (fst (step A s te)).
Proof.
  destruct te as [t e]; unfold step; cbn [fst snd]. intros H.
  destruct e as [o| |].
  - destruct o; cbn [step_op fst]; try apply sw_eq_refl.
    + exfalso; eapply H; reflexivity.
    + apply add_sw.
    + apply rem_sw.
    + apply set_dv_sw.
    + apply set_dv_sw.
  - destruct (earliest _) as [[w tw]|]; [apply process_sw | apply sw_eq_refl].
  - apply recycle_passed_sw.
Qed.

Lemma step_fields A s te :
  hw s = xorb (sst s) (inv s) ->
  let s1 := fst (step A s te) in
  inv s1 = inv s /\ hw s1 = xorb (sst s1) (inv s1) /\
  sst s1 = match te with (_, EOp (OReport lg v)) => logical_of (inv s) lg v | _ => sst s end.
Proof.
  intros Hc.
  assert (Hother : (forall lg v, snd te <> EOp (OReport lg v)) ->
                   let s1 := fst (step A s te) in
                   inv s1 = inv s /\ hw s1 = xorb (sst s1) (inv s1) /\ sst s1 = sst s).
  { intros H. destruct (step_sw_other A s te H) as (H1&H2&H3&_). cbn zeta.
    rewrite H1, H2, H3. repeat split; assumption. }
  destruct te as [t [o| |]].
  - destruct o as [lg v|cb st ms|cb st ms|st ms|src|src|].
    + unfold step; cbn [fst snd step_op].
      pose proof (report_state A t s lg v) as (H1 & H2). pose proof (report_hw A t s lg v Hc) as H3.
      cbn zeta in *. repeat split; assumption.
    + apply Hother; cbn; intros; discriminate.
    + apply Hother; cbn; intros; discriminate.
    + apply Hother; cbn; intros; discriminate.
    + apply Hother; cbn; intros; discriminate.
    + apply Hother; cbn; intros; discriminate.
    + apply Hother; cbn; intros; discriminate.
  - apply Hother; cbn; intros; discriminate.
  - apply Hother; cbn; intros; discriminate.
Qed.

Lemma state_mirrors_l A evs : forall s,
  hw s = xorb (sst s) (inv s) ->
  let s' := fst (exec A s evs) in
  inv s' = inv s /\ sst s' = last_logical (inv s) evs (sst s) /\ hw s' = xorb (sst s') (inv s').
Proof.
  induction evs as [|te evs IH]; intros s Hc; cbn [exec fst last_logical].
  - repeat split; assumption.
  - pose proof (step_fields A s te Hc) as Hs1. cbn zeta in Hs1.
    destruct (step A s te) as [s1 l1] eqn:E1. cbn [fst] in Hs1.
    destruct Hs1 as (Hi & Hh & Hst).
    specialize (IH s1 Hh). cbn zeta in IH.
    destruct (exec A s1 evs) as [s2 l2] eqn:E2. cbn [fst] in *. destruct IH as (I1 & I2 & I3).
    split; [congruence|]. split; [|exact I3].
    rewrite I2, Hi, Hst. destruct te as [t [[lg v| | | | | |]| |]]; reflexivity.
Qed.

Lemma duplicate_is_noop_l A now s lg v :
  logical_of (inv s) lg v = sst s -> step_op A now s (OReport lg v) = (s, []).
Proof.
  intros H. cbn [step_op]. unfold report. rewrite H. rewrite eqb_reflx. reflexivity.
Qed.

(* ------------------------------------------------------------------------------------------------ *)
(* 2. exactly one wake-up handle per switch, and _process_active_timed_switches never hits a missing  *)
(*    dictionary entry (fix 3)                                                                        *)
Definition W (T : timers) : Prop :=
  wakes T = match cur T with Some w => [w] | None => [] end /\ (cur T <> None -> timed T <> None).

Definition nocrash (l : list obs) : Prop := forall t, ~ In (Crash t) l.

Lemma nocrash_nil : nocrash []. Proof. intros t H; destruct H. Qed.
Lemma nocrash_app a b : nocrash a -> nocrash b -> nocrash (a ++ b).
Proof. intros Ha Hb t H. apply in_app_or in H as [H|H]; [eapply Ha | eapply Hb]; eauto. Qed.
Lemma nocrash_fire t cb st ms : nocrash [Fire t cb st ms].
Proof. intros t' [H|[]]; discriminate. Qed.

Lemma drop_wake_self w : drop_wake (fst w) [w] = [].
Proof. unfold drop_wake; cbn. rewrite Z.eqb_refl. reflexivity. Qed.

Lemma schedule_W t T : wakes T = [] -> timed T <> None -> W (schedule t T).
Proof. intros Hw Ht. unfold W, schedule; cbn. rewrite Hw. split; [reflexivity | intros _; exact Ht]. Qed.

Lemma clear_cur_spec T : W T ->
  cur (clear_cur T) = None /\ wakes (clear_cur T) = [] /\ timed (clear_cur T) = timed T.
Proof.
  intros [Hw _]. unfold clear_cur. destruct (cur T) as [[w tw]|] eqn:E; cbn.
  - rewrite Hw. change w with (fst (w, tw)). rewrite drop_wake_self. auto.
  - rewrite E, Hw. auto.
Qed.

Lemma add_timed_W T k e : W T -> W (add_timed T k e).
Proof.
  intros [Hw Ht]. unfold add_timed.
  set (d' := match timed T with None => [(k, [e])] | Some d => tbl_add d k e end).
  cbn [t_timed cur]. destruct (cur T) as [[w tw]|] eqn:E.
  - destruct (tbl_min d' <? tw).
    + apply schedule_W; cbn; [|discriminate]. rewrite Hw. change w with (fst (w, tw)). apply drop_wake_self.
    + unfold W; cbn. rewrite E. split; [exact Hw | discriminate].
  - apply schedule_W; cbn; [exact Hw | discriminate].
Qed.

Lemma cancel_W T : W T -> W (cancel T).
Proof.
  intros H. unfold cancel. destruct (timed T) eqn:E; [|exact H].
  destruct (clear_cur_spec T H) as (H1 & H2 & _).
  unfold W; cbn. rewrite H1, H2. split; [reflexivity | intros C; contradiction].
Qed.

Lemma resched_W T : W T -> W (resched T).
Proof.
  intros H. unfold resched. destruct (clear_cur_spec T H) as (H1 & H2 & H3).
  destruct (timed (clear_cur T)) as [[|kl d]|] eqn:E.
  - unfold W. rewrite H1, H2. split; [reflexivity | intros C; contradiction].
  - apply schedule_W; [exact H2 | rewrite E; discriminate].
  - unfold W. rewrite H1, H2. split; [reflexivity | intros C; contradiction].
Qed.

Lemma add_W now s cb st ms : W (tm s) -> W (tm (add now s cb st ms)).
Proof. intros H. unfold add; cbn [tm]. destruct (_ && _); [apply add_timed_W|]; exact H. Qed.

Lemma rem_W s cb st ms : W (tm s) -> W (tm (rem s cb st ms)).
Proof.
  intros H. unfold rem; cbn [tm]. destruct (timed (tm s)) eqn:E; [|exact H].
  destruct H as [Hw _]. unfold W; cbn. split; [exact Hw | discriminate].
Qed.

Lemma run_acts_W now l s : W (tm s) -> W (tm (run_acts now s l)).
Proof.
  unfold run_acts. apply (fold_inv (run_act now) (fun s => W (tm s))).
  intros a b Ha. destruct b; [apply add_W | apply rem_W]; exact Ha.
Qed.

Definition WN (acc : state * list obs) : Prop := W (tm (fst acc)) /\ nocrash (snd acc).

Lemma invoke_WN A now s cb v : W (tm s) -> WN (invoke A now s cb v).
Proof.
  intros H. unfold invoke. destruct (is_rcb cb).
  - destruct (rc (dv s)); (split; cbn [fst snd]; [exact H|]); [apply nocrash_nil | apply nocrash_fire].
  - split; cbn [fst snd]; [apply run_acts_W; exact H | apply nocrash_fire].
Qed.

Lemma recycle_passed_WN now s : W (tm s) -> WN (recycle_passed now s).
Proof.
  intros H. unfold recycle_passed. destruct (rc (dv s)) as [[t v0]|]; (split; cbn [fst snd]; [exact H|]).
  - destruct (Bool.eqb _ _); [apply nocrash_nil | apply nocrash_fire].
  - apply nocrash_nil.
Qed.

Lemma call_one_WN A now v acc e : WN acc -> WN (call_one A now v acc e).
Proof.
  destruct acc as [s lg]; unfold WN, call_one; cbn [fst snd]. intros [H1 H2].
  destruct (negb (live s v e)); [split; assumption|].
  destruct (snd e =? 0); cbn [fst snd]; split.
  - apply invoke_WN; exact H1.
  - apply nocrash_app; [exact H2 | apply invoke_WN; exact H1].
  - cbn. apply add_timed_W; exact H1.
  - exact H2.
Qed.

Lemma call_handlers_WN A now s v : W (tm s) -> WN (call_handlers A now s v).
Proof.
  intros H. unfold call_handlers. apply (fold_inv (call_one A now v) WN).
  - intros; apply call_one_WN; assumption.
  - split; [exact H | apply nocrash_nil].
Qed.

Lemma report_WN A now s lg v : W (tm s) -> WN (report A now s lg v).
Proof.
  intros H. unfold report. destruct (Bool.eqb _ _).
  - split; [exact H | apply nocrash_nil].
  - destruct (mutes (dv s)).
    + apply call_handlers_WN. cbn. apply cancel_W; exact H.
    + split; cbn [fst snd]; [cbn; apply cancel_W; exact H | apply nocrash_nil].
Qed.

Lemma proc_one_WN A now k acc e : WN acc -> WN (proc_one A now k acc e).
Proof.
  destruct acc as [s lg]; unfold WN, proc_one; cbn [fst snd]. intros [H1 H2].
  destruct (existsb _ _); cbn [fst snd]; split; try assumption.
  - apply run_acts_W; exact H1.
  - apply nocrash_app; [exact H2 | apply nocrash_fire].
Qed.

Lemma proc_key_WN A now acc k : WN acc -> WN (proc_key A now acc k).
Proof.
  destruct acc as [s lg]; unfold proc_key. intros H.
  destruct (k <=? now); [|exact H].
  pose proof (fold_inv (proc_one A now k) WN (tbl_get (get_tbl s) k)
                (fun x y Hx => proc_one_WN A now k x y Hx) (s, lg) H) as H1.
  destruct (fold_left _ _ _) as [s1 lg1]. destruct H1 as [[Hw _] Hn]; cbn [fst snd] in *.
  split; cbn [fst snd]; [|exact Hn]. unfold W; cbn. split; [exact Hw | discriminate].
Qed.

Lemma earliest_single (w : wake) : earliest [w] = Some w.
Proof. reflexivity. Qed.

Lemma process_WN A now s w tw :
  W (tm s) -> earliest (wakes (tm s)) = Some (w, tw) -> WN (process A now s w).
Proof.
  intros [Hw Ht] He. unfold process.
  destruct (cur (tm s)) as [c|] eqn:Ec; [|rewrite Hw in He; discriminate].
  rewrite Hw in He. cbn in He. injection He as ->.
  cbn [cur timed wakes wid].
  destruct (timed (tm s)) as [d|] eqn:Ed; [|exfalso; apply Ht; [discriminate | reflexivity]].
  rewrite Hw. change w with (fst (w, tw)). rewrite drop_wake_self.
  match goal with |- context [fold_left ?f ?l ?a0] =>
    assert (H0 : WN a0) by (split; [unfold W; cbn; split; [reflexivity | intros C; contradiction] | apply nocrash_nil]);
    pose proof (fold_inv f WN l (fun x y Hx => proc_key_WN A now x y Hx) a0 H0) as H1;
    destruct (fold_left f l a0) as [s2 lg] end.
  destruct H1 as [H1 H2]; cbn [fst snd] in *. split; cbn [fst snd]; [|exact H2].
  cbn. apply resched_W; exact H1.
Qed.

Lemma step_WN A s te : W (tm s) -> WN (step A s te).
Proof.
  intros H. destruct te as [t [o| |]]; unfold step; cbn [fst snd].
  - destruct o; cbn [step_op].
    + apply report_WN; exact H.
    + split; [apply add_W; exact H | apply nocrash_nil].
    + split; [apply rem_W; exact H | apply nocrash_nil].
    + split; [exact H | intros t' [C|[]]; discriminate].
    + split; [exact H | apply nocrash_nil].
    + split; [exact H | apply nocrash_nil].
    + split; [exact H | apply nocrash_nil].
  - destruct (earliest _) as [[w tw]|] eqn:E.
    + eapply process_WN; eauto.
    + split; [exact H | apply nocrash_nil].
  - apply recycle_passed_WN; exact H.
Qed.

Lemma exec_WN A evs : forall s, W (tm s) -> WN (exec A s evs).
Proof.
  induction evs as [|te evs IH]; intros s H; cbn [exec].
  - split; [exact H | apply nocrash_nil].
  - pose proof (step_WN A s te H) as H1. destruct (step A s te) as [s1 l1].
    destruct H1 as [H1 H2]; cbn [fst snd] in *.
    specialize (IH s1 H1). destruct (exec A s1 evs) as [s2 l2]. destruct IH as [I1 I2]; cbn [fst snd] in *.
    split; cbn [fst snd]; [exact I1 | apply nocrash_app; assumption].
Qed.

Lemma init_W nc st h lc0 win a b : W (tm (init_state nc st h lc0 win a b)).
Proof. unfold W; cbn. split; [reflexivity | intros C; contradiction]. Qed.

(* ------------------------------------------------------------------------------------------------ *)
(* 3. a removed handler never fires                                                                   *)
Lemma eq_triple_true a b : eq_triple a b = true ->
  fst (fst a) = fst (fst b) /\ snd (fst a) = snd (fst b) /\ snd a = snd b.
Proof.
  unfold eq_triple. intros H. apply andb_true_iff in H as [H H3]. apply andb_true_iff in H as [H1 H2].
  apply Z.eqb_eq in H1, H3. apply eqb_prop in H2. auto.
Qed.

Lemma eq_triple_refl a : eq_triple a a = true.
Proof. unfold eq_triple. rewrite !Z.eqb_refl, eqb_reflx. reflexivity. Qed.

Lemma eq_triple_trans_false a b x : eq_triple a b = true -> eq_triple b x = false -> eq_triple a x = false.
Proof.
  intros H. apply eq_triple_true in H as (H1 & H2 & H3). unfold eq_triple. rewrite H1, H2, H3. auto.
Qed.

Definition tbl_ok (x : triple) (d : table) : Prop :=
  forall k l, In (k, l) d -> forall e, In e l -> eq_triple e x = false.

Lemma tbl_add_ok x d k e : tbl_ok x d -> eq_triple e x = false -> tbl_ok x (tbl_add d k e).
Proof.
  intros Hd He. induction d as [|[k' l'] d IH]; cbn.
  - intros k0 l0 [H|[]] e0 H0. injection H as <- <-. destruct H0 as [<-|[]]. exact He.
  - assert (Hd' : tbl_ok x d) by (intros k0 l0 H; apply (Hd k0 l0); right; exact H).
    destruct (k =? k').
    + intros k0 l0 [H|H] e0 H0.
      * injection H as <- <-. apply in_app_or in H0 as [H0|[<-|[]]]; [|exact He].
        apply (Hd k' l'); [left; reflexivity | exact H0].
      * apply (Hd' k0 l0 H e0 H0).
    + intros k0 l0 [H|H] e0 H0.
      * apply (Hd k0 l0); [left; exact H | exact H0].
      * apply (IH Hd' k0 l0 H e0 H0).
Qed.

Lemma tbl_del_ok x d k : tbl_ok x d -> tbl_ok x (tbl_del d k).
Proof.
  intros Hd. induction d as [|[k' l'] d IH]; cbn; [exact Hd|].
  assert (Hd' : tbl_ok x d) by (intros k0 l0 H; apply (Hd k0 l0); right; exact H).
  destruct (k =? k'); [exact Hd'|].
  intros k0 l0 [H|H] e0 H0.
  - apply (Hd k0 l0); [left; exact H | exact H0].
  - apply (IH Hd' k0 l0 H e0 H0).
Qed.

Lemma tbl_filter_ok x y d : tbl_ok x d -> tbl_ok x (tbl_filter y d).
Proof.
  intros Hd k l H e He. unfold tbl_filter in H. apply in_map_iff in H as ([k' l'] & Heq & Hin).
  cbn in Heq. injection Heq as <- <-. apply filter_In in He as [He _]. apply (Hd k' l' Hin e He).
Qed.

Lemma tbl_filter_self x d : tbl_ok x (tbl_filter x d).
Proof.
  intros k l H e He. unfold tbl_filter in H. apply in_map_iff in H as ([k' l'] & Heq & Hin).
  cbn in Heq. injection Heq as <- <-. apply filter_In in He as [_ He]. apply negb_true_iff in He. exact He.
Qed.

Lemma tbl_get_ok x d k e : tbl_ok x d -> In e (tbl_get d k) -> eq_triple e x = false.
Proof.
  intros Hd. induction d as [|[k' l'] d IH]; cbn; [intros []|].
  assert (Hd' : tbl_ok x d) by (intros k0 l0 H; apply (Hd k0 l0); right; exact H).
  destruct (k =? k'); intros H.
  - apply (Hd k' l'); [left; reflexivity | exact H].
  - apply IH; assumption.
Qed.

Lemma timed_add_timed T k e :
  timed (add_timed T k e) = Some (match timed T with None => [(k, [e])] | Some d => tbl_add d k e end).
Proof.
  unfold add_timed. cbn [t_timed cur]. destruct (cur T) as [[w tw]|]; [destruct (_ <? _)|]; reflexivity.
Qed.

Lemma reg_of_set_reg r st' l st :
  reg_of (set_reg r st' l) st = if Bool.eqb st st' then l else reg_of r st.
Proof. destruct st, st'; reflexivity. Qed.

Section Removed.
  Variables (A : Z -> list act) (cb : Z) (st : bool) (ms : Z).
  Let x : triple := (cb, st, ms).

  Definition act_ok (a : act) : Prop := a <> AAdd cb st ms.
  Definition acts_ok : Prop := forall c, Forall act_ok (A c).
  Definition ev_ok (te : Z * ev) : Prop := snd te <> EOp (OAdd cb st ms).

  Definition absent (s : state) : Prop :=
    (forall e, In e (reg_of (rg s) st) -> ent_match cb ms e = false) /\ tbl_ok x (get_tbl s).

  Definition nofire (l : list obs) : Prop := forall t, ~ In (Fire t cb st ms) l.

  Lemma nofire_nil : nofire []. Proof. intros t []. Qed.
  Lemma nofire_app a b : nofire a -> nofire b -> nofire (a ++ b).
  Proof. intros Ha Hb t H. apply in_app_or in H as [H|H]; [eapply Ha | eapply Hb]; eauto. Qed.

  Lemma neq_triple cb' st' ms' : AAdd cb' st' ms' <> AAdd cb st ms -> eq_triple (cb', st', ms') x = false.
  Proof.
    intros H. destruct (eq_triple (cb', st', ms') x) eqn:E; [|reflexivity].
    apply eq_triple_true in E as (E1 & E2 & E3). cbn in E1, E2, E3. subst. contradiction.
  Qed.

  Lemma get_tbl_add_timed T k e :
    tbl_ok x (match timed T with Some d => d | None => [] end) -> eq_triple e x = false ->
    tbl_ok x (match timed (add_timed T k e) with Some d => d | None => [] end).
  Proof.
    intros Hd He. rewrite timed_add_timed. destruct (timed T) as [d|].
    - apply tbl_add_ok; assumption.
    - change [(k, [e])] with (tbl_add [] k e). apply tbl_add_ok; assumption.
  Qed.

  Lemma add_absent now s cb' st' ms' :
    AAdd cb' st' ms' <> AAdd cb st ms -> absent s -> absent (add now s cb' st' ms').
  Proof.
    intros Hne [Hr Ht]. pose proof (neq_triple _ _ _ Hne) as Hx. split.
    - unfold add; cbn [rg]. intros e. rewrite reg_of_set_reg. cbn [reg_of].
      destruct (Bool.eqb st st') eqn:E.
      + apply eqb_prop in E; subst st'. intros H. apply in_app_or in H as [H|[<-|[]]].
        * apply Hr. destruct st; exact H.
        * unfold ent_match; cbn. unfold eq_triple in Hx; cbn in Hx. rewrite eqb_reflx, andb_true_r in Hx.
          rewrite andb_comm. exact Hx.
      + intros H. apply Hr. destruct st; exact H.
    - unfold get_tbl, add; cbn [tm]. destruct (_ && _); [|exact Ht].
      apply get_tbl_add_timed; assumption.
  Qed.

  Lemma rem_absent_pres s cb' st' ms' : absent s -> absent (rem s cb' st' ms').
  Proof.
    intros [Hr Ht]. split.
    - unfold rem; cbn [rg]. intros e. rewrite reg_of_set_reg. destruct (Bool.eqb st st') eqn:E.
      + apply eqb_prop in E; subst st'. intros H. apply filter_In in H as [H _]. apply Hr, H.
      + apply Hr.
    - unfold get_tbl, rem; cbn [tm]. unfold get_tbl in Ht. destruct (timed (tm s)) as [d|] eqn:E; cbn.
      + apply tbl_filter_ok; exact Ht.
      + rewrite E. exact Ht.
  Qed.

  Lemma rem_makes_absent s : absent (rem s cb st ms).
  Proof.
    split.
    - unfold rem; cbn [rg]. intros e. rewrite reg_of_set_reg, eqb_reflx. intros H.
      apply filter_In in H as [_ H]. apply negb_true_iff in H. exact H.
    - unfold get_tbl, rem; cbn [tm]. destruct (timed (tm s)) as [d|] eqn:E; cbn.
      + apply tbl_filter_self.
      + rewrite E. intros k l [].
  Qed.

  Hypothesis HA : acts_ok.

  Lemma run_acts_absent now c s : absent s -> absent (run_acts now s (A c)).
  Proof.
    unfold run_acts. specialize (HA c). revert s. induction (A c) as [|a l IH]; cbn; intros s Hs; [exact Hs|].
    inversion HA as [|? ? Ha Hl]; subst. apply IH; [exact Hl|].
    destruct a; cbn; [apply add_absent; [exact Ha | exact Hs] | apply rem_absent_pres; exact Hs].
  Qed.

  Lemma live_absent s e : absent s -> live s st e = true -> ent_match cb ms e = false.
  Proof.
    intros [Hr _] H. unfold live in H. apply existsb_exists in H as (e' & Hin & He).
    specialize (Hr e' Hin). unfold ent_eqb in He. apply andb_true_iff in He as [He H3].
    apply andb_true_iff in He as [H1 H2]. apply Z.eqb_eq in H2, H3.
    unfold ent_match in *. rewrite H2, H3. exact Hr.
  Qed.

  Definition AN (acc : state * list obs) : Prop := absent (fst acc) /\ nofire (snd acc).

  (* the removed handler is a user callback, not one of the Switch device's own event posts *)
  Hypothesis Hcb : is_ev cb = false.

  Lemma set_dv_absent s d : absent s -> absent (set_dv s d).
  Proof. intros H; exact H. Qed.

  Lemma ev_fire_neq t now v : Fire t cb st ms <> Fire now (1000 + b2z v) v 0.
  Proof.
    intros C. injection C as _ Hc _ _. unfold is_ev in Hcb. apply Z.leb_gt in Hcb. destruct v; cbn in Hc; lia.
  Qed.

  Lemma invoke_AN now s cb' v :
    absent s -> ~ (cb' = cb /\ v = st /\ ms = 0) -> AN (invoke A now s cb' v).
  Proof.
    intros H Hn. unfold invoke. destruct (is_rcb cb').
    - destruct (rc (dv s)); split; cbn [fst snd]; try exact H; try apply nofire_nil.
      intros t [C|[]]. symmetry in C. revert C. apply ev_fire_neq.
    - split; cbn [fst snd]; [apply run_acts_absent; exact H|].
      intros t [C|[]]. injection C as _ Hc Hv Hms. apply Hn. auto.
  Qed.

  Lemma recycle_passed_AN now s : absent s -> AN (recycle_passed now s).
  Proof.
    intros H. unfold recycle_passed. destruct (rc (dv s)) as [[t0 v0]|]; split; cbn [fst snd]; try exact H;
      try apply nofire_nil.
    destruct (Bool.eqb _ _); [apply nofire_nil|].
    intros t [C|[]]. symmetry in C. revert C. apply ev_fire_neq.
  Qed.

  Lemma call_one_AN now v acc e : AN acc -> AN (call_one A now v acc e).
  Proof.
    destruct acc as [s lg]; unfold AN, call_one; cbn [fst snd]. intros [H1 H2].
    destruct (negb (live s v e)) eqn:El; [split; assumption|].
    apply negb_false_iff in El.
    assert (Hm : v = st -> ent_match cb ms e = false) by (intros ->; eapply live_absent; eauto).
    destruct (snd e =? 0) eqn:E0; cbn [fst snd]; split.
    - apply invoke_AN; [exact H1|]. intros (Hc & Hv & Hms). specialize (Hm Hv).
      unfold ent_match in Hm. apply Z.eqb_eq in E0. rewrite E0, Hc, Hms, !Z.eqb_refl in Hm. discriminate.
    - apply nofire_app; [exact H2|]. apply invoke_AN; [exact H1|]. intros (Hc & Hv & Hms). specialize (Hm Hv).
      unfold ent_match in Hm. apply Z.eqb_eq in E0. rewrite E0, Hc, Hms, !Z.eqb_refl in Hm. discriminate.
    - destruct H1 as [Hr Ht]. split; [exact Hr|]. unfold get_tbl; cbn [set_tm tm].
      apply get_tbl_add_timed; [exact Ht|].
      destruct (eq_triple (snd (fst e), v, snd e) x) eqn:Ex; [|reflexivity].
      apply eq_triple_true in Ex as (E1 & E2 & E3). cbn in E1, E2, E3. subst v.
      specialize (Hm eq_refl). unfold ent_match in Hm. rewrite E1, E3, !Z.eqb_refl in Hm. discriminate.
    - exact H2.
  Qed.

  Lemma call_handlers_AN now s v : absent s -> AN (call_handlers A now s v).
  Proof.
    intros H. unfold call_handlers. apply (fold_inv (call_one A now v) AN).
    - intros; apply call_one_AN; assumption.
    - split; [exact H | apply nofire_nil].
  Qed.

  Lemma report_AN now s lg v : absent s -> AN (report A now s lg v).
  Proof.
    intros H. unfold report. destruct (Bool.eqb _ _).
    - split; [exact H | apply nofire_nil].
    - match goal with |- context [call_handlers A now ?s1 _] => assert (Hs1 : absent s1) end.
      { destruct H as [Hr Ht]. split; [exact Hr|].
        unfold get_tbl in *; cbn [tm]. unfold cancel. destruct (timed (tm s)) as [d|] eqn:E.
        + cbn. intros k l [].
        + rewrite E. exact Ht. }
      destruct (mutes (dv s)); [apply call_handlers_AN; exact Hs1 | split; [exact Hs1 | apply nofire_nil]].
  Qed.

  Lemma proc_one_AN now k acc e : AN acc -> AN (proc_one A now k acc e).
  Proof.
    destruct acc as [s lg]; unfold AN, proc_one; cbn [fst snd]. intros [H1 H2].
    destruct (existsb _ _) eqn:Ee; cbn [fst snd]; split; try assumption.
    - apply run_acts_absent; exact H1.
    - apply nofire_app; [exact H2|]. intros t [H|[]]. injection H as _ Hc Hv Hms.
      apply existsb_exists in Ee as (e' & Hin & He).
      destruct H1 as [_ Ht]. pose proof (tbl_get_ok x _ _ _ Ht Hin) as Hx.
      pose proof (eq_triple_trans_false _ _ _ He Hx) as Hf.
      unfold eq_triple, x in Hf; cbn in Hf. rewrite Hc, Hv, Hms, !Z.eqb_refl, eqb_reflx in Hf. discriminate.
  Qed.

  Lemma proc_key_AN now acc k : AN acc -> AN (proc_key A now acc k).
  Proof.
    destruct acc as [s lg]; unfold proc_key. intros H.
    destruct (k <=? now); [|exact H].
    pose proof (fold_inv (proc_one A now k) AN (tbl_get (get_tbl s) k)
                  (fun a b Ha => proc_one_AN now k a b Ha) (s, lg) H) as H1.
    destruct (fold_left _ _ _) as [s1 lg1]. destruct H1 as [[Hr Ht] Hn]; cbn [fst snd] in *.
    split; cbn [fst snd]; [|exact Hn]. split; [exact Hr|].
    unfold get_tbl at 1; cbn. apply tbl_del_ok; exact Ht.
  Qed.

  Lemma timed_resched T : timed (resched T) = timed T.
  Proof.
    unfold resched.
    assert (H : timed (clear_cur T) = timed T) by (unfold clear_cur; destruct (cur T) as [[? ?]|]; reflexivity).
    destruct (timed (clear_cur T)) as [[|kl d]|] eqn:E; cbn; congruence.
  Qed.

  Lemma process_AN now s w : absent s -> AN (process A now s w).
  Proof.
    intros [Hr Ht]. unfold process. cbn [cur timed wakes wid].
    destruct (cur (tm s)) as [c|]; [|split; [split; [exact Hr | exact Ht] | intros t [H|[]]; discriminate]].
    destruct (timed (tm s)) as [d|] eqn:Ed.
    - match goal with |- context [fold_left ?f ?l ?a0] =>
        assert (H0 : AN a0) by (split; [split; [exact Hr | unfold get_tbl in *; cbn; rewrite Ed in Ht; exact Ht]
                                       | apply nofire_nil]);
        pose proof (fold_inv f AN l (fun a b Ha => proc_key_AN now a b Ha) a0 H0) as H1;
        destruct (fold_left f l a0) as [s2 lg] end.
      destruct H1 as [[H1r H1t] H2]; cbn [fst snd] in *. split; cbn [fst snd]; [|exact H2].
      split; [exact H1r|]. unfold get_tbl in *; cbn [set_tm tm]. rewrite timed_resched. exact H1t.
    - split; [split; [exact Hr | cbn; intros k l []] | intros t [H|[]]; discriminate].
  Qed.

  Lemma step_AN s te : ev_ok te -> absent s -> AN (step A s te).
  Proof.
    intros Hev H. destruct te as [t [o| |]]; unfold step; cbn [fst snd].
    - destruct o as [lg v|cb' st' ms'|cb' st' ms'|st' ms'|src|src|]; cbn [step_op].
      + apply report_AN; exact H.
      + split; [|apply nofire_nil]. cbn [fst]. apply add_absent; [|exact H].
        intros C. apply Hev. cbn. injection C as -> -> ->. reflexivity.
      + split; [apply rem_absent_pres; exact H | apply nofire_nil].
      + split; [exact H | intros t' [C|[]]; discriminate].
      + split; [exact H | apply nofire_nil].
      + split; [exact H | apply nofire_nil].
      + split; [exact H | apply nofire_nil].
    - destruct (earliest _) as [[w tw]|].
      + apply process_AN; exact H.
      + split; [exact H | apply nofire_nil].
    - apply recycle_passed_AN; exact H.
  Qed.

  Lemma exec_AN evs : forall s, Forall ev_ok evs -> absent s -> AN (exec A s evs).
  Proof.
    induction evs as [|te evs IH]; intros s Hev H; cbn [exec].
    - split; [exact H | apply nofire_nil].
    - inversion Hev as [|? ? He Hevs]; subst.
      pose proof (step_AN s te He H) as H1. destruct (step A s te) as [s1 l1].
      destruct H1 as [H1 H2]; cbn [fst snd] in *.
      specialize (IH s1 Hevs H1). destruct (exec A s1 evs) as [s2 l2]. destruct IH as [I1 I2]; cbn [fst snd] in *.
      split; cbn [fst snd]; [exact I1 | apply nofire_app; assumption].
  Qed.

  Lemma removed_never_fires_l s evs :
    Forall ev_ok evs -> nofire (snd (exec A (rem s cb st ms) evs)).
  Proof. intros Hev. apply exec_AN; [exact Hev | apply rem_makes_absent]. Qed.
End Removed.

(* ------------------------------------------------------------------------------------------------ *)
(* 4. untimed handlers: exactly once per real change, in registration order                           *)
Definition adds_only (A : Z -> list act) : Prop :=
  forall c a, In a (A c) -> exists cb st ms, a = AAdd cb st ms.

Definition untimed_fires (now : Z) (v : bool) (l : list entry) : list obs :=
  flat_map (fun e => if snd e =? 0 then [Fire now (snd (fst e)) v 0] else []) l.

Lemma ent_eqb_refl e : ent_eqb e e = true.
Proof. unfold ent_eqb. rewrite !Z.eqb_refl. reflexivity. Qed.

Lemma in_live s v e : In e (reg_of (rg s) v) -> live s v e = true.
Proof. intros H. unfold live. apply existsb_exists. exists e. split; [exact H | apply ent_eqb_refl]. Qed.

Lemma add_reg_mono now s cb st ms v e :
  In e (reg_of (rg s) v) -> In e (reg_of (rg (add now s cb st ms)) v).
Proof.
  intros H. unfold add; cbn [rg]. rewrite reg_of_set_reg. destruct (Bool.eqb v st) eqn:E.
  - apply eqb_prop in E; subst. apply in_or_app; left. destruct st; exact H.
  - destruct v; exact H.
Qed.

Lemma run_acts_reg_mono A now c s v e :
  adds_only A -> In e (reg_of (rg s) v) -> In e (reg_of (rg (run_acts now s (A c))) v).
Proof.
  intros HA. specialize (HA c). unfold run_acts. revert s.
  induction (A c) as [|a l IH]; cbn [fold_left]; intros s H; [exact H|].
  apply IH; [intros a' Ha'; apply HA; right; exact Ha'|].
  destruct (HA a (or_introl eq_refl)) as (cb & st & ms & ->). cbn [run_act]. apply add_reg_mono; exact H.
Qed.

Lemma invoke_plain A now s cb v :
  is_rcb cb = false -> invoke A now s cb v = (run_acts now s (A cb), [Fire now cb v 0]).
Proof. unfold invoke; intros ->; reflexivity. Qed.

Lemma invoke_reg_mono A now s cb v v' e :
  adds_only A -> In e (reg_of (rg s) v') -> In e (reg_of (rg (fst (invoke A now s cb v))) v').
Proof.
  intros HA H. unfold invoke. destruct (is_rcb cb); [|apply run_acts_reg_mono; assumption].
  destruct (rc (dv s)); exact H.
Qed.

(* no ignore-window handler among the entries (ignore_window_ms = 0, the default) *)
Definition no_rcb (l : list entry) : Prop := forall e, In e l -> is_rcb (snd (fst e)) = false.

Lemma call_fold_log A now v : adds_only A -> forall l s lg,
  (forall e, In e l -> In e (reg_of (rg s) v)) -> no_rcb l ->
  snd (fold_left (call_one A now v) l (s, lg)) = lg ++ untimed_fires now v l.
Proof.
  intros HA. induction l as [|e l IH]; intros s lg Hin Hr; cbn [fold_left untimed_fires flat_map].
  - rewrite app_nil_r. reflexivity.
  - assert (Hr' : no_rcb l) by (intros e' He'; apply Hr; right; exact He').
    unfold call_one at 2. rewrite (in_live s v e (Hin e (or_introl eq_refl))). cbn [negb].
    destruct (snd e =? 0).
    + rewrite (invoke_plain A now s _ v (Hr e (or_introl eq_refl))). cbn [fst snd].
      rewrite IH; [rewrite <- app_assoc; reflexivity | | exact Hr'].
      intros e' He'. apply run_acts_reg_mono; [exact HA | apply Hin; right; exact He'].
    + rewrite IH; [reflexivity | | exact Hr']. intros e' He'. cbn. apply Hin; right; exact He'.
Qed.

Lemma untimed_once_l A now s lg val :
  adds_only A -> logical_of (inv s) lg val <> sst s -> mutes (dv s) = [] ->
  no_rcb (reg_of (rg s) (logical_of (inv s) lg val)) ->
  snd (report A now s lg val)
  = untimed_fires now (logical_of (inv s) lg val) (reg_of (rg s) (logical_of (inv s) lg val)).
Proof.
  intros HA Hne Hm Hr. unfold report. destruct (Bool.eqb _ _) eqn:E; [apply eqb_prop in E; contradiction|].
  rewrite Hm. unfold call_handlers. cbn [rg]. rewrite call_fold_log; [reflexivity | exact HA | auto | exact Hr].
Qed.

(* ------------------------------------------------------------------------------------------------ *)
(* 5. timed handlers: where the deadlines come from                                                   *)
Definition has (s : state) (k : Z) (e : triple) : Prop := In e (tbl_get (get_tbl s) k).

Lemma tbl_get_add_new d k e : In e (tbl_get (tbl_add d k e) k).
Proof.
  induction d as [|[k' l'] d IH]; cbn.
  - rewrite Z.eqb_refl. left; reflexivity.
  - destruct (k =? k') eqn:E; cbn; rewrite E; [apply in_or_app; right; left; reflexivity | exact IH].
Qed.

Lemma tbl_get_add_mono d k e k0 e0 : In e0 (tbl_get d k0) -> In e0 (tbl_get (tbl_add d k e) k0).
Proof.
  induction d as [|[k' l'] d IH]; cbn; [intros []|].
  destruct (k =? k') eqn:E; cbn; destruct (k0 =? k') eqn:E0; intros H; try assumption.
  - apply in_or_app; left; exact H.
  - apply IH; exact H.
Qed.

Lemma get_tbl_add_timed_eq T k e :
  match timed (add_timed T k e) with Some d => d | None => [] end
  = tbl_add (match timed T with Some d => d | None => [] end) k e.
Proof. rewrite timed_add_timed. destruct (timed T); reflexivity. Qed.

Lemma add_has_mono now s cb st ms k e : has s k e -> has (add now s cb st ms) k e.
Proof.
  unfold has, get_tbl, add; cbn [tm]. intros H. destruct (_ && _); [|exact H].
  rewrite get_tbl_add_timed_eq. apply tbl_get_add_mono; exact H.
Qed.

Lemma run_acts_has_mono A now c s k e : adds_only A -> has s k e -> has (run_acts now s (A c)) k e.
Proof.
  intros HA. specialize (HA c). unfold run_acts. revert s.
  induction (A c) as [|a l IH]; cbn [fold_left]; intros s H; [exact H|].
  apply IH; [intros a' Ha'; apply HA; right; exact Ha'|].
  destruct (HA a (or_introl eq_refl)) as (cb & st & ms & ->). cbn [run_act]. apply add_has_mono; exact H.
Qed.

Lemma invoke_has_mono A now s cb v k e : adds_only A -> has s k e -> has (fst (invoke A now s cb v)) k e.
Proof.
  intros HA H. unfold invoke. destruct (is_rcb cb); [|apply run_acts_has_mono; assumption].
  destruct (rc (dv s)); exact H.
Qed.

(* catch-up on registration (fix 1): the handler is entered at the ORIGINAL deadline last_change + ms iff that
   deadline is still ahead; otherwise the deadline table is left alone *)
Lemma catchup_l now s cb ms :
  0 < ms ->
  let s' := add now s cb (sst s) ms in
  (now < lc s + us ms -> has s' (lc s + us ms) (cb, sst s, ms)) /\
  (lc s + us ms <= now -> tm s' = tm s).
Proof.
  intros Hms. cbn zeta. unfold add, has, get_tbl; cbn [tm]. rewrite eqb_reflx, andb_true_r.
  assert (E0 : (ms =? 0) = false) by (apply Z.eqb_neq; lia). rewrite E0. cbn [negb andb].
  split; intros H.
  - assert (E : (lc s >? now - us ms) = true) by (apply Z.gtb_lt; lia). rewrite E.
    rewrite get_tbl_add_timed_eq. apply tbl_get_add_new.
  - assert (E : (lc s >? now - us ms) = false).
    { destruct (lc s >? now - us ms) eqn:E; [apply Z.gtb_lt in E; lia | reflexivity]. }
    rewrite E. reflexivity.
Qed.

(* a handler registered for the other state is never entered by registration *)
Lemma add_other_state_l now s cb st ms : st <> sst s -> tm (add now s cb st ms) = tm s.
Proof.
  intros H. unfold add; cbn [tm]. destruct (Bool.eqb st (sst s)) eqn:E; [apply eqb_prop in E; contradiction|].
  rewrite andb_false_r. reflexivity.
Qed.

(* a real change at [now] enters every timed handler registered for the new state at now + ms *)
Lemma call_fold_has A now v : adds_only A -> forall l s lg,
  (forall e, In e l -> In e (reg_of (rg s) v)) -> lc s = now ->
  let s' := fst (fold_left (call_one A now v) l (s, lg)) in
  (forall k e, has s k e -> has s' k e) /\
  (forall e, In e l -> snd e <> 0 -> has s' (now + us (snd e)) (snd (fst e), v, snd e)).
Proof.
  intros HA. induction l as [|e l IH]; intros s lg Hin Hlc; cbn [fold_left fst].
  - split; [auto | intros e []].
  - assert (Hstep : call_one A now v (s, lg) e
                    = if snd e =? 0 then (fst (invoke A now s (snd (fst e)) v),
                                          lg ++ snd (invoke A now s (snd (fst e)) v))
                      else (set_tm s (add_timed (tm s) (lc s + us (snd e)) (snd (fst e), v, snd e)), lg)).
    { unfold call_one. rewrite (in_live s v e (Hin e (or_introl eq_refl))). reflexivity. }
    rewrite Hstep. clear Hstep.
    destruct (snd e =? 0) eqn:E0.
    + specialize (IH (fst (invoke A now s (snd (fst e)) v)) (lg ++ snd (invoke A now s (snd (fst e)) v))).
      destruct IH as [I1 I2].
      * intros e' He'. apply invoke_reg_mono; [exact HA | apply Hin; right; exact He'].
      * destruct (invoke_sw A now s (snd (fst e)) v) as (_&_&_&->). exact Hlc.
      * split.
        -- intros k e' H. apply I1. apply invoke_has_mono; assumption.
        -- intros e' [Heq|He'] Hn; [subst e'; apply Z.eqb_eq in E0; contradiction | apply I2; assumption].
    + specialize (IH (set_tm s (add_timed (tm s) (lc s + us (snd e)) (snd (fst e), v, snd e))) lg).
      destruct IH as [I1 I2].
      * intros e' He'. cbn. apply Hin; right; exact He'.
      * exact Hlc.
      * split.
        -- intros k e' H. apply I1. unfold has, get_tbl in *; cbn [set_tm tm].
           rewrite get_tbl_add_timed_eq. apply tbl_get_add_mono; exact H.
        -- intros e' [Heq|He'] Hn; [subst e'|apply I2; assumption].
           apply I1. unfold has, get_tbl; cbn [set_tm tm]. rewrite get_tbl_add_timed_eq, Hlc.
           apply tbl_get_add_new.
Qed.

Lemma change_schedules_l A now s lg val :
  adds_only A -> logical_of (inv s) lg val <> sst s -> mutes (dv s) = [] ->
  let v := logical_of (inv s) lg val in
  let s' := fst (report A now s lg val) in
  forall e, In e (reg_of (rg s) v) -> snd e <> 0 -> has s' (now + us (snd e)) (snd (fst e), v, snd e).
Proof.
  intros HA Hne Hm. cbn zeta. unfold report. destruct (Bool.eqb _ _) eqn:E; [apply eqb_prop in E; contradiction|].
  rewrite Hm. unfold call_handlers. cbn [rg].
  match goal with |- context [fold_left ?f ?l (?s0, [])] =>
    destruct (call_fold_has A now (logical_of (inv s) lg val) HA l s0 []) as [_ H2]; [auto | reflexivity |] end.
  exact H2.
Qed.

(* a real change forgets every pending deadline of the previous state *)
Lemma change_cancels_l (T : timers) : timed (cancel T) = None.
Proof. unfold cancel. destruct (timed T) eqn:E; [reflexivity | exact E]. Qed.

(* ------------------------------------------------------------------------------------------------ *)
(* 6. mute: a muted switch follows the hardware and drops the holds of the state it left, but invokes nothing *)
Lemma muted_change_l A now s lg val :
  mutes (dv s) <> [] -> logical_of (inv s) lg val <> sst s ->
  let s' := fst (report A now s lg val) in
  snd (report A now s lg val) = [] /\ sst s' = logical_of (inv s) lg val /\ lc s' = now /\
  timed (tm s') = None /\ rg s' = rg s.
Proof.
  intros Hm Hne. cbn zeta. unfold report. destruct (Bool.eqb _ _) eqn:E; [apply eqb_prop in E; contradiction|].
  destruct (mutes (dv s)); [contradiction|]. cbn [fst snd sst lc tm rg].
  repeat split. apply change_cancels_l.
Qed.

(* ------------------------------------------------------------------------------------------------ *)
(* 7. every pending timed entry is for the state the switch is in, and nothing is ever invoked for a state  *)
(*    the switch has left — whatever was muted, removed or re-registered                                    *)
Definition tbl_all (P : triple -> Prop) (d : table) : Prop :=
  forall k l, In (k, l) d -> forall e, In e l -> P e.

Lemma tbl_all_tail P kl d : tbl_all P (kl :: d) -> tbl_all P d.
Proof. intros H k l Hin. apply (H k l). right; exact Hin. Qed.

Lemma tbl_all_add P d k e : tbl_all P d -> P e -> tbl_all P (tbl_add d k e).
Proof.
  intros Hd He. induction d as [|[k' l'] d IH]; cbn.
  - intros k0 l0 [H|[]] e0 H0. injection H as <- <-. destruct H0 as [<-|[]]. exact He.
  - pose proof (tbl_all_tail _ _ _ Hd) as Hd'. destruct (k =? k').
    + intros k0 l0 [H|H] e0 H0.
      * injection H as <- <-. apply in_app_or in H0 as [H0|[<-|[]]]; [|exact He].
        apply (Hd k' l'); [left; reflexivity | exact H0].
      * apply (Hd' k0 l0 H e0 H0).
    + intros k0 l0 [H|H] e0 H0.
      * apply (Hd k0 l0); [left; exact H | exact H0].
      * apply (IH Hd' k0 l0 H e0 H0).
Qed.

Lemma tbl_all_del P d k : tbl_all P d -> tbl_all P (tbl_del d k).
Proof.
  intros Hd. induction d as [|[k' l'] d IH]; cbn; [exact Hd|].
  pose proof (tbl_all_tail _ _ _ Hd) as Hd'. destruct (k =? k'); [exact Hd'|].
  intros k0 l0 [H|H] e0 H0.
  - apply (Hd k0 l0); [left; exact H | exact H0].
  - apply (IH Hd' k0 l0 H e0 H0).
Qed.

Lemma tbl_all_filter P y d : tbl_all P d -> tbl_all P (tbl_filter y d).
Proof.
  intros Hd k l H e He. unfold tbl_filter in H. apply in_map_iff in H as ([k' l'] & Heq & Hin).
  cbn in Heq. injection Heq as <- <-. apply filter_In in He as [He _]. apply (Hd k' l' Hin e He).
Qed.

Lemma tbl_all_get P d k e : tbl_all P d -> In e (tbl_get d k) -> P e.
Proof.
  intros Hd. induction d as [|[k' l'] d IH]; cbn; [intros []|].
  pose proof (tbl_all_tail _ _ _ Hd) as Hd'. destruct (k =? k'); intros H.
  - apply (Hd k' l'); [left; reflexivity | exact H].
  - apply IH; assumption.
Qed.

Definition TS (s : state) : Prop := tbl_all (fun e => snd (fst e) = sst s) (get_tbl s).
Definition fires_in (v : bool) (l : list obs) : Prop := forall t c st m, In (Fire t c st m) l -> st = v.

Lemma fires_in_nil v : fires_in v []. Proof. intros t c st m []. Qed.
Lemma fires_in_app v a b : fires_in v a -> fires_in v b -> fires_in v (a ++ b).
Proof. intros Ha Hb t c st m H. apply in_app_or in H as [H|H]; [eapply Ha | eapply Hb]; eauto. Qed.
Lemma fires_in_one v t c m : fires_in v [Fire t c v m].
Proof. intros t' c' st' m' [H|[]]. injection H as _ _ <- _. reflexivity. Qed.

Lemma add_TS now s cb st ms : TS s -> TS (add now s cb st ms).
Proof.
  unfold TS, get_tbl, add; cbn [tm sst]. intros H.
  destruct (negb (ms =? 0) && (lc s >? now - us ms)); cbn [andb]; [|exact H].
  destruct (Bool.eqb st (sst s)) eqn:E; [|exact H]. apply eqb_prop in E.
  rewrite get_tbl_add_timed_eq. apply tbl_all_add; [exact H | exact E].
Qed.

Lemma rem_TS s cb st ms : TS s -> TS (rem s cb st ms).
Proof.
  unfold TS, get_tbl, rem; cbn [tm sst]. intros H. destruct (timed (tm s)) as [d|] eqn:E; cbn.
  - apply tbl_all_filter; exact H.
  - rewrite E. exact H.
Qed.

Lemma run_acts_TS now l s : TS s -> TS (run_acts now s l).
Proof.
  unfold run_acts. apply (fold_inv (run_act now) TS).
  intros a b Ha. destruct b; [apply add_TS | apply rem_TS]; exact Ha.
Qed.

Definition TL (v : bool) (acc : state * list obs) : Prop :=
  TS (fst acc) /\ sst (fst acc) = v /\ fires_in v (snd acc).

Lemma run_acts_sst now l s : sst (run_acts now s l) = sst s.
Proof. destruct (run_acts_sw now l s) as (_ & H & _). exact H. Qed.

Lemma invoke_TL A now s cb : TS s -> TL (sst s) (invoke A now s cb (sst s)).
Proof.
  intros H. unfold invoke. destruct (is_rcb cb).
  - destruct (rc (dv s)); (split; [exact H | split; [reflexivity|]]); cbn [snd];
      [apply fires_in_nil | apply fires_in_one].
  - split; [apply run_acts_TS; exact H | split; [apply run_acts_sst | apply fires_in_one]].
Qed.

Lemma call_one_TL A now v acc e : TL v acc -> TL v (call_one A now v acc e).
Proof.
  destruct acc as [s lg]; unfold TL, call_one; cbn [fst snd]. intros (H1 & H2 & H3). subst v.
  destruct (negb (live s (sst s) e)); [repeat split; assumption|].
  destruct (snd e =? 0); cbn [fst snd].
  - destruct (invoke_TL A now s (snd (fst e)) H1) as (I1 & I2 & I3).
    split; [exact I1 | split; [exact I2 | apply fires_in_app; assumption]].
  - split; [|split; [reflexivity | exact H3]].
    unfold TS, get_tbl; cbn [set_tm tm sst]. rewrite get_tbl_add_timed_eq.
    apply tbl_all_add; [exact H1 | reflexivity].
Qed.

Lemma report_TL A now s lg val :
  TS s -> TL (sst (fst (report A now s lg val))) (report A now s lg val).
Proof.
  intros H. unfold report. destruct (Bool.eqb _ _) eqn:E.
  - cbn [fst]. split; [exact H | split; [reflexivity | apply fires_in_nil]].
  - match goal with |- context [call_handlers A now ?s0 ?v0] =>
      set (s1 := s0); set (v := v0);
      assert (H1 : TL v (s1, [])) end.
    { split; [|split; [reflexivity | apply fires_in_nil]].
      unfold TS, get_tbl; cbn [fst tm s1]. rewrite change_cancels_l. intros k l []. }
    destruct (mutes (dv s)).
    + unfold call_handlers.
      pose proof (fold_inv (call_one A now v) (TL v) (reg_of (rg s1) v)
                    (fun x y Hx => call_one_TL A now v x y Hx) (s1, []) H1) as H2.
      destruct H2 as (I1 & I2 & I3). rewrite I2. split; [exact I1 | split; [exact I2 | exact I3]].
    + cbn [fst]. exact H1.
Qed.

Lemma proc_one_TL A now k v acc e : TL v acc -> TL v (proc_one A now k acc e).
Proof.
  destruct acc as [s lg]; unfold TL, proc_one; cbn [fst snd]. intros (H1 & H2 & H3).
  destruct (existsb _ _) eqn:Ee; cbn [fst snd]; [|repeat split; assumption].
  split; [apply run_acts_TS; exact H1 | split; [rewrite run_acts_sst; exact H2|]].
  apply fires_in_app; [exact H3|].
  apply existsb_exists in Ee as (e' & Hin & He). apply eq_triple_true in He as (_ & He & _).
  pose proof (tbl_all_get _ _ _ _ H1 Hin) as Hs. cbn beta in Hs. rewrite He, Hs, H2. apply fires_in_one.
Qed.

Lemma proc_key_TL A now v acc k : TL v acc -> TL v (proc_key A now acc k).
Proof.
  destruct acc as [s lg]; unfold proc_key. intros H.
  destruct (k <=? now); [|exact H].
  pose proof (fold_inv (proc_one A now k) (TL v) (tbl_get (get_tbl s) k)
                (fun x y Hx => proc_one_TL A now k v x y Hx) (s, lg) H) as H1.
  destruct (fold_left _ _ _) as [s1 lg1]. destruct H1 as (I1 & I2 & I3); cbn [fst snd] in *.
  split; [|split; assumption]. unfold TS, get_tbl at 1; cbn. apply tbl_all_del; exact I1.
Qed.

Lemma process_TL A now s w : TS s -> TL (sst s) (process A now s w).
Proof.
  intros H. unfold process. cbn [cur timed wakes wid].
  destruct (cur (tm s)) as [c|].
  2:{ split; [exact H | split; [reflexivity|]]. intros t c st m [C|[]]; discriminate. }
  destruct (timed (tm s)) as [d|] eqn:Ed.
  - match goal with |- context [fold_left ?f ?l ?a0] =>
      assert (H0 : TL (sst s) a0) by
        (split; [unfold TS, get_tbl in *; cbn; rewrite Ed in H; exact H | split; [reflexivity | apply fires_in_nil]]);
      pose proof (fold_inv f (TL (sst s)) l (fun x y Hx => proc_key_TL A now (sst s) x y Hx) a0 H0) as H1;
      destruct (fold_left f l a0) as [s2 lg] end.
    destruct H1 as (I1 & I2 & I3); cbn [fst snd] in *. split; [|split; assumption].
    unfold TS, get_tbl in *; cbn [fst set_tm tm sst]. rewrite timed_resched. exact I1.
  - split; [|split; [reflexivity|]].
    + unfold TS, get_tbl; cbn. intros k l [].
    + intros t c0 st m [C|[]]; discriminate.
Qed.

Lemma step_TL A s te : TS s -> TL (sst (fst (step A s te))) (step A s te).
Proof.
  intros H. destruct te as [t [o| |]]; unfold step; cbn [fst snd].
  - destruct o; cbn [step_op fst].
    + apply report_TL; exact H.
    + split; [apply add_TS; exact H | split; [reflexivity | apply fires_in_nil]].
    + split; [apply rem_TS; exact H | split; [reflexivity | apply fires_in_nil]].
    + split; [exact H | split; [reflexivity|]]. intros t' c st' m [C|[]]; discriminate.
    + split; [exact H | split; [reflexivity | apply fires_in_nil]].
    + split; [exact H | split; [reflexivity | apply fires_in_nil]].
    + split; [exact H | split; [reflexivity | apply fires_in_nil]].
  - destruct (earliest _) as [[w tw]|].
    + pose proof (process_TL A t s w H) as H1. destruct (process_sw A t s w) as (_ & Hs & _).
      rewrite Hs. exact H1.
    + split; [exact H | split; [reflexivity | apply fires_in_nil]].
  - unfold recycle_passed. destruct (rc (dv s)) as [[t0 v0]|]; cbn [fst snd].
    + split; [exact H | split; [reflexivity|]]. destruct (Bool.eqb _ _); [apply fires_in_nil | apply fires_in_one].
    + split; [exact H | split; [reflexivity | apply fires_in_nil]].
Qed.

Lemma step_TS_l A s te :
  TS s -> TS (fst (step A s te)) /\ fires_in (sst (fst (step A s te))) (snd (step A s te)).
Proof. intros H. destruct (step_TL A s te H) as (H1 & _ & H3). split; assumption. Qed.

Lemma exec_TS_l A evs : forall s, TS s -> TS (fst (exec A s evs)).
Proof.
  induction evs as [|te evs IH]; intros s H; cbn [exec]; [exact H|].
  destruct (step_TS_l A s te H) as [H1 _]. destruct (step A s te) as [s1 l1]; cbn [fst] in H1.
  specialize (IH s1 H1). destruct (exec A s1 evs) as [s2 l2]. exact IH.
Qed.

Lemma init_TS nc st h lc0 win a b : TS (init_state nc st h lc0 win a b).
Proof. unfold TS, get_tbl; cbn. intros k l []. Qed.

(* ------------------------------------------------------------------------------------------------ *)
(* 8. the ignore window (ignore_window_ms): Switch._post_events_with_recycle / _recycle_passed              *)
Lemma recycle_open_l A now s cb v :
  is_rcb cb = true -> rc (dv s) = None ->
  invoke A now s cb v = (set_rc s (Some (lc s + rwin (dv s), v)), [Fire now (1000 + b2z v) v 0]).
Proof. intros H1 H2. unfold invoke. rewrite H1, H2. reflexivity. Qed.

Lemma recycle_inside_l A now s cb v w :
  is_rcb cb = true -> rc (dv s) = Some w -> invoke A now s cb v = (s, []).
Proof. intros H1 H2. unfold invoke. rewrite H1, H2. reflexivity. Qed.

Lemma recycle_end_l now s t0 v0 :
  rc (dv s) = Some (t0, v0) ->
  let s' := fst (recycle_passed now s) in
  rc (dv s') = None /\ sst s' = sst s /\ tm s' = tm s /\ rg s' = rg s /\
  snd (recycle_passed now s) = if Bool.eqb (sst s) v0 then [] else [Fire now (1000 + b2z (sst s)) (sst s) 0].
Proof. intros H. cbn zeta. unfold recycle_passed. rewrite H. cbn. repeat split. Qed.

(* history level: while a window is open nothing is posted for the switch by a change, and the window can
   only be closed by its own timer: for any operation other than the window-end timer, an open window stays
   exactly as it is *)
Lemma invoke_rc_kept A now s cb v w : rc (dv s) = Some w -> rc (dv (fst (invoke A now s cb v))) = Some w.
Proof.
  intros H. unfold invoke. destruct (is_rcb cb).
  - rewrite H. exact H.
  - cbn [fst]. revert s H. unfold run_acts. induction (A cb) as [|a l IH]; cbn [fold_left]; intros s H; [exact H|].
    apply IH. destruct a; exact H.
Qed.

Lemma dv_run_acts now l s : dv (run_acts now s l) = dv s.
Proof.
  unfold run_acts. revert s. induction l as [|a l IH]; cbn [fold_left]; intros s; [reflexivity|].
  rewrite IH. destruct a; reflexivity.
Qed.

Lemma call_one_rc A now v w acc e :
  rc (dv (fst acc)) = Some w -> rc (dv (fst (call_one A now v acc e))) = Some w.
Proof.
  destruct acc as [s lg]; unfold call_one; cbn [fst]. intros H.
  destruct (negb (live s v e)); [exact H|]. destruct (snd e =? 0); cbn [fst].
  - apply invoke_rc_kept; exact H.
  - exact H.
Qed.

Lemma proc_one_rc A now k w acc e :
  rc (dv (fst acc)) = Some w -> rc (dv (fst (proc_one A now k acc e))) = Some w.
Proof.
  destruct acc as [s lg]; unfold proc_one; cbn [fst]. intros H.
  destruct (existsb _ _); cbn [fst]; [rewrite dv_run_acts|]; exact H.
Qed.

Lemma proc_key_rc A now w acc k :
  rc (dv (fst acc)) = Some w -> rc (dv (fst (proc_key A now acc k))) = Some w.
Proof.
  destruct acc as [s lg]; unfold proc_key. intros H. destruct (k <=? now); [|exact H].
  pose proof (fold_inv (proc_one A now k) (fun acc => rc (dv (fst acc)) = Some w) (tbl_get (get_tbl s) k)
                (fun x y Hx => proc_one_rc A now k w x y Hx) (s, lg) H) as H1.
  destruct (fold_left _ _ _) as [s1 lg1]. exact H1.
Qed.

Lemma window_only_closed_by_its_timer_l A s te w :
  rc (dv s) = Some w -> snd te <> ERecycle -> rc (dv (fst (step A s te))) = Some w.
Proof.
  intros H Hne. destruct te as [t [o| |]]; unfold step; cbn [fst snd] in *.
  - destruct o; cbn [step_op fst]; try exact H.
    + unfold report. destruct (Bool.eqb _ _); [exact H|]. destruct (mutes (dv s)); [|exact H].
      unfold call_handlers.
      apply (fold_inv (call_one A t _) (fun acc => rc (dv (fst acc)) = Some w));
        [intros; apply call_one_rc; assumption | exact H].
  - destruct (earliest _) as [[w0 tw]|]; [|exact H]. unfold process. cbn [cur timed wakes wid].
    destruct (cur (tm s)); [|exact H]. destruct (timed (tm s)) as [d|]; [|exact H].
    match goal with |- context [fold_left ?f ?l ?a0] =>
      pose proof (fold_inv f (fun acc => rc (dv (fst acc)) = Some w) l
                    (fun x y Hx => proc_key_rc A t w x y Hx) a0 H) as H1;
      destruct (fold_left f l a0) as [s2 lg] end.
    exact H1.
  - contradiction.
Qed.

(* ------------------------------------------------------------------------------------------------ *)
(* Examples: the hypotheses of the theorems are satisfiable on non-trivial states, and the three      *)
(* repaired scenarios computed on the model                                                          *)
Definition exA (c : Z) : list act :=
  if c =? 1 then [AAdd 2 true 750] else if c =? 3 then [ARem 4 true 250; AAdd 5 false 125] else [].
Definition exA_adds (c : Z) : list act := if c =? 1 then [AAdd 2 true 750; AAdd 6 true 0] else [].

(* an NC switch, inactive, with its two event handlers, one untimed and two timed handlers *)
Definition ex_s0 : state :=
  let s := init_state true false true (-100000000000) 0 [(1000, 0)] [(1001, 0)] in
  add 0 (add 0 (add 0 (add 0 s 1 true 250) 4 true 250) 3 true 0) 7 true 500.

Example ex_consistent : hw ex_s0 = xorb (sst ex_s0) (inv ex_s0).
Proof. reflexivity. Qed.

Example ex_W : W (tm ex_s0).
Proof. unfold W; cbn. split; [reflexivity | intros C; contradiction]. Qed.

Example ex_adds_only : adds_only exA_adds.
Proof.
  intros c a. unfold exA_adds. destruct (c =? 1); [|intros []].
  intros [<-|[<-|[]]]; eauto.
Qed.

Example ex_acts_ok : acts_ok exA 4 true 250.
Proof.
  intros c. unfold exA. destruct (c =? 1); [|destruct (c =? 3)]; repeat constructor; discriminate.
Qed.

(* the history used below: raw report 0 on the NC switch = logical active at 1 s; the handler (4,1,250) is
   removed at 1.125 s; wake-ups at 1.25 s, 1.5 s, 1.75 s *)
Definition ex_evs : list (Z * ev) :=
  [(1000000, EOp (OReport false false)); (1125000, EOp (ORem 4 true 250));
   (1250000, EWake); (1500000, EWake); (1750000, EWake); (2000000, EOp (OReport true true))].

Example ex_ev_ok : Forall (ev_ok 4 true 250) (tl (tl ex_evs)).
Proof. repeat constructor; discriminate. Qed.

(* with the removal: callback 4 never runs; callback 1 runs at 1.25 s and registers (2,1,750), which runs at
   the ORIGINAL deadline 1.75 s; 7 at 1.5 s; exactly one wake-up at every point; no crash (fix 3) *)
Example ex_run :
  snd (exec exA ex_s0 ex_evs)
  = [Fire 1000000 1001 true 0; Fire 1000000 3 true 0;
     Fire 1250000 1 true 250; Fire 1500000 7 true 500; Fire 1750000 2 true 750].
Proof. vm_compute. reflexivity. Qed.

(* without it, callback 3 (untimed, runs during the change) removes (4,1,250) itself: still never fires *)
Example ex_run_reentrant_removal :
  snd (exec exA ex_s0 [(1000000, EOp (OReport false false)); (1250000, EWake)])
  = [Fire 1000000 1001 true 0; Fire 1000000 3 true 0; Fire 1250000 1 true 250].
Proof. vm_compute. reflexivity. Qed.

(* and with no removal at all it does fire (the theorem is not vacuous) *)
Example ex_run_not_removed :
  snd (exec (fun _ => []) ex_s0 [(1000000, EOp (OReport false false)); (1250000, EWake)])
  = [Fire 1000000 1001 true 0; Fire 1000000 3 true 0; Fire 1250000 1 true 250; Fire 1250000 4 true 250].
Proof. vm_compute. reflexivity. Qed.

(* fix 1: active since 1 s; a 500 ms handler registered at 301 s is NOT entered (the unfixed code fired it at once) *)
Example ex_catchup_late :
  let s := fst (exec exA ex_s0 [(1000000, EOp (OReport false false))]) in
  tm (add 301000000 s 9 true 500) = tm s /\ 0 < 500 /\ lc s + us 500 <= 301000000.
Proof. vm_compute. repeat split; discriminate. Qed.

(* ... and registered at 1.25 s it is entered at the original deadline 1.5 s *)
Example ex_catchup_ahead :
  let s := fst (exec exA ex_s0 [(1000000, EOp (OReport false false))]) in
  has (add 1250000 s 9 true 500) 1500000 (9, true, 500) /\ 1250000 < lc s + us 500.
Proof. vm_compute. split; [right; left; reflexivity | reflexivity]. Qed.

(* fix 2: the same (callback,state,ms) registered twice and removed during the interval: neither copy fires *)
Example ex_duplicate_removed :
  let s := add 0 (add 0 (init_state false false false (-100000000000) 0 [] []) 1 true 500) 1 true 500 in
  snd (exec (fun _ => []) s [(1000000, EOp (OReport true true)); (1250000, EOp (ORem 1 true 500));
                             (1500000, EWake); (2000000, EWake)]) = [].
Proof. vm_compute. reflexivity. Qed.

Example ex_change_hyp : logical_of (inv ex_s0) false false <> sst ex_s0.
Proof. vm_compute. discriminate. Qed.

Example ex_hcb : is_ev 4 = false. Proof. reflexivity. Qed.
Example ex_TS : TS ex_s0. Proof. unfold TS; cbn. intros k l []. Qed.
Example ex_no_rcb : no_rcb (reg_of (rg ex_s0) true).
Proof. intros e H. cbn in H. repeat (destruct H as [<-|H]; [reflexivity|]). destruct H. Qed.

(* mute: (1,1,250)... are pending after the change at 1 s; the switch is muted at 1.125 s and released at 1.2 s:
   nothing is invoked for the release, the pending holds are dropped (no wake-up left), and when the switch is
   pressed again while still muted nothing is invoked either *)
Example ex_muted :
  let r := exec (fun _ => []) ex_s0
                [(1000000, EOp (OReport false false)); (1125000, EOp (OMute 7)); (1200000, EOp (OReport true false));
                 (1250000, EWake); (1300000, EOp (OReport true true)); (1400000, EOp (OUnmute 7))] in
  snd r = [Fire 1000000 1001 true 0; Fire 1000000 3 true 0] /\ wakes (tm (fst r)) = [] /\ sst (fst r) = true.
Proof. vm_compute. repeat split. Qed.

Example ex_muted_hyp :
  let s := fst (exec (fun _ => []) ex_s0 [(1000000, EOp (OReport false false)); (1125000, EOp (OMute 7))]) in
  mutes (dv s) <> [] /\ logical_of (inv s) true false <> sst s.
Proof. vm_compute. split; discriminate. Qed.

(* ignore window 250 ms on an NC switch: the activation at 1 s is posted; the release at 1.125 s is inside the
   window and posts nothing; at the window end (1.25 s) the state differs from the posted one: one catch-up post *)
Definition ex_rs : state := init_state true false true (-100000000000) 250000 [(1010, 0)] [(1011, 0)].

Example ex_recycle_toggle :
  snd (exec (fun _ => []) ex_rs [(1000000, EOp (OReport false false)); (1125000, EOp (OReport true false));
                                 (1250000, ERecycle); (1500000, EOp (OReport true true))])
  = [Fire 1000000 1001 true 0; Fire 1250000 1000 false 0; Fire 1500000 1001 true 0].
Proof. vm_compute. reflexivity. Qed.

(* ... and when the switch is back in the posted state at the window end nothing more is posted; a single change
   is posted exactly once *)
Example ex_recycle_back :
  snd (exec (fun _ => []) ex_rs [(1000000, EOp (OReport false false)); (1125000, EOp (OReport true false));
                                 (1200000, EOp (OReport false false)); (1250000, ERecycle)])
  = [Fire 1000000 1001 true 0].
Proof. vm_compute. reflexivity. Qed.

Example ex_recycle_hyps :
  let s := fst (exec (fun _ => []) ex_rs [(1000000, EOp (OReport false false))]) in
  is_rcb 1011 = true /\ rc (dv ex_rs) = None /\ rc (dv s) = Some (1250000, true).
Proof. vm_compute. repeat split. Qed.
