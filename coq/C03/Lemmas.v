From Common Require Import Prelude.
From C03 Require Import Model.
Open Scope Z_scope.
Lemma placeholder_l : forall s : state, s = s. Proof. reflexivity. Qed.
