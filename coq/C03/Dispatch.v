(* C03/Dispatch.v — removal DURING a dispatch (round 4).

   _call_handlers iterates over a COPY of the registry list, _process_active_timed_switches over snapshots of the
   keys and of the entries of each key.  When a callback invoked by one of these loops removes another handler,
   the loop still holds the removed entry in its snapshot.  The code protects itself with `entry.cancelled`
   (dispatch loop; model: [live]) and with "entry not in the live table" (wake-up loop; model: the [existsb] test
   of [proc_one]).  The lemmas here say that these tests are sufficient, for an ARBITRARY (stale) snapshot:
   once (cb, st, ms) has been removed, the remainder of the loop neither invokes it nor arms it as a timed
   entry, and no later history fires it.

   Second part: [untimed_once] with removals: the guard adds_only is weakened to keeps_untimed (scripts may
   remove anything except untimed handlers of the state being dispatched). *)
From Common Require Import Prelude.
From C03 Require Import Model Lemmas.
Open Scope Z_scope.

Section RemovedInLoop.
  Variables (A : Z -> list act) (cb : Z) (st : bool) (ms : Z).
  Hypothesis HA : acts_ok A cb st ms.
  Hypothesis Hcb : is_ev cb = false.

  Lemma run_acts_list_absent now l : Forall (act_ok cb st ms) l ->
    forall s, absent cb st ms s -> absent cb st ms (fold_left (run_act now) l s).
  Proof.
    induction l as [|a l IH]; cbn [fold_left]; intros Hl s Hs; [exact Hs|].
    inversion Hl as [|? ? Ha Hl']; subst. apply IH; [exact Hl'|].
    destruct a; cbn [run_act]; [apply add_absent; [exact Ha | exact Hs] | apply rem_absent_pres; exact Hs].
  Qed.

  (* the state right after a script has removed x and run the rest of its actions *)
  Lemma after_removal_absent now s rest :
    Forall (act_ok cb st ms) rest -> absent cb st ms (fold_left (run_act now) rest (rem s cb st ms)).
  Proof. intros H. apply run_acts_list_absent; [exact H | apply rem_makes_absent]. Qed.

  Lemma call_fold_AN now v (l : list entry) acc :
    AN cb st ms acc -> AN cb st ms (fold_left (call_one A now v) l acc).
  Proof.
    apply (fold_inv (call_one A now v) (AN cb st ms)). intros a b Ha. apply call_one_AN; assumption.
  Qed.

  Lemma proc_one_fold_AN now k (l : list triple) acc :
    AN cb st ms acc -> AN cb st ms (fold_left (proc_one A now k) l acc).
  Proof.
    apply (fold_inv (proc_one A now k) (AN cb st ms)). intros a b Ha. apply proc_one_AN; assumption.
  Qed.

  Lemma proc_key_fold_AN now (ks : list Z) acc :
    AN cb st ms acc -> AN cb st ms (fold_left (proc_key A now) ks acc).
  Proof.
    apply (fold_inv (proc_key A now) (AN cb st ms)). intros a b Ha. apply proc_key_AN; assumption.
  Qed.

  Lemma absent_no_entry s : absent cb st ms s -> forall k, ~ In (cb, st, ms) (tbl_get (get_tbl s) k).
  Proof.
    intros [_ Ht] k Hin. pose proof (tbl_get_ok (cb, st, ms) _ _ _ Ht Hin) as Hx.
    unfold eq_triple in Hx; cbn in Hx. rewrite !Z.eqb_refl, eqb_reflx in Hx. discriminate.
  Qed.

  Definition loop_clean (r : state * list obs) (evs : list (Z * ev)) : Prop :=
    (forall t, ~ In (Fire t cb st ms) (snd r)) /\
    (forall k, ~ In (cb, st, ms) (tbl_get (get_tbl (fst r)) k)) /\
    (forall t, ~ In (Fire t cb st ms) (snd (exec A (fst r) evs))).

  Lemma AN_clean r evs : Forall (ev_ok cb st ms) evs -> AN cb st ms r -> loop_clean r evs.
  Proof.
    intros Hev [Ha Hn]. split; [exact Hn|]. split; [apply absent_no_entry; exact Ha|].
    apply (exec_AN A cb st ms HA Hcb evs (fst r) Hev Ha).
  Qed.

  Lemma removed_in_dispatch_l now v snapshot s rest lg evs :
    Forall (act_ok cb st ms) rest -> nofire cb st ms lg -> Forall (ev_ok cb st ms) evs ->
    loop_clean (fold_left (call_one A now v) snapshot (fold_left (run_act now) rest (rem s cb st ms), lg)) evs.
  Proof.
    intros Hr Hl Hev. apply AN_clean; [exact Hev|]. apply call_fold_AN. split; cbn [fst snd]; [|exact Hl].
    apply after_removal_absent; exact Hr.
  Qed.

  Lemma removed_in_wakeup_entries_l now k snapshot s rest lg evs :
    Forall (act_ok cb st ms) rest -> nofire cb st ms lg -> Forall (ev_ok cb st ms) evs ->
    loop_clean (fold_left (proc_one A now k) snapshot (fold_left (run_act now) rest (rem s cb st ms), lg)) evs.
  Proof.
    intros Hr Hl Hev. apply AN_clean; [exact Hev|]. apply proc_one_fold_AN. split; cbn [fst snd]; [|exact Hl].
    apply after_removal_absent; exact Hr.
  Qed.

  Lemma removed_in_wakeup_keys_l now keys_snapshot s rest lg evs :
    Forall (act_ok cb st ms) rest -> nofire cb st ms lg -> Forall (ev_ok cb st ms) evs ->
    loop_clean (fold_left (proc_key A now) keys_snapshot (fold_left (run_act now) rest (rem s cb st ms), lg)) evs.
  Proof.
    intros Hr Hl Hev. apply AN_clean; [exact Hev|]. apply proc_key_fold_AN. split; cbn [fst snd]; [|exact Hl].
    apply after_removal_absent; exact Hr.
  Qed.
End RemovedInLoop.

(* ------------------------------------------------------------------------------------------------ *)
(* untimed handlers once per change, with removals                                                    *)
Definition keeps_untimed (A : Z -> list act) (v : bool) : Prop :=
  forall c cb st ms, In (ARem cb st ms) (A c) -> st <> v \/ ms <> 0.

Lemma rem_reg_keep s cb st ms v e :
  st <> v \/ ms <> 0 -> snd e = 0 -> In e (reg_of (rg s) v) -> In e (reg_of (rg (rem s cb st ms)) v).
Proof.
  intros Hg He H. unfold rem; cbn [rg]. rewrite reg_of_set_reg. destruct (Bool.eqb v st) eqn:E.
  - apply eqb_prop in E; subst st. apply filter_In. split; [exact H|].
    destruct Hg as [Hg|Hg]; [contradiction|]. unfold ent_match. rewrite He.
    destruct (0 =? ms) eqn:E0; [apply Z.eqb_eq in E0; lia | reflexivity].
  - exact H.
Qed.

Lemma run_acts_reg_keep A now c s v e :
  keeps_untimed A v -> snd e = 0 -> In e (reg_of (rg s) v) -> In e (reg_of (rg (run_acts now s (A c))) v).
Proof.
  intros HA He. specialize (HA c). unfold run_acts. revert s.
  induction (A c) as [|a l IH]; cbn [fold_left]; intros s H; [exact H|].
  apply IH; [intros cb st ms Ha'; apply (HA cb st ms); right; exact Ha'|].
  destruct a as [cb st ms|cb st ms]; cbn [run_act].
  - apply add_reg_mono; exact H.
  - apply rem_reg_keep; [apply (HA cb st ms); left; reflexivity | exact He | exact H].
Qed.

Lemma call_fold_log_rem A now v : keeps_untimed A v -> forall l s lg,
  (forall e, In e l -> snd e = 0 -> In e (reg_of (rg s) v)) -> no_rcb l ->
  snd (fold_left (call_one A now v) l (s, lg)) = lg ++ untimed_fires now v l.
Proof.
  intros HA. induction l as [|e l IH]; intros s lg Hin Hr; cbn [fold_left untimed_fires flat_map].
  - rewrite app_nil_r. reflexivity.
  - assert (Hr' : no_rcb l) by (intros e' He'; apply Hr; right; exact He').
    unfold call_one at 2. destruct (snd e =? 0) eqn:E0.
    + apply Z.eqb_eq in E0. rewrite (in_live s v e (Hin e (or_introl eq_refl) E0)). cbn [negb].
      rewrite (invoke_plain A now s _ v (Hr e (or_introl eq_refl))). cbn [fst snd].
      rewrite IH; [rewrite <- app_assoc; reflexivity | | exact Hr'].
      intros e' He' H0. apply run_acts_reg_keep; [exact HA | exact H0 | apply Hin; [right; exact He' | exact H0]].
    + destruct (negb (live s v e)).
      * rewrite IH; [reflexivity | | exact Hr']. intros e' He'. apply Hin; right; exact He'.
      * rewrite IH; [reflexivity | | exact Hr']. intros e' He'. cbn. apply Hin; right; exact He'.
Qed.

Lemma untimed_once_rem_l A now s lg val :
  keeps_untimed A (logical_of (inv s) lg val) -> logical_of (inv s) lg val <> sst s -> mutes (dv s) = [] ->
  no_rcb (reg_of (rg s) (logical_of (inv s) lg val)) ->
  snd (report A now s lg val)
  = untimed_fires now (logical_of (inv s) lg val) (reg_of (rg s) (logical_of (inv s) lg val)).
Proof.
  intros HA Hne Hm Hr. unfold report. destruct (Bool.eqb _ _) eqn:E; [apply eqb_prop in E; contradiction|].
  rewrite Hm. unfold call_handlers. cbn [rg]. rewrite call_fold_log_rem; [reflexivity | exact HA | auto | exact Hr].
Qed.

(* ------------------------------------------------------------------------------------------------ *)
(* a real change enters every timed handler of the new state at now + ms, with removals                *)
Definition keeps_timed (A : Z -> list act) (v : bool) : Prop :=
  forall c cb st ms, In (ARem cb st ms) (A c) -> st <> v \/ ms = 0.

Lemma tbl_get_filter_keep x d k e :
  eq_triple e x = false -> In e (tbl_get d k) -> In e (tbl_get (tbl_filter x d) k).
Proof.
  intros He. induction d as [|[k' l'] d IH]; cbn; [intros []|].
  destruct (k =? k'); [|exact IH]. intros H. apply filter_In. split; [exact H | rewrite He; reflexivity].
Qed.

Lemma rem_has_keep s cb st ms k e : eq_triple e (cb, st, ms) = false -> has s k e -> has (rem s cb st ms) k e.
Proof.
  intros He. unfold has, get_tbl, rem; cbn [tm]. destruct (timed (tm s)) as [d|] eqn:E; cbn.
  - apply tbl_get_filter_keep; exact He.
  - rewrite E. auto.
Qed.

Lemma neq_triple_guard c v m cb st ms : m <> 0 -> st <> v \/ ms = 0 -> eq_triple (c, v, m) (cb, st, ms) = false.
Proof.
  intros Hm Hg. unfold eq_triple; cbn. destruct Hg as [Hg|Hg].
  - destruct (Bool.eqb v st) eqn:E; [apply eqb_prop in E; congruence|]. rewrite andb_false_r. reflexivity.
  - subst ms. destruct (m =? 0) eqn:E; [apply Z.eqb_eq in E; contradiction|]. rewrite andb_false_r. reflexivity.
Qed.

Lemma rem_reg_keep_timed s cb st ms v e :
  st <> v \/ ms = 0 -> snd e <> 0 -> In e (reg_of (rg s) v) -> In e (reg_of (rg (rem s cb st ms)) v).
Proof.
  intros Hg He H. unfold rem; cbn [rg]. rewrite reg_of_set_reg. destruct (Bool.eqb v st) eqn:E; [|exact H].
  apply eqb_prop in E; subst st. apply filter_In. split; [exact H|].
  destruct Hg as [Hg|Hg]; [contradiction|]. subst ms. unfold ent_match.
  destruct (snd e =? 0) eqn:E0; [apply Z.eqb_eq in E0; contradiction | reflexivity].
Qed.

Lemma run_acts_keep_timed A now c v : keeps_timed A v -> forall s,
  (forall e, snd e <> 0 -> In e (reg_of (rg s) v) -> In e (reg_of (rg (run_acts now s (A c))) v)) /\
  (forall k c0 m, m <> 0 -> has s k (c0, v, m) -> has (run_acts now s (A c)) k (c0, v, m)).
Proof.
  intros HA. specialize (HA c). unfold run_acts.
  induction (A c) as [|a l IH]; cbn [fold_left]; intros s; [split; auto|].
  assert (HA' : forall cb st ms, In (ARem cb st ms) l -> st <> v \/ ms = 0)
    by (intros cb st ms H; apply (HA cb st ms); right; exact H).
  destruct a as [cb st ms|cb st ms]; cbn [run_act].
  - destruct (IH HA' (add now s cb st ms)) as [I1 I2]. split.
    + intros e He H. apply I1; [exact He | apply add_reg_mono; exact H].
    + intros k c0 m Hm H. apply I2; [exact Hm | apply add_has_mono; exact H].
  - pose proof (HA cb st ms (or_introl eq_refl)) as Hg.
    destruct (IH HA' (rem s cb st ms)) as [I1 I2]. split.
    + intros e He H. apply I1; [exact He | apply rem_reg_keep_timed; assumption].
    + intros k c0 m Hm H. apply I2; [exact Hm|]. apply rem_has_keep; [apply neq_triple_guard; assumption | exact H].
Qed.

Lemma invoke_keep_timed A now s cb v v' : keeps_timed A v' ->
  (forall e, snd e <> 0 -> In e (reg_of (rg s) v') -> In e (reg_of (rg (fst (invoke A now s cb v))) v')) /\
  (forall k c0 m, m <> 0 -> has s k (c0, v', m) -> has (fst (invoke A now s cb v)) k (c0, v', m)).
Proof.
  intros HA. unfold invoke. destruct (is_rcb cb); [|apply run_acts_keep_timed; exact HA].
  destruct (rc (dv s)); split; auto.
Qed.

Lemma call_fold_has_rem A now v : keeps_timed A v -> forall l s lg,
  (forall e, In e l -> snd e <> 0 -> In e (reg_of (rg s) v)) -> lc s = now ->
  let s' := fst (fold_left (call_one A now v) l (s, lg)) in
  (forall k c m, m <> 0 -> has s k (c, v, m) -> has s' k (c, v, m)) /\
  (forall e, In e l -> snd e <> 0 -> has s' (now + us (snd e)) (snd (fst e), v, snd e)).
Proof.
  intros HA. induction l as [|e l IH]; intros s lg Hin Hlc; cbn [fold_left fst].
  - split; [auto | intros e []].
  - assert (Hstep : call_one A now v (s, lg) e
                    = if negb (live s v e) then (s, lg)
                      else if snd e =? 0 then (fst (invoke A now s (snd (fst e)) v),
                                               lg ++ snd (invoke A now s (snd (fst e)) v))
                      else (set_tm s (add_timed (tm s) (lc s + us (snd e)) (snd (fst e), v, snd e)), lg))
      by reflexivity.
    rewrite Hstep. clear Hstep. destruct (snd e =? 0) eqn:E0.
    + destruct (negb (live s v e)).
      * destruct (IH s lg) as [I1 I2]; [intros e' He'; apply Hin; right; exact He' | exact Hlc|].
        split; [exact I1|]. intros e' [Heq|He'] Hn; [subst e'; apply Z.eqb_eq in E0; contradiction | apply I2; assumption].
      * destruct (invoke_keep_timed A now s (snd (fst e)) v v HA) as [K1 K2].
        destruct (IH (fst (invoke A now s (snd (fst e)) v)) (lg ++ snd (invoke A now s (snd (fst e)) v))) as [I1 I2].
        -- intros e' He' Hn. apply K1; [exact Hn | apply Hin; [right; exact He' | exact Hn]].
        -- destruct (invoke_sw A now s (snd (fst e)) v) as (_&_&_&->). exact Hlc.
        -- split.
           ++ intros k c m Hm H. apply I1; [exact Hm | apply K2; assumption].
           ++ intros e' [Heq|He'] Hn; [subst e'; apply Z.eqb_eq in E0; contradiction | apply I2; assumption].
    + apply Z.eqb_neq in E0. rewrite (in_live s v e (Hin e (or_introl eq_refl) E0)). cbn [negb].
      destruct (IH (set_tm s (add_timed (tm s) (lc s + us (snd e)) (snd (fst e), v, snd e))) lg) as [I1 I2].
      * intros e' He'. cbn. apply Hin; right; exact He'.
      * exact Hlc.
      * split.
        -- intros k c m Hm H. apply I1; [exact Hm|]. unfold has, get_tbl in *; cbn [set_tm tm].
           rewrite get_tbl_add_timed_eq. apply tbl_get_add_mono; exact H.
        -- intros e' [Heq|He'] Hn; [subst e'|apply I2; assumption].
           apply I1; [exact Hn|]. unfold has, get_tbl; cbn [set_tm tm]. rewrite get_tbl_add_timed_eq, Hlc.
           apply tbl_get_add_new.
Qed.

Lemma change_schedules_rem_l A now s lg val :
  keeps_timed A (logical_of (inv s) lg val) -> logical_of (inv s) lg val <> sst s -> mutes (dv s) = [] ->
  let v := logical_of (inv s) lg val in
  let s' := fst (report A now s lg val) in
  forall e, In e (reg_of (rg s) v) -> snd e <> 0 -> has s' (now + us (snd e)) (snd (fst e), v, snd e).
Proof.
  intros HA Hne Hm. cbn zeta. unfold report. destruct (Bool.eqb _ _) eqn:E; [apply eqb_prop in E; contradiction|].
  rewrite Hm. unfold call_handlers. cbn [rg].
  match goal with |- context [fold_left ?f ?l (?s0, [])] =>
    destruct (call_fold_has_rem A now (logical_of (inv s) lg val) HA l s0 []) as [_ H2]; [auto | reflexivity |] end.
  exact H2.
Qed.

Example ex_keeps_timed : keeps_timed (fun c => if c =? 1 then [ARem 5 true 0; ARem 6 false 250; AAdd 7 true 125] else []) true.
Proof.
  intros c cb st ms H. destruct (c =? 1); [|destruct H].
  destruct H as [H|[H|[H|[]]]]; try discriminate; injection H as <- <- <-; [right; reflexivity | left; discriminate].
Qed.

(* satisfiability: callback 1 (untimed, first) removes the timed handler (5, true, 250) registered after it, then
   re-registers something else; the change is dispatched over the stale snapshot; 5 never fires *)
Definition exA_rm (c : Z) : list act := if c =? 1 then [ARem 5 true 250; AAdd 6 true 125] else [].
Definition ex_s_rm : state :=
  add 0 (add 0 (init_state false false false (-1000000) 0 [(1000, 0)] [(1001, 0)]) 1 true 0) 5 true 250.
Example ex_rm_runs :
  map (fun o => match o with Fire t c _ _ => (t, c) | _ => (0, 0) end)
      (snd (exec exA_rm ex_s_rm [(1000000, EOp (OReport true true)); (1125000, EWake); (1250000, EWake)]))
  = [(1000000, 1001); (1000000, 1); (1125000, 6)].
Proof. vm_compute. reflexivity. Qed.
Example ex_acts_ok_rm : acts_ok exA_rm 5 true 250.
Proof.
  intros c. unfold exA_rm. destruct (c =? 1); [|constructor].
  repeat constructor; unfold act_ok; discriminate.
Qed.
Example ex_keeps_untimed : keeps_untimed exA_rm true.
Proof.
  intros c cb st ms H. unfold exA_rm in H. destruct (c =? 1); [|destruct H].
  destruct H as [H|[H|[]]]; [injection H as <- <- <-; right; lia | discriminate].
Qed.
