(* C03/Multi.v — ONE model instance with several switches (round 4).

   The machine state is a list of (switch state, per-switch loop clock).  An operation (t, i, holds, o) is
   addressed to switch number i; because the loop is shared, EVERY switch first runs its timers that are due at t
   (except those the operation was observed to overtake: holds = per-switch thresholds, default "none"), then
   switch i performs o.  [mrun] returns, per switch, the final state and the log.

   [mrun_projection]: the machine is the product of its switches: for every history, the result for switch j
   is exactly [run_ops] (Model.v) on the history projected on j (operations of other switches become ONop with
   j's own thresholds).  This is the statement that the controller's tables are keyed by switch (no interference),
   and it is what justifies comparing the implementation per switch in the correspondence suites; the `config`
   suite evaluates the joint [mrun] itself. *)
From Common Require Import Prelude.
From C03 Require Import Model.
Open Scope Z_scope.

Definition mop := (Z * nat * list (Z * Z) * op)%type.

Fixpoint mstep_from (A : Z -> list act) (fuel : nat) (k : nat) (t : Z) (i : nat) (holds : list (Z * Z)) (o : op)
         (cs : list (state * Z)) : list ((state * Z) * list obs) :=
  match cs with
  | [] => []
  | (s, clk) :: cs' =>
      let h := hd (t + 1, t + 1) holds in
      let '(s1, l1, clk1) := advance A fuel t (fst h) (snd h) clk s in
      let '(s2, l2) := step_op A t s1 (if Nat.eqb k i then o else ONop) in
      ((s2, Z.max clk1 t), l1 ++ l2) :: mstep_from A fuel (S k) t i (tl holds) o cs'
  end.

Fixpoint zip_logs (r : list ((state * Z) * list obs)) (rest : list (state * list obs)) : list (state * list obs) :=
  match r, rest with
  | x :: r', y :: rest' => (fst y, snd x ++ snd y) :: zip_logs r' rest'
  | _, _ => []
  end.

Fixpoint mrun (A : Z -> list act) (fuel : nat) (cs : list (state * Z)) (ops : list mop) : list (state * list obs) :=
  match ops with
  | [] => map (fun c => (fst c, [])) cs
  | (t, i, holds, o) :: ops' =>
      let r := mstep_from A fuel 0 t i holds o cs in
      zip_logs r (mrun A fuel (map fst r) ops')
  end.

(* the history as switch j sees it *)
Definition proj (j : nat) (ops : list mop) : list (Z * (Z * Z) * op) :=
  map (fun m : mop => let '(t, i, holds, o) := m in
                      (t, nth j holds (t + 1, t + 1), if Nat.eqb j i then o else ONop)) ops.

Lemma hd_nth0 {X} (d : X) l : hd d l = nth 0 l d.
Proof. destruct l; reflexivity. Qed.

Lemma nth_tl {X} (d : X) l j : nth j (tl l) d = nth (S j) l d.
Proof. destruct l; [destruct j; reflexivity | reflexivity]. Qed.

Lemma mstep_nth A fuel t i o : forall cs k holds j s clk,
  nth_error cs j = Some (s, clk) ->
  nth_error (mstep_from A fuel k t i holds o cs) j
  = Some (let h := nth j holds (t + 1, t + 1) in
          let '(s1, l1, clk1) := advance A fuel t (fst h) (snd h) clk s in
          let '(s2, l2) := step_op A t s1 (if Nat.eqb (k + j) i then o else ONop) in
          ((s2, Z.max clk1 t), l1 ++ l2)).
Proof.
  induction cs as [|[s0 clk0] cs IH]; intros k holds j s clk H; [destruct j; discriminate|].
  destruct j as [|j]; cbn [nth_error] in H.
  - injection H as -> ->. cbn [mstep_from]. rewrite hd_nth0, Nat.add_0_r.
    destruct (advance _ _ _ _ _ _ _) as [[s1 l1] clk1]. destruct (step_op _ _ _ _) as [s2 l2]. reflexivity.
  - cbn [mstep_from]. destruct (advance A fuel t _ _ clk0 s0) as [[s1' l1'] clk1'].
    destruct (step_op A t s1' _) as [s2' l2']. cbn [nth_error].
    rewrite (IH (S k) (tl holds) j s clk H). rewrite nth_tl. replace (S k + j)%nat with (k + S j)%nat by lia.
    reflexivity.
Qed.

Lemma mstep_length A fuel t i o : forall cs k holds, length (mstep_from A fuel k t i holds o cs) = length cs.
Proof.
  induction cs as [|[s clk] cs IH]; intros k holds; cbn [mstep_from]; [reflexivity|].
  destruct (advance _ _ _ _ _ _ _) as [[s1 l1] clk1]. destruct (step_op _ _ _ _) as [s2 l2]. cbn. rewrite IH. reflexivity.
Qed.

Lemma zip_nth : forall r rest j x y,
  nth_error r j = Some x -> nth_error rest j = Some y ->
  nth_error (zip_logs r rest) j = Some (fst y, snd x ++ snd y).
Proof.
  induction r as [|x0 r IH]; intros rest j x y Hx Hy; [destruct j; discriminate|].
  destruct rest as [|y0 rest]; [destruct j; discriminate|].
  destruct j as [|j]; cbn in *; [injection Hx as ->; injection Hy as ->; reflexivity | apply IH; assumption].
Qed.

Lemma mrun_projection_l A fuel : forall ops cs j s clk,
  nth_error cs j = Some (s, clk) ->
  nth_error (mrun A fuel cs ops) j = Some (run_ops A fuel clk s (proj j ops)).
Proof.
  induction ops as [|[[[t i] holds] o] ops IH]; intros cs j s clk H; cbn [mrun proj map run_ops].
  - rewrite nth_error_map, H. reflexivity.
  - fold (proj j ops). pose proof (mstep_nth A fuel t i o cs 0%nat holds j s clk H) as H1. cbn zeta in H1. cbn [Nat.add] in H1.
    destruct (nth j holds (t + 1, t + 1)) as [hw hr]. cbn [fst snd] in H1.
    destruct (advance A fuel t hw hr clk s) as [[s1 l1] clk1].
    destruct (step_op A t s1 _) as [s2 l2].
    assert (H2 : nth_error (map fst (mstep_from A fuel 0 t i holds o cs)) j = Some (s2, Z.max clk1 t))
      by (rewrite nth_error_map, H1; reflexivity).
    specialize (IH _ j s2 (Z.max clk1 t) H2).
    rewrite (zip_nth _ _ j _ _ H1 IH). cbn [fst snd].
    destruct (run_ops A fuel (Z.max clk1 t) s2 (proj j ops)) as [s3 l3]. cbn [fst snd].
    rewrite <- app_assoc. reflexivity.
Qed.

(* two switches, the second one NC with an ignore window; operations interleaved *)
Definition ex_cs : list (state * Z) :=
  [(add 0 (init_state false false false (-1000000) 0 [(1000, 0)] [(1001, 0)]) 1 true 250, 0);
   (init_state true false true (-1000000) 250000 [(1010, 0)] [(1011, 0)], 0)].
Definition ex_mops : list mop :=
  [(1000000, 0%nat, [], OReport true true); (1125000, 1%nat, [], OReport false false);
   (1500000, 0%nat, [], OReport true false); (2000000, 1%nat, [], ONop)].
Example ex_mrun :
  map (fun r => map (fun o => match o with Fire t c _ _ => (t, c) | _ => (0, 0) end) (snd r))
      (mrun (fun _ => []) 50 ex_cs ex_mops)
  = [[(1000000, 1001); (1250000, 1); (1500000, 1000)]; [(1125000, 1001)]].
Proof. vm_compute. reflexivity. Qed.
