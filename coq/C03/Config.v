(* C03/Config.v — the configuration dimension (round 4): which events a Switch device posts per change, as a
   function of the machine section `mpf:` and of the switch's own config, and a machine of SEVERAL switches.

   Modelled from mpf/devices/switch.py Switch._initialize / _create_activation_event:
     - `_post_events(state)` (or `_post_events_with_recycle(state)` when ignore_window_ms > 0) is registered FIRST
       for both states;
     - if mpf: auto_create_switch_events: switch_event_active / switch_event_inactive with '%' replaced by the
       switch name;
     - for EVERY tag (independent of auto_create_switch_events): switch_tag_event with '%' replaced by the tag,
       that + "_active" (state 1) and that + "_inactive" (state 0);
     - events_when_activated (state 1), events_when_deactivated (state 0);
     - _create_activation_event: "event|time" registers a timed `events.post` handler (hold time
       Util.string_to_ms(time)), anything else is appended to _events_to_post[state].
   Strings are lists of byte values.  Time strings: "<digits>", "<digits>ms", "<digits>s" (any case).

   A machine = a list of switches; the controller's tables are keyed by switch, so the machine is the product of
   the per-switch models of Model.v; what the switches share is the event NAMES (two switches with the same tag
   post the same sw_<tag> event): the observable of [crun] is the sorted list of (time, event name) posts of the
   whole machine. *)
From Common Require Import Prelude.
From C03 Require Import Model Multi.
Open Scope Z_scope.

Definition str := list Z.
Record mcfg := mkM { m_auto : bool; m_act : str; m_inact : str; m_tag : str }.
Record scfg := mkC { c_name : str; c_nc : bool; c_win : Z; c_tags : list str; c_ewa : list str; c_ewd : list str }.

(* str.replace('%', x): every occurrence *)
Definition replace_pct (pat x : str) : str := flat_map (fun c => if c =? 37 then x else [c]) pat.

(* split at the first '|' *)
Fixpoint split_bar (s : str) : str * option str :=
  match s with
  | [] => ([], None)
  | c :: s' => if c =? 124 then ([], Some s') else let '(a, b) := split_bar s' in (c :: a, b)
  end.

Definition is_digit (c : Z) : bool := (48 <=? c) && (c <=? 57).
Fixpoint digits (acc : Z) (s : str) : Z * str :=
  match s with
  | c :: s' => if is_digit c then digits (acc * 10 + (c - 48)) s' else (acc, s)
  | [] => (acc, [])
  end.
Definition upper (c : Z) : Z := if (97 <=? c) && (c <=? 122) then c - 32 else c.
Definition string_to_ms (s : str) : Z :=
  let '(n, rest) := digits 0 s in
  match map upper rest with
  | [83] => n * 1000
  | _ => n
  end.

(* the Switch device while it initialises: _events_to_post[0/1] and the events.post handlers (event, ms) it has
   registered for state 0/1, in registration order *)
Record devinit := mkI { ev0 : list str; ev1 : list str; tr0 : list (str * Z); tr1 : list (str * Z) }.

Definition create_activation_event (d : devinit) (v : bool) (e : str) : devinit :=
  match split_bar e with
  | (n, Some tm) =>
      if v then mkI (ev0 d) (ev1 d) (tr0 d) (tr1 d ++ [(n, string_to_ms tm)])
      else mkI (ev0 d) (ev1 d) (tr0 d ++ [(n, string_to_ms tm)]) (tr1 d)
  | (_, None) =>
      if v then mkI (ev0 d) (ev1 d ++ [e]) (tr0 d) (tr1 d) else mkI (ev0 d ++ [e]) (ev1 d) (tr0 d) (tr1 d)
  end.

Definition s_active : str := [95; 97; 99; 116; 105; 118; 101].
Definition s_inactive : str := [95; 105; 110; 97; 99; 116; 105; 118; 101].

Definition tag_step (M : mcfg) (d : devinit) (tag : str) : devinit :=
  let b := replace_pct (m_tag M) tag in
  create_activation_event
    (create_activation_event (create_activation_event d true b) true (b ++ s_active)) false (b ++ s_inactive).

Definition initialize (M : mcfg) (C : scfg) : devinit :=
  let d0 := mkI [] [] [] [] in
  let d1 := if m_auto M
            then create_activation_event (create_activation_event d0 true (replace_pct (m_act M) (c_name C)))
                                         false (replace_pct (m_inact M) (c_name C))
            else d0 in
  let d2 := fold_left (tag_step M) (c_tags C) d1 in
  let d3 := fold_left (fun d e => create_activation_event d true e) (c_ewa C) d2 in
  fold_left (fun d e => create_activation_event d false e) (c_ewd C) d3.

Definition evs_of (d : devinit) (v : bool) : list str := if v then ev1 d else ev0 d.
Definition trs_of (d : devinit) (v : bool) : list (str * Z) := if v then tr1 d else tr0 d.

(* callback numbers of the registry entries: 1000/1001 _post_events(0/1), 1010/1011 _post_events_with_recycle(0/1),
   2000+i / 3000+i the i-th events.post handler of state 0 / 1 *)
Fixpoint number_from (k : Z) (l : list (str * Z)) : list (Z * Z) :=
  match l with [] => [] | (_, ms) :: l' => (k, ms) :: number_from (k + 1) l' end.

Definition reg_pairs (win : Z) (d : devinit) (v : bool) : list (Z * Z) :=
  ((if 0 <? win then 1010 else 1000) + b2z v, 0) :: number_from (if v then 3000 else 2000) (trs_of d v).

Definition cfg_state (M : mcfg) (C : scfg) (st0 : bool) (lc0 : Z) : state :=
  let d := initialize M C in
  init_state (c_nc C) st0 (xorb st0 (c_nc C)) lc0 (c_win C * 1000)
             (reg_pairs (c_win C) d false) (reg_pairs (c_win C) d true).

(* the event names behind an observation *)
Definition names_of (d : devinit) (o : obs) : list (Z * str) :=
  match o with
  | Fire t cb _ _ =>
      if cb =? 1000 then map (pair t) (ev0 d)
      else if cb =? 1001 then map (pair t) (ev1 d)
      else if 3000 <=? cb then map (fun p => (t, fst p)) (firstn 1 (skipn (Z.to_nat (cb - 3000)) (tr1 d)))
      else if 2000 <=? cb then map (fun p => (t, fst p)) (firstn 1 (skipn (Z.to_nat (cb - 2000)) (tr0 d)))
      else []
  | _ => []
  end.
Definition posts (d : devinit) (l : list obs) : list (Z * str) := flat_map (names_of d) l.

(* ---- a machine of several switches ---------------------------------------------------------------- *)
Fixpoint lex_leb (a b : list Z) : bool :=
  match a, b with
  | [], _ => true
  | _ :: _, [] => false
  | x :: a', y :: b' => if x <? y then true else if y <? x then false else lex_leb a' b'
  end.
Fixpoint insert_row (x : list Z) (l : list (list Z)) : list (list Z) :=
  match l with [] => [x] | y :: l' => if lex_leb x y then x :: l else y :: insert_row x l' end.
Definition sort_rows (l : list (list Z)) : list (list Z) := fold_right insert_row [] l.

(* the machine: every switch with its config and start state; the operations are addressed by switch number and
   run by the joint model [mrun] of Multi.v (one shared loop) *)
Definition cinput := (mcfg * list (scfg * bool) * list mop * (Z * Z * Z))%type.       (* ..., (lc0, t_end, fuel) *)

Definition crun_case (i : cinput) : list (list Z) :=
  let '(M, sws, ops, (lc0, tend, fuel)) := i in
  let cs := map (fun c => (cfg_state M (fst c) (snd c) lc0, 0)) sws in
  let rs := mrun (fun _ => []) (Z.to_nat fuel) cs (ops ++ [(tend, 0%nat, [], ONop)]) in
  let named := map (fun cr => (fst (snd cr), posts (initialize M (fst (fst cr))) (snd (snd cr)))) (combine sws rs) in
  sort_rows (flat_map (fun r => map (fun p => fst p :: snd p) (snd r)) named)
  ++ map (fun r => let s := fst r in
                   [9; b2z (sst s); b2z (hw s); lc s; Z.of_nat (length (wakes (tm s)));
                    match rc (dv s) with Some (t, _) => t | None => -1 end]) named.

Definition crun : cinput -> list (list Z) := crun_case.
Definition cout_eqb := zss_eqb.
