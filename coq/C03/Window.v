(* C03/Window.v — the ignore window at HISTORY level (round 4).

   "The last post equals the state whenever no window is open":  for a switch with ignore_window_ms > 0 (its
   registry holds the _post_events_with_recycle handlers 1010/1011), for EVERY history of reports (raw/logical,
   duplicates), registrations, removals, queries, unmutes, wake-ups and window-end timers, with arbitrary
   re-entrant callback scripts, the state announced by the LAST <switch>_active/_inactive post is
     - the logical state of the switch, whenever no window is open, and
     - the state the window was opened for, while one is open (everything inside the window is swallowed and the
       window-end timer catches up).
   Guards (each necessary): the switch is never muted (a muted change posts nothing), nobody removes the
   window handlers 1010/1011, and nobody registers a handler under the callback numbers 1000/1001 that the model
   uses to observe the posts. *)
From Common Require Import Prelude.
From C03 Require Import Model Lemmas Dispatch.
Open Scope Z_scope.

Definition is_post_cb (cb : Z) : bool := (cb =? 1000) || (cb =? 1001).

Definition post_of (o : obs) : option bool :=
  match o with Fire _ cb v _ => if is_post_cb cb then Some v else None | _ => None end.

(* the state announced by the last post of a log (p when the log has none) *)
Fixpoint last_post (p : bool) (l : list obs) : bool :=
  match l with
  | [] => p
  | o :: l' => last_post (match post_of o with Some v => v | None => p end) l'
  end.

Lemma last_post_app p a b : last_post p (a ++ b) = last_post (last_post p a) b.
Proof. revert p. induction a as [|o a IH]; intros p; cbn; [reflexivity | apply IH]. Qed.

(* J s p: p is what the world has been told *)
Definition J (s : state) (p : bool) : Prop :=
  match rc (dv s) with None => p = sst s | Some (_, v0) => p = v0 end.

Definition Ra (s : state) : Prop := forall v e, In e (reg_of (rg s) v) -> is_post_cb (snd (fst e)) = false.
Definition Rb (s : state) : Prop :=
  forall v, exists e, In e (reg_of (rg s) v) /\ is_rcb (snd (fst e)) = true /\ snd e = 0.
Definition Tp (s : state) : Prop := tbl_all (fun e => is_post_cb (fst (fst e)) = false) (get_tbl s).
Definition RT (s : state) : Prop := Ra s /\ Rb s /\ Tp s /\ mutes (dv s) = [].

Definition act_g (a : act) : Prop :=
  match a with AAdd cb _ _ => is_post_cb cb = false | ARem cb _ _ => is_rcb cb = false end.
Definition acts_g (A : Z -> list act) : Prop := forall c, Forall act_g (A c).
Definition ev_g (te : Z * ev) : Prop :=
  match snd te with
  | EOp (OAdd cb _ _) => is_post_cb cb = false
  | EOp (ORem cb _ _) => is_rcb cb = false
  | EOp (OMute _) => False
  | _ => True
  end.

Lemma add_RT now s cb st ms : is_post_cb cb = false -> RT s -> RT (add now s cb st ms).
Proof.
  intros Hc (Ha & Hb & Ht & Hm). repeat split.
  - intros v e. unfold add; cbn [rg]. rewrite reg_of_set_reg. cbn [reg_of].
    destruct (Bool.eqb v st) eqn:E.
    + apply eqb_prop in E; subst st. intros H. apply in_app_or in H as [H|[<-|[]]]; [|exact Hc].
      apply (Ha v). destruct v; exact H.
    + intros H. apply (Ha v). destruct v; exact H.
  - intros v. destruct (Hb v) as (e & H1 & H2 & H3). exists e. split; [apply add_reg_mono; exact H1 | auto].
  - unfold Tp, get_tbl, add in *; cbn [tm]. destruct (_ && _); [|exact Ht].
    rewrite get_tbl_add_timed_eq. apply tbl_all_add; [exact Ht | exact Hc].
  - exact Hm.
Qed.

Lemma rem_keeps_rcb s cb st ms v e :
  is_rcb cb = false -> is_rcb (snd (fst e)) = true -> In e (reg_of (rg s) v) ->
  In e (reg_of (rg (rem s cb st ms)) v).
Proof.
  intros Hc He H. unfold rem; cbn [rg]. rewrite reg_of_set_reg. destruct (Bool.eqb v st) eqn:Ev; [apply eqb_prop in Ev; subst st|exact H].
  apply filter_In. split; [exact H|]. unfold ent_match.
  destruct (snd (fst e) =? cb) eqn:E; [|rewrite andb_false_r; reflexivity].
  apply Z.eqb_eq in E. rewrite E in He. congruence.
Qed.

Lemma rem_RT s cb st ms : is_rcb cb = false -> RT s -> RT (rem s cb st ms).
Proof.
  intros Hc (Ha & Hb & Ht & Hm). repeat split.
  - intros v e. unfold rem; cbn [rg]. rewrite reg_of_set_reg. destruct (Bool.eqb v st) eqn:E.
    + apply eqb_prop in E; subst st. intros H. apply filter_In in H as [H _]. apply (Ha v e H).
    + apply Ha.
  - intros v. destruct (Hb v) as (e & H1 & H2 & H3). exists e.
    split; [apply rem_keeps_rcb; assumption | auto].
  - unfold Tp, get_tbl, rem in *; cbn [tm]. destruct (timed (tm s)) as [d|] eqn:E; cbn.
    + apply tbl_all_filter; exact Ht.
    + rewrite E. exact Ht.
  - exact Hm.
Qed.

Lemma run_act_list_RT now l : Forall act_g l -> forall s, RT s -> RT (fold_left (run_act now) l s).
Proof.
  induction 1 as [|a l Ha _ IH]; cbn [fold_left]; intros s Hs; [exact Hs|].
  apply IH. destruct a; cbn [run_act]; [apply add_RT | apply rem_RT]; assumption.
Qed.

Lemma run_act_list_keeps now l v e : Forall act_g l -> is_rcb (snd (fst e)) = true ->
  forall s, In e (reg_of (rg s) v) -> In e (reg_of (rg (fold_left (run_act now) l s)) v).
Proof.
  intros Hl He. induction Hl as [|a l Ha _ IH]; cbn [fold_left]; intros s H; [exact H|].
  apply IH. destruct a; cbn [run_act]; [apply add_reg_mono; exact H | apply rem_keeps_rcb; assumption].
Qed.

Lemma live_in s v e : live s v e = true -> exists e', In e' (reg_of (rg s) v) /\ snd (fst e') = snd (fst e) /\ e' = e.
Proof.
  unfold live. intros H. apply existsb_exists in H as (e' & Hin & He). exists e'. split; [exact Hin|].
  unfold ent_eqb in He. apply andb_true_iff in He as [He H3]. apply andb_true_iff in He as [H1 H2].
  apply Z.eqb_eq in H1, H2, H3. destruct e as [[u c] m], e' as [[u' c'] m']; cbn in *. subst. split; reflexivity.
Qed.

Lemma J_same s s' p : dv s' = dv s -> sst s' = sst s -> J s p -> J s' p.
Proof. unfold J. intros -> ->. exact (fun H => H). Qed.

Lemma post_cb_1000 v : is_post_cb (1000 + b2z v) = true.
Proof. destruct v; reflexivity. Qed.

Lemma rcb_not_post cb : is_rcb cb = true -> is_post_cb cb = false.
Proof.
  unfold is_rcb, is_post_cb. intros H. apply orb_true_iff in H as [H|H]; apply Z.eqb_eq in H; subst; reflexivity.
Qed.

Section Hist.
  Variable A : Z -> list act.
  Hypothesis HA : acts_g A.
  Variables (now : Z) (v p : bool).

  (* the dispatch of a real change into v: either the world already knows (J), or no window is open and the
     window handler of v is still ahead in the snapshot *)
  Definition ahead (l : list entry) (s : state) : Prop :=
    rc (dv s) = None /\ exists e, In e l /\ In e (reg_of (rg s) v) /\ is_rcb (snd (fst e)) = true /\ snd e = 0.

  Definition K (acc : state * list obs) : Prop :=
    RT (fst acc) /\ sst (fst acc) = v /\ J (fst acc) (last_post p (snd acc)).

  Lemma call_fold_J : forall l s lg,
    RT s -> sst s = v -> J s (last_post p lg) \/ ahead l s -> K (fold_left (call_one A now v) l (s, lg)).
  Proof.
    induction l as [|e l IH]; intros s lg HR Hv HJ; cbn [fold_left].
    - destruct HJ as [HJ|(_ & e & [] & _)]. split; [exact HR | split; [exact Hv | exact HJ]].
    - unfold call_one at 2. destruct (negb (live s v e)) eqn:El.
      + apply IH; [exact HR | exact Hv|]. destruct HJ as [HJ|(Hn & e0 & [Heq|Hin] & Hreg & H1 & H2)]; [left; exact HJ| |].
        * subst e0. apply negb_true_iff in El. rewrite (in_live s v e Hreg) in El. discriminate.
        * right. split; [exact Hn|]. exists e0. auto.
      + apply negb_false_iff in El. destruct (live_in s v e El) as (e' & Hin' & _ & ->).
        destruct HR as (Ha & Hb & Ht & Hm). pose proof (Ha v e Hin') as Hnp.
        destruct (snd e =? 0) eqn:E0.
        * unfold invoke. destruct (is_rcb (snd (fst e))) eqn:Er.
          -- destruct (rc (dv s)) as [[t0 v0]|] eqn:Erc; cbn [fst snd].
             ++ rewrite app_nil_r. apply IH; [repeat split; assumption | exact Hv|].
                destruct HJ as [HJ|(Hn & _)]; [left; exact HJ | congruence].
             ++ apply IH; [repeat split; assumption | exact Hv|]. left.
                rewrite last_post_app. cbn [last_post post_of]. rewrite post_cb_1000.
                unfold J, set_rc, set_dv; cbn. reflexivity.
          -- cbn [fst snd].
             assert (HR' : RT (run_acts now s (A (snd (fst e))))).
             { apply run_act_list_RT; [apply HA | repeat split; assumption]. }
             apply IH; [exact HR' | rewrite run_acts_sst; exact Hv|].
             rewrite last_post_app. cbn [last_post post_of]. rewrite Hnp.
             destruct HJ as [HJ|(Hn & e0 & [Heq|Hin] & Hreg & H1 & H2)].
             ++ left. eapply J_same; [apply dv_run_acts | apply run_acts_sst | exact HJ].
             ++ subst e0. congruence.
             ++ right. split; [rewrite dv_run_acts; exact Hn|]. exists e0. split; [exact Hin|].
                split; [apply run_act_list_keeps; [apply HA | exact H1 | exact Hreg] | auto].
        * apply IH.
          -- repeat split; try assumption.
             unfold Tp, get_tbl; cbn [set_tm tm]. rewrite get_tbl_add_timed_eq. apply tbl_all_add; [exact Ht | exact Hnp].
          -- exact Hv.
          -- destruct HJ as [HJ|(Hn & e0 & [Heq|Hin] & Hreg & H1 & H2)]; [left; exact HJ| |].
             ++ subst e0. apply Z.eqb_neq in E0. contradiction.
             ++ right. split; [exact Hn|]. exists e0. auto.
  Qed.
End Hist.

Definition KJ (p : bool) (acc : state * list obs) : Prop := RT (fst acc) /\ J (fst acc) (last_post p (snd acc)).

Lemma report_J A now s lg val p : acts_g A -> RT s -> J s p -> KJ p (report A now s lg val).
Proof.
  intros HA HR HJ. unfold report. destruct (Bool.eqb _ _) eqn:E; [split; [exact HR | exact HJ]|].
  destruct HR as (Ha & Hb & Ht & Hm). rewrite Hm.
  set (v := logical_of (inv s) lg val) in *.
  match goal with |- context [call_handlers A now ?s0 v] => set (s1 := s0) end.
  assert (HR1 : RT s1).
  { split; [exact Ha|]. split; [exact Hb|]. split; [|exact Hm]. unfold Tp, get_tbl, s1; cbn [tm]. unfold cancel.
    destruct (timed (tm s)) as [d|] eqn:Ed; [cbn; intros k l [] | rewrite Ed; intros k l []]. }
  unfold call_handlers.
  destruct (call_fold_J A HA now v p (reg_of (rg s1) v) s1 [] HR1 eq_refl) as (K1 & _ & K3).
  - unfold J in HJ. destruct (rc (dv s)) as [[t0 v0]|] eqn:Erc.
    + left. unfold J, s1; cbn [dv]. rewrite Erc. exact HJ.
    + right. split; [exact Erc|]. destruct (Hb v) as (e & H1 & H2 & H3). exists e. auto.
  - split; assumption.
Qed.

Definition Kw (p : bool) (s0 : state) (acc : state * list obs) : Prop :=
  RT (fst acc) /\ dv (fst acc) = dv s0 /\ sst (fst acc) = sst s0 /\ last_post p (snd acc) = p.

Lemma proc_one_Kw A now k p s0 acc e : acts_g A -> Kw p s0 acc -> Kw p s0 (proc_one A now k acc e).
Proof.
  intros HA. destruct acc as [s lg]; unfold Kw, proc_one; cbn [fst snd]. intros (HR & Hd & Hs & Hl).
  destruct (existsb _ _) eqn:Ee; cbn [fst snd]; [|split; [exact HR | split; [exact Hd | split; [exact Hs | exact Hl]]]].
  split; [apply run_act_list_RT; [apply HA | exact HR]|].
  split; [rewrite dv_run_acts; exact Hd|]. split; [rewrite run_acts_sst; exact Hs|].
  rewrite last_post_app, Hl. cbn [last_post post_of].
  apply existsb_exists in Ee as (e' & Hin & He). apply eq_triple_true in He as (He & _ & _).
  destruct HR as (_ & _ & Ht & _). pose proof (tbl_all_get _ _ _ _ Ht Hin) as Hp. cbn beta in Hp.
  rewrite He, Hp. reflexivity.
Qed.

Lemma proc_key_Kw A now p s0 acc k : acts_g A -> Kw p s0 acc -> Kw p s0 (proc_key A now acc k).
Proof.
  intros HA. destruct acc as [s lg]; unfold proc_key. intros H. destruct (k <=? now); [|exact H].
  pose proof (fold_inv (proc_one A now k) (Kw p s0) (tbl_get (get_tbl s) k)
                (fun x y Hx => proc_one_Kw A now k p s0 x y HA Hx) (s, lg) H) as H1.
  destruct (fold_left _ _ _) as [s1 lg1]. destruct H1 as ((Ha & Hb & Ht & Hm) & Hd & Hs & Hl); cbn [fst snd] in *.
  repeat split; try assumption. unfold Tp, get_tbl at 1; cbn. apply tbl_all_del; exact Ht.
Qed.

Lemma process_J A now s w p : acts_g A -> RT s -> J s p -> KJ p (process A now s w).
Proof.
  intros HA HR HJ. unfold process. cbn [cur timed wakes wid].
  destruct (cur (tm s)) as [c|]; [|split; [exact HR | exact HJ]].
  destruct (timed (tm s)) as [d|] eqn:Ed.
  - match goal with |- context [fold_left ?f ?l ?a0] =>
      assert (H0 : Kw p s a0);
      [|pose proof (fold_inv f (Kw p s) l (fun x y Hx => proc_key_Kw A now p s x y HA Hx) a0 H0) as H1;
        destruct (fold_left f l a0) as [s2 lg]] end.
    { destruct HR as (Ha & Hb & Ht & Hm). repeat split; try assumption.
      unfold Tp, get_tbl in *; cbn. rewrite Ed in Ht. exact Ht. }
    destruct H1 as ((Ha & Hb & Ht & Hm) & Hd & Hs & Hl); cbn [fst snd] in *.
    split; cbn [fst snd].
    + repeat split; try assumption. unfold Tp, get_tbl in *; cbn [set_tm tm]. rewrite timed_resched. exact Ht.
    + rewrite Hl. eapply J_same; [| |exact HJ]; cbn; assumption.
  - split; cbn [fst snd]; [|exact HJ]. destruct HR as (Ha & Hb & Ht & Hm). repeat split; try assumption.
    unfold Tp, get_tbl; cbn. intros k l [].
Qed.

Lemma recycle_J now s p : RT s -> J s p -> KJ p (recycle_passed now s).
Proof.
  intros HR HJ. unfold recycle_passed, J in *. destruct (rc (dv s)) as [[t0 v0]|] eqn:E.
  - split; cbn [fst snd]; [exact HR|]. subst p. unfold J. cbn [set_rc set_dv dv rc sst].
    destruct (Bool.eqb (sst s) v0) eqn:Eb; [apply eqb_prop in Eb; cbn [last_post]; congruence|].
    cbn [last_post post_of]. rewrite post_cb_1000. reflexivity.
  - split; cbn [fst snd]; [exact HR|]. unfold J. rewrite E. exact HJ.
Qed.

Lemma step_J A s te p : acts_g A -> ev_g te -> RT s -> J s p -> KJ p (step A s te).
Proof.
  intros HA Hg HR HJ. destruct te as [t [o| |]]; unfold step, ev_g in *; cbn [fst snd] in *.
  - destruct o as [lg v|cb st ms|cb st ms|st ms|src|src|]; cbn [step_op].
    + apply report_J; assumption.
    + split; cbn [fst snd]; [apply add_RT; assumption | exact HJ].
    + split; cbn [fst snd]; [apply rem_RT; assumption | exact HJ].
    + split; cbn [fst snd]; [exact HR | exact HJ].
    + contradiction.
    + destruct HR as (Ha & Hb & Ht & Hm). split; cbn [fst snd]; [|exact HJ].
      repeat split; try assumption. cbn. rewrite Hm. reflexivity.
    + split; [exact HR | exact HJ].
  - destruct (earliest _) as [[w tw]|]; [apply process_J; assumption | split; [exact HR | exact HJ]].
  - apply recycle_J; assumption.
Qed.

Lemma window_history_l A : acts_g A -> forall evs s p, Forall ev_g evs -> RT s -> J s p ->
  J (fst (exec A s evs)) (last_post p (snd (exec A s evs))).
Proof.
  intros HA. induction evs as [|te evs IH]; intros s p Hg HR HJ; cbn [exec]; [exact HJ|].
  inversion Hg as [|? ? Hte Hevs]; subst.
  destruct (step_J A s te p HA Hte HR HJ) as [H1 H2]. destruct (step A s te) as [s1 l1]; cbn [fst snd] in *.
  specialize (IH s1 (last_post p l1) Hevs H1 H2). destruct (exec A s1 evs) as [s2 l2]; cbn [fst snd] in *.
  rewrite last_post_app. exact IH.
Qed.

Lemma window_closed_last_post_l A : acts_g A -> forall evs s, Forall ev_g evs -> RT s -> rc (dv s) = None ->
  let r := exec A s evs in
  match rc (dv (fst r)) with
  | None => last_post (sst s) (snd r) = sst (fst r)
  | Some (_, v0) => last_post (sst s) (snd r) = v0
  end.
Proof.
  intros HA evs s Hg HR Hn. cbn zeta.
  assert (HJ : J s (sst s)) by (unfold J; rewrite Hn; reflexivity).
  pose proof (window_history_l A HA evs s (sst s) Hg HR HJ) as H. unfold J in H.
  destruct (rc (dv (fst (exec A s evs)))) as [[t0 v0]|]; exact H.
Qed.

Lemma init_RT nc st h lc0 win : RT (init_state nc st h lc0 win [(1010, 0)] [(1011, 0)]).
Proof.
  repeat split.
  - intros v e H. destruct v; cbn in H; destruct H as [<-|[]]; reflexivity.
  - intros v. destruct v; eexists; (split; [left; reflexivity | split; reflexivity]).
  - unfold Tp, get_tbl; cbn. intros k l [].
Qed.

(* satisfiability: NC switch with a 250 ms window; change, change back inside the window, window end (catch-up
   post), with a user callback that registers and removes handlers *)
Definition exA_w (c : Z) : list act := if c =? 1 then [AAdd 2 true 125; ARem 3 false 0] else [].
Definition ex_sw : state := add 0 (init_state true false true (-1000000) 250000 [(1010, 0)] [(1011, 0)]) 1 true 0.
Definition ex_evw : list (Z * ev) :=
  [(1000000, EOp (OReport false false)); (1125000, EWake); (1125000, EOp (OReport true false)); (1250000, ERecycle);
   (2000000, EOp (OReport true true))].
Example ex_window_run :
  map (fun o => match o with Fire t c _ _ => (t, c) | _ => (0, 0) end) (snd (exec exA_w ex_sw ex_evw))
  = [(1000000, 1001); (1000000, 1); (1125000, 2); (1250000, 1000); (2000000, 1001); (2000000, 1)]
  /\ rc (dv (fst (exec exA_w ex_sw ex_evw))) = Some (2250000, true)
  /\ last_post false (snd (exec exA_w ex_sw ex_evw)) = true.
Proof. vm_compute. repeat split. Qed.
Example ex_acts_g : acts_g exA_w.
Proof. intros c. unfold exA_w. destruct (c =? 1); repeat constructor. Qed.
Example ex_ev_g : Forall ev_g ex_evw.
Proof. repeat constructor. Qed.
Example ex_RT : RT ex_sw.
Proof. apply add_RT; [reflexivity | apply init_RT]. Qed.
