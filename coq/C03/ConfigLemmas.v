(* C03/ConfigLemmas.v — what Switch._initialize configures, in closed form, and what a change posts. *)
From Common Require Import Prelude.
From C03 Require Import Model Lemmas Dispatch Config.
Open Scope Z_scope.

Definition has_bar (e : str) : bool := match snd (split_bar e) with None => false | Some _ => true end.
Definition untimed (l : list str) : list str := filter (fun e => negb (has_bar e)) l.
Definition timed_of (l : list str) : list (str * Z) :=
  flat_map (fun e => match split_bar e with (n, Some tm) => [(n, string_to_ms tm)] | _ => [] end) l.
Definition D (L0 L1 : list str) : devinit := mkI (untimed L0) (untimed L1) (timed_of L0) (timed_of L1).

Lemma cae_D L0 L1 v e :
  create_activation_event (D L0 L1) v e = if v then D L0 (L1 ++ [e]) else D (L0 ++ [e]) L1.
Proof.
  unfold create_activation_event, D, untimed, timed_of, has_bar.
  destruct v; rewrite filter_app, flat_map_app; cbn [filter flat_map ev0 ev1 tr0 tr1];
    destruct (split_bar e) as [n [tm|]]; cbn [snd negb]; rewrite ?app_nil_r; reflexivity.
Qed.

(* the events the configuration asks for, per state, in the order of Switch._initialize *)
Definition tag_evs (M : mcfg) (v : bool) (tag : str) : list str :=
  let b := replace_pct (m_tag M) tag in if v then [b; b ++ s_active] else [b ++ s_inactive].
Definition configured (M : mcfg) (C : scfg) (v : bool) : list str :=
  (if m_auto M then [replace_pct (if v then m_act M else m_inact M) (c_name C)] else [])
  ++ flat_map (tag_evs M v) (c_tags C) ++ (if v then c_ewa C else c_ewd C).

Lemma fold_tags M tags : forall L0 L1,
  fold_left (tag_step M) tags (D L0 L1)
  = D (L0 ++ flat_map (tag_evs M false) tags) (L1 ++ flat_map (tag_evs M true) tags).
Proof.
  induction tags as [|t tags IH]; intros L0 L1; cbn [fold_left flat_map].
  - rewrite !app_nil_r. reflexivity.
  - unfold tag_step. rewrite !cae_D. rewrite IH. unfold tag_evs at 2 4. cbn [app].
    rewrite <- !app_assoc. reflexivity.
Qed.

Lemma fold_ew v l : forall L0 L1,
  fold_left (fun d e => create_activation_event d v e) l (D L0 L1)
  = if v then D L0 (L1 ++ l) else D (L0 ++ l) L1.
Proof.
  induction l as [|e l IH]; intros L0 L1; cbn [fold_left].
  - rewrite !app_nil_r. destruct v; reflexivity.
  - rewrite cae_D. destruct v; rewrite IH, <- app_assoc; reflexivity.
Qed.

Lemma initialize_closed_l M C : initialize M C = D (configured M C false) (configured M C true).
Proof.
  unfold initialize, configured. change (mkI [] [] [] []) with (D [] []).
  destruct (m_auto M).
  - rewrite !cae_D. cbn [app]. rewrite fold_tags, (fold_ew true), (fold_ew false).
    rewrite <- !app_assoc. reflexivity.
  - rewrite fold_tags, (fold_ew true), (fold_ew false). cbn [app]. reflexivity.
Qed.

Lemma evs_of_closed M C v : evs_of (initialize M C) v = untimed (configured M C v).
Proof. rewrite initialize_closed_l. destruct v; reflexivity. Qed.

Lemma trs_of_closed M C v : trs_of (initialize M C) v = timed_of (configured M C v).
Proof. rewrite initialize_closed_l. destruct v; reflexivity. Qed.

Lemma initialize_closed_form_l M C v :
  evs_of (initialize M C) v = untimed (configured M C v) /\ trs_of (initialize M C) v = timed_of (configured M C v).
Proof. split; [apply evs_of_closed | apply trs_of_closed]. Qed.

(* tag events do not depend on auto_create_switch_events; name events exist iff it is set *)
Lemma tag_events_always_l M C v tag e :
  In tag (c_tags C) -> In e (tag_evs M v tag) -> has_bar e = false -> In e (evs_of (initialize M C) v).
Proof.
  intros Ht He Hb. rewrite evs_of_closed. unfold untimed. apply filter_In. split; [|rewrite Hb; reflexivity].
  unfold configured. apply in_or_app; right. apply in_or_app; left. apply in_flat_map. exists tag. split; assumption.
Qed.

Lemma configured_no_auto M C v :
  m_auto M = false -> configured M C v = flat_map (tag_evs M v) (c_tags C) ++ (if v then c_ewa C else c_ewd C).
Proof. intros H. unfold configured. rewrite H. reflexivity. Qed.

(* ---- a real change posts every configured (untimed) event exactly once ------------------------------ *)
Definition cbms (e : entry) : Z * Z := (snd (fst e), snd e).

Lemma untimed_fires_cbms now v l :
  untimed_fires now v l = flat_map (fun p => if snd p =? 0 then [Fire now (fst p) v 0] else []) (map cbms l).
Proof.
  unfold untimed_fires. induction l as [|e l IH]; cbn [map flat_map]; [reflexivity|].
  rewrite IH. reflexivity.
Qed.

Lemma number_from_ge l : forall k c m, In (c, m) (number_from k l) -> k <= c.
Proof.
  induction l as [|[n ms] l IH]; cbn; intros k c m H; [destruct H|].
  destruct H as [H|H]; [injection H as <- _; lia | apply IH in H; lia].
Qed.

Lemma number_from_quiet now v l : Forall (fun p => snd p <> 0) l -> forall k,
  flat_map (fun p : Z * Z => if snd p =? 0 then [Fire now (fst p) v 0] else []) (number_from k l) = [].
Proof.
  induction 1 as [|[n ms] l Hm _ IH]; intros k; cbn; [reflexivity|].
  cbn in Hm. destruct (ms =? 0) eqn:E; [apply Z.eqb_eq in E; contradiction|]. apply IH.
Qed.

Lemma change_posts_configured_l M C A now s lg val :
  c_win C <= 0 -> keeps_untimed A (logical_of (inv s) lg val) -> logical_of (inv s) lg val <> sst s ->
  mutes (dv s) = [] ->
  map cbms (reg_of (rg s) (logical_of (inv s) lg val))
  = reg_pairs (c_win C) (initialize M C) (logical_of (inv s) lg val) ->
  Forall (fun p => snd p <> 0) (trs_of (initialize M C) (logical_of (inv s) lg val)) ->
  posts (initialize M C) (snd (report A now s lg val))
  = map (pair now) (untimed (configured M C (logical_of (inv s) lg val))).
Proof.
  set (v := logical_of (inv s) lg val). intros Hw HA Hne Hm Hreg Htr.
  assert (Hwin : (0 <? c_win C) = false) by (apply Z.ltb_ge; exact Hw).
  assert (Hr : no_rcb (reg_of (rg s) v)).
  { intros e He. apply (in_map cbms) in He. rewrite Hreg in He. unfold reg_pairs in He. rewrite Hwin in He.
    unfold cbms in He. destruct He as [He|He].
    - injection He as Hc _. rewrite <- Hc. destruct v; reflexivity.
    - apply number_from_ge in He. unfold is_rcb.
      destruct (snd (fst e) =? 1010) eqn:E1; [apply Z.eqb_eq in E1; destruct v; lia|].
      destruct (snd (fst e) =? 1011) eqn:E2; [apply Z.eqb_eq in E2; destruct v; lia | reflexivity]. }
  rewrite (untimed_once_rem_l A now s lg val HA Hne Hm Hr). fold v.
  rewrite untimed_fires_cbms, Hreg. unfold reg_pairs. rewrite Hwin. cbn [flat_map snd fst].
  rewrite Z.eqb_refl, number_from_quiet by exact Htr. rewrite <- evs_of_closed.
  unfold posts. cbn [flat_map names_of]. destruct v; cbn; rewrite ?app_nil_r; reflexivity.
Qed.

(* satisfiability: auto-create off, two tags, events_when_activated with a timed event *)
Definition z (s : list nat) : str := map Z.of_nat s.
Definition exM : mcfg := mkM false [37; 95; 111; 110] [37; 95; 111; 102; 102] [115; 119; 95; 37].   (* %_on %_off sw_% *)
Definition exC : scfg := mkC [115; 55] false 0 [[97]; [98]] [[120]; [121; 124; 50; 53; 48; 109; 115]] [].  (* s7 a b x y|250ms *)
Example ex_configured :
  configured exM exC true = [[115;119;95;97]; [115;119;95;97;95;97;99;116;105;118;101];
                             [115;119;95;98]; [115;119;95;98;95;97;99;116;105;118;101]; [120];
                             [121;124;50;53;48;109;115]]
  /\ tr1 (initialize exM exC) = [([121], 250)] /\ ev0 (initialize exM exC) = [[115;119;95;97;95;105;110;97;99;116;105;118;101];
                                                                             [115;119;95;98;95;105;110;97;99;116;105;118;101]].
Proof. vm_compute. repeat split. Qed.
Example ex_change_posts :
  posts (initialize exM exC) (snd (report (fun _ => []) 5000000 (cfg_state exM exC false (-1000000)) true true))
  = map (pair 5000000) (untimed (configured exM exC true)).
Proof. vm_compute. reflexivity. Qed.
Example ex_cfg_hyps :
  map cbms (reg_of (rg (cfg_state exM exC false (-1000000))) true) = reg_pairs 0 (initialize exM exC) true
  /\ Forall (fun p => snd p <> 0) (trs_of (initialize exM exC) true).
Proof. split; [vm_compute; reflexivity | vm_compute; repeat constructor; discriminate]. Qed.
