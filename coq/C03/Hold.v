(* C03/Hold.v — history-level theorems about hold times (timed handlers) and the ignore window.
   Part A: invariants of every reachable state: every pending entry sits under the key last_change + ms and is for
           the current state, keys are unique (HI); the recorded wake-up is at the minimum pending deadline (Mw).
   Part B: the wake-up lemma.
   Part C: refinement of the model to the "hold automaton" of one handler, for all histories.
   Stdlib only, no axioms. *)
From Common Require Import Prelude.
From C03 Require Import Model Lemmas.
Open Scope Z_scope.

(* ------------------------------------------------------------------------------------------------ *)
(* table facts                                                                                        *)
Definition tbl_allk (P : Z -> triple -> Prop) (d : table) : Prop :=
  forall k l, In (k, l) d -> forall e, In e l -> P k e.

Lemma allk_tail P kl d : tbl_allk P (kl :: d) -> tbl_allk P d.
Proof. intros H k l Hin. apply (H k l). right; exact Hin. Qed.

Lemma allk_add P d k e : tbl_allk P d -> P k e -> tbl_allk P (tbl_add d k e).
Proof.
  intros Hd He. induction d as [|[k' l'] d IH]; cbn.
  - intros k0 l0 [H|[]] e0 H0. injection H as <- <-. destruct H0 as [<-|[]]. exact He.
  - pose proof (allk_tail _ _ _ Hd) as Hd'. destruct (k =? k') eqn:E.
    + apply Z.eqb_eq in E. subst k'. intros k0 l0 [H|H] e0 H0.
      * injection H as <- <-. apply in_app_or in H0 as [H0|[<-|[]]]; [|exact He].
        apply (Hd k l'); [left; reflexivity | exact H0].
      * apply (Hd' k0 l0 H e0 H0).
    + intros k0 l0 [H|H] e0 H0.
      * apply (Hd k0 l0); [left; exact H | exact H0].
      * apply (IH Hd' k0 l0 H e0 H0).
Qed.

Lemma allk_del P d k : tbl_allk P d -> tbl_allk P (tbl_del d k).
Proof.
  intros Hd. induction d as [|[k' l'] d IH]; cbn; [exact Hd|].
  pose proof (allk_tail _ _ _ Hd) as Hd'. destruct (k =? k'); [exact Hd'|].
  intros k0 l0 [H|H] e0 H0.
  - apply (Hd k0 l0); [left; exact H | exact H0].
  - apply (IH Hd' k0 l0 H e0 H0).
Qed.

Lemma allk_filter P y d : tbl_allk P d -> tbl_allk P (tbl_filter y d).
Proof.
  intros Hd k l H e He. unfold tbl_filter in H. apply in_map_iff in H as ([k' l'] & Heq & Hin).
  cbn in Heq. injection Heq as <- <-. apply filter_In in He as [He _]. apply (Hd k' l' Hin e He).
Qed.

Lemma allk_get P d k e : tbl_allk P d -> In e (tbl_get d k) -> P k e.
Proof.
  intros Hd. induction d as [|[k' l'] d IH]; cbn; [intros []|].
  pose proof (allk_tail _ _ _ Hd) as Hd'. destruct (k =? k') eqn:E; intros H.
  - apply Z.eqb_eq in E. subst k'. apply (Hd k l'); [left; reflexivity | exact H].
  - apply IH; assumption.
Qed.

Lemma keys_add d k e : keys (tbl_add d k e) = if existsb (Z.eqb k) (keys d) then keys d else keys d ++ [k].
Proof.
  induction d as [|[k' l'] d IH]; cbn; [reflexivity|].
  destruct (k =? k') eqn:E; cbn; [reflexivity|]. unfold keys in IH. rewrite IH.
  destruct (existsb _ _); reflexivity.
Qed.

Lemma existsb_eqb_false k l : existsb (Z.eqb k) l = false -> ~ In k l.
Proof.
  intros H Hin. assert (existsb (Z.eqb k) l = true) by (apply existsb_exists; exists k; split; [exact Hin | apply Z.eqb_refl]).
  congruence.
Qed.

Lemma nodup_add d k e : NoDup (keys d) -> NoDup (keys (tbl_add d k e)).
Proof.
  intros H. rewrite keys_add. destruct (existsb _ _) eqn:E; [exact H|].
  apply existsb_eqb_false in E. apply NoDup_rev in H. rewrite <- (rev_involutive (keys d ++ [k])).
  apply NoDup_rev. rewrite rev_app_distr. cbn. constructor; [rewrite <- in_rev; exact E | exact H].
Qed.

Lemma keys_del_incl d k k0 : In k0 (keys (tbl_del d k)) -> In k0 (keys d).
Proof.
  induction d as [|[k' l'] d IH]; cbn; [auto|]. destruct (k =? k'); cbn; [auto|]. intros [H|H]; auto.
Qed.

Lemma nodup_del d k : NoDup (keys d) -> NoDup (keys (tbl_del d k)).
Proof.
  induction d as [|[k' l'] d IH]; cbn; [auto|]. intros H. inversion H as [|? ? Hn Hd]; subst.
  destruct (k =? k'); [exact Hd|]. cbn. constructor; [|apply IH; exact Hd].
  intros C. apply Hn. eapply keys_del_incl; exact C.
Qed.

Lemma keys_filter y d : keys (tbl_filter y d) = keys d.
Proof. unfold keys, tbl_filter. rewrite map_map. reflexivity. Qed.

Lemma tbl_get_absent d k : ~ In k (keys d) -> tbl_get d k = [].
Proof.
  induction d as [|[k' l'] d IH]; cbn; [reflexivity|]. intros H.
  destruct (k =? k') eqn:E; [apply Z.eqb_eq in E; subst; exfalso; apply H; left; reflexivity|].
  apply IH. intros C; apply H; right; exact C.
Qed.

Lemma tbl_get_add_same d k e : tbl_get (tbl_add d k e) k = tbl_get d k ++ [e].
Proof.
  induction d as [|[k' l'] d IH]; cbn; [rewrite Z.eqb_refl; reflexivity|].
  destruct (k =? k') eqn:E; cbn; rewrite E; [reflexivity | exact IH].
Qed.

Lemma tbl_get_add_other d k e k0 : k0 <> k -> tbl_get (tbl_add d k e) k0 = tbl_get d k0.
Proof.
  intros Hne. induction d as [|[k' l'] d IH]; cbn.
  - destruct (k0 =? k) eqn:E; [apply Z.eqb_eq in E; contradiction | reflexivity].
  - destruct (k =? k') eqn:E; cbn.
    + apply Z.eqb_eq in E; subst k'. destruct (k0 =? k) eqn:E0; [apply Z.eqb_eq in E0; contradiction | reflexivity].
    + destruct (k0 =? k'); [reflexivity | exact IH].
Qed.

Lemma tbl_get_del_other d k k0 : k0 <> k -> tbl_get (tbl_del d k) k0 = tbl_get d k0.
Proof.
  intros Hne. induction d as [|[k' l'] d IH]; cbn; [reflexivity|].
  destruct (k =? k') eqn:E; cbn.
  - apply Z.eqb_eq in E; subst k'. destruct (k0 =? k) eqn:E0; [apply Z.eqb_eq in E0; contradiction | reflexivity].
  - destruct (k0 =? k'); [reflexivity | exact IH].
Qed.

Lemma tbl_get_del_same d k : NoDup (keys d) -> tbl_get (tbl_del d k) k = [].
Proof.
  induction d as [|[k' l'] d IH]; cbn; [reflexivity|]. intros H. inversion H as [|? ? Hn Hd]; subst.
  destruct (k =? k') eqn:E; cbn.
  - apply Z.eqb_eq in E; subst k'. apply tbl_get_absent; exact Hn.
  - rewrite E. apply IH; exact Hd.
Qed.

Lemma tbl_get_filter y d k :
  tbl_get (tbl_filter y d) k = filter (fun e => negb (eq_triple e y)) (tbl_get d k).
Proof.
  induction d as [|[k' l'] d IH]; cbn; [reflexivity|]. destruct (k =? k'); [reflexivity | exact IH].
Qed.

Lemma tbl_get_in_keys d k e : In e (tbl_get d k) -> In k (keys d).
Proof.
  induction d as [|[k' l'] d IH]; cbn; [intros []|]. destruct (k =? k') eqn:E.
  - apply Z.eqb_eq in E; subst; auto.
  - intros H; right; apply IH; exact H.
Qed.

(* the minimum key *)
Lemma fold_min_le l : forall a, fold_left Z.min l a <= a /\ (forall k, In k l -> fold_left Z.min l a <= k).
Proof.
  induction l as [|y l IH]; cbn; intros a; [split; [lia | intros k []]|].
  destruct (IH (Z.min a y)) as [H1 H2]. split; [lia|]. intros k [<-|H]; [lia | apply H2; exact H].
Qed.

Lemma fold_min_in l : forall a, fold_left Z.min l a = a \/ In (fold_left Z.min l a) l.
Proof.
  induction l as [|y l IH]; cbn; intros a; [left; reflexivity|].
  destruct (IH (Z.min a y)) as [H|H]; [|right; right; exact H].
  rewrite H. destruct (Z.min_spec a y) as [[_ ->]|[_ ->]]; [left; reflexivity | right; left; reflexivity].
Qed.

Lemma tbl_min_le d k : In k (keys d) -> tbl_min d <= k.
Proof.
  destruct d as [|[k0 l0] d]; cbn; [intros []|]. intros [<-|H]; [apply (proj1 (fold_min_le _ _)) | apply (proj2 (fold_min_le _ _)); exact H].
Qed.

Lemma tbl_min_in kl d : In (tbl_min (kl :: d)) (keys (kl :: d)).
Proof.
  destruct kl as [k0 l0]. cbn. destruct (fold_min_in (map fst d) k0) as [H|H]; [left; symmetry; exact H | right; exact H].
Qed.

(* ------------------------------------------------------------------------------------------------ *)
(* Part A.1: HI — every pending entry sits under last_change + ms and is for the current state; keys unique *)
Definition HIc (c : Z) (v : bool) (d : table) : Prop :=
  tbl_allk (fun k e => k = c + us (snd e) /\ snd (fst e) = v) d /\ NoDup (keys d).
Definition HI (s : state) : Prop := HIc (lc s) (sst s) (get_tbl s).

Lemma HIc_nil c v : HIc c v [].
Proof. split; [intros k l [] | constructor]. Qed.

Lemma HIc_add c v d k e : HIc c v d -> k = c + us (snd e) -> snd (fst e) = v -> HIc c v (tbl_add d k e).
Proof. intros [H1 H2] Hk Hv. split; [apply allk_add; auto | apply nodup_add; exact H2]. Qed.

Lemma HIc_del c v d k : HIc c v d -> HIc c v (tbl_del d k).
Proof. intros [H1 H2]. split; [apply allk_del; exact H1 | apply nodup_del; exact H2]. Qed.

Lemma HIc_filter c v y d : HIc c v d -> HIc c v (tbl_filter y d).
Proof. intros [H1 H2]. split; [apply allk_filter; exact H1 | rewrite keys_filter; exact H2]. Qed.

Lemma get_tbl_set_tm_add s k e :
  get_tbl (set_tm s (add_timed (tm s) k e)) = tbl_add (get_tbl s) k e.
Proof. unfold get_tbl; cbn [set_tm tm]. apply get_tbl_add_timed_eq. Qed.

Lemma get_tbl_add now s cb st ms :
  get_tbl (add now s cb st ms)
  = if negb (ms =? 0) && (lc s >? now - us ms) && Bool.eqb st (sst s)
    then tbl_add (get_tbl s) (lc s + us ms) (cb, st, ms) else get_tbl s.
Proof.
  unfold get_tbl, add; cbn [tm]. destruct (_ && _); [apply get_tbl_add_timed_eq | reflexivity].
Qed.

Lemma get_tbl_rem s cb st ms : get_tbl (rem s cb st ms) = tbl_filter (cb, st, ms) (get_tbl s).
Proof. unfold get_tbl, rem; cbn [tm]. destruct (timed (tm s)) as [d|] eqn:E; cbn; [reflexivity | rewrite E; reflexivity]. Qed.

Lemma add_HI now s cb st ms : HI s -> HI (add now s cb st ms).
Proof.
  unfold HI. rewrite get_tbl_add. change (lc (add now s cb st ms)) with (lc s). change (sst (add now s cb st ms)) with (sst s).
  intros H. destruct (negb (ms =? 0) && (lc s >? now - us ms)); cbn [andb]; [|exact H].
  destruct (Bool.eqb st (sst s)) eqn:E; [|exact H]. apply eqb_prop in E. apply HIc_add; [exact H | reflexivity | exact E].
Qed.

Lemma rem_HI s cb st ms : HI s -> HI (rem s cb st ms).
Proof. unfold HI. rewrite get_tbl_rem. apply HIc_filter. Qed.

Lemma run_acts_HI now l s : HI s -> HI (run_acts now s l).
Proof.
  unfold run_acts. apply (fold_inv (run_act now) HI).
  intros a b Ha. destruct b; [apply add_HI | apply rem_HI]; exact Ha.
Qed.

Lemma invoke_HI A now s cb v : HI s -> HI (fst (invoke A now s cb v)).
Proof.
  intros H. unfold invoke. destruct (is_rcb cb); [|apply run_acts_HI; exact H].
  destruct (rc (dv s)); exact H.
Qed.

Definition HL (v : bool) (acc : state * list obs) : Prop := HI (fst acc) /\ sst (fst acc) = v.

Lemma invoke_sst A now s cb v : sst (fst (invoke A now s cb v)) = sst s.
Proof. destruct (invoke_sw A now s cb v) as (_ & H & _). exact H. Qed.

Lemma call_one_HL A now v acc e : HL v acc -> HL v (call_one A now v acc e).
Proof.
  destruct acc as [s lg]; unfold HL, call_one; cbn [fst snd]. intros (H1 & H2).
  destruct (negb (live s v e)); [split; assumption|].
  destruct (snd e =? 0); cbn [fst snd].
  - split; [apply invoke_HI; exact H1 | rewrite invoke_sst; exact H2].
  - split; [|exact H2]. unfold HI. rewrite get_tbl_set_tm_add. cbn [set_tm lc sst].
    apply HIc_add; [exact H1 | reflexivity | cbn; symmetry; exact H2].
Qed.

Lemma get_tbl_cancel s now v h :
  get_tbl (mkS (inv s) v h now (rg s) (cancel (tm s)) (dv s)) = [].
Proof. unfold get_tbl; cbn [tm]. rewrite change_cancels_l. reflexivity. Qed.

Lemma report_HI A now s lg val : HI s -> HI (fst (report A now s lg val)).
Proof.
  intros H. unfold report. destruct (Bool.eqb _ _); [exact H|].
  match goal with |- context [call_handlers A now ?s0 ?v0] =>
    assert (H1 : HL v0 (s0, [])) by (split; [unfold HI; cbn [fst]; rewrite get_tbl_cancel; apply HIc_nil | reflexivity]) end.
  destruct (mutes (dv s)); [|apply H1].
  unfold call_handlers.
  match goal with |- context [fold_left ?f ?l ?a0] =>
    apply (fold_inv f (HL (logical_of (inv s) lg val)) l (fun x y Hx => call_one_HL A now _ x y Hx) a0 H1) end.
Qed.

Lemma proc_one_HI A now k acc e : HI (fst acc) -> HI (fst (proc_one A now k acc e)).
Proof.
  destruct acc as [s lg]; unfold proc_one; cbn [fst]. intros H.
  destruct (existsb _ _); cbn [fst]; [apply run_acts_HI|]; exact H.
Qed.

Lemma set_tbl_HI s d : HIc (lc s) (sst s) d -> HI (set_tbl s d).
Proof. intros H. unfold HI, get_tbl, set_tbl; cbn. exact H. Qed.

Lemma proc_key_HI A now acc k : HI (fst acc) -> HI (fst (proc_key A now acc k)).
Proof.
  destruct acc as [s lg]; unfold proc_key. intros H. destruct (k <=? now); [|exact H].
  pose proof (fold_inv (proc_one A now k) (fun a => HI (fst a)) (tbl_get (get_tbl s) k)
                (fun x y Hx => proc_one_HI A now k x y Hx) (s, lg) H) as H1.
  destruct (fold_left _ _ _) as [s1 lg1]; cbn [fst] in *. apply set_tbl_HI. apply HIc_del. exact H1.
Qed.

Lemma get_tbl_resched s : get_tbl (set_tm s (resched (tm s))) = get_tbl s.
Proof. unfold get_tbl; cbn [set_tm tm]. rewrite timed_resched. reflexivity. Qed.

Lemma process_HI A now s w : HI s -> HI (fst (process A now s w)).
Proof.
  intros H. unfold process. cbn [cur timed wakes wid].
  destruct (cur (tm s)) as [c|]; [|exact H].
  destruct (timed (tm s)) as [d|] eqn:Ed; [|unfold HI, get_tbl; cbn; apply HIc_nil].
  match goal with |- context [fold_left ?f ?l ?a0] =>
    assert (H0 : HI (fst a0)) by (unfold HI, get_tbl in *; cbn; rewrite Ed in H; exact H);
    pose proof (fold_inv f (fun a => HI (fst a)) l (fun x y Hx => proc_key_HI A now x y Hx) a0 H0) as H1;
    destruct (fold_left f l a0) as [s2 lg] end.
  cbn [fst] in *. unfold HI. rewrite get_tbl_resched. exact H1.
Qed.

Lemma step_HI A s te : HI s -> HI (fst (step A s te)).
Proof.
  intros H. destruct te as [t [o| |]]; unfold step; cbn [fst snd].
  - destruct o; cbn [step_op fst]; try exact H.
    + apply report_HI; exact H.
    + apply add_HI; exact H.
    + apply rem_HI; exact H.
  - destruct (earliest _) as [[w tw]|]; [apply process_HI|]; exact H.
  - unfold recycle_passed. destruct (rc (dv s)) as [[t0 v0]|]; exact H.
Qed.

Lemma exec_HI A evs : forall s, HI s -> HI (fst (exec A s evs)).
Proof.
  induction evs as [|te evs IH]; intros s H; cbn [exec]; [exact H|].
  pose proof (step_HI A s te H) as H1. destruct (step A s te) as [s1 l1]; cbn [fst] in H1.
  specialize (IH s1 H1). destruct (exec A s1 evs) as [s2 l2]. exact IH.
Qed.

Lemma init_HI nc st h lc0 win a b : HI (init_state nc st h lc0 win a b).
Proof. unfold HI, get_tbl; cbn. apply HIc_nil. Qed.

(* ------------------------------------------------------------------------------------------------ *)
(* Part A.2: Mw — a wake-up is recorded iff the deadline table is non-empty, and it is at the minimum key *)
Definition Mw (T : timers) : Prop :=
  match timed T with
  | Some (kl :: d) => exists w, cur T = Some (w, tbl_min (kl :: d))
  | _ => cur T = None
  end.

Lemma tbl_add_cons d k e : exists kl dd, tbl_add d k e = kl :: dd.
Proof. destruct d as [|[k' l'] d]; cbn; [eauto|]. destruct (k =? k'); eauto. Qed.

Lemma keys_add_incl d k e k0 : In k0 (keys d) -> In k0 (keys (tbl_add d k e)).
Proof. rewrite keys_add. destruct (existsb _ _); [auto | intros H; apply in_or_app; left; exact H]. Qed.

Lemma tbl_min_filter y d : tbl_min (tbl_filter y d) = tbl_min d.
Proof.
  destruct d as [|[k0 l0] d]; [reflexivity|]. cbn. f_equal. unfold keys, tbl_filter. rewrite map_map. reflexivity.
Qed.

Lemma clear_cur_cur T : cur (clear_cur T) = None /\ timed (clear_cur T) = timed T.
Proof. unfold clear_cur. destruct (cur T) as [[w tw]|] eqn:E; cbn; auto. Qed.

Lemma add_timed_Mw T k e : Mw T -> Mw (add_timed T k e).
Proof.
  intros H. unfold add_timed.
  remember (match timed T with None => [(k, [e])] | Some d => tbl_add d k e end) as d' eqn:Hd0.
  assert (Hd' : exists kl dd, d' = kl :: dd).
  { subst d'. destruct (timed T) as [d|]; [apply tbl_add_cons | eauto]. }
  destruct Hd' as (kl & dd & Hd'). cbn [t_timed cur].
  unfold Mw in H. destruct (cur T) as [[w tw]|] eqn:Ec.
  - destruct (timed T) as [[|kl0 d0]|] eqn:Et; try discriminate.
    destruct H as (w0 & Hw). injection Hw as Hw0 Htw.
    assert (Hle : tbl_min d' <= tw).
    { rewrite Htw. apply tbl_min_le. subst d'. apply keys_add_incl. apply tbl_min_in. }
    destruct (tbl_min d' <? tw) eqn:E.
    + unfold Mw, schedule, unschedule; cbn [timed cur t_timed]. rewrite Hd'. eauto.
    + unfold Mw; cbn [timed cur t_timed]. rewrite Ec. rewrite Hd'. exists w. f_equal. f_equal. rewrite <- Hd'.
      apply Z.ltb_ge in E. lia.
  - unfold Mw, schedule; cbn [timed cur t_timed]. rewrite Hd'. eauto.
Qed.

Lemma cancel_Mw T : Mw T -> Mw (cancel T).
Proof.
  intros H. unfold cancel. destruct (timed T) eqn:E; [|exact H].
  unfold Mw; cbn. apply clear_cur_cur.
Qed.

Lemma resched_Mw T : Mw (resched T).
Proof.
  unfold resched. destruct (clear_cur_cur T) as [H1 H2].
  destruct (timed (clear_cur T)) as [[|kl d]|] eqn:E.
  - unfold Mw. rewrite E. exact H1.
  - unfold Mw, schedule; cbn. rewrite E. eauto.
  - unfold Mw. rewrite E. exact H1.
Qed.

Lemma add_Mw now s cb st ms : Mw (tm s) -> Mw (tm (add now s cb st ms)).
Proof. intros H. unfold add; cbn [tm]. destruct (_ && _); [apply add_timed_Mw|]; exact H. Qed.

Lemma tbl_filter_cons y kl d :
  tbl_filter y (kl :: d) = (fst kl, filter (fun e => negb (eq_triple e y)) (snd kl)) :: tbl_filter y d.
Proof. reflexivity. Qed.

Lemma rem_Mw s cb st ms : Mw (tm s) -> Mw (tm (rem s cb st ms)).
Proof.
  intros H. unfold rem; cbn [tm]. destruct (timed (tm s)) as [d|] eqn:E; [|exact H].
  unfold Mw in *. rewrite E in H. cbn [t_timed timed cur].
  destruct d as [|kl d]; [exact H|].
  rewrite tbl_filter_cons, <- tbl_filter_cons, tbl_min_filter. exact H.
Qed.

Lemma run_acts_Mw now l s : Mw (tm s) -> Mw (tm (run_acts now s l)).
Proof.
  unfold run_acts. apply (fold_inv (run_act now) (fun s => Mw (tm s))).
  intros a b Ha. destruct b; [apply add_Mw | apply rem_Mw]; exact Ha.
Qed.

Lemma invoke_Mw A now s cb v : Mw (tm s) -> Mw (tm (fst (invoke A now s cb v))).
Proof.
  intros H. unfold invoke. destruct (is_rcb cb); [|apply run_acts_Mw; exact H]. destruct (rc (dv s)); exact H.
Qed.

Lemma call_one_Mw A now v acc e : Mw (tm (fst acc)) -> Mw (tm (fst (call_one A now v acc e))).
Proof.
  destruct acc as [s lg]; unfold call_one; cbn [fst]. intros H.
  destruct (negb (live s v e)); [exact H|]. destruct (snd e =? 0); cbn [fst].
  - apply invoke_Mw; exact H.
  - cbn. apply add_timed_Mw; exact H.
Qed.

Lemma report_Mw A now s lg val : Mw (tm s) -> Mw (tm (fst (report A now s lg val))).
Proof.
  intros H. unfold report. destruct (Bool.eqb _ _); [exact H|].
  destruct (mutes (dv s)); [|cbn; apply cancel_Mw; exact H].
  unfold call_handlers.
  apply (fold_inv (call_one A now _) (fun a => Mw (tm (fst a)))); [intros; apply call_one_Mw; assumption|].
  cbn. apply cancel_Mw; exact H.
Qed.

Lemma process_Mw A now s w : Mw (tm s) -> Mw (tm (fst (process A now s w))).
Proof.
  intros H. unfold process. cbn [cur timed wakes wid].
  destruct (cur (tm s)) as [c|] eqn:Ec.
  - destruct (timed (tm s)) as [d|] eqn:Ed; [|cbn; reflexivity].
    destruct (fold_left _ _ _) as [s2 lg]. cbn. apply resched_Mw.
  - cbn. unfold Mw in *; cbn. rewrite Ec in H. destruct (timed (tm s)) as [[|kl d]|]; try reflexivity.
    destruct H as (w0 & C); discriminate.
Qed.

Lemma step_Mw A s te : Mw (tm s) -> Mw (tm (fst (step A s te))).
Proof.
  intros H. destruct te as [t [o| |]]; unfold step; cbn [fst snd].
  - destruct o; cbn [step_op fst]; try exact H.
    + apply report_Mw; exact H.
    + apply add_Mw; exact H.
    + apply rem_Mw; exact H.
  - destruct (earliest _) as [[w tw]|]; [apply process_Mw|]; exact H.
  - unfold recycle_passed. destruct (rc (dv s)) as [[t0 v0]|]; exact H.
Qed.

(* the bundle: what holds in every reachable state *)
Definition Inv (s : state) : Prop := W (tm s) /\ Mw (tm s) /\ HI s.

Lemma step_Inv A s te : Inv s -> Inv (fst (step A s te)).
Proof.
  intros (H1 & H2 & H3). split; [apply step_WN; exact H1 | split; [apply step_Mw; exact H2 | apply step_HI; exact H3]].
Qed.

Lemma exec_Inv A evs : forall s, Inv s -> Inv (fst (exec A s evs)).
Proof.
  induction evs as [|te evs IH]; intros s H; cbn [exec]; [exact H|].
  pose proof (step_Inv A s te H) as H1. destruct (step A s te) as [s1 l1]; cbn [fst] in H1.
  specialize (IH s1 H1). destruct (exec A s1 evs) as [s2 l2]. exact IH.
Qed.

Lemma init_Inv nc st h lc0 win a b : Inv (init_state nc st h lc0 win a b).
Proof. split; [apply init_W | split; [reflexivity | apply init_HI]]. Qed.

(* consequence: in every reachable state the loop holds exactly one wake-up handle iff something is pending, and
   it is due at the minimum pending deadline, which is last_change + ms of the entries under it *)
Lemma Inv_wake s : Inv s ->
  match get_tbl s with
  | kl :: d => exists w, wakes (tm s) = [(w, tbl_min (kl :: d))] /\ cur (tm s) = Some (w, tbl_min (kl :: d))
  | [] => wakes (tm s) = [] /\ cur (tm s) = None
  end.
Proof.
  intros ([Hw _] & Hm & _). unfold Mw in Hm. unfold get_tbl.
  destruct (timed (tm s)) as [[|kl d]|].
  - rewrite Hm in Hw. auto.
  - destruct Hm as (w & Hc). rewrite Hc in Hw. eauto.
  - rewrite Hm in Hw. auto.
Qed.

(* ------------------------------------------------------------------------------------------------ *)
(* Part B: the wake-up lemma, timing half: a wake-up that runs at its recorded deadline invokes only entries   *)
(* whose own deadline last_change + ms is exactly that instant                                              *)
Lemma eq_triple_eq a b : eq_triple a b = true -> a = b.
Proof.
  intros H. apply eq_triple_true in H as (H1 & H2 & H3).
  destruct a as [[a1 a2] a3], b as [[b1 b2] b3]. cbn in *. subst. reflexivity.
Qed.

Definition fires_at (P : Z -> Z -> Prop) (l : list obs) : Prop := forall t c st m, In (Fire t c st m) l -> P t m.

Lemma fires_at_app P a b : fires_at P a -> fires_at P b -> fires_at P (a ++ b).
Proof. intros Ha Hb t c st m H. apply in_app_or in H as [H|H]; [eapply Ha | eapply Hb]; eauto. Qed.

Lemma run_acts_lc now l s : lc (run_acts now s l) = lc s.
Proof. destruct (run_acts_sw now l s) as (_ & _ & _ & H). exact H. Qed.

Section Punctual.
  Variables (A : Z -> list act) (now c0 : Z).
  Let P (t m : Z) : Prop := t = now /\ now = c0 + us m.
  Let I (k : Z) (acc : state * list obs) : Prop := HI (fst acc) /\ lc (fst acc) = c0 /\ fires_at P (snd acc).

  Lemma proc_one_punct k acc e : k = now -> I k acc -> I k (proc_one A now k acc e).
  Proof.
    destruct acc as [s lg]; unfold I, proc_one; cbn [fst snd]. intros Hk (H1 & H2 & H3).
    destruct (existsb _ _) eqn:Ee; cbn [fst snd]; [|auto].
    split; [apply run_acts_HI; exact H1 | split; [rewrite run_acts_lc; exact H2|]].
    apply fires_at_app; [exact H3|]. intros t c st m [Hf|[]]. injection Hf as <- <- <- <-.
    apply existsb_exists in Ee as (e' & Hin & He). apply eq_triple_eq in He. subst e'.
    destruct H1 as [Hk1 _]. pose proof (allk_get _ _ _ _ Hk1 Hin) as [Hke _]. cbn beta in Hke.
    split; [reflexivity|]. rewrite <- Hk, Hke, H2. reflexivity.
  Qed.

  Lemma proc_key_punct acc k : now <= k -> I k acc -> I k (proc_key A now acc k).
  Proof.
    destruct acc as [s lg]; unfold proc_key. intros Hk H. destruct (k <=? now) eqn:E; [|exact H].
    apply Z.leb_le in E. assert (Hkn : k = now) by lia.
    pose proof (fold_inv (proc_one A now k) (I k) (tbl_get (get_tbl s) k)
                  (fun x y Hx => proc_one_punct k x y Hkn Hx) (s, lg) H) as H1.
    destruct (fold_left _ _ _) as [s1 lg1]. destruct H1 as (I1 & I2 & I3); cbn [fst snd] in *.
    split; [|split; [exact I2 | exact I3]]. apply set_tbl_HI. apply HIc_del. exact I1.
  Qed.
End Punctual.

Lemma wake_fires_at_deadline_l A s w t :
  Inv s -> earliest (wakes (tm s)) = Some (w, t) ->
  forall t' c st m, In (Fire t' c st m) (snd (process A t s w)) -> t' = t /\ t = lc s + us m.
Proof.
  intros (HW & HM & HH) He. pose proof HW as [Hw Ht].
  unfold process. cbn [cur timed wakes wid].
  destruct (cur (tm s)) as [c|] eqn:Ec; [|rewrite Hw in He; discriminate].
  rewrite Hw in He. cbn in He. injection He as ->.
  destruct (timed (tm s)) as [d|] eqn:Ed; [|exfalso; apply Ht; [discriminate | reflexivity]].
  unfold Mw in HM. rewrite Ed, Ec in HM. destruct d as [|kl d]; [discriminate|]. destruct HM as (w0 & HM).
  injection HM as _ Htm.
  match goal with |- context [fold_left ?f ?l ?a0] =>
    assert (H0 : HI (fst a0) /\ lc (fst a0) = lc s /\ fires_at (fun t' m => t' = t /\ t = lc s + us m) (snd a0)) by
      (split; [unfold HI, get_tbl in *; cbn; rewrite Ed in HH; exact HH | split; [reflexivity | intros ? ? ? ? []]]);
    pose proof (fold_inv_in f (fun a => HI (fst a) /\ lc (fst a) = lc s /\
                                        fires_at (fun t' m => t' = t /\ t = lc s + us m) (snd a)) l) as HF;
    destruct (fold_left f l a0) as [s2 lg] eqn:EF end.
  intros t' c0 st m Hin. cbn [snd] in Hin.
  match type of HF with ?X -> _ => assert (HX : X) end.
  { intros a b Hb Ha. apply (proc_key_punct A t (lc s) a b); [|exact Ha].
    assert (Hle : tbl_min (kl :: d) <= b) by (apply tbl_min_le; exact Hb).
    change (t = tbl_min (kl :: d)) in Htm. lia. }
  specialize (HF HX _ H0). rewrite EF in HF. destruct HF as (_ & _ & HF). apply (HF t' c0 st m Hin).
Qed.

(* ------------------------------------------------------------------------------------------------ *)
(* Part C: one handler x = (cb, v, ms), ms > 0, against its hold automaton                                  *)
Section HoldAutomaton.
  Variables (A : Z -> list act) (cb : Z) (v : bool) (ms : Z).
  Hypothesis Hms : 0 < ms.
  Definition hx : triple := (cb, v, ms).
  Definition isx (e : triple) : bool := eq_triple e hx.
  Definition cnt (l : list triple) : nat := length (filter isx l).
  Definition kx (s : state) : Z := lc s + us ms.
  Definition pend (s : state) : nat := cnt (tbl_get (get_tbl s) (kx s)).
  Definition nreg (s : state) : nat := length (filter (ent_match cb ms) (reg_of (rg s) v)).
  Definition xfire (o : obs) : list Z :=
    match o with Fire t c st m => if eq_triple (c, st, m) hx then [t] else [] | _ => [] end.
  Definition xfires (l : list obs) : list Z := flat_map xfire l.
  (* callbacks may register and remove anything except this handler itself *)
  Definition act_nox (a : act) : Prop := a <> AAdd cb v ms /\ a <> ARem cb v ms.
  Definition acts_nox : Prop := forall c, Forall act_nox (A c).
  Hypothesis HA : acts_nox.

  Lemma isx_true e : isx e = true -> e = hx.
  Proof. apply eq_triple_eq. Qed.
  Lemma isx_hx : isx hx = true.
  Proof. apply eq_triple_refl. Qed.

  Lemma cnt_app l e : cnt (l ++ [e]) = (cnt l + (if isx e then 1 else 0))%nat.
  Proof. unfold cnt. rewrite filter_app, app_length. cbn. destruct (isx e); reflexivity. Qed.

  Lemma cnt_filter_other y l : y <> hx -> cnt (filter (fun e => negb (eq_triple e y)) l) = cnt l.
  Proof.
    intros Hy. unfold cnt. induction l as [|e l IH]; cbn; [reflexivity|].
    destruct (eq_triple e y) eqn:E; cbn.
    - apply eq_triple_eq in E. subst e. destruct (isx y) eqn:Ex; [apply isx_true in Ex; contradiction | exact IH].
    - destruct (isx e); cbn; [f_equal|]; exact IH.
  Qed.

  Lemma cnt_filter_self l : cnt (filter (fun e => negb (eq_triple e hx)) l) = 0%nat.
  Proof.
    unfold cnt. induction l as [|e l IH]; cbn; [reflexivity|].
    destruct (eq_triple e hx) eqn:E; cbn; [exact IH|]. unfold isx at 1. rewrite E. exact IH.
  Qed.

  Lemma cnt_pos_in l : (0 < cnt l)%nat -> In hx l.
  Proof.
    unfold cnt. induction l as [|e l IH]; cbn; [lia|]. destruct (isx e) eqn:E.
    - intros _. left. apply isx_true; exact E.
    - intros H. right. apply IH; exact H.
  Qed.

  Lemma xfires_app a b : xfires (a ++ b) = xfires a ++ xfires b.
  Proof. unfold xfires. apply flat_map_app. Qed.

  Lemma us_inj a b : us a = us b -> a = b.
  Proof. unfold us. lia. Qed.

  (* ---- primitives ---- *)
  Lemma add_pend_other now s cb' st' ms' : (cb', st', ms') <> hx -> pend (add now s cb' st' ms') = pend s.
  Proof.
    intros Hne. unfold pend, kx. rewrite get_tbl_add. change (lc (add now s cb' st' ms')) with (lc s).
    destruct (_ && _); [|reflexivity].
    destruct (Z.eq_dec (lc s + us ms) (lc s + us ms')) as [E|E].
    - rewrite <- E, tbl_get_add_same, cnt_app.
      destruct (isx (cb', st', ms')) eqn:Ex; [apply isx_true in Ex; contradiction | lia].
    - rewrite tbl_get_add_other; [reflexivity | exact E].
  Qed.

  Lemma add_pend_x now s :
    pend (add now s cb v ms) = if Bool.eqb v (sst s) && (now <? kx s) then S (pend s) else pend s.
  Proof.
    unfold pend, kx. rewrite get_tbl_add. change (lc (add now s cb v ms)) with (lc s).
    assert (E0 : (ms =? 0) = false) by (apply Z.eqb_neq; lia). rewrite E0. cbn [negb andb].
    assert (E1 : (lc s >? now - us ms) = (now <? lc s + us ms)).
    { destruct (now <? lc s + us ms) eqn:E.
      - apply Z.ltb_lt in E. apply Z.gtb_lt. lia.
      - apply Z.ltb_ge in E. destruct (lc s >? now - us ms) eqn:E'; [apply Z.gtb_lt in E'; lia | reflexivity]. }
    rewrite E1. rewrite andb_comm. destruct (Bool.eqb v (sst s) && (now <? lc s + us ms)); [|reflexivity].
    rewrite tbl_get_add_same, cnt_app. fold hx. rewrite isx_hx. lia.
  Qed.

  Lemma rem_pend_other s cb' st' ms' : (cb', st', ms') <> hx -> pend (rem s cb' st' ms') = pend s.
  Proof.
    intros Hne. unfold pend, kx. rewrite get_tbl_rem. change (lc (rem s cb' st' ms')) with (lc s).
    rewrite tbl_get_filter. apply cnt_filter_other; exact Hne.
  Qed.

  Lemma rem_pend_x s : pend (rem s cb v ms) = 0%nat.
  Proof.
    unfold pend, kx. rewrite get_tbl_rem. rewrite tbl_get_filter. apply cnt_filter_self.
  Qed.

  Lemma reg_add now s cb' st' ms' :
    reg_of (rg (add now s cb' st' ms')) v
    = if Bool.eqb v st' then reg_of (rg s) v ++ [(ruid (rg s), cb', ms')] else reg_of (rg s) v.
  Proof.
    unfold add; cbn [rg]. rewrite reg_of_set_reg. destruct (Bool.eqb v st') eqn:E.
    - apply eqb_prop in E. subst st'. destruct v; reflexivity.
    - destruct v; reflexivity.
  Qed.

  Lemma reg_rem s cb' st' ms' :
    reg_of (rg (rem s cb' st' ms')) v
    = if Bool.eqb v st' then filter (fun e => negb (ent_match cb' ms' e)) (reg_of (rg s) v) else reg_of (rg s) v.
  Proof.
    unfold rem; cbn [rg]. rewrite reg_of_set_reg. destruct (Bool.eqb v st') eqn:E; [|reflexivity].
    apply eqb_prop in E. subst st'. reflexivity.
  Qed.

  Lemma ent_match_other cb' st' ms' uid :
    (cb', st', ms') <> hx -> Bool.eqb v st' = true -> ent_match cb ms (uid, cb', ms') = false.
  Proof.
    intros Hne E. apply eqb_prop in E. subst st'. unfold ent_match; cbn.
    destruct (ms' =? ms) eqn:E1; [|reflexivity]. destruct (cb' =? cb) eqn:E2; [|reflexivity].
    apply Z.eqb_eq in E1, E2. subst. exfalso. apply Hne. reflexivity.
  Qed.

  Lemma add_nreg_other now s cb' st' ms' : (cb', st', ms') <> hx -> nreg (add now s cb' st' ms') = nreg s.
  Proof.
    intros Hne. unfold nreg. rewrite reg_add. destruct (Bool.eqb v st') eqn:E; [|reflexivity].
    rewrite filter_app, app_length. cbn. rewrite (ent_match_other _ _ _ _ Hne E). cbn. lia.
  Qed.

  Lemma add_nreg_x now s : nreg (add now s cb v ms) = S (nreg s).
  Proof.
    unfold nreg. rewrite reg_add, eqb_reflx, filter_app, app_length. cbn.
    unfold ent_match; cbn. rewrite !Z.eqb_refl. cbn. lia.
  Qed.

  Lemma filter_filter_other cb' ms' (l : list entry) :
    (cb' <> cb \/ ms' <> ms) ->
    filter (ent_match cb ms) (filter (fun e => negb (ent_match cb' ms' e)) l) = filter (ent_match cb ms) l.
  Proof.
    intros Hne. induction l as [|e l IH]; cbn; [reflexivity|].
    destruct (ent_match cb' ms' e) eqn:E; cbn.
    - destruct (ent_match cb ms e) eqn:E2; [|exact IH]. exfalso.
      unfold ent_match in *. apply andb_true_iff in E as [Ea Eb]. apply andb_true_iff in E2 as [Ec Ed].
      apply Z.eqb_eq in Ea, Eb, Ec, Ed. destruct Hne as [H|H]; apply H; congruence.
    - destruct (ent_match cb ms e); [f_equal|]; exact IH.
  Qed.

  Lemma rem_nreg_other s cb' st' ms' : (cb', st', ms') <> hx -> nreg (rem s cb' st' ms') = nreg s.
  Proof.
    intros Hne. unfold nreg. rewrite reg_rem. destruct (Bool.eqb v st') eqn:E; [|reflexivity].
    apply eqb_prop in E. subst st'. rewrite filter_filter_other; [reflexivity|].
    destruct (Z.eq_dec cb' cb) as [->|H]; [|left; exact H]. destruct (Z.eq_dec ms' ms) as [->|H]; [|right; exact H].
    exfalso. apply Hne. reflexivity.
  Qed.

  Lemma rem_nreg_x s : nreg (rem s cb v ms) = 0%nat.
  Proof.
    unfold nreg. rewrite reg_rem, eqb_reflx.
    induction (reg_of (rg s) v) as [|e l IH]; cbn; [reflexivity|].
    destruct (ent_match cb ms e) eqn:E; cbn; [exact IH | rewrite E; exact IH].
  Qed.

  (* an x-matching registry entry stays in the registry (scripts never remove x) *)
  Definition xin (s : state) (e : entry) : Prop := In e (reg_of (rg s) v).

  Lemma add_xin now s cb' st' ms' e : xin s e -> xin (add now s cb' st' ms') e.
  Proof. unfold xin. rewrite reg_add. destruct (Bool.eqb v st'); [intros H; apply in_or_app; left|]; auto. Qed.

  Lemma rem_xin s cb' st' ms' e :
    (cb', st', ms') <> hx -> ent_match cb ms e = true -> xin s e -> xin (rem s cb' st' ms') e.
  Proof.
    intros Hne Hm. unfold xin. rewrite reg_rem. destruct (Bool.eqb v st') eqn:E; [|auto].
    intros H. apply filter_In. split; [exact H|]. apply negb_true_iff.
    destruct (ent_match cb' ms' e) eqn:E2; [|reflexivity]. exfalso.
    apply eqb_prop in E. subst st'. unfold ent_match in *.
    apply andb_true_iff in Hm as [Ea Eb]. apply andb_true_iff in E2 as [Ec Ed].
    apply Z.eqb_eq in Ea, Eb, Ec, Ed. apply Hne. unfold hx. congruence.
  Qed.

  (* what scripts preserve *)
  Definition keep (p n : nat) (c : Z) (L : list entry) (s : state) : Prop :=
    pend s = p /\ nreg s = n /\ lc s = c /\ (forall e, In e L -> ent_match cb ms e = true -> xin s e).

  Lemma run_act_keep now p n c L s a : act_nox a -> keep p n c L s -> keep p n c L (run_act now s a).
  Proof.
    intros [Ha Hr] (H1 & H2 & H3 & H4). destruct a as [cb' st' ms'|cb' st' ms']; cbn [run_act].
    - assert (Hne : (cb', st', ms') <> hx) by (intros C; injection C as -> -> ->; apply Ha; reflexivity).
      split; [rewrite add_pend_other; assumption|]. split; [rewrite add_nreg_other; assumption|].
      split; [exact H3|]. intros e He Hm. apply add_xin. apply H4; assumption.
    - assert (Hne : (cb', st', ms') <> hx) by (intros C; injection C as -> -> ->; apply Hr; reflexivity).
      split; [rewrite rem_pend_other; assumption|]. split; [rewrite rem_nreg_other; assumption|].
      split; [exact H3|]. intros e He Hm. apply rem_xin; [exact Hne | exact Hm | apply H4; assumption].
  Qed.

  Lemma run_acts_keep now p n c L cbk s : keep p n c L s -> keep p n c L (run_acts now s (A cbk)).
  Proof.
    unfold run_acts. pose proof (HA cbk) as Hc. revert s. induction (A cbk) as [|a l IH]; cbn; intros s Hs; [exact Hs|].
    inversion Hc as [|? ? Ha Hl]; subst. apply IH; [exact Hl|]. apply run_act_keep; assumption.
  Qed.

  Lemma invoke_keep now p n c L s cb' u : keep p n c L s -> keep p n c L (fst (invoke A now s cb' u)).
  Proof.
    intros H. unfold invoke. destruct (is_rcb cb'); [|apply run_acts_keep; exact H]. destruct (rc (dv s)); exact H.
  Qed.

  Lemma invoke_xfires now s cb' u : xfires (snd (invoke A now s cb' u)) = [].
  Proof.
    unfold invoke. assert (Hz : forall c st, eq_triple (c, st, 0) hx = false).
    { intros c st. unfold eq_triple, hx; cbn [fst snd]. assert ((0 =? ms) = false) by (apply Z.eqb_neq; lia).
      rewrite H. apply andb_false_r. }
    destruct (is_rcb cb'); [destruct (rc (dv s))|]; cbn; try reflexivity; rewrite Hz; reflexivity.
  Qed.

  (* ---- a real change ---- *)
  Lemma pend_set_tm_add_other s k e : e <> hx -> pend (set_tm s (add_timed (tm s) k e)) = pend s.
  Proof.
    intros Hne. unfold pend, kx. rewrite get_tbl_set_tm_add. cbn [set_tm lc].
    destruct (Z.eq_dec (lc s + us ms) k) as [<-|E].
    - rewrite tbl_get_add_same, cnt_app. destruct (isx e) eqn:Ex; [apply isx_true in Ex; contradiction | lia].
    - rewrite tbl_get_add_other; [reflexivity | exact E].
  Qed.

  Lemma keep_nil s : keep (pend s) (nreg s) (lc s) [] s.
  Proof. repeat split. intros e []. Qed.

  Lemma call_one_nreg now u acc e :
    nreg (fst (call_one A now u acc e)) = nreg (fst acc) /\
    (xfires (snd acc) = [] -> xfires (snd (call_one A now u acc e)) = []).
  Proof.
    destruct acc as [s lg]; unfold call_one; cbn [fst snd].
    destruct (negb (live s u e)); [auto|]. destruct (snd e =? 0); cbn [fst snd].
    - split; [apply (invoke_keep now _ _ _ [] s _ u (keep_nil s))|].
      intros H. rewrite xfires_app, H, invoke_xfires. reflexivity.
    - split; [reflexivity | auto].
  Qed.

  Lemma call_handlers_nreg now s u :
    nreg (fst (call_handlers A now s u)) = nreg s /\ xfires (snd (call_handlers A now s u)) = [].
  Proof.
    unfold call_handlers.
    apply (fold_inv (call_one A now u) (fun acc => nreg (fst acc) = nreg s /\ xfires (snd acc) = [])); [|auto].
    intros a b [H1 H2]. destruct (call_one_nreg now u a b) as [I1 I2]. split; [rewrite I1; exact H1 | apply I2; exact H2].
  Qed.

  Lemma ent_match_fields e : ent_match cb ms e = true -> snd e = ms /\ snd (fst e) = cb.
  Proof. unfold ent_match. intros H. apply andb_true_iff in H as [H1 H2]. apply Z.eqb_eq in H1, H2. auto. Qed.

  Lemma call_one_x now L s lg e :
    sst s = v -> (ent_match cb ms e = true -> xin s e) ->
    (forall e', In e' L -> ent_match cb ms e' = true -> xin s e') ->
    let r := call_one A now v (s, lg) e in
    lc (fst r) = lc s /\ sst (fst r) = v /\
    (forall e', In e' L -> ent_match cb ms e' = true -> xin (fst r) e') /\
    pend (fst r) = (pend s + (if ent_match cb ms e then 1 else 0))%nat.
  Proof.
    intros Hs He HL. cbn zeta. unfold call_one.
    destruct (ent_match cb ms e) eqn:Em.
    - specialize (He eq_refl). rewrite (in_live s v e He). cbn [negb].
      destruct (ent_match_fields e Em) as [E1 E2].
      assert (E0 : (snd e =? 0) = false) by (apply Z.eqb_neq; lia). rewrite E0. cbn [fst snd].
      split; [reflexivity|]. split; [exact Hs|]. split; [exact HL|].
      rewrite E1, E2. unfold pend, kx. rewrite get_tbl_set_tm_add. cbn [set_tm lc].
      rewrite tbl_get_add_same, cnt_app. fold hx. rewrite isx_hx. reflexivity.
    - destruct (negb (live s v e)); cbn [fst snd]; [repeat split; auto; lia|].
      destruct (snd e =? 0) eqn:E0; cbn [fst snd].
      + assert (Hk : keep (pend s) (nreg s) (lc s) L s) by (repeat split; auto).
        destruct (invoke_keep now _ _ _ L s (snd (fst e)) v Hk) as (K1 & K2 & K3 & K4).
        split; [exact K3|]. split; [rewrite invoke_sst; exact Hs|]. split; [exact K4 | rewrite K1; lia].
      + split; [reflexivity|]. split; [exact Hs|]. split; [exact HL|].
        rewrite pend_set_tm_add_other; [lia|]. intros C. unfold hx in C. injection C as C1 C2.
        unfold ent_match in Em. rewrite C1, C2, !Z.eqb_refl in Em. discriminate.
  Qed.

  Lemma call_fold_x now : forall l s lg,
    sst s = v -> (forall e, In e l -> ent_match cb ms e = true -> xin s e) ->
    pend (fst (fold_left (call_one A now v) l (s, lg))) = (pend s + length (filter (ent_match cb ms) l))%nat.
  Proof.
    induction l as [|e l IH]; intros s lg Hs HL; cbn [fold_left filter length]; [cbn; lia|].
    pose proof (call_one_x now l s lg e Hs (HL e (or_introl eq_refl))
                  (fun e' H => HL e' (or_intror H))) as H. cbn zeta in H.
    destruct (call_one A now v (s, lg) e) as [s1 lg1]. cbn [fst] in H. destruct H as (H1 & H2 & H3 & H4).
    rewrite (IH s1 lg1 H2 H3), H4. destruct (ent_match cb ms e); cbn [length]; lia.
  Qed.

  Lemma pend_other_state s : HI s -> sst s <> v -> pend s = 0%nat.
  Proof.
    intros [Hk _] Hne. unfold pend. destruct (cnt (tbl_get (get_tbl s) (kx s))) eqn:E; [reflexivity|].
    assert (Hin : In hx (tbl_get (get_tbl s) (kx s))) by (apply cnt_pos_in; lia).
    destruct (allk_get _ _ _ _ Hk Hin) as [_ Hv]. cbn in Hv. exfalso. apply Hne. symmetry. exact Hv.
  Qed.

  Lemma report_x now s lg val : HI s ->
    let u := logical_of (inv s) lg val in
    let r := report A now s lg val in
    nreg (fst r) = nreg s /\ xfires (snd r) = [] /\
    pend (fst r) = if Bool.eqb u (sst s) then pend s
                   else match mutes (dv s) with
                        | [] => if Bool.eqb u v then nreg s else 0%nat
                        | _ :: _ => 0%nat
                        end.
  Proof.
    intros HH. cbn zeta. pose proof (report_HI A now s lg val HH) as HH'.
    pose proof (report_state A now s lg val) as [_ Hst]. cbn zeta in Hst.
    unfold report in *. destruct (Bool.eqb (logical_of (inv s) lg val) (sst s)) eqn:E; [auto|].
    set (u := logical_of (inv s) lg val) in *.
    set (s1 := mkS (inv s) u (hw_of (inv s) lg val) now (rg s) (cancel (tm s)) (dv s)) in *.
    assert (Hp1 : pend s1 = 0%nat) by (unfold pend, s1; rewrite get_tbl_cancel; reflexivity).
    destruct (mutes (dv s)); [|cbn [fst snd]; auto].
    destruct (call_handlers_nreg now s1 u) as [N1 N2]. split; [exact N1|]. split; [exact N2|].
    destruct (Bool.eqb u v) eqn:Ev.
    - apply eqb_prop in Ev. unfold call_handlers. rewrite Ev.
      rewrite call_fold_x; [rewrite Hp1; reflexivity | exact Ev | intros e He _; exact He].
    - apply pend_other_state; [exact HH'|]. rewrite Hst. intros C. rewrite C, eqb_reflx in Ev. discriminate.
  Qed.

  (* ---- a wake-up: invokes exactly the entries whose deadline has come ---- *)
  Lemma cnt_cons e l : cnt (e :: l) = if isx e then S (cnt l) else cnt l.
  Proof. unfold cnt. cbn. destruct (isx e); reflexivity. Qed.

  Lemma xfires_entry now e :
    xfires [Fire now (fst (fst e)) (snd (fst e)) (snd e)] = if isx e then [now] else [].
  Proof. destruct e as [[a b] c]. unfold xfires, isx; cbn. rewrite app_nil_r. reflexivity. Qed.

  Lemma proc_one_fold_x now k : forall l s lg,
    ((0 < cnt l)%nat -> k = kx s /\ (0 < pend s)%nat) ->
    pend (fst (fold_left (proc_one A now k) l (s, lg))) = pend s /\
    nreg (fst (fold_left (proc_one A now k) l (s, lg))) = nreg s /\
    lc (fst (fold_left (proc_one A now k) l (s, lg))) = lc s /\
    xfires (snd (fold_left (proc_one A now k) l (s, lg))) = xfires lg ++ repeat now (cnt l).
  Proof.
    induction l as [|e l IH]; intros s lg Hc; cbn [fold_left].
    - cbn. rewrite app_nil_r. auto.
    - rewrite cnt_cons in *.
      destruct (run_acts_keep now _ _ _ [] (fst (fst e)) s (keep_nil s)) as (R1 & R2 & R3 & _).
      set (s1 := run_acts now s (A (fst (fst e)))) in *.
      set (lg1 := lg ++ [Fire now (fst (fst e)) (snd (fst e)) (snd e)]).
      assert (Hx1 : xfires lg1 = xfires lg ++ (if isx e then [now] else [])).
      { unfold lg1. rewrite xfires_app, xfires_entry. reflexivity. }
      destruct (isx e) eqn:Ex.
      + destruct Hc as [Hk Hp]; [lia|].
        assert (Hex : existsb (eq_triple e) (tbl_get (get_tbl s) k) = true).
        { apply existsb_exists. exists hx. split; [rewrite Hk; apply cnt_pos_in; exact Hp|].
          apply isx_true in Ex. rewrite Ex. apply eq_triple_refl. }
        assert (Hstep : proc_one A now k (s, lg) e = (s1, lg1)) by (unfold proc_one; rewrite Hex; reflexivity).
        rewrite Hstep. destruct (IH s1 lg1) as (I1 & I2 & I3 & I4).
        { intros _. unfold kx. rewrite R3, R1. auto. }
        rewrite I1, I2, I3, I4, R1, R2, R3, Hx1, <- app_assoc. repeat split.
      + destruct (existsb (eq_triple e) (tbl_get (get_tbl s) k)) eqn:Hex.
        * assert (Hstep : proc_one A now k (s, lg) e = (s1, lg1)) by (unfold proc_one; rewrite Hex; reflexivity).
          rewrite Hstep. destruct (IH s1 lg1) as (I1 & I2 & I3 & I4).
          { intros H. unfold kx. rewrite R3, R1. apply Hc; exact H. }
          rewrite I1, I2, I3, I4, R1, R2, R3, Hx1, app_nil_r. repeat split.
        * assert (Hstep : proc_one A now k (s, lg) e = (s, lg)) by (unfold proc_one; rewrite Hex; reflexivity).
          rewrite Hstep. apply IH. exact Hc.
  Qed.

  Lemma proc_key_x now s lg k : HI s ->
    let r := proc_key A now (s, lg) k in
    nreg (fst r) = nreg s /\ lc (fst r) = lc s /\ HI (fst r) /\
    (if (k =? kx s) && (k <=? now)
     then pend (fst r) = 0%nat /\ xfires (snd r) = xfires lg ++ repeat now (pend s)
     else pend (fst r) = pend s /\ xfires (snd r) = xfires lg).
  Proof.
    intros HH. cbn zeta. pose proof (proc_key_HI A now (s, lg) k HH) as HH'.
    unfold proc_key in *. destruct (k <=? now) eqn:E; [|rewrite andb_false_r; auto].
    rewrite andb_true_r.
    assert (Hc : (0 < cnt (tbl_get (get_tbl s) k))%nat -> k = kx s /\ (0 < pend s)%nat).
    { intros Hp. pose proof (cnt_pos_in _ Hp) as Hin. destruct HH as [Hk _].
      destruct (allk_get _ _ _ _ Hk Hin) as [Hke _]. cbn in Hke. split; [exact Hke|].
      unfold pend. fold (kx s) in Hke. rewrite <- Hke. exact Hp. }
    pose proof (proc_one_fold_x now k (tbl_get (get_tbl s) k) s lg Hc) as H.
    pose proof (fold_inv (proc_one A now k) (fun a => HI (fst a)) (tbl_get (get_tbl s) k)
                  (fun x y Hx => proc_one_HI A now k x y Hx) (s, lg) HH) as H1.
    destruct (fold_left _ _ _) as [s1 lg1]. cbn [fst snd] in *. destruct H as (P1 & P2 & P3 & P4).
    split; [exact P2|]. split; [exact P3|]. split; [exact HH'|].
    change (pend (set_tbl s1 (tbl_del (get_tbl s1) k)))
      with (cnt (tbl_get (tbl_del (get_tbl s1) k) (lc s1 + us ms))).
    rewrite P3. fold (kx s).
    destruct (k =? kx s) eqn:Ek.
    - apply Z.eqb_eq in Ek. subst k. destruct H1 as [_ Hnd]. rewrite tbl_get_del_same; [|exact Hnd].
      split; [reflexivity | exact P4].
    - apply Z.eqb_neq in Ek. rewrite tbl_get_del_other; [|intros C; apply Ek; symmetry; exact C].
      split; [unfold pend, kx in P1; rewrite P3 in P1; exact P1|].
      destruct (cnt (tbl_get (get_tbl s) k)) eqn:Ec; [rewrite P4; apply app_nil_r|].
      exfalso. apply Ek. apply Hc. lia.
  Qed.

  Lemma proc_keys_x now : forall ks s lg, HI s -> NoDup ks ->
    let r := fold_left (proc_key A now) ks (s, lg) in
    let b := existsb (Z.eqb (kx s)) ks && (kx s <=? now) in
    nreg (fst r) = nreg s /\ lc (fst r) = lc s /\
    pend (fst r) = (if b then 0%nat else pend s) /\
    xfires (snd r) = xfires lg ++ (if b then repeat now (pend s) else []).
  Proof.
    induction ks as [|k ks IH]; intros s lg HH Hnd; cbn [fold_left existsb].
    - cbn. rewrite app_nil_r. auto.
    - inversion Hnd as [|? ? Hn Hnd']; subst.
      pose proof (proc_key_x now s lg k HH) as H. cbn zeta in H.
      destruct (proc_key A now (s, lg) k) as [s1 lg1]. cbn [fst snd] in H. destruct H as (Q1 & Q2 & Q3 & Q4).
      specialize (IH s1 lg1 Q3 Hnd'). cbn zeta in IH. destruct IH as (I1 & I2 & I3 & I4).
      assert (Hkx : kx s1 = kx s) by (unfold kx; rewrite Q2; reflexivity). rewrite Hkx in *.
      rewrite I1, I2, I3, I4, Q1, Q2. split; [reflexivity|]. split; [reflexivity|].
      rewrite (Z.eqb_sym (kx s) k). destruct (k =? kx s) eqn:Ek; cbn [orb andb] in *.
      + apply Z.eqb_eq in Ek. subst k.
        assert (Ef : existsb (Z.eqb (kx s)) ks = false).
        { destruct (existsb (Z.eqb (kx s)) ks) eqn:Ee; [|reflexivity]. exfalso. apply Hn.
          apply existsb_exists in Ee as (y & Hy & Hey). apply Z.eqb_eq in Hey. subst y. exact Hy. }
        rewrite Ef. cbn [andb]. destruct (kx s <=? now); destruct Q4 as [Q4 Q5]; rewrite Q4, Q5.
        * split; [reflexivity | rewrite app_nil_r; reflexivity].
        * split; reflexivity.
      + destruct Q4 as [Q4 Q5]. rewrite Q4, Q5. split; reflexivity.
  Qed.

  Lemma process_x now s w tw : Inv s -> earliest (wakes (tm s)) = Some (w, tw) ->
    let r := process A now s w in
    nreg (fst r) = nreg s /\ lc (fst r) = lc s /\
    pend (fst r) = (if kx s <=? now then 0%nat else pend s) /\
    xfires (snd r) = (if kx s <=? now then repeat now (pend s) else []).
  Proof.
    intros (HW & HM & HH) He. pose proof HW as [Hw Ht]. cbn zeta.
    unfold process. cbn [cur timed wakes wid].
    destruct (cur (tm s)) as [c|] eqn:Ec; [|rewrite Hw in He; discriminate].
    destruct (timed (tm s)) as [d|] eqn:Ed; [|exfalso; apply Ht; [discriminate | reflexivity]].
    match goal with |- context [fold_left ?f ?l (?s0, [])] => set (s1 := s0) end.
    assert (Ht1 : get_tbl s1 = get_tbl s) by (unfold get_tbl, s1; cbn; rewrite Ed; reflexivity).
    assert (HH1 : HI s1) by (unfold HI; rewrite Ht1; exact HH).
    assert (Hd : get_tbl s = d) by (unfold get_tbl; rewrite Ed; reflexivity).
    assert (Hnd : NoDup (keys d)) by (rewrite <- Hd; apply HH).
    pose proof (proc_keys_x now (keys d) s1 [] HH1 Hnd) as H. cbn zeta in H.
    destruct (fold_left _ _ _) as [s2 lg]. cbn [fst snd] in *. destruct H as (P1 & P2 & P3 & P4).
    assert (Hkx : kx s1 = kx s) by reflexivity. rewrite Hkx in *.
    assert (Hp1 : pend s1 = pend s) by (unfold pend; rewrite Hkx, Ht1; reflexivity). rewrite Hp1 in *.
    split; [exact P1|]. split; [exact P2|].
    assert (Hps : pend (set_tm s2 (resched (tm s2))) = pend s2).
    { unfold pend, kx. rewrite get_tbl_resched. reflexivity. }
    rewrite Hps, P3, P4. cbn [xfires flat_map app].
    destruct (existsb (Z.eqb (kx s)) (keys d)) eqn:Ee; cbn [andb]; [split; reflexivity|].
    assert (Hz : pend s = 0%nat).
    { unfold pend. rewrite Hd, tbl_get_absent; [reflexivity | apply existsb_eqb_false; exact Ee]. }
    rewrite Hz. destruct (kx s <=? now); split; reflexivity.
  Qed.

  (* ---- the hold automaton of handler x: the second sentence of the property as a program ---- *)
  Record hold := mkH { h_st : bool; h_lc : Z; h_mu : list Z; h_n : nat; h_p : nat }.

  Definition hold_step (nc : bool) (a : hold) (te : Z * ev) : hold * list Z :=
    let t := fst te in
    match snd te with
    | EOp (OReport lg val) =>
        let u := logical_of nc lg val in
        if Bool.eqb u (h_st a) then (a, [])                                  (* duplicate report *)
        else (mkH u t (h_mu a) (h_n a)
                  (match h_mu a with                                         (* every real change ends the holds; *)
                   | [] => if Bool.eqb u v then h_n a else 0%nat             (* into v, unmuted: one per registration *)
                   | _ :: _ => 0%nat
                   end), [])
    | EOp (OAdd c st m) =>
        if eq_triple (c, st, m) hx
        then (mkH (h_st a) (h_lc a) (h_mu a) (S (h_n a))                     (* catch-up: original deadline, if ahead *)
                  (if Bool.eqb v (h_st a) && (t <? h_lc a + us ms) then S (h_p a) else h_p a), [])
        else (a, [])
    | EOp (ORem c st m) =>
        if eq_triple (c, st, m) hx then (mkH (h_st a) (h_lc a) (h_mu a) 0 0, []) else (a, [])
    | EOp (OMute src) =>
        (mkH (h_st a) (h_lc a) (if existsb (Z.eqb src) (h_mu a) then h_mu a else src :: h_mu a) (h_n a) (h_p a), [])
    | EOp (OUnmute src) =>
        (mkH (h_st a) (h_lc a) (filter (fun y => negb (y =? src)) (h_mu a)) (h_n a) (h_p a), [])
    | EWake =>
        if h_lc a + us ms <=? t                                              (* held for ms: every pending copy fires *)
        then (mkH (h_st a) (h_lc a) (h_mu a) (h_n a) 0, repeat t (h_p a))
        else (a, [])
    | _ => (a, [])
    end.

  Fixpoint hold_run (nc : bool) (a : hold) (evs : list (Z * ev)) : list Z :=
    match evs with
    | [] => []
    | te :: evs' => snd (hold_step nc a te) ++ hold_run nc (fst (hold_step nc a te)) evs'
    end.

  Definition R (s : state) (a : hold) : Prop :=
    sst s = h_st a /\ lc s = h_lc a /\ mutes (dv s) = h_mu a /\ nreg s = h_n a /\ pend s = h_p a.

  Definition abs (s : state) : hold := mkH (sst s) (lc s) (mutes (dv s)) (nreg s) (pend s).

  Lemma R_abs s : R s (abs s). Proof. repeat split. Qed.

  Lemma pend_empty s : get_tbl s = [] -> pend s = 0%nat.
  Proof. intros H. unfold pend. rewrite H. reflexivity. Qed.


  (* ---- fields the automaton mirrors ---- *)
  Lemma invoke_mutes now s c u : mutes (dv (fst (invoke A now s c u))) = mutes (dv s).
  Proof.
    unfold invoke. destruct (is_rcb c); [destruct (rc (dv s)); reflexivity|]. cbn [fst]. rewrite dv_run_acts. reflexivity.
  Qed.

  Lemma call_one_mutes now u acc e : mutes (dv (fst (call_one A now u acc e))) = mutes (dv (fst acc)).
  Proof.
    destruct acc as [s lg]; unfold call_one; cbn [fst]. destruct (negb (live s u e)); [reflexivity|].
    destruct (snd e =? 0); cbn [fst]; [apply invoke_mutes | reflexivity].
  Qed.

  Lemma report_fields now s lg val :
    let u := logical_of (inv s) lg val in
    let s' := fst (report A now s lg val) in
    inv s' = inv s /\ sst s' = u /\ lc s' = (if Bool.eqb u (sst s) then lc s else now) /\
    mutes (dv s') = mutes (dv s).
  Proof.
    cbn zeta. pose proof (report_state A now s lg val) as [Hi Hst]. cbn zeta in Hi, Hst.
    split; [exact Hi|]. split; [exact Hst|]. unfold report. destruct (Bool.eqb _ _); [split; reflexivity|].
    destruct (mutes (dv s)) eqn:Em; [|cbn [fst]; split; [reflexivity | exact Em]].
    match goal with |- context [call_handlers A now ?s0 ?u0] =>
      destruct (call_handlers_sw A now s0 u0) as (_ & _ & _ & Hl); split; [exact Hl|];
      unfold call_handlers;
      apply (fold_inv (call_one A now u0) (fun acc => mutes (dv (fst acc)) = [])); [|exact Em] end.
    intros a b Ha. rewrite call_one_mutes. exact Ha.
  Qed.

  Lemma proc_one_mutes now k acc e : mutes (dv (fst (proc_one A now k acc e))) = mutes (dv (fst acc)).
  Proof.
    destruct acc as [s lg]; unfold proc_one; cbn [fst]. destruct (existsb _ _); cbn [fst]; [rewrite dv_run_acts|]; reflexivity.
  Qed.

  Lemma proc_key_mutes now acc k : mutes (dv (fst (proc_key A now acc k))) = mutes (dv (fst acc)).
  Proof.
    destruct acc as [s lg]; unfold proc_key. destruct (k <=? now); [|reflexivity].
    pose proof (fold_inv (proc_one A now k) (fun a => mutes (dv (fst a)) = mutes (dv s)) (tbl_get (get_tbl s) k)
                  (fun a b Ha => eq_trans (proc_one_mutes now k a b) Ha) (s, lg) eq_refl) as HF.
    destruct (fold_left _ _ _) as [s1 lg1]. exact HF.
  Qed.

  Lemma process_mutes now s w : mutes (dv (fst (process A now s w))) = mutes (dv s).
  Proof.
    unfold process. cbn [cur timed wakes wid]. destruct (cur (tm s)); [|reflexivity].
    destruct (timed (tm s)) as [d|]; [|reflexivity].
    match goal with |- context [fold_left ?f ?l ?a0] =>
      pose proof (fold_inv f (fun a => mutes (dv (fst a)) = mutes (dv s)) l
                    (fun a b Ha => eq_trans (proc_key_mutes now a b) Ha) a0 eq_refl) as HF;
      destruct (fold_left f l a0) as [s2 lg] end.
    exact HF.
  Qed.

  Lemma step_inv s te : inv (fst (step A s te)) = inv s.
  Proof.
    destruct te as [t [o| |]].
    - destruct o as [lg val| | | | | |];
        try (apply (step_sw_other A s); cbn; intros; discriminate).
      unfold step; cbn [fst snd step_op]. apply report_state.
    - apply (step_sw_other A s); cbn; intros; discriminate.
    - apply (step_sw_other A s); cbn; intros; discriminate.
  Qed.

  Lemma neq_of_eq_triple_false y : eq_triple y hx = false -> y <> hx.
  Proof. intros H C. subst y. rewrite eq_triple_refl in H. discriminate. Qed.

  Lemma xfires_ev0 t c st : xfires [Fire t c st 0] = [].
  Proof.
    unfold xfires; cbn. unfold eq_triple, hx; cbn [fst snd].
    assert (E : (0 =? ms) = false) by (apply Z.eqb_neq; lia). rewrite E, andb_false_r. reflexivity.
  Qed.

  (* ---- one step of the model against one step of the automaton ---- *)
  Lemma step_refines s a te : Inv s -> R s a ->
    R (fst (step A s te)) (fst (hold_step (inv s) a te)) /\
    xfires (snd (step A s te)) = snd (hold_step (inv s) a te).
  Proof.
    intros HI0 (R1 & R2 & R3 & R4 & R5). pose proof HI0 as (HW & HM & HH).
    destruct te as [t [o| |]]; unfold step, hold_step; cbn [fst snd].
    - destruct o as [lg val|c st m|c st m|st m|src|src|]; cbn [step_op fst snd].
      + pose proof (report_x t s lg val HH) as (Q1 & Q2 & Q3). cbn zeta in Q1, Q2, Q3.
        pose proof (report_fields t s lg val) as (_ & F2 & F3 & F4). cbn zeta in F2, F3, F4.
        rewrite <- R1, <- R3, <- R4.
        destruct (Bool.eqb (logical_of (inv s) lg val) (sst s)) eqn:E; cbn [fst snd]; try rewrite E in Q3; try rewrite E in F3.
        * split; [|exact Q2]. unfold R. rewrite F2, F3, F4, Q1, Q3. apply eqb_prop in E.
          repeat split; congruence.
        * split; [|exact Q2]. unfold R; cbn [h_st h_lc h_mu h_n h_p]. rewrite F2, F3, F4, Q1, Q3. repeat split.
      + destruct (eq_triple (c, st, m) hx) eqn:E; cbn [fst snd]; (split; [|reflexivity]).
        * apply eq_triple_eq in E. injection E as -> -> ->.
          unfold R; cbn [h_st h_lc h_mu h_n h_p]. rewrite add_nreg_x, add_pend_x. unfold kx.
          rewrite R1, R2, R4, R5. repeat split; assumption.
        * apply neq_of_eq_triple_false in E. unfold R.
          rewrite add_nreg_other, add_pend_other by exact E. repeat split; assumption.
      + destruct (eq_triple (c, st, m) hx) eqn:E; cbn [fst snd]; (split; [|reflexivity]).
        * apply eq_triple_eq in E. injection E as -> -> ->.
          unfold R; cbn [h_st h_lc h_mu h_n h_p]. rewrite rem_nreg_x, rem_pend_x. repeat split; assumption.
        * apply neq_of_eq_triple_false in E. unfold R.
          rewrite rem_nreg_other, rem_pend_other by exact E. repeat split; assumption.
      + split; [repeat split; assumption | reflexivity].
      + split; [|reflexivity]. unfold R; cbn [h_st h_lc h_mu h_n h_p]. rewrite <- R3. repeat split; assumption.
      + split; [|reflexivity]. unfold R; cbn [h_st h_lc h_mu h_n h_p]. rewrite <- R3. repeat split; assumption.
      + split; [repeat split; assumption | reflexivity].
    - rewrite <- R2. fold (kx s). destruct (earliest (wakes (tm s))) as [[w tw]|] eqn:Ee.
      + pose proof (process_x t s w tw HI0 Ee) as (Q1 & Q2 & Q3 & Q4). cbn zeta in Q1, Q2, Q3, Q4.
        destruct (process_sw A t s w) as (_ & S2 & _). pose proof (process_mutes t s w) as S3.
        rewrite <- R5. destruct (kx s <=? t); cbn [fst snd]; (split; [|exact Q4]); unfold R; cbn [h_st h_lc h_mu h_n h_p];
          rewrite S2, S3, Q1, Q2, Q3; repeat split; assumption.
      + assert (Hz : pend s = 0%nat).
        { pose proof (Inv_wake s HI0) as Hk. destruct (get_tbl s) as [|kl d] eqn:Et; [apply pend_empty; exact Et|].
          destruct Hk as (w & Hk & _). rewrite Hk in Ee. discriminate. }
        cbn [fst snd]. rewrite <- R5, Hz. destruct (kx s <=? t); cbn [fst snd repeat]; (split; [|reflexivity]);
          unfold R; cbn [h_st h_lc h_mu h_n h_p]; repeat split; try assumption; try congruence.
    - unfold recycle_passed. destruct (rc (dv s)) as [[t0 v0]|]; cbn [fst snd].
      + split; [repeat split; assumption|]. destruct (Bool.eqb (sst s) v0); [reflexivity | apply xfires_ev0].
      + split; [repeat split; assumption | reflexivity].
  Qed.

  (* ---- all histories ---- *)
  Lemma exec_refines evs : forall s a, Inv s -> R s a ->
    xfires (snd (exec A s evs)) = hold_run (inv s) a evs.
  Proof.
    induction evs as [|te evs IH]; intros s a HI0 HR; cbn [exec hold_run]; [reflexivity|].
    destruct (step_refines s a te HI0 HR) as [HR1 Hx]. pose proof (step_Inv A s te HI0) as HI1.
    pose proof (step_inv s te) as Hinv.
    destruct (step A s te) as [s1 l1]. cbn [fst snd] in *.
    specialize (IH s1 _ HI1 HR1). destruct (exec A s1 evs) as [s2 l2]. cbn [snd] in *.
    rewrite xfires_app, Hx, IH, Hinv. reflexivity.
  Qed.
End HoldAutomaton.

(* ------------------------------------------------------------------------------------------------ *)
(* readable corollaries                                                                               *)
Lemma Inv_keyed s : Inv s ->
  forall k e, In e (tbl_get (get_tbl s) k) -> k = lc s + us (snd e) /\ snd (fst e) = sst s.
Proof. intros (_ & _ & [Hk _]) k e Hin. exact (allk_get _ _ _ _ Hk Hin). Qed.

Lemma exec_Inv_keyed A evs s : Inv s ->
  let s' := fst (exec A s evs) in
  Inv s' /\ forall k e, In e (tbl_get (get_tbl s') k) -> k = lc s' + us (snd e) /\ snd (fst e) = sst s'.
Proof. intros H. cbn zeta. pose proof (exec_Inv A evs s H) as H1. split; [exact H1 | apply Inv_keyed; exact H1]. Qed.

Lemma timed_iff_held_l A cb v ms : 0 < ms -> acts_nox A cb v ms -> forall evs s, Inv s ->
  xfires cb v ms (snd (exec A s evs)) = hold_run cb v ms (inv s) (abs cb v ms s) evs.
Proof. intros Hms HA evs s HI0. apply exec_refines; [exact Hms | exact HA | exact HI0 | apply R_abs]. Qed.

(* ------------------------------------------------------------------------------------------------ *)
(* Examples: hypotheses satisfiable on non-trivial states; the automaton computed on concrete histories *)
Example ex_Inv0 : Inv ex_s0.
Proof.
  split; [apply ex_W|]. split; [reflexivity|]. unfold HI, get_tbl; cbn. apply HIc_nil.
Qed.

(* after the activation at 1 s three holds are pending (1 and 4 at 1.25 s, 7 at 1.5 s): invariants hold, the
   single wake-up is at the minimum deadline 1.25 s *)
Example ex_Inv1 :
  let s := fst (exec exA ex_s0 [(1000000, EOp (OReport false false))]) in
  Inv s /\ keys (get_tbl s) = [1250000; 1500000] /\ wakes (tm s) = [(0, 1250000)].
Proof.
  cbn zeta. split; [apply exec_Inv; apply ex_Inv0|]. vm_compute. split; reflexivity.
Qed.

Example ex_acts_nox : acts_nox exA 1 true 250 /\ acts_nox exA 7 true 500.
Proof.
  split; intros c; unfold exA; destruct (c =? 1); [|destruct (c =? 3)| |destruct (c =? 3)];
    repeat constructor; discriminate.
Qed.

(* handler (1, active, 250 ms) over the history ex_evs: fires once, at 1.25 s = change + 250 ms ... *)
Example ex_hold_fires :
  hold_run 1 true 250 (inv ex_s0) (abs 1 true 250 ex_s0) ex_evs = [1250000]
  /\ xfires 1 true 250 (snd (exec exA ex_s0 ex_evs)) = [1250000].
Proof. vm_compute. split; reflexivity. Qed.

(* ... and not at all when the switch is released 125 ms after the activation (wake-ups still run) *)
Example ex_hold_released :
  let evs := [(1000000, EOp (OReport false false)); (1125000, EOp (OReport true false)); (1250000, EWake);
              (1500000, EWake)] in
  hold_run 1 true 250 (inv ex_s0) (abs 1 true 250 ex_s0) evs = []
  /\ xfires 1 true 250 (snd (exec exA ex_s0 evs)) = [].
Proof. vm_compute. split; reflexivity. Qed.

(* registered 100 ms after the activation (catch-up): fires at the ORIGINAL deadline; registered 300 ms after: never *)
Example ex_hold_catchup :
  let evs t := [(1000000, EOp (OReport false false)); (t, EOp (OAdd 9 true 250)); (1250000, EWake); (1500000, EWake);
                (1750000, EWake)] in
  hold_run 9 true 250 (inv ex_s0) (abs 9 true 250 ex_s0) (evs 1100000) = [1250000]
  /\ hold_run 9 true 250 (inv ex_s0) (abs 9 true 250 ex_s0) (evs 1300000) = [].
Proof. vm_compute. split; reflexivity. Qed.

(* the punctual wake-up of ex_Inv1 *)
Example ex_punctual :
  let s := fst (exec exA ex_s0 [(1000000, EOp (OReport false false))]) in
  earliest (wakes (tm s)) = Some (0, 1250000).
Proof. vm_compute. reflexivity. Qed.
