(* C03/Model.v — executable model of ONE switch inside mpf/core/switch_controller.py (SwitchController) and
   of the part of mpf/devices/switch.py that registers the event-posting handlers.

   The model is of the code WITH the three fixes of /verif/fixes/C03-*.patch applied:
     (1) add_switch_handler_obj: catch-up test `last_change > now - ms/1000.0`   (was `now - ms`: s vs ms)
     (2) remove_switch_handler_obj: matching timed entries are filtered out       (was del-while-enumerate)
     (3) _process_active_timed_switches: after the callbacks, a wake-up installed by a callback is
         unscheduled and ONE wake-up is scheduled from the live table             (was: from a stale snapshot,
         leaving an orphan wake-up that later crashed with KeyError)

   Time: exact integers, microseconds.  The harness keeps every instant either on a 1/8 s grid, where the float
   arithmetic of the implementation is exact, or (generic stream) at arbitrary microseconds at least 50 us away from
   every timer, where no comparison of the implementation has equal operands.  `ms` arguments are integer
   milliseconds, as in the API.

   Switches are independent in the controller (all tables are keyed by switch); the harness runs several
   switches at once and projects the timeline on each of them.

   Also modelled from mpf/devices/switch.py: mute/unmute (a muted switch updates state/last_change and cancels
   the pending timed handlers but calls no handler) and the ignore window (ignore_window_ms:
   _post_events_with_recycle / _recycle_passed and its timer).

   Callbacks are scripted: callback number cb, when invoked, performs the list of actions `A cb`
   (register / remove handlers on the same switch).  Event posts of the Switch device
   (`_post_events`, `events.post` partials of "event|ms" entries) are callbacks with numbers >= 1000 and
   no actions.  Definitions only; proofs are in Lemmas.v. *)
From Common Require Import Prelude.
Open Scope Z_scope.

Definition triple := (Z * bool * Z)%type.     (* TimedSwitchHandler(callback, state, ms) *)
Definition entry := (Z * Z * Z)%type.         (* RegisteredSwitch: (object identity, callback, ms) *)
Definition wake := (Z * Z)%type.              (* (TimerHandle identity, deadline in us) *)
Definition table := list (Z * list triple).   (* dict deadline -> [TimedSwitchHandler], insertion ordered *)

Inductive act := AAdd (cb : Z) (st : bool) (ms : Z) | ARem (cb : Z) (st : bool) (ms : Z).
Inductive obs := Fire (t cb : Z) (st : bool) (ms : Z) | QRes (t : Z) (b : bool) | Crash (t : Z).

Record regs := mkR { r0 : list entry; r1 : list entry; ruid : Z }.
(* timed = None: switch not in _active_timed_switches; cur: _timed_switch_handler_delay[switch];
   wakes: the not-cancelled _process_active_timed_switches handles in the loop's timer heap *)
Record timers := mkT { timed : option table; cur : option wake; wakes : list wake; wid : Z }.
(* the Switch device: mute sources (_mutes), ignore window in us (recycle_secs; 0 = none), and the open window
   (recycle_clear_time, state argument of the pending _recycle_passed timer) *)
Record dev := mkD { mutes : list Z; rwin : Z; rc : option (Z * bool) }.
Record state := mkS { inv : bool; sst : bool; hw : bool; lc : Z; rg : regs; tm : timers; dv : dev }.

Definition us (ms : Z) : Z := ms * 1000.

Definition set_tm (s : state) (T : timers) : state := mkS (inv s) (sst s) (hw s) (lc s) (rg s) T (dv s).
Definition set_rg (s : state) (r : regs) : state := mkS (inv s) (sst s) (hw s) (lc s) r (tm s) (dv s).
Definition set_dv (s : state) (d : dev) : state := mkS (inv s) (sst s) (hw s) (lc s) (rg s) (tm s) d.
Definition set_rc (s : state) (w : option (Z * bool)) : state := set_dv s (mkD (mutes (dv s)) (rwin (dv s)) w).
Definition b2z (b : bool) : Z := if b then 1 else 0.
Definition t_timed (T : timers) (d : option table) : timers := mkT d (cur T) (wakes T) (wid T).

Definition reg_of (r : regs) (st : bool) : list entry := if st then r1 r else r0 r.
Definition set_reg (r : regs) (st : bool) (l : list entry) : regs :=
  if st then mkR (r0 r) l (ruid r) else mkR l (r1 r) (ruid r).

Definition eq_triple (a b : triple) : bool :=
  (fst (fst a) =? fst (fst b)) && Bool.eqb (snd (fst a)) (snd (fst b)) && (snd a =? snd b).

(* ---- the deadline table ---------------------------------------------------------------------- *)
Fixpoint tbl_add (d : table) (k : Z) (e : triple) : table :=
  match d with
  | [] => [(k, [e])]
  | (k', l) :: d' => if k =? k' then (k', l ++ [e]) :: d' else (k', l) :: tbl_add d' k e
  end.

Fixpoint tbl_get (d : table) (k : Z) : list triple :=
  match d with
  | [] => []
  | (k', l) :: d' => if k =? k' then l else tbl_get d' k
  end.

Fixpoint tbl_del (d : table) (k : Z) : table :=
  match d with
  | [] => []
  | (k', l) :: d' => if k =? k' then d' else (k', l) :: tbl_del d' k
  end.

Definition keys (d : table) : list Z := map fst d.

Definition tbl_min (d : table) : Z :=
  match d with
  | [] => 0
  | (k, _) :: d' => fold_left Z.min (keys d') k
  end.

(* ---- loop.call_at / clock.unschedule ----------------------------------------------------------- *)
Definition schedule (t : Z) (T : timers) : timers :=
  mkT (timed T) (Some (wid T, t)) (wakes T ++ [(wid T, t)]) (wid T + 1).

Definition drop_wake (w : Z) (l : list wake) : list wake := filter (fun x => negb (fst x =? w)) l.

Definition unschedule (w : Z) (T : timers) : timers := mkT (timed T) (cur T) (drop_wake w (wakes T)) (wid T).

Definition clear_cur (T : timers) : timers :=
  match cur T with
  | Some (w, _) => mkT (timed T) None (drop_wake w (wakes T)) (wid T)
  | None => T
  end.

(* _add_timed_switch_handler.  (In the code next_event_time is `time` when the switch had no table and
   min(keys) otherwise; both are min(keys) of the new table.) *)
Definition add_timed (T : timers) (k : Z) (e : triple) : timers :=
  let d' := match timed T with None => [(k, [e])] | Some d => tbl_add d k e end in
  let nxt := tbl_min d' in
  let T1 := t_timed T (Some d') in
  match cur T1 with
  | None => schedule nxt T1
  | Some (w, tw) => if nxt <? tw then schedule nxt (unschedule w T1) else T1
  end.

(* _cancel_timed_handlers *)
Definition cancel (T : timers) : timers :=
  match timed T with
  | None => T
  | Some _ => t_timed (clear_cur T) None
  end.

(* ---- add_switch_handler_obj / remove_switch_handler_obj ------------------------------------------ *)
Definition add (now : Z) (s : state) (cb : Z) (st : bool) (ms : Z) : state :=
  let r := rg s in
  let r' := set_reg (mkR (r0 r) (r1 r) (ruid r + 1)) st (reg_of r st ++ [(ruid r, cb, ms)]) in
  let T' := if negb (ms =? 0) && (lc s >? now - us ms) && Bool.eqb st (sst s)
            then add_timed (tm s) (lc s + us ms) (cb, st, ms) else tm s in
  mkS (inv s) (sst s) (hw s) (lc s) r' T' (dv s).

Definition ent_match (cb ms : Z) (e : entry) : bool := (snd e =? ms) && (snd (fst e) =? cb).

Definition tbl_filter (x : triple) (d : table) : table :=
  map (fun kl => (fst kl, filter (fun e => negb (eq_triple e x)) (snd kl))) d.

Definition rem (s : state) (cb : Z) (st : bool) (ms : Z) : state :=
  let r := rg s in
  let r' := set_reg r st (filter (fun e => negb (ent_match cb ms e)) (reg_of r st)) in
  let T' := match timed (tm s) with
            | None => tm s
            | Some d => t_timed (tm s) (Some (tbl_filter (cb, st, ms) d))
            end in
  mkS (inv s) (sst s) (hw s) (lc s) r' T' (dv s).

Definition run_act (now : Z) (s : state) (a : act) : state :=
  match a with
  | AAdd cb st ms => add now s cb st ms
  | ARem cb st ms => rem s cb st ms
  end.

Definition run_acts (now : Z) (s : state) (l : list act) : state := fold_left (run_act now) l s.

(* ---- invoking an untimed registry entry -------------------------------------------------------------
   callbacks 1010/1011 are Switch._post_events_with_recycle(state=0/1) (registered instead of _post_events when
   ignore_window_ms > 0): while no window is open they open one until last_change + window and post the events
   of the state (observed as callback 1000/1001); while a window is open they do nothing.  Every other callback
   is invoked (observed) and performs its scripted actions. *)
Definition is_rcb (cb : Z) : bool := (cb =? 1010) || (cb =? 1011).

Definition invoke (A : Z -> list act) (now : Z) (s : state) (cb : Z) (v : bool) : state * list obs :=
  if is_rcb cb then
    match rc (dv s) with
    | Some _ => (s, [])
    | None => (set_rc s (Some (lc s + rwin (dv s), v)), [Fire now (1000 + b2z v) v 0])
    end
  else (run_acts now s (A cb), [Fire now cb v 0]).

(* Switch._recycle_passed(state=v0), run by the loop at recycle_clear_time *)
Definition recycle_passed (now : Z) (s : state) : state * list obs :=
  match rc (dv s) with
  | None => (s, [])
  | Some (_, v0) =>
      (set_rc s None, if Bool.eqb (sst s) v0 then [] else [Fire now (1000 + b2z (sst s)) (sst s) 0])
  end.

(* ---- _call_handlers ------------------------------------------------------------------------------ *)
Definition ent_eqb (a b : entry) : bool :=
  (fst (fst a) =? fst (fst b)) && (snd (fst a) =? snd (fst b)) && (snd a =? snd b).

(* "not entry.cancelled": the RegisteredSwitch object is still in the live list (objects are compared with all
   their fields; identities are fresh numbers, so this is object identity) *)
Definition live (s : state) (v : bool) (e : entry) : bool := existsb (ent_eqb e) (reg_of (rg s) v).

Definition call_one (A : Z -> list act) (now : Z) (v : bool) (acc : state * list obs) (e : entry)
  : state * list obs :=
  let '(s, lg) := acc in
  let cb := snd (fst e) in
  let ms := snd e in
  if negb (live s v e) then (s, lg)                                     (* entry.cancelled *)
  else if ms =? 0 then (fst (invoke A now s cb v), lg ++ snd (invoke A now s cb v))
  else (set_tm s (add_timed (tm s) (lc s + us ms) (cb, v, ms)), lg).

Definition call_handlers (A : Z -> list act) (now : Z) (s : state) (v : bool) : state * list obs :=
  fold_left (call_one A now v) (reg_of (rg s) v) (s, []).

(* ---- process_switch_obj -------------------------------------------------------------------------- *)
Definition logical_of (nc logical val : bool) : bool := if nc && negb logical then negb val else val.
Definition hw_of (nc logical val : bool) : bool := if nc && logical then negb val else val.

Definition report (A : Z -> list act) (now : Z) (s : state) (logical val : bool) : state * list obs :=
  let v := logical_of (inv s) logical val in
  if Bool.eqb v (sst s) then (s, [])
  else
    let s1 := mkS (inv s) v (hw_of (inv s) logical val) now (rg s) (cancel (tm s)) (dv s) in
    match mutes (dv s) with
    | [] => call_handlers A now s1 v
    | _ :: _ => (s1, [])                      (* muted: state, last_change, cancellation; no handlers *)
    end.

(* ---- _process_active_timed_switches -------------------------------------------------------------- *)
Definition get_tbl (s : state) : table := match timed (tm s) with Some d => d | None => [] end.
Definition set_tbl (s : state) (d : table) : state := set_tm s (t_timed (tm s) (Some d)).

Definition proc_one (A : Z -> list act) (now k : Z) (acc : state * list obs) (e : triple)
  : state * list obs :=
  let '(s, lg) := acc in
  if existsb (eq_triple e) (tbl_get (get_tbl s) k)                      (* "entry not in ...: continue" *)
  then (run_acts now s (A (fst (fst e))), lg ++ [Fire now (fst (fst e)) (snd (fst e)) (snd e)])
  else (s, lg).

Definition proc_key (A : Z -> list act) (now : Z) (acc : state * list obs) (k : Z) : state * list obs :=
  let '(s, lg) := acc in
  if k <=? now then
    let '(s1, lg1) := fold_left (proc_one A now k) (tbl_get (get_tbl s) k) (s, lg) in
    (set_tbl s1 (tbl_del (get_tbl s1) k), lg1)
  else (s, lg).

Definition resched (T : timers) : timers :=
  let T1 := clear_cur T in
  match timed T1 with
  | Some (kl :: d) => schedule (tbl_min (kl :: d)) T1
  | _ => T1
  end.

Definition process (A : Z -> list act) (now : Z) (s : state) (w : Z) : state * list obs :=
  let T := tm s in
  let T0 := mkT (timed T) (cur T) (drop_wake w (wakes T)) (wid T) in        (* the handle has fired *)
  match cur T0, timed T0 with
  | None, _ => (set_tm s T0, [Crash now])                                   (* del ...[switch]: KeyError *)
  | Some _, None => (set_tm s (mkT None None (wakes T0) (wid T0)), [Crash now])
  | Some _, Some d =>
      let s1 := set_tm s (mkT (Some d) None (wakes T0) (wid T0)) in
      let '(s2, lg) := fold_left (proc_key A now) (keys d) (s1, []) in
      (set_tm s2 (resched (tm s2)), lg)
  end.

(* ---- is_active / is_inactive / is_state ---------------------------------------------------------- *)
(* Switch.get_ms_since_last_change: round((now - last_change) * 1000.0, 0), i.e. whole milliseconds, half to even
   (on the 1/8 s grid the elapsed time is a whole number of ms; the generic stream never queries at x.5 ms) *)
Definition rnd_ms (e : Z) : Z :=
  let q := e / 1000 in
  let r := e mod 1000 in
  if r <? 500 then q else if 500 <? r then q + 1 else if Z.even q then q else q + 1.

Definition query (now : Z) (s : state) (st : bool) (ms : Z) : bool :=
  if ms =? 0 then Bool.eqb (sst s) st
  else Bool.eqb (sst s) st && (ms <=? rnd_ms (now - lc s)).

(* ---- external operations and the loop ------------------------------------------------------------ *)
Inductive op :=
| OReport (logical val : bool)
| OAdd (cb : Z) (st : bool) (ms : Z)
| ORem (cb : Z) (st : bool) (ms : Z)
| OQuery (st : bool) (ms : Z)
| OMute (src : Z)
| OUnmute (src : Z)
| ONop.

Definition step_op (A : Z -> list act) (now : Z) (s : state) (o : op) : state * list obs :=
  match o with
  | OReport lg v => report A now s lg v
  | OAdd cb st ms => (add now s cb st ms, [])
  | ORem cb st ms => (rem s cb st ms, [])
  | OQuery st ms => (s, [QRes now (query now s st ms)])
  | OMute src => (set_dv s (mkD (if existsb (Z.eqb src) (mutes (dv s)) then mutes (dv s) else src :: mutes (dv s))
                                (rwin (dv s)) (rc (dv s))), [])
  | OUnmute src => (set_dv s (mkD (filter (fun x => negb (x =? src)) (mutes (dv s))) (rwin (dv s)) (rc (dv s))), [])
  | ONop => (s, [])
  end.

Fixpoint earliest (l : list wake) : option wake :=
  match l with
  | [] => None
  | w :: l' => match earliest l' with
               | None => Some w
               | Some w' => if snd w <=? snd w' then Some w else Some w'
               end
  end.

(* run every timer (wake-ups and the recycle timer) due at or before t, earliest first (TimeTravelLoop: the
   clock jumps to each timer).  A recycle timer and a wake-up due at the same instant commute (the first only
   reads the state and posts events, the second only touches registries/timers); the recycle timer goes first.

   The scheduler's choice at coincidences is an INPUT (DESIGN.md 2.4): an external operation at time t may be
   delivered while timers that are already due have not run yet (asyncio runs I/O callbacks of an iteration
   before its due timers, equal deadlines have no promised order, and a busy loop is late).  [hw]/[hr] are the
   deadlines of the wake-up / window-end timer the operation overtook (observed on the implementation; t+1 when
   it overtook none): timers with a deadline >= the threshold are held back until after the operation, and then
   run at the clock value of the operation. *)
Definition due_recycle (s : state) (t hr : Z) : option Z :=
  match rc (dv s) with Some (tr, _) => if (tr <=? t) && (tr <? hr) then Some tr else None | None => None end.
Definition due_wake (s : state) (t hw : Z) : option wake :=
  match earliest (wakes (tm s)) with
  | Some (w, tw) => if (tw <=? t) && (tw <? hw) then Some (w, tw) else None
  | None => None
  end.

Fixpoint advance (A : Z -> list act) (fuel : nat) (t hw hr clk : Z) (s : state) : state * list obs * Z :=
  match fuel with
  | O => (s, [Crash (-1)], clk)
  | S f =>
      let run_r tr :=
          let now := Z.max tr clk in
          let '(s1, o1) := recycle_passed now s in
          let '(s2, o2, clk2) := advance A f t hw hr now s1 in (s2, o1 ++ o2, clk2) in
      let run_w w tw :=
          let now := Z.max tw clk in
          let '(s1, o1) := process A now s w in
          let '(s2, o2, clk2) := advance A f t hw hr now s1 in (s2, o1 ++ o2, clk2) in
      match due_recycle s t hr, due_wake s t hw with
      | Some tr, Some (w, tw) => if tr <=? tw then run_r tr else run_w w tw
      | Some tr, None => run_r tr
      | None, Some (w, tw) => run_w w tw
      | None, None => (s, [], clk)
      end
  end.

Fixpoint run_ops (A : Z -> list act) (fuel : nat) (clk : Z) (s : state) (ops : list (Z * (Z * Z) * op))
  : state * list obs :=
  match ops with
  | [] => (s, [])
  | (t, (hw, hr), o) :: ops' =>
      let '(s1, l1, clk1) := advance A fuel t hw hr clk s in
      let '(s2, l2) := step_op A t s1 o in
      let '(s3, l3) := run_ops A fuel (Z.max clk1 t) s2 ops' in
      (s3, l1 ++ l2 ++ l3)
  end.

(* ---- the explicit-schedule semantics used by the theorems ------------------------------------------
   An event is an external operation or "the loop runs the earliest pending wake-up", each at a time. *)
Inductive ev := EOp (o : op) | EWake | ERecycle.

Definition step (A : Z -> list act) (s : state) (te : Z * ev) : state * list obs :=
  match snd te with
  | EOp o => step_op A (fst te) s o
  | EWake => match earliest (wakes (tm s)) with
             | Some (w, _) => process A (fst te) s w
             | None => (s, [])
             end
  | ERecycle => recycle_passed (fst te) s
  end.

Fixpoint exec (A : Z -> list act) (s : state) (evs : list (Z * ev)) : state * list obs :=
  match evs with
  | [] => (s, [])
  | te :: evs' => let '(s1, l1) := step A s te in
                  let '(s2, l2) := exec A s1 evs' in (s2, l1 ++ l2)
  end.

(* ---- correspondence interface -------------------------------------------------------------------- *)
Fixpoint acts_of (tab : list (Z * list act)) (cb : Z) : list act :=
  match tab with
  | [] => []
  | (c, l) :: tab' => if c =? cb then l else acts_of tab' cb
  end.

Fixpoint mk_reg (uid : Z) (l : list (Z * Z)) : list entry :=
  match l with
  | [] => []
  | (cb, ms) :: l' => (uid, cb, ms) :: mk_reg (uid + 1) l'
  end.

Definition init_state (nc st h : bool) (lc0 win : Z) (reg0 reg1 : list (Z * Z)) : state :=
  mkS nc st h lc0
      (mkR (mk_reg 0 reg0) (mk_reg (Z.of_nat (length reg0)) reg1) (Z.of_nat (length reg0 + length reg1)))
      (mkT None None [] 0) (mkD [] win None).

Definition is_ev (cb : Z) : bool := 1000 <=? cb.

(* callbacks 100..999 are the handlers of wait_for_switch futures (script: remove itself); the harness observes
   them through their futures, which resolve after the dispatch that invoked them: compared as a sorted row *)
Definition is_wait (cb : Z) : bool := (100 <=? cb) && (cb <? 1000).
Definition rows_cb (l : list obs) : list (list Z) :=
  flat_map (fun o => match o with Fire t cb _ _ => if is_ev cb || is_wait cb then [] else [[0; t; cb]] | _ => [] end) l.
Definition keys_w (l : list obs) : list Z :=
  flat_map (fun o => match o with Fire t cb _ _ => if is_wait cb then [t * 1000 + cb] else [] | _ => [] end) l.
Definition rows_ev (l : list obs) : list (list Z) :=
  flat_map (fun o => match o with Fire t cb _ _ => if is_ev cb then [[1; t; cb]] else [] | _ => [] end) l.
Definition rows_q (l : list obs) : list (list Z) :=
  flat_map (fun o => match o with QRes t b => [[2; t; b2z b]] | _ => [] end) l.
Definition rows_crash (l : list obs) : list (list Z) :=
  flat_map (fun o => match o with Crash t => [[3; t]] | _ => [] end) l.

Fixpoint insert_z (x : Z) (l : list Z) : list Z :=
  match l with [] => [x] | y :: l' => if x <=? y then x :: l else y :: insert_z x l' end.
Definition sort_z (l : list Z) : list Z := fold_right insert_z [] l.

(* input: ((nc, state0, hw0, lc0, window_us), (reg0, reg1), acts, ops = [(t, (hold_w, hold_r), op)], (t_end, fuel)) *)
Definition input := ((bool * bool * bool * Z * Z) * (list (Z * Z) * list (Z * Z)) * list (Z * list act)
                     * list (Z * (Z * Z) * op) * (Z * Z))%type.

Definition run_case (i : input) : list (list Z) :=
  let '(c, rr, tab, ops, (tend, fuel)) := i in
  let '(nc, st0, h0, lc0, win) := c in
  let s0 := init_state nc st0 h0 lc0 win (fst rr) (snd rr) in
  let '(s, lg) := run_ops (acts_of tab) (Z.to_nat fuel) 0 s0 (ops ++ [(tend, (tend + 1, tend + 1), ONop)]) in
  rows_cb lg ++ [4 :: sort_z (keys_w lg)] ++ rows_ev lg ++ rows_q lg ++ rows_crash lg
  ++ [[9; b2z (sst s); b2z (hw s); lc s]]
  ++ [8 :: sort_z (map snd (wakes (tm s)))]
  ++ [7 :: match cur (tm s) with Some (_, t) => [t] | None => [] end]
  ++ [6 :: match rc (dv s) with Some (t, _) => [t] | None => [] end]
  ++ [[5; b2z (match mutes (dv s) with [] => false | _ => true end)]].

Definition run := map run_case : list input -> list (list (list Z)).
Definition out_eqb := zsss_eqb.
