From Common Require Import Prelude.
From C03 Require Import Model Lemmas.
Theorem placeholder : forall s : state, s = s. Proof. exact placeholder_l. Qed.
Print Assumptions placeholder.
