(* C03/Props.v — property theorems only.  Each is closed by [exact] of a lemma from Lemmas.v and followed by
   Print Assumptions (parsed by the check: must be "Closed under the global context").

   The model (Model.v) is of mpf/core/switch_controller.py WITH fixes/C03-*.patch applied; the unfixed code
   violates the property in three ways (NOTES.md), each reproduced on the implementation by the check's oracle.

   Histories: [exec A s evs] runs any list of timed events — external operations (report raw/logical, register,
   remove, query) and "the loop runs the pending wake-up" — from any state; [A] scripts what every callback does
   when invoked (register/remove handlers), so re-entrancy is covered unless a theorem says otherwise.
   Satisfiability Examples for the hypotheses are at the end of Lemmas.v, names starting with ex_. *)
From Common Require Import Prelude.
From C03 Require Import Model Lemmas Hold Dispatch Window Multi Config ConfigLemmas.
Open Scope Z_scope.

(* After ANY history the logical state is the logical value of the last report (NC inversion applied to raw
   reports only), whatever callbacks did, and hw_state stays the matching raw value. *)
Theorem state_mirrors_last_report :
  forall A evs s, hw s = xorb (sst s) (inv s) ->
    let s' := fst (exec A s evs) in
    inv s' = inv s /\ sst s' = last_logical (inv s) evs (sst s) /\ hw s' = xorb (sst s') (inv s').
Proof. exact state_mirrors_l. Qed.
Print Assumptions state_mirrors_last_report.

(* A report of the state the switch is already in changes nothing and invokes nothing. *)
Theorem duplicate_is_noop :
  forall A now s lg v, logical_of (inv s) lg v = sst s -> step_op A now s (OReport lg v) = (s, []).
Proof. exact duplicate_is_noop_l. Qed.
Print Assumptions duplicate_is_noop.

(* Full statement: a real change invokes every untimed handler (and event post) registered for the new state
   exactly once, at the time of the change, in registration order, and nothing else.
   Proved for an unmuted switch without ignore window (no_rcb: the `_post_events` handler is an ordinary entry;
   with a window the event posts follow recycle_semantics_* below) and for callbacks that only REGISTER handlers
   while the change is dispatched (adds_only).  A callback
   that REMOVES a not-yet-invoked handler during the dispatch prevents its invocation (entry.cancelled); that
   behaviour is covered by removed_never_fires (no guard) and by the correspondence runs, not by this theorem. *)
Theorem untimed_once_per_change_partial :
  forall A now s lg val, adds_only A -> logical_of (inv s) lg val <> sst s -> mutes (dv s) = [] ->
    no_rcb (reg_of (rg s) (logical_of (inv s) lg val)) ->
    snd (report A now s lg val)
    = untimed_fires now (logical_of (inv s) lg val) (reg_of (rg s) (logical_of (inv s) lg val)).
Proof. exact untimed_once_l. Qed.
Print Assumptions untimed_once_per_change_partial.

(* Fix 3 (orphan wake-up): in every reachable state the loop holds exactly the recorded wake-up handle of the
   switch (none when nothing is recorded), a recorded wake-up implies a deadline table, and no history makes
   _process_active_timed_switches hit a missing dictionary entry — for arbitrary re-entrant callbacks. *)
Theorem single_wakeup_never_crashes :
  forall A evs s, W (tm s) ->
    W (tm (fst (exec A s evs))) /\ (forall t, ~ In (Crash t) (snd (exec A s evs))).
Proof. exact exec_WN. Qed.
Print Assumptions single_wakeup_never_crashes.

Theorem initial_state_single_wakeup : forall nc st h lc0 win a b, W (tm (init_state nc st h lc0 win a b)).
Proof. exact init_W. Qed.
Print Assumptions initial_state_single_wakeup.

(* A removed handler never fires: after remove_switch_handler(cb,st,ms), in any state (including with duplicate
   registrations and pending timed entries — fix 2) and for any later history and any callback scripts that do not
   register that same (cb,st,ms) again, no invocation of (cb,st,ms) occurs.  (is_ev cb = false: cb is a user
   callback, not one of the event posts of the Switch device, which the ignore-window timer issues by itself.) *)
Theorem removed_never_fires :
  forall A cb st ms, acts_ok A cb st ms -> is_ev cb = false -> forall s evs, Forall (ev_ok cb st ms) evs ->
    forall t, ~ In (Fire t cb st ms) (snd (exec A (rem s cb st ms) evs)).
Proof. exact removed_never_fires_l. Qed.
Print Assumptions removed_never_fires.

(* timed_iff_held — the property's second sentence, ONE theorem over all histories (Hold.v).

   The hold automaton of a handler x = (cb, v, ms), ms > 0 ([hold_step], Hold.v) is the sentence written as a program:
   it keeps the switch state, the time of the last real change, the mute sources, n = number of live
   registrations of x and p = number of pending holds of x, and
     - a duplicate report changes nothing;  a real change sets p := n when it is INTO v on an unmuted switch (one
       hold per registration, all due at change + ms) and p := 0 otherwise (left the state / muted: never fires);
     - registering x while the switch is in v adds a hold at the ORIGINAL deadline iff that is still ahead
       (t < last_change + ms), otherwise none;  removing x sets n := 0 and p := 0 (a removed handler never fires);
     - a wake-up at time t fires all p pending copies, at t, iff last_change + ms <= t, and then p := 0
       (exactly once per registration); before the deadline it fires nothing.
   [timed_iff_held]: for EVERY history (reports raw/logical on NO/NC, duplicates, registrations, removals, mutes,
   queries, wake-ups, window timers, in any order and at any times), every reachable starting state and every
   callback scripts that register/remove anything except x itself, the times at which the model invokes x are exactly
   the output of the automaton.  Together with
     [reachable_invariants]   every pending entry sits under the key last_change + ms and is for the current state,
                              keys are unique, and (W) the loop holds exactly the recorded wake-up,
     [wakeup_at_minimum_deadline]  which exists iff something is pending and is due at the MINIMUM pending deadline
                              (so after every wake-up the loop is re-armed at the minimum remaining deadline),
     [wakeup_fires_at_deadline]    a wake-up that runs at its recorded deadline t invokes only entries with
                              last_change + ms = t,
     [wakeup_invokes_exactly_the_due] the wake-up lemma for x: a wake-up at [now] invokes x exactly p times iff
                              last_change + ms <= now, leaves p otherwise, and touches neither n nor last_change,
   a handler fires exactly once per registration, at change + ms, iff the switch stayed in the state and the
   handler stayed registered throughout.  (That the loop runs a wake-up AT its deadline unless it is late is the
   definition of [advance] (now := max deadline clock) and is what the correspondence runs compare; when the loop is
   late the handler fires at the first wake-up after the deadline, if the switch has not changed by then.) *)
Theorem reachable_invariants :
  forall A evs s, Inv s ->
    let s' := fst (exec A s evs) in
    Inv s' /\ forall k e, In e (tbl_get (get_tbl s') k) -> k = lc s' + us (snd e) /\ snd (fst e) = sst s'.
Proof. exact exec_Inv_keyed. Qed.
Print Assumptions reachable_invariants.

Theorem initial_state_invariants : forall nc st h lc0 win a b, Inv (init_state nc st h lc0 win a b).
Proof. exact init_Inv. Qed.
Print Assumptions initial_state_invariants.

Theorem wakeup_at_minimum_deadline :
  forall s, Inv s ->
    match get_tbl s with
    | [] => wakes (tm s) = [] /\ cur (tm s) = None
    | kl :: d => exists w, wakes (tm s) = [(w, tbl_min (kl :: d))] /\ cur (tm s) = Some (w, tbl_min (kl :: d))
    end.
Proof. exact Inv_wake. Qed.
Print Assumptions wakeup_at_minimum_deadline.

Theorem wakeup_fires_at_deadline :
  forall A s w t, Inv s -> earliest (wakes (tm s)) = Some (w, t) ->
    forall t' c st m, In (Fire t' c st m) (snd (process A t s w)) -> t' = t /\ t = lc s + us m.
Proof. exact wake_fires_at_deadline_l. Qed.
Print Assumptions wakeup_fires_at_deadline.

Theorem wakeup_invokes_exactly_the_due :
  forall A cb v ms, acts_nox A cb v ms -> forall now s w tw, Inv s -> earliest (wakes (tm s)) = Some (w, tw) ->
    let r := process A now s w in
    nreg cb v ms (fst r) = nreg cb v ms s /\ lc (fst r) = lc s /\
    pend cb v ms (fst r) = (if kx ms s <=? now then 0%nat else pend cb v ms s) /\
    xfires cb v ms (snd r) = (if kx ms s <=? now then repeat now (pend cb v ms s) else []).
Proof. exact process_x. Qed.
Print Assumptions wakeup_invokes_exactly_the_due.

Theorem timed_iff_held :
  forall A cb v ms, 0 < ms -> acts_nox A cb v ms -> forall evs s, Inv s ->
    xfires cb v ms (snd (exec A s evs)) = hold_run cb v ms (inv s) (abs cb v ms s) evs.
Proof. exact timed_iff_held_l. Qed.
Print Assumptions timed_iff_held.

(* the per-step facts proved earlier (kept): where deadlines are created and dropped *)
Theorem timed_iff_held_partial_change :
  forall A now s lg val, adds_only A -> logical_of (inv s) lg val <> sst s -> mutes (dv s) = [] ->
    let v := logical_of (inv s) lg val in
    let s' := fst (report A now s lg val) in
    forall e, In e (reg_of (rg s) v) -> snd e <> 0 -> has s' (now + us (snd e)) (snd (fst e), v, snd e).
Proof. exact change_schedules_l. Qed.
Print Assumptions timed_iff_held_partial_change.

Theorem timed_iff_held_partial_catchup :
  forall now s cb ms, 0 < ms ->
    let s' := add now s cb (sst s) ms in
    (now < lc s + us ms -> has s' (lc s + us ms) (cb, sst s, ms)) /\
    (lc s + us ms <= now -> tm s' = tm s).
Proof. exact catchup_l. Qed.
Print Assumptions timed_iff_held_partial_catchup.

Theorem timed_iff_held_partial_other_state :
  forall now s cb st ms, st <> sst s -> tm (add now s cb st ms) = tm s.
Proof. exact add_other_state_l. Qed.
Print Assumptions timed_iff_held_partial_other_state.

Theorem timed_iff_held_partial_cancel : forall T, timed (cancel T) = None.
Proof. exact change_cancels_l. Qed.
Print Assumptions timed_iff_held_partial_cancel.

(* Mute (Switch.mute/unmute): a real change on a MUTED switch still updates state and last_change, and still
   drops every pending hold of the state it left (the deadline table is gone), but invokes no handler and posts
   no event, and leaves the registries alone. *)
Theorem muted_change_cancels_and_invokes_nothing :
  forall A now s lg val, mutes (dv s) <> [] -> logical_of (inv s) lg val <> sst s ->
    let s' := fst (report A now s lg val) in
    snd (report A now s lg val) = [] /\ sst s' = logical_of (inv s) lg val /\ lc s' = now /\
    timed (tm s') = None /\ rg s' = rg s.
Proof. exact muted_change_l. Qed.
Print Assumptions muted_change_cancels_and_invokes_nothing.

(* timed handlers are cancelled on every real change, muted or not: in every reachable state every pending
   timed entry is for the state the switch is in (TS), and every invocation logged by any step (untimed, timed,
   event post, window-end post) is for the state the switch is in after that step — for arbitrary re-entrant
   callbacks, mutes, removals and ignore windows.  So a hold handler never fires once the switch has left its
   state during the interval. *)
Theorem fires_only_in_current_state :
  forall A s te, TS s ->
    TS (fst (step A s te)) /\ fires_in (sst (fst (step A s te))) (snd (step A s te)).
Proof. exact step_TS_l. Qed.
Print Assumptions fires_only_in_current_state.

Theorem pending_entries_in_current_state : forall A evs s, TS s -> TS (fst (exec A s evs)).
Proof. exact exec_TS_l. Qed.
Print Assumptions pending_entries_in_current_state.

Theorem initial_state_no_pending : forall nc st h lc0 win a b, TS (init_state nc st h lc0 win a b).
Proof. exact init_TS. Qed.
Print Assumptions initial_state_no_pending.

(* recycle_semantics (ignore_window_ms > 0; callbacks 1010/1011 are _post_events_with_recycle(state=0/1), the
   posts are observed as 1000/1001 = <switch>_inactive/_active):
   _open   : no window open: the change is posted and a window is opened until last_change + window;
   _inside : window open: nothing is posted and nothing changes (at most one post per window);
   _end    : the window-end timer closes the window and posts the CURRENT logical state iff it differs from the
             posted one (compared with the logical state, also for NC switches), touching nothing else;
   _only_closed_by_its_timer : no other step (reports, muted or not, registrations, removals, wake-ups,
             re-entrant callbacks) closes or moves an open window. *)
Theorem recycle_semantics_open :
  forall A now s cb v, is_rcb cb = true -> rc (dv s) = None ->
    invoke A now s cb v = (set_rc s (Some (lc s + rwin (dv s), v)), [Fire now (1000 + b2z v) v 0]).
Proof. exact recycle_open_l. Qed.
Print Assumptions recycle_semantics_open.

Theorem recycle_semantics_inside :
  forall A now s cb v w, is_rcb cb = true -> rc (dv s) = Some w -> invoke A now s cb v = (s, []).
Proof. exact recycle_inside_l. Qed.
Print Assumptions recycle_semantics_inside.

Theorem recycle_semantics_end :
  forall now s t0 v0, rc (dv s) = Some (t0, v0) ->
    let s' := fst (recycle_passed now s) in
    rc (dv s') = None /\ sst s' = sst s /\ tm s' = tm s /\ rg s' = rg s /\
    snd (recycle_passed now s) = if Bool.eqb (sst s) v0 then [] else [Fire now (1000 + b2z (sst s)) (sst s) 0].
Proof. exact recycle_end_l. Qed.
Print Assumptions recycle_semantics_end.

Theorem recycle_semantics_only_closed_by_its_timer :
  forall A s te w, rc (dv s) = Some w -> snd te <> ERecycle -> rc (dv (fst (step A s te))) = Some w.
Proof. exact window_only_closed_by_its_timer_l. Qed.
Print Assumptions recycle_semantics_only_closed_by_its_timer.

(* ---- round 4: removal DURING a dispatch -------------------------------------------------------------
   _call_handlers iterates over a copy of the registry list and _process_active_timed_switches over snapshots of
   the deadline keys and of the entries of a key.  A callback invoked by such a loop may remove ANOTHER handler
   x = (cb, st, ms) (an earlier or a later entry of the same loop, timed or untimed), and go on with the rest of
   its script [rest]; the loop then continues over a snapshot that may still contain x.  For an ARBITRARY
   snapshot (any list of entries, stale or not), any scripts that do not register x again and any later history
   without a registration of x: the rest of the loop neither invokes x nor leaves a pending timed entry of x
   (so `entry.cancelled` / "entry not in the live table" must cover timed AND untimed entries), and x never fires
   afterwards. *)
Theorem removed_during_dispatch_never_fires :
  forall A cb st ms, acts_ok A cb st ms -> is_ev cb = false ->
  forall now v (snapshot : list entry) s rest lg evs,
    Forall (act_ok cb st ms) rest -> (forall t, ~ In (Fire t cb st ms) lg) -> Forall (ev_ok cb st ms) evs ->
    let r := fold_left (call_one A now v) snapshot (fold_left (run_act now) rest (rem s cb st ms), lg) in
    (forall t, ~ In (Fire t cb st ms) (snd r)) /\
    (forall k, ~ In (cb, st, ms) (tbl_get (get_tbl (fst r)) k)) /\
    (forall t, ~ In (Fire t cb st ms) (snd (exec A (fst r) evs))).
Proof. exact removed_in_dispatch_l. Qed.
Print Assumptions removed_during_dispatch_never_fires.

Theorem removed_during_wakeup_never_fires :
  forall A cb st ms, acts_ok A cb st ms -> is_ev cb = false ->
  forall now k (snapshot : list triple) s rest lg evs,
    Forall (act_ok cb st ms) rest -> (forall t, ~ In (Fire t cb st ms) lg) -> Forall (ev_ok cb st ms) evs ->
    let r := fold_left (proc_one A now k) snapshot (fold_left (run_act now) rest (rem s cb st ms), lg) in
    (forall t, ~ In (Fire t cb st ms) (snd r)) /\
    (forall k', ~ In (cb, st, ms) (tbl_get (get_tbl (fst r)) k')) /\
    (forall t, ~ In (Fire t cb st ms) (snd (exec A (fst r) evs))).
Proof. exact removed_in_wakeup_entries_l. Qed.
Print Assumptions removed_during_wakeup_never_fires.

Theorem removed_during_wakeup_keys_never_fires :
  forall A cb st ms, acts_ok A cb st ms -> is_ev cb = false ->
  forall now (keys_snapshot : list Z) s rest lg evs,
    Forall (act_ok cb st ms) rest -> (forall t, ~ In (Fire t cb st ms) lg) -> Forall (ev_ok cb st ms) evs ->
    let r := fold_left (proc_key A now) keys_snapshot (fold_left (run_act now) rest (rem s cb st ms), lg) in
    (forall t, ~ In (Fire t cb st ms) (snd r)) /\
    (forall k', ~ In (cb, st, ms) (tbl_get (get_tbl (fst r)) k')) /\
    (forall t, ~ In (Fire t cb st ms) (snd (exec A (fst r) evs))).
Proof. exact removed_in_wakeup_keys_l. Qed.
Print Assumptions removed_during_wakeup_keys_never_fires.

(* untimed_once_per_change with removals: the guard adds_only is weakened to keeps_untimed: the callbacks may
   register anything and remove anything EXCEPT untimed handlers of the state being dispatched (timed handlers,
   handlers of the other state): still every untimed handler registered for the new state is invoked exactly once,
   in registration order, and nothing else.  (Full statement as above; what happens when an untimed handler of the
   dispatched state is removed is removed_during_dispatch_never_fires: it is not invoked if its turn had not come.) *)
Theorem untimed_once_per_change_with_removals_partial :
  forall A now s lg val, keeps_untimed A (logical_of (inv s) lg val) -> logical_of (inv s) lg val <> sst s ->
    mutes (dv s) = [] -> no_rcb (reg_of (rg s) (logical_of (inv s) lg val)) ->
    snd (report A now s lg val)
    = untimed_fires now (logical_of (inv s) lg val) (reg_of (rg s) (logical_of (inv s) lg val)).
Proof. exact untimed_once_rem_l. Qed.
Print Assumptions untimed_once_per_change_with_removals_partial.

(* ---- round 4: the configuration dimension (Config.v) ---------------------------------------------------
   [initialize M C] runs Switch._initialize step by step (a sequence of _create_activation_event calls).  In closed
   form: the events configured for state v are, in this order, the name event (iff auto_create_switch_events), for
   EVERY tag the tag events (sw_<tag>, sw_<tag>_active for 1; sw_<tag>_inactive for 0; whatever
   auto_create_switch_events says), and events_when_activated/_deactivated; those without "|time" are what
   _post_events(v) posts, those with "|time" are registered as timed events.post handlers in the same order. *)
Theorem initialize_closed_form :
  forall M C v, evs_of (initialize M C) v = untimed (configured M C v) /\
                trs_of (initialize M C) v = timed_of (configured M C v).
Proof. exact initialize_closed_form_l. Qed.
Print Assumptions initialize_closed_form.

Theorem tag_events_independent_of_auto_create :
  forall M C v tag e, In tag (c_tags C) -> In e (tag_evs M v tag) -> has_bar e = false ->
    In e (evs_of (initialize M C) v).
Proof. exact tag_events_always_l. Qed.
Print Assumptions tag_events_independent_of_auto_create.

(* "posts the switch's configured events once": a real change of an unmuted switch without ignore window whose
   registry (for the new state) is the one Switch._initialize built, with callbacks that do not remove untimed
   handlers of that state, posts exactly the configured untimed events of the new state, each once (with
   multiplicity, in configuration order), at the time of the change.  Partial: with an ignore window the posts
   follow recycle_semantics_*; "event|time" entries follow timed_iff_held; "event|0" entries are excluded. *)
Theorem change_posts_configured_events_once_partial :
  forall M C A now s lg val,
    c_win C <= 0 -> keeps_untimed A (logical_of (inv s) lg val) -> logical_of (inv s) lg val <> sst s ->
    mutes (dv s) = [] ->
    map cbms (reg_of (rg s) (logical_of (inv s) lg val))
    = reg_pairs (c_win C) (initialize M C) (logical_of (inv s) lg val) ->
    Forall (fun p => snd p <> 0) (trs_of (initialize M C) (logical_of (inv s) lg val)) ->
    posts (initialize M C) (snd (report A now s lg val))
    = map (pair now) (untimed (configured M C (logical_of (inv s) lg val))).
Proof. exact change_posts_configured_l. Qed.
Print Assumptions change_posts_configured_events_once_partial.

(* ---- round 4: the ignore window at HISTORY level (Window.v) ---------------------------------------------
   recycle_semantics as ONE statement over all histories: "the last post equals the state whenever no window is
   open".  [last_post p lg] is the state announced by the last <switch>_active/_inactive post in the log (p if
   there is none).  For a switch with ignore_window_ms > 0 ([RT]: both states have their
   _post_events_with_recycle handler, nothing is registered under the observation numbers 1000/1001, not muted),
   starting with no window open, for EVERY history of reports (raw/logical, duplicates), registrations, removals,
   queries, unmutes, wake-ups and window-end timers in any order and at any times ([ev_g]: no mute, no removal of
   the window handlers, no registration under 1000/1001) and all re-entrant callback scripts with the same
   restriction ([acts_g]):
     - whenever no window is open, the last post is the logical state of the switch;
     - while a window is open, the last post is the state the window was opened for (at most one post per window,
       the window-end timer catches up).
   Each guard is necessary: a muted change posts nothing, and without its window handler the switch posts nothing. *)
Theorem window_last_post_is_state :
  forall A, acts_g A -> forall evs s, Forall ev_g evs -> RT s -> rc (dv s) = None ->
    let r := exec A s evs in
    match rc (dv (fst r)) with
    | None => last_post (sst s) (snd r) = sst (fst r)
    | Some (_, v0) => last_post (sst s) (snd r) = v0
    end.
Proof. exact window_closed_last_post_l. Qed.
Print Assumptions window_last_post_is_state.

(* the same from any state, open window or not: J s p = "p is what the world has been told" *)
Theorem window_history_invariant :
  forall A, acts_g A -> forall evs s p, Forall ev_g evs -> RT s -> J s p ->
    J (fst (exec A s evs)) (last_post p (snd (exec A s evs))).
Proof. exact window_history_l. Qed.
Print Assumptions window_history_invariant.

Theorem initial_state_window_invariants :
  forall nc st h lc0 win, RT (init_state nc st h lc0 win [(1010, 0)] [(1011, 0)]).
Proof. exact init_RT. Qed.
Print Assumptions initial_state_window_invariants.

(* ---- round 4: several switches in ONE model instance (Multi.v) --------------------------------------------
   [mrun] runs a machine = list of switches that share the loop: every operation (t, i, holds, o) first lets EVERY
   switch run its due timers (minus the ones the operation overtook), then switch i performs o.  For every
   history, every number of switches and all callback scripts, what switch j does in the machine is exactly what
   the one-switch model [run_ops] does on the history projected on j: the controller's tables are keyed by
   switch, no switch influences another one except through the shared loop (the thresholds) and the shared event
   names (Config.v).  This is what makes the per-switch comparison of the correspondence suites sound. *)
Theorem machine_is_product_of_switches :
  forall A fuel ops cs j s clk, nth_error cs j = Some (s, clk) ->
    nth_error (mrun A fuel cs ops) j = Some (run_ops A fuel clk s (proj j ops)).
Proof. exact mrun_projection_l. Qed.
Print Assumptions machine_is_product_of_switches.

(* timed_iff_held_partial_change with removals: guard adds_only weakened to keeps_timed (the callbacks may register
   anything and remove anything except TIMED handlers of the state being dispatched): the change still enters every
   timed handler registered for the new state at now + ms.  (When a timed handler of the dispatched state is removed
   during the dispatch: removed_during_dispatch_never_fires; the history level is timed_iff_held.) *)
Theorem timed_iff_held_partial_change_with_removals :
  forall A now s lg val, keeps_timed A (logical_of (inv s) lg val) -> logical_of (inv s) lg val <> sst s ->
    mutes (dv s) = [] ->
    let v := logical_of (inv s) lg val in
    let s' := fst (report A now s lg val) in
    forall e, In e (reg_of (rg s) v) -> snd e <> 0 -> has s' (now + us (snd e)) (snd (fst e), v, snd e).
Proof. exact change_schedules_rem_l. Qed.
Print Assumptions timed_iff_held_partial_change_with_removals.
