(* C03/Props.v — property theorems only.  Each is closed by [exact] of a lemma from Lemmas.v and followed by
   Print Assumptions (parsed by the check: must be "Closed under the global context").

   The model (Model.v) is of mpf/core/switch_controller.py WITH fixes/C03-*.patch applied; the unfixed code
   violates the property in three ways (NOTES.md), each reproduced on the implementation by the check's oracle.

   Histories: [exec A s evs] runs any list of timed events — external operations (report raw/logical, register,
   remove, query) and "the loop runs the pending wake-up" — from any state; [A] scripts what every callback does
   when invoked (register/remove handlers), so re-entrancy is covered unless a theorem says otherwise.
   Satisfiability Examples for the hypotheses are at the end of Lemmas.v, names starting with ex_. *)
From Common Require Import Prelude.
From C03 Require Import Model Lemmas Hold.
Open Scope Z_scope.

(* After ANY history the logical state is the logical value of the last report (NC inversion applied to raw
   reports only), whatever callbacks did, and hw_state stays the matching raw value. *)
Theorem state_mirrors_last_report :
  forall A evs s, hw s = xorb (sst s) (inv s) ->
    let s' := fst (exec A s evs) in
    inv s' = inv s /\ sst s' = last_logical (inv s) evs (sst s) /\ hw s' = xorb (sst s') (inv s').
Proof. exact state_mirrors_l. Qed.
Print Assumptions state_mirrors_last_report.

(* A report of the state the switch is already in changes nothing and invokes nothing. *)
Theorem duplicate_is_noop :
  forall A now s lg v, logical_of (inv s) lg v = sst s -> step_op A now s (OReport lg v) = (s, []).
Proof. exact duplicate_is_noop_l. Qed.
Print Assumptions duplicate_is_noop.

(* Full statement: a real change invokes every untimed handler (and event post) registered for the new state
   exactly once, at the time of the change, in registration order, and nothing else.
   Proved for an unmuted switch without ignore window (no_rcb: the `_post_events` handler is an ordinary entry;
   with a window the event posts follow recycle_semantics_* below) and for callbacks that only REGISTER handlers
   while the change is dispatched (adds_only).  A callback
   that REMOVES a not-yet-invoked handler during the dispatch prevents its invocation (entry.cancelled); that
   behaviour is covered by removed_never_fires (no guard) and by the correspondence runs, not by this theorem. *)
Theorem untimed_once_per_change_partial :
  forall A now s lg val, adds_only A -> logical_of (inv s) lg val <> sst s -> mutes (dv s) = [] ->
    no_rcb (reg_of (rg s) (logical_of (inv s) lg val)) ->
    snd (report A now s lg val)
    = untimed_fires now (logical_of (inv s) lg val) (reg_of (rg s) (logical_of (inv s) lg val)).
Proof. exact untimed_once_l. Qed.
Print Assumptions untimed_once_per_change_partial.

(* Fix 3 (orphan wake-up): in every reachable state the loop holds exactly the recorded wake-up handle of the
   switch (none when nothing is recorded), a recorded wake-up implies a deadline table, and no history makes
   _process_active_timed_switches hit a missing dictionary entry — for arbitrary re-entrant callbacks. *)
Theorem single_wakeup_never_crashes :
  forall A evs s, W (tm s) ->
    W (tm (fst (exec A s evs))) /\ (forall t, ~ In (Crash t) (snd (exec A s evs))).
Proof. exact exec_WN. Qed.
Print Assumptions single_wakeup_never_crashes.

Theorem initial_state_single_wakeup : forall nc st h lc0 win a b, W (tm (init_state nc st h lc0 win a b)).
Proof. exact init_W. Qed.
Print Assumptions initial_state_single_wakeup.

(* A removed handler never fires: after remove_switch_handler(cb,st,ms), in any state (including with duplicate
   registrations and pending timed entries — fix 2) and for any later history and any callback scripts that do not
   register that same (cb,st,ms) again, no invocation of (cb,st,ms) occurs.  (is_ev cb = false: cb is a user
   callback, not one of the event posts of the Switch device, which the ignore-window timer issues by itself.) *)
Theorem removed_never_fires :
  forall A cb st ms, acts_ok A cb st ms -> is_ev cb = false -> forall s evs, Forall (ev_ok cb st ms) evs ->
    forall t, ~ In (Fire t cb st ms) (snd (exec A (rem s cb st ms) evs)).
Proof. exact removed_never_fires_l. Qed.
Print Assumptions removed_never_fires.

(* timed_iff_held — the property's second sentence, ONE theorem over all histories (Hold.v).

   The hold automaton of a handler x = (cb, v, ms), ms > 0 ([hold_step], Hold.v) is the sentence written as a program:
   it keeps the switch state, the time of the last real change, the mute sources, n = number of live
   registrations of x and p = number of pending holds of x, and
     - a duplicate report changes nothing;  a real change sets p := n when it is INTO v on an unmuted switch (one
       hold per registration, all due at change + ms) and p := 0 otherwise (left the state / muted: never fires);
     - registering x while the switch is in v adds a hold at the ORIGINAL deadline iff that is still ahead
       (t < last_change + ms), otherwise none;  removing x sets n := 0 and p := 0 (a removed handler never fires);
     - a wake-up at time t fires all p pending copies, at t, iff last_change + ms <= t, and then p := 0
       (exactly once per registration); before the deadline it fires nothing.
   [timed_iff_held]: for EVERY history (reports raw/logical on NO/NC, duplicates, registrations, removals, mutes,
   queries, wake-ups, window timers, in any order and at any times), every reachable starting state and every
   callback scripts that register/remove anything except x itself, the times at which the model invokes x are exactly
   the output of the automaton.  Together with
     [reachable_invariants]   every pending entry sits under the key last_change + ms and is for the current state,
                              keys are unique, and (W) the loop holds exactly the recorded wake-up,
     [wakeup_at_minimum_deadline]  which exists iff something is pending and is due at the MINIMUM pending deadline
                              (so after every wake-up the loop is re-armed at the minimum remaining deadline),
     [wakeup_fires_at_deadline]    a wake-up that runs at its recorded deadline t invokes only entries with
                              last_change + ms = t,
     [wakeup_invokes_exactly_the_due] the wake-up lemma for x: a wake-up at [now] invokes x exactly p times iff
                              last_change + ms <= now, leaves p otherwise, and touches neither n nor last_change,
   a handler fires exactly once per registration, at change + ms, iff the switch stayed in the state and the
   handler stayed registered throughout.  (That the loop runs a wake-up AT its deadline unless it is late is the
   definition of [advance] (now := max deadline clock) and is what the correspondence runs compare; when the loop is
   late the handler fires at the first wake-up after the deadline, if the switch has not changed by then.) *)
Theorem reachable_invariants :
  forall A evs s, Inv s ->
    let s' := fst (exec A s evs) in
    Inv s' /\ forall k e, In e (tbl_get (get_tbl s') k) -> k = lc s' + us (snd e) /\ snd (fst e) = sst s'.
Proof. exact exec_Inv_keyed. Qed.
Print Assumptions reachable_invariants.

Theorem initial_state_invariants : forall nc st h lc0 win a b, Inv (init_state nc st h lc0 win a b).
Proof. exact init_Inv. Qed.
Print Assumptions initial_state_invariants.

Theorem wakeup_at_minimum_deadline :
  forall s, Inv s ->
    match get_tbl s with
    | [] => wakes (tm s) = [] /\ cur (tm s) = None
    | kl :: d => exists w, wakes (tm s) = [(w, tbl_min (kl :: d))] /\ cur (tm s) = Some (w, tbl_min (kl :: d))
    end.
Proof. exact Inv_wake. Qed.
Print Assumptions wakeup_at_minimum_deadline.

Theorem wakeup_fires_at_deadline :
  forall A s w t, Inv s -> earliest (wakes (tm s)) = Some (w, t) ->
    forall t' c st m, In (Fire t' c st m) (snd (process A t s w)) -> t' = t /\ t = lc s + us m.
Proof. exact wake_fires_at_deadline_l. Qed.
Print Assumptions wakeup_fires_at_deadline.

Theorem wakeup_invokes_exactly_the_due :
  forall A cb v ms, acts_nox A cb v ms -> forall now s w tw, Inv s -> earliest (wakes (tm s)) = Some (w, tw) ->
    let r := process A now s w in
    nreg cb v ms (fst r) = nreg cb v ms s /\ lc (fst r) = lc s /\
    pend cb v ms (fst r) = (if kx ms s <=? now then 0%nat else pend cb v ms s) /\
    xfires cb v ms (snd r) = (if kx ms s <=? now then repeat now (pend cb v ms s) else []).
Proof. exact process_x. Qed.
Print Assumptions wakeup_invokes_exactly_the_due.

Theorem timed_iff_held :
  forall A cb v ms, 0 < ms -> acts_nox A cb v ms -> forall evs s, Inv s ->
    xfires cb v ms (snd (exec A s evs)) = hold_run cb v ms (inv s) (abs cb v ms s) evs.
Proof. exact timed_iff_held_l. Qed.
Print Assumptions timed_iff_held.

(* the per-step facts proved earlier (kept): where deadlines are created and dropped *)
Theorem timed_iff_held_partial_change :
  forall A now s lg val, adds_only A -> logical_of (inv s) lg val <> sst s -> mutes (dv s) = [] ->
    let v := logical_of (inv s) lg val in
    let s' := fst (report A now s lg val) in
    forall e, In e (reg_of (rg s) v) -> snd e <> 0 -> has s' (now + us (snd e)) (snd (fst e), v, snd e).
Proof. exact change_schedules_l. Qed.
Print Assumptions timed_iff_held_partial_change.

Theorem timed_iff_held_partial_catchup :
  forall now s cb ms, 0 < ms ->
    let s' := add now s cb (sst s) ms in
    (now < lc s + us ms -> has s' (lc s + us ms) (cb, sst s, ms)) /\
    (lc s + us ms <= now -> tm s' = tm s).
Proof. exact catchup_l. Qed.
Print Assumptions timed_iff_held_partial_catchup.

Theorem timed_iff_held_partial_other_state :
  forall now s cb st ms, st <> sst s -> tm (add now s cb st ms) = tm s.
Proof. exact add_other_state_l. Qed.
Print Assumptions timed_iff_held_partial_other_state.

Theorem timed_iff_held_partial_cancel : forall T, timed (cancel T) = None.
Proof. exact change_cancels_l. Qed.
Print Assumptions timed_iff_held_partial_cancel.

(* Mute (Switch.mute/unmute): a real change on a MUTED switch still updates state and last_change, and still
   drops every pending hold of the state it left (the deadline table is gone), but invokes no handler and posts
   no event, and leaves the registries alone. *)
Theorem muted_change_cancels_and_invokes_nothing :
  forall A now s lg val, mutes (dv s) <> [] -> logical_of (inv s) lg val <> sst s ->
    let s' := fst (report A now s lg val) in
    snd (report A now s lg val) = [] /\ sst s' = logical_of (inv s) lg val /\ lc s' = now /\
    timed (tm s') = None /\ rg s' = rg s.
Proof. exact muted_change_l. Qed.
Print Assumptions muted_change_cancels_and_invokes_nothing.

(* timed handlers are cancelled on every real change, muted or not: in every reachable state every pending
   timed entry is for the state the switch is in (TS), and every invocation logged by any step (untimed, timed,
   event post, window-end post) is for the state the switch is in after that step — for arbitrary re-entrant
   callbacks, mutes, removals and ignore windows.  So a hold handler never fires once the switch has left its
   state during the interval. *)
Theorem fires_only_in_current_state :
  forall A s te, TS s ->
    TS (fst (step A s te)) /\ fires_in (sst (fst (step A s te))) (snd (step A s te)).
Proof. exact step_TS_l. Qed.
Print Assumptions fires_only_in_current_state.

Theorem pending_entries_in_current_state : forall A evs s, TS s -> TS (fst (exec A s evs)).
Proof. exact exec_TS_l. Qed.
Print Assumptions pending_entries_in_current_state.

Theorem initial_state_no_pending : forall nc st h lc0 win a b, TS (init_state nc st h lc0 win a b).
Proof. exact init_TS. Qed.
Print Assumptions initial_state_no_pending.

(* recycle_semantics (ignore_window_ms > 0; callbacks 1010/1011 are _post_events_with_recycle(state=0/1), the
   posts are observed as 1000/1001 = <switch>_inactive/_active):
   _open   : no window open: the change is posted and a window is opened until last_change + window;
   _inside : window open: nothing is posted and nothing changes (at most one post per window);
   _end    : the window-end timer closes the window and posts the CURRENT logical state iff it differs from the
             posted one (compared with the logical state, also for NC switches), touching nothing else;
   _only_closed_by_its_timer : no other step (reports, muted or not, registrations, removals, wake-ups,
             re-entrant callbacks) closes or moves an open window. *)
Theorem recycle_semantics_open :
  forall A now s cb v, is_rcb cb = true -> rc (dv s) = None ->
    invoke A now s cb v = (set_rc s (Some (lc s + rwin (dv s), v)), [Fire now (1000 + b2z v) v 0]).
Proof. exact recycle_open_l. Qed.
Print Assumptions recycle_semantics_open.

Theorem recycle_semantics_inside :
  forall A now s cb v w, is_rcb cb = true -> rc (dv s) = Some w -> invoke A now s cb v = (s, []).
Proof. exact recycle_inside_l. Qed.
Print Assumptions recycle_semantics_inside.

Theorem recycle_semantics_end :
  forall now s t0 v0, rc (dv s) = Some (t0, v0) ->
    let s' := fst (recycle_passed now s) in
    rc (dv s') = None /\ sst s' = sst s /\ tm s' = tm s /\ rg s' = rg s /\
    snd (recycle_passed now s) = if Bool.eqb (sst s) v0 then [] else [Fire now (1000 + b2z (sst s)) (sst s) 0].
Proof. exact recycle_end_l. Qed.
Print Assumptions recycle_semantics_end.

Theorem recycle_semantics_only_closed_by_its_timer :
  forall A s te w, rc (dv s) = Some w -> snd te <> ERecycle -> rc (dv (fst (step A s te))) = Some w.
Proof. exact window_only_closed_by_its_timer_l. Qed.
Print Assumptions recycle_semantics_only_closed_by_its_timer.
