(* C03/Props.v — property theorems only.  Each is closed by [exact] of a lemma from Lemmas.v and followed by
   Print Assumptions (parsed by the check: must be "Closed under the global context").

   The model (Model.v) is of mpf/core/switch_controller.py WITH fixes/C03-*.patch applied; the unfixed code
   violates the property in three ways (NOTES.md), each reproduced on the implementation by the check's oracle.

   Histories: [exec A s evs] runs any list of timed events — external operations (report raw/logical, register,
   remove, query) and "the loop runs the pending wake-up" — from any state; [A] scripts what every callback does
   when invoked (register/remove handlers), so re-entrancy is covered unless a theorem says otherwise.
   Satisfiability Examples for the hypotheses are at the end of Lemmas.v, names starting with ex_. *)
From Common Require Import Prelude.
From C03 Require Import Model Lemmas.
Open Scope Z_scope.

(* After ANY history the logical state is the logical value of the last report (NC inversion applied to raw
   reports only), whatever callbacks did, and hw_state stays the matching raw value. *)
Theorem state_mirrors_last_report :
  forall A evs s, hw s = xorb (sst s) (inv s) ->
    let s' := fst (exec A s evs) in
    inv s' = inv s /\ sst s' = last_logical (inv s) evs (sst s) /\ hw s' = xorb (sst s') (inv s').
Proof. exact state_mirrors_l. Qed.
Print Assumptions state_mirrors_last_report.

(* A report of the state the switch is already in changes nothing and invokes nothing. *)
Theorem duplicate_is_noop :
  forall A now s lg v, logical_of (inv s) lg v = sst s -> step_op A now s (OReport lg v) = (s, []).
Proof. exact duplicate_is_noop_l. Qed.
Print Assumptions duplicate_is_noop.

(* Full statement: a real change invokes every untimed handler (and event post) registered for the new state
   exactly once, at the time of the change, in registration order, and nothing else.
   Proved for callbacks that only REGISTER handlers while the change is dispatched (adds_only).  A callback
   that REMOVES a not-yet-invoked handler during the dispatch prevents its invocation (entry.cancelled); that
   behaviour is covered by removed_never_fires (no guard) and by the correspondence runs, not by this theorem. *)
Theorem untimed_once_per_change_partial :
  forall A now s lg val, adds_only A -> logical_of (inv s) lg val <> sst s ->
    snd (report A now s lg val)
    = untimed_fires now (logical_of (inv s) lg val) (reg_of (rg s) (logical_of (inv s) lg val)).
Proof. exact untimed_once_l. Qed.
Print Assumptions untimed_once_per_change_partial.

(* Fix 3 (orphan wake-up): in every reachable state the loop holds exactly the recorded wake-up handle of the
   switch (none when nothing is recorded), a recorded wake-up implies a deadline table, and no history makes
   _process_active_timed_switches hit a missing dictionary entry — for arbitrary re-entrant callbacks. *)
Theorem single_wakeup_never_crashes :
  forall A evs s, W (tm s) ->
    W (tm (fst (exec A s evs))) /\ (forall t, ~ In (Crash t) (snd (exec A s evs))).
Proof. exact exec_WN. Qed.
Print Assumptions single_wakeup_never_crashes.

Theorem initial_state_single_wakeup : forall nc st h lc0 a b, W (tm (init_state nc st h lc0 a b)).
Proof. exact init_W. Qed.
Print Assumptions initial_state_single_wakeup.

(* A removed handler never fires: after remove_switch_handler(cb,st,ms), in any state (including with duplicate
   registrations and pending timed entries — fix 2) and for any later history and any callback scripts that do not
   register that same (cb,st,ms) again, no invocation of (cb,st,ms) occurs. *)
Theorem removed_never_fires :
  forall A cb st ms, acts_ok A cb st ms -> forall s evs, Forall (ev_ok cb st ms) evs ->
    forall t, ~ In (Fire t cb st ms) (snd (exec A (rem s cb st ms) evs)).
Proof. exact removed_never_fires_l. Qed.
Print Assumptions removed_never_fires.

(* timed_iff_held — full statement (NOT proved as one theorem): in every history in which wake-ups run at their
   deadlines, a handler (cb,v,ms>0) registered before a change to v at t0 is invoked exactly once, at t0+ms, iff
   no change and no removal happens before t0+ms; a handler registered at t in (t0, ...) while the switch is in v
   is invoked at t0+ms iff t0+ms > t, never otherwise.
   Proved parts (the three places where deadlines are created or dropped):
     _change : a real change at [now] enters every timed handler registered for the new state in the deadline
               table at now+ms (callbacks may register more meanwhile);
     _catchup: registration while the switch is in the state enters the handler at the ORIGINAL deadline
               last_change+ms iff that is still ahead, otherwise leaves the timers alone (fix 1); registration
               for the other state never touches the timers;
     _cancel : a real change drops the whole deadline table of the previous state;
   together with single_wakeup_never_crashes (the one wake-up is the recorded one) and removed_never_fires.
   Missing: the lemma that a wake-up at time t invokes exactly the entries with deadline <= t and re-arms at the
   minimum remaining deadline, and the induction composing these over histories.  That part is validated on
   every run by the correspondence (3000 timelines, wake-up times compared) and by the oracle. *)
Theorem timed_iff_held_partial_change :
  forall A now s lg val, adds_only A -> logical_of (inv s) lg val <> sst s ->
    let v := logical_of (inv s) lg val in
    let s' := fst (report A now s lg val) in
    forall e, In e (reg_of (rg s) v) -> snd e <> 0 -> has s' (now + us (snd e)) (snd (fst e), v, snd e).
Proof. exact change_schedules_l. Qed.
Print Assumptions timed_iff_held_partial_change.

Theorem timed_iff_held_partial_catchup :
  forall now s cb ms, 0 < ms ->
    let s' := add now s cb (sst s) ms in
    (now < lc s + us ms -> has s' (lc s + us ms) (cb, sst s, ms)) /\
    (lc s + us ms <= now -> tm s' = tm s).
Proof. exact catchup_l. Qed.
Print Assumptions timed_iff_held_partial_catchup.

Theorem timed_iff_held_partial_other_state :
  forall now s cb st ms, st <> sst s -> tm (add now s cb st ms) = tm s.
Proof. exact add_other_state_l. Qed.
Print Assumptions timed_iff_held_partial_other_state.

Theorem timed_iff_held_partial_cancel : forall T, timed (cancel T) = None.
Proof. exact change_cancels_l. Qed.
Print Assumptions timed_iff_held_partial_cancel.
