(* C15/Vars2.v — remove_machine_var and the reboot: a removed variable does not come back.

   mpf/core/machine_vars.py  remove_machine_var:  del self.machine_vars[name]; _write_machine_vars_to_disk()
   (Model.v: VRemove = write s (vdelete n (vstore s))).  The file is rewritten AFTER the deletion, so the
   persisted subset on disk no longer holds the variable, whatever happens afterwards to OTHER variables
   (or nothing at all: removal as the last change before power off).                                   *)
From Common Require Import Prelude.
From C15 Require Import Model Lemmas.
Open Scope Z_scope.

Definition keys {A} (l : list (Z * A)) : list Z := map fst l.

Lemma keys_vupdate n x st k : In k (keys (vupdate n x st)) <-> k = n \/ In k (keys st).
Proof.
  induction st as [|[m y] r IH]; cbn.
  - intuition.
  - destruct (m =? n) eqn:E; cbn.
    + apply Z.eqb_eq in E. subst. intuition.
    + rewrite IH. intuition.
Qed.

Lemma keys_vdelete_sub n st k : In k (keys (vdelete n st)) -> In k (keys st).
Proof.
  induction st as [|[m y] r IH]; cbn; [auto|].
  destruct (m =? n); cbn; intuition.
Qed.

Lemma nodup_vupdate n x st : NoDup (keys st) -> NoDup (keys (vupdate n x st)).
Proof.
  induction st as [|[m y] r IH]; cbn; intros ND.
  - constructor; [intros []|constructor].
  - inversion ND as [|? ? NI ND']; subst.
    destruct (m =? n) eqn:E; cbn.
    + constructor; assumption.
    + constructor; [|apply IH, ND'].
      intros I. apply keys_vupdate in I as [I|I]; [|contradiction].
      subst. rewrite Z.eqb_refl in E. discriminate.
Qed.

Lemma nodup_vdelete n st : NoDup (keys st) -> NoDup (keys (vdelete n st)).
Proof.
  induction st as [|[m y] r IH]; cbn; intros ND; [constructor|].
  inversion ND as [|? ? NI ND']; subst.
  destruct (m =? n); cbn; [assumption|].
  constructor; [|apply IH, ND']. intros I. apply NI, (keys_vdelete_sub n), I.
Qed.

Lemma vdelete_absent n st : NoDup (keys st) -> ~ In n (keys (vdelete n st)).
Proof.
  induction st as [|[m y] r IH]; cbn; intros ND; [auto|].
  inversion ND as [|? ? NI ND']; subst.
  destruct (m =? n) eqn:E; cbn.
  - apply Z.eqb_eq in E. subst. exact NI.
  - intros [I|I]; [subst; rewrite Z.eqb_refl in E; discriminate|]. exact (IH ND' I).
Qed.

Lemma keys_snapshot_sub st k : In k (keys (snapshot st)) -> In k (keys st).
Proof.
  unfold keys, snapshot. rewrite map_map. cbn. rewrite !in_map_iff.
  intros (kv & E & I). apply filter_In in I as [I _]. exists kv. auto.
Qed.

(* invariant of every history from an empty machine: variable names are unique, and the file only holds
   variables that exist *)
Definition vinv (s : vstate) : Prop :=
  NoDup (keys (vstore s)) /\ forall k, In k (keys (vdisk s)) -> In k (keys (vstore s)).

Lemma vinv_init : vinv vinit.
Proof. split; cbn; [constructor|intros k []]. Qed.

Lemma vinv_step s o : vinv s -> vinv (vstep s o).
Proof.
  intros [ND SUB]. destruct o as [n v p|n p e|n|dt]; cbn.
  - destruct (vlookup n (vstore s)) as [y|]; cbn.
    + destruct (vpers y && _); cbn; (split; [apply nodup_vupdate, ND|]).
      * intros k. apply keys_snapshot_sub.
      * intros k I. apply keys_vupdate. right. auto.
    + destruct (p && _); cbn; (split; [apply nodup_vupdate, ND|]).
      * intros k. apply keys_snapshot_sub.
      * intros k I. apply keys_vupdate. right. auto.
  - split; cbn; [apply nodup_vupdate, ND|]. intros k I. apply keys_vupdate. right. auto.
  - destruct (vlookup n (vstore s)); cbn; [|split; auto].
    split; [apply nodup_vdelete, ND|]. intros k. apply keys_snapshot_sub.
  - split; auto.
Qed.

Lemma vrun_app s a b : vrun s (a ++ b) = vrun (vrun s a) b.
Proof. unfold vrun. apply fold_left_app. Qed.

Lemma vinv_run ops : forall s, vinv s -> vinv (vrun s ops).
Proof. induction ops as [|o r IH]; intros s I; cbn; [exact I|]. apply IH, vinv_step, I. Qed.

Lemma vlookup_none_absent {A} n (l : list (Z * A)) : vlookup n l = None -> ~ In n (keys l).
Proof.
  induction l as [|[k y] r IH]; cbn; [auto|].
  destruct (k =? n) eqn:E; [discriminate|]. intros H [I|I]; [subst; rewrite Z.eqb_refl in E; discriminate|].
  exact (IH H I).
Qed.

(* ops that do not (re-)create variable n: everything except set / configure of n itself *)
Definition not_creating (n : Z) (o : vop) : bool :=
  match o with VSet m _ _ => negb (m =? n) | VConf m _ _ => negb (m =? n) | _ => true end.

Lemma absent_step n s o :
  not_creating n o = true -> ~ In n (keys (vstore s)) -> ~ In n (keys (vstore (vstep s o))).
Proof.
  intros NC A. destruct o as [m v p|m p e|m|dt]; cbn in *.
  - apply negb_true_iff, Z.eqb_neq in NC.
    destruct (vlookup m (vstore s)) as [y|]; cbn.
    + destruct (vpers y && _); cbn; intros I; apply keys_vupdate in I as [I|I]; auto.
    + destruct (p && _); cbn; intros I; apply keys_vupdate in I as [I|I]; auto.
  - apply negb_true_iff, Z.eqb_neq in NC. intros I; apply keys_vupdate in I as [I|I]; auto.
  - destruct (vlookup m (vstore s)); cbn; auto. intros I. apply A, (keys_vdelete_sub m), I.
  - exact A.
Qed.

Lemma absent_run n ops : forall s,
  forallb (not_creating n) ops = true -> ~ In n (keys (vstore s)) -> ~ In n (keys (vstore (vrun s ops))).
Proof.
  induction ops as [|o r IH]; intros s F A; cbn; [exact A|].
  cbn in F. apply andb_true_iff in F as [F1 F2]. apply IH; auto. apply absent_step; auto.
Qed.

Lemma remove_absent s n : vinv s -> ~ In n (keys (vstore (vstep s (VRemove n)))).
Proof.
  intros [ND _]. cbn. destruct (vlookup n (vstore s)) eqn:L; cbn.
  - apply vdelete_absent, ND.
  - apply vlookup_none_absent, L.
Qed.

Lemma reload_key now d n v : In (n, v) (reload now d) -> In n (keys d).
Proof.
  intros I. apply reload_spec_l in I as (e & sc & I & _).
  unfold keys. apply in_map_iff. exists (n, (v, e, sc)). auto.
Qed.

(* after remove_machine_var(n) - as the last change, or followed by anything that does not set or
   configure n again - no boot at any time reloads n with any value *)
Lemma removed_var_not_reloaded_l ops n tail now v :
  forallb (not_creating n) tail = true ->
  ~ In (n, v) (reload now (vdisk (vrun vinit (ops ++ VRemove n :: tail)))).
Proof.
  intros F I. apply reload_key in I.
  rewrite vrun_app in I. cbn [vrun fold_left] in I.
  set (s := fold_left vstep ops vinit) in *.
  assert (V : vinv s) by (apply (vinv_run ops), vinv_init).
  assert (V2 : vinv (vrun (vstep s (VRemove n)) tail)) by (apply vinv_run, vinv_step, V).
  destruct V2 as [_ SUB]. apply SUB in I.
  revert I. apply absent_run; auto. apply remove_absent, V.
Qed.

(* ... and it is FALSE of a remove_machine_var that writes the file BEFORE deleting the variable *)
Definition vstep_wb (s : vstate) (o : vop) : vstate :=
  match o with
  | VRemove n => match vlookup n (vstore s) with
                 | Some _ => let s' := write s (vstore s) in
                             mkvs (vdelete n (vstore s')) (vdisk s') (vnow s') (vwrites s')
                 | None => s
                 end
  | _ => vstep s o
  end.

Lemma remove_write_before_delete_refuted_l :
  exists ops n now v,
    In (n, v) (reload now (vdisk (fold_left vstep_wb (ops ++ [VRemove n]) vinit))) /\
    vlookup n (vstore (fold_left vstep_wb (ops ++ [VRemove n]) vinit)) = None.
Proof.
  exists [VSet 1 1000 true; VSet 2 2000 true], 2, 1700000005, (Some 2000).
  vm_compute. split; [right; left; reflexivity|reflexivity].
Qed.

Example ex_removed :
  let s := vrun vinit [VSet 1 1000 true; VSet 2 2000 true; VRemove 2; VAdv 5; VSet 3 7 false] in
  reload 1700000010 (vdisk s) = [(1, Some 1000)] /\ vlookup 2 (vstore s) = None.
Proof. vm_compute. auto. Qed.
