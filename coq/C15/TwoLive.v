(* C15/TwoLive.v — two managers: a failed write / snapshot of one does not block the other. *)
From Common Require Import Prelude.
From C15 Require Import Model Lemmas Two TwoLemmas.
Open Scope Z_scope.

(* ---- a failed write / failed snapshot of one manager does not block the other --------------- *)
Definition live (s : state) : Prop :=
  stopper s = false -> final s = false /\ pc s <> PFinal /\ pc s <> PDone.

Lemma live_step ff s o : live s -> live (step (ff, true, true) s o).
Proof.
  intros A. unfold step. destruct (crashed s) eqn:CR; [assumption|].
  destruct s as [p f d di b st l fi t cr]. unfold live in *. cbn in *. subst cr.
  destruct o; cbn; auto; try discriminate.
  all: destruct p; cbn; unfold after_wait, set_pc, raise_in_save, copy_fail; cbn; bools; cbn;
    intros E; cbn in E |- *; try discriminate;
    destruct (A E) as (A1 & A2 & A3); repeat split; cbn; try discriminate; try congruence.
Qed.

Lemma stopper_mono c s o : stopper s = true -> stopper (step c s o) = true.
Proof.
  intros S. unfold step. destruct (crashed s); [exact S|].
  destruct s as [p f d di b st l fi t cr]. cbn in *. subst st.
  destruct o; cbn; auto;
    destruct p; cbn; unfold after_wait, set_pc, raise_in_save, copy_fail; cbn; bools; reflexivity.
Qed.

(* when the flag is up after a step of a thread, either that thread is inside a write, or the flag
   was already up and the thread was not writing (it is someone else's) *)
Lemma busy_step ff s o :
  busy (step (ff, true, true) s o) = true ->
  io_point (pc (step (ff, true, true) s o)) = true \/
  (busy s = true /\ io_point (pc s) = false /\ io_point (pc (step (ff, true, true) s o)) = false).
Proof.
  unfold step. destruct (crashed s) eqn:CR.
  - intros B. destruct (io_point (pc s)) eqn:IO; auto.
  - destruct s as [p f d di b st l fi t cr]. cbn in *. subst cr.
    destruct o; cbn; try (intros B; destruct (io_point p) eqn:IO; auto; fail).
    all: destruct p; cbn; unfold after_wait, set_pc, raise_in_save, copy_fail; cbn; bools; cbn;
      intros B; try discriminate; auto.
Qed.

Definition inv5 (s : st2) : Prop :=
  coh s /\ live (ta s) /\ live (tb s) /\
  (busy (ta s) = true -> io_point (pc (ta s)) || io_point (pc (tb s)) = true).

Lemma share_live x s : live s -> (stopper x = false -> stopper s = false) -> live (share x s).
Proof. intros L M. unfold live, share in *; cbn. intros E. apply L, M, E. Qed.

Lemma inv5_step ff s o : inv5 s -> inv5 (step2 (ff, true, true) s o).
Proof.
  intros ((C1 & C2 & C3) & LA & LB & BZ). split; [apply coh_step|].
  destruct o as [o|o]; cbn [step2 ta tb].
  - split; [apply live_step, LA|]. split.
    + apply share_live; [exact LB|]. intros E. rewrite <- C2.
      destruct (stopper (ta s)) eqn:S; [|reflexivity]. rewrite stopper_mono in E; [discriminate|exact S].
    + intros B. cbn [share pc]. apply busy_step in B as [B|(B1 & B2 & B3)].
      * rewrite B. reflexivity.
      * apply BZ in B1. rewrite B2 in B1. cbn in B1. rewrite B1. apply orb_true_r.
  - split.
    + apply share_live; [exact LA|]. intros E. rewrite C2.
      destruct (stopper (tb s)) eqn:S; [|reflexivity]. rewrite stopper_mono in E; [discriminate|exact S].
    + split; [apply live_step, LB|]. cbn [share pc busy]. intros B.
      apply busy_step in B as [B|(B1 & B2 & B3)].
      * rewrite B. apply orb_true_r.
      * rewrite <- C1 in B1. apply BZ in B1. rewrite B2 in B1. rewrite orb_false_r in B1. rewrite B1. reflexivity.
Qed.

Lemma inv5_run ff ops : forall s, inv5 s -> inv5 (run2 (ff, true, true) s ops).
Proof.
  induction ops as [|o r IH]; intros s I; [exact I|]. rewrite run2_cons. apply IH, inv5_step, I.
Qed.

Lemma inv5_init ia ib : inv5 (init2 ia ib).
Proof.
  unfold inv5, live, init2, init; cbn. split; [apply coh_init|]. repeat split; try discriminate.
Qed.

Lemma settledA_step c v s o :
  settledA v s -> (o = OA Tick \/ exists x, o = OB x) -> settledA v (step2 c s o).
Proof.
  intros (D & F & P) [E|[x E]]; subst o; cbn [step2]; [|exact (conj D (conj F P))].
  unfold settledA. cbn [ta]. unfold step. destruct (crashed (ta s)); [exact (conj D (conj F P))|].
  destruct (ta s) as [p f d di b st l fi t cr]. cbn in *. subst.
  destruct P as [P|[P|[P|[P|P]]]]; subst p; cbn; unfold set_pc, after_wait; cbn; bools; cbn; auto 8.
Qed.

Lemma settledA_rounds c v k : forall s, settledA v s -> settledA v (run2 c s (rounds k)).
Proof.
  induction k as [|k IH]; intros s S; [exact S|]. cbn [rounds]. rewrite !run2_cons.
  apply IH. apply settledA_step; [|right; eexists; reflexivity].
  apply settledA_step; [exact S|left; reflexivity].
Qed.

Lemma rounds_add a b : rounds (a + b) = rounds a ++ rounds b.
Proof. induction a as [|a IH]; [reflexivity|]. cbn. rewrite IH. reflexivity. Qed.

Definition WINDOW : nat := 24.

Lemma save_lands2 ff s v k :
  inv5 s -> crashed (ta s) = false -> stopper (ta s) = false ->
  settledA v (run2 (ff, true, true) s (OA (Save v) :: rounds (WINDOW + k))).
Proof.
  intros ((C1 & C2 & C3) & LA & LB & BZ) CR ST.
  destruct (LA ST) as (FA & PA1 & PA2). rewrite C2 in ST. destruct (LB ST) as (FB & PB1 & PB2).
  rewrite rounds_add, app_comm_cons, run2_app. apply settledA_rounds.
  destruct s as [[pa fa da dia ba sa la fia tpa cra] [pb fb db dib bb sb lb fib tpb crb]].
  cbn in C1, C2, C3, CR, ST, FA, PA1, PA2, FB, PB1, PB2, BZ. subst.
  destruct pa; try congruence; destruct pb; try congruence; destruct bb; destruct dib;
    try (specialize (BZ eq_refl); discriminate BZ);
    destruct ff; vm_compute; auto 8.
Qed.

Lemma two_failed_write_not_sticky_l ff ia ib ops v k :
  let s := run2 (ff, true, true) (init2 ia ib) ops in
  crashed (ta s) = false -> stopper (ta s) = false ->
  settledA v (run2 (ff, true, true) s (OA (Save v) :: rounds (WINDOW + k))).
Proof. intros s CR ST. apply save_lands2; auto. apply inv5_run, inv5_init. Qed.

(* the flag is up only while some manager is inside a write (it is never left up) *)
Lemma two_busy_only_while_writing_l ff ia ib ops :
  let s := run2 (ff, true, true) (init2 ia ib) ops in
  busy (ta s) = true -> io_point (pc (ta s)) || io_point (pc (tb s)) = true.
Proof. intros s. apply (inv5_run ff ops _ (inv5_init ia ib)). Qed.

(* the unlocked test-and-set: both threads can be inside FileManager.save at the same time, and the
   flag can be down while a manager is still writing *)
Definition ops_race : list op2 :=
  [OA Tick; OB Tick; OA Tick; OB Tick; OA (Save 1); OB (Save 2);
   OA Tick; OB Tick;                    (* both have passed `while FileManager.is_busy` *)
   OA Tick; OB Tick; OA Tick; OB Tick;  (* both inside FileManager.save *)
   OA Tick; OA Tick; OA Tick; OA Tick]. (* A finishes and resets the flag; B is still writing *)

Lemma two_race_witness_l :
  let s := run2 (true, true, true) (init2 false false) (firstn 12 ops_race) in
  let s' := run2 (true, true, true) (init2 false false) ops_race in
  io_point (pc (ta s)) = true /\ io_point (pc (tb s)) = true /\
  busy (ta s') = false /\ io_point (pc (tb s')) = true /\ file (ta s') = Some (1, TFull).
Proof. vm_compute. auto. Qed.

(* ... and it is harmless: both versions land, complete *)
Example ex_two_race_lands :
  let s := run2 (true, true, true) (init2 false false) (ops_race ++ rounds 6) in
  file (ta s) = Some (1, TFull) /\ file (tb s) = Some (2, TFull) /\ busy (ta s) = false.
Proof. vm_compute. auto. Qed.

(* manager B's write fails (IoError at its os.replace) while A waits for the flag: A's save lands *)
Example ex_two_not_sticky :
  let s := run2 (true, true, true) (init2 false false)
             [OA Tick; OB Tick; OB Tick; OB (Save 2); OB Tick; OB Tick; OB Tick; OB Tick; OB Tick; OB Tick;
              OB IoError] in
  crashed (ta s) = false /\ stopper (ta s) = false /\ file (tb s) = None /\ temp (tb s) = Some (2, TFull) /\
  file (ta (run2 (true, true, true) s (OA (Save 7) :: rounds WINDOW))) = Some (7, TFull).
Proof. vm_compute. auto. Qed.

Example ex_two_clean_shutdown :
  let ops := [OA Tick; OB Tick; OA Tick; OB Tick; OA (Save 1); OB (Save 2)] ++ rounds 9 ++
             [OA (Save 3); OB (Save 4); OB Shutdown] ++ rounds 12 in
  clean2_from false ops = true /\ last_saved (opsA ops) = Some 3 /\ last_saved (opsB ops) = Some 4 /\
  pc (ta (run2 (true, true, true) (init2 false false) ops)) = PDone /\
  pc (tb (run2 (true, true, true) (init2 false false) ops)) = PDone /\
  file (ta (run2 (true, true, true) (init2 false false) ops)) = Some (3, TFull) /\
  file (tb (run2 (true, true, true) (init2 false false) ops)) = Some (4, TFull).
Proof. vm_compute. auto 10. Qed.

