(* C15/Stop.v — the shutdown path and failed snapshots at shutdown.

   mpf/core/machine.py  MachineController._do_stop:
       post('shutdown'); process_event_queue()        handlers of the shutdown event (and of the events they
                                                      post) run to completion: they hand data to the data
                                                      manager (save_all) and take time (the writer thread runs)
       shutdown(): thread_stopper.set()               the shutdown request the writer thread sees
                   stop_devices(); _platform_stop()   the writer thread runs on
   [stop_ops pre hs post] is the schedule of the writer machine (Model.v) that this ordering produces:
   everything the handlers do comes BEFORE the Shutdown op.  Suite "stop" runs the real _do_stop /
   shutdown with a real EventManager and compares the observed run with [stop_run].

   Also: clean shutdown is durable for histories WITH failed snapshots (CopyFail) before the shutdown
   request (the except branch sets _dirty again, so the flush after the loop writes the data).      *)
From Common Require Import Prelude.
From C15 Require Import Model Lemmas.
Open Scope Z_scope.

Definition stop_ops (pre : list op) (hs : list (list op)) (post : list op) : list op :=
  pre ++ concat hs ++ Shutdown :: post.

(* what a changed _do_stop that tells the threads first ("they finish while the event is processed") does *)
Definition early_stop_ops (pre : list op) (hs : list (list op)) (post : list op) : list op :=
  pre ++ Shutdown :: concat hs ++ post.

Definition stop_run (i : cfg * bool * list op * list (list op) * list op) : list (list Z) :=
  let '(c, ifile, pre, hs, post) := i in writer_run (c, ifile, 0, stop_ops pre hs post).

(* what the main thread does before the shutdown request: saves, time passing, and changes of the live
   dict that make a snapshot fail *)
Definition quiet1 (o : op) : bool :=
  match o with Save _ | Tick | CopyFail => true | _ => false end.
Definition quiet (ops : list op) : bool := forallb quiet1 ops.
Definition is_tick (o : op) : bool := match o with Tick => true | _ => false end.

(* a clean history that may contain failed snapshots before the shutdown request *)
Definition clean1c (stopped : bool) (o : op) : bool :=
  match o with Save _ | CopyFail => negb stopped | Shutdown | Tick => true | IoError | Crash => false end.

Fixpoint cleanc_from (stopped : bool) (ops : list op) : bool :=
  match ops with
  | [] => true
  | Save _ :: r => negb stopped && cleanc_from stopped r
  | CopyFail :: r => negb stopped && cleanc_from stopped r
  | Shutdown :: r => cleanc_from true r
  | Tick :: r => cleanc_from stopped r
  | Crash :: _ => false
  | IoError :: _ => false
  end.

Lemma tick_stopper c s : stopper (tick c s) = stopper s.
Proof.
  destruct s as [p f d di b st l fi t cr]. unfold tick. cbn.
  destruct p; cbn; unfold after_wait, set_pc; cbn; bools; reflexivity.
Qed.

Lemma cleanc_step fb s o acc :
  inv2 s -> ghost acc s -> clean1c (stopper s) o = true ->
  inv2 (step (true, fb, true) s o) /\ ghost (upd_last acc o) (step (true, fb, true) s o).
Proof.
  intros I G CL.
  destruct o; cbn in CL; try discriminate.
  - apply clean_step; auto.
  - apply clean_step; auto.
  - apply clean_step; auto.
  - (* CopyFail, before the shutdown request *)
    destruct (copy_point (pc s)) eqn:CP.
    + destruct I as (CR & FS & K).
      destruct s as [p f d di b st l fi t cr]. cbn in *. subst cr.
      destruct p; try discriminate. cbn in CL. destruct st; [discriminate|].
      destruct f; [specialize (FS eq_refl); discriminate|].
      unfold step, copy_fail. cbn. split.
      * repeat split; auto.
      * destruct acc; cbn in *; auto. destruct G as [G1 _]. split; auto. left. reflexivity.
    + assert (E : step (true, fb, true) s CopyFail = step (true, fb, true) s Tick).
      { unfold step. rewrite CP. reflexivity. }
      rewrite E. change (upd_last acc CopyFail) with (upd_last acc Tick).
      apply clean_step; auto.
Qed.

Lemma cleanc_from_cons st o r :
  cleanc_from st (o :: r) = true ->
  clean1c st o = true /\
  cleanc_from (match o with Shutdown => true | _ => st end) r = true.
Proof.
  destruct o; cbn; try discriminate; auto.
  - intros H. apply andb_true_iff in H. exact H.
  - intros H. apply andb_true_iff in H. exact H.
Qed.

Lemma stopper_step_c c s o :
  crashed s = false -> clean1c (stopper s) o = true ->
  stopper (step c s o) = match o with Shutdown => true | _ => stopper s end.
Proof.
  intros CR CL. unfold step. rewrite CR.
  destruct o; cbn in *; try discriminate; try reflexivity.
  - apply tick_stopper.
  - destruct (copy_point (pc s)); [|apply tick_stopper].
    unfold copy_fail. destruct (final s); [reflexivity|]. destruct (fix_copy c); reflexivity.
Qed.

Lemma cleanc_run fb ops : forall s acc,
  inv2 s -> ghost acc s -> cleanc_from (stopper s) ops = true ->
  inv2 (run (true, fb, true) s ops) /\ ghost (fold_left upd_last ops acc) (run (true, fb, true) s ops).
Proof.
  induction ops as [|o r IH]; intros s acc I G CL; [split; assumption|].
  apply cleanc_from_cons in CL as [C1 C2].
  destruct (cleanc_step fb s o acc I G C1) as [I' G'].
  rewrite run_cons. cbn [fold_left]. apply IH; auto.
  rewrite stopper_step_c; auto. destruct I; auto.
Qed.

(* clean shutdown is durable although snapshots failed: the data whose copy failed is flagged dirty
   again, so either the loop retries it or the flush after the loop writes it *)
Lemma clean_shutdown_durable_failed_snapshots_l fb ifile itemp ops v :
  cleanc_from false ops = true ->
  last_saved ops = Some v ->
  pc (run (true, fb, true) (init ifile itemp) ops) = PDone ->
  file (run (true, fb, true) (init ifile itemp) ops) = Some (v, TFull).
Proof.
  intros CL LS PD.
  destruct (cleanc_run fb ops (init ifile itemp) None (inv2_init _ _) Logic.I CL) as [I G].
  unfold last_saved in LS. rewrite LS in G. destruct G as [D P].
  destruct I as (_ & _ & K). rewrite PD in K. destruct K as [_ K].
  unfold pend in P. rewrite PD in P. destruct P as [P|P]; [congruence|].
  rewrite P, D. reflexivity.
Qed.

(* ... and FALSE of a writer whose failed snapshot does not set _dirty again (the except branch without
   `self._dirty.set()`): modelled as the step function [step_nd] that differs from [step] only there *)
Definition copy_fail_nd (s : state) : state :=
  if final s then set_pc s PDone
  else mk PRate (final s) (data s) (dirty s) (busy s) (stopper s) (local s) (file s) (temp s) (crashed s).

Definition step_nd (c : cfg) (s : state) (o : op) : state :=
  match o with
  | CopyFail => if crashed s then s else if copy_point (pc s) then copy_fail_nd s else tick c s
  | _ => step c s o
  end.

Definition run_nd (c : cfg) (s : state) (ops : list op) : state := fold_left (step_nd c) ops s.

Definition ops_snapshot_lost : list op :=
  [Tick; Tick; Save 1; Tick; Tick; CopyFail; Tick; Shutdown; Tick; Tick; Tick; Tick].

Lemma snapshot_not_rearmed_refuted_l :
  exists ops v,
    cleanc_from false ops = true /\ last_saved ops = Some v /\
    pc (run_nd (true, true, true) (init false 0) ops) = PDone /\
    file (run_nd (true, true, true) (init false 0) ops) <> Some (v, TFull).
Proof.
  exists ops_snapshot_lost, 1. vm_compute. repeat split; try reflexivity; discriminate.
Qed.

(* ---- the ordering of _do_stop ---------------------------------------------------------------- *)
Lemma cleanc_quiet_app a : forall b st,
  quiet a = true -> cleanc_from st b = true -> st = false \/ a = [] -> cleanc_from st (a ++ b) = true.
Proof.
  induction a as [|o r IH]; intros b st Q C H; [exact C|].
  destruct H as [H|H]; [subst st|discriminate].
  cbn in Q. apply andb_true_iff in Q as [Q1 Q2].
  destruct o; cbn in Q1; try discriminate; cbn; apply IH; auto.
Qed.

Lemma cleanc_ticks post : forallb is_tick post = true -> cleanc_from true post = true.
Proof.
  induction post as [|o r IH]; cbn; [reflexivity|].
  intros H. apply andb_true_iff in H as [H1 H2]. destruct o; cbn in H1; try discriminate. apply IH, H2.
Qed.

Lemma quiet_app a b : quiet a = true -> quiet b = true -> quiet (a ++ b) = true.
Proof. unfold quiet. intros A B. rewrite forallb_app, A, B. reflexivity. Qed.

Lemma quiet_concat hs : forallb quiet hs = true -> quiet (concat hs) = true.
Proof.
  induction hs as [|h r IH]; cbn; [reflexivity|].
  intros H. apply andb_true_iff in H as [H1 H2]. apply quiet_app; auto.
Qed.

Lemma last_saved_ticks post : forall acc,
  forallb is_tick post = true -> fold_left upd_last post acc = acc.
Proof.
  induction post as [|o r IH]; intros acc; cbn; [reflexivity|].
  intros H. apply andb_true_iff in H as [H1 H2]. destruct o; cbn in H1; try discriminate. cbn. apply IH, H2.
Qed.

Lemma last_saved_stop pre hs post :
  forallb is_tick post = true -> last_saved (stop_ops pre hs post) = last_saved (pre ++ concat hs).
Proof.
  intros T. unfold last_saved, stop_ops.
  rewrite app_assoc, fold_left_app. cbn [fold_left upd_last]. apply last_saved_ticks, T.
Qed.

(* every save issued before or DURING _do_stop (by the handlers of the shutdown event and of the events
   they post), with the writer thread at any point of its loop and running at any speed meanwhile,
   failed snapshots included: once the writer thread has ended, the last of them is on disk *)
Lemma do_stop_durable_l fb ifile itemp pre hs post v :
  quiet pre = true -> forallb quiet hs = true -> forallb is_tick post = true ->
  last_saved (pre ++ concat hs) = Some v ->
  pc (run (true, fb, true) (init ifile itemp) (stop_ops pre hs post)) = PDone ->
  file (run (true, fb, true) (init ifile itemp) (stop_ops pre hs post)) = Some (v, TFull).
Proof.
  intros Q1 Q2 T LS PD.
  apply clean_shutdown_durable_failed_snapshots_l; auto.
  - unfold stop_ops. rewrite app_assoc. apply cleanc_quiet_app.
    + apply quiet_app; auto. apply quiet_concat, Q2.
    + cbn. apply cleanc_ticks, T.
    + left. reflexivity.
  - rewrite last_saved_stop; auto.
Qed.

(* the writer thread does end: from every state the fixed code can be in, once the shutdown request has
   been made and nothing else happens, 24 thread steps end it *)
Lemma stop_terminates_l ff ifile itemp ops k :
  let s := run (ff, true, true) (init ifile itemp) ops in
  crashed s = false -> stopper s = true ->
  pc (run (ff, true, true) s (ticks (24 + k))) = PDone.
Proof.
  intros s CR ST.
  assert (I : inv4 s) by (apply inv4_run, inv4_init).
  destruct I as (_ & B).
  rewrite ticks_add, run_app.
  assert (D : pc (run (ff, true, true) s (ticks 24)) = PDone).
  { destruct s as [p f d di b st l fi t cr]. cbn in *. subst.
    destruct p, di, f, ff; vm_compute; reflexivity. }
  rewrite dead_forever; auto.
Qed.

(* the ordering matters: with the shutdown request made BEFORE the handlers run, a save from a handler is
   lost (writer idle: it ends before the save; the same happens to a writer whose rate-limit pause ends
   at the request) *)
Lemma stopper_before_handlers_refuted_l :
  exists pre hs post v,
    quiet pre = true /\ forallb quiet hs = true /\ forallb is_tick post = true /\
    last_saved (pre ++ concat hs) = Some v /\
    pc (run (true, true, true) (init false 0) (early_stop_ops pre hs post)) = PDone /\
    file (run (true, true, true) (init false 0) (early_stop_ops pre hs post)) <> Some (v, TFull).
Proof.
  exists [Tick; Tick; Save 1; Tick; Tick; Tick; Tick; Tick; Tick; Tick], [[Tick; Tick; Tick; Save 2]], (ticks 6), 2.
  vm_compute. repeat split; try reflexivity; discriminate.
Qed.

Example ex_do_stop :
  let ops := stop_ops [Tick; Tick; Save 1; Tick; Tick; Tick; Tick; Tick; Tick; Tick]
                      [[Tick; Tick; Tick; Save 2]; [Tick; Save 3]] (ticks 12) in
  pc (run (true, true, true) (init false 0) ops) = PDone /\
  file (run (true, true, true) (init false 0) ops) = Some (3, TFull).
Proof. vm_compute. auto. Qed.

Example ex_failed_snapshot_flushed :
  let ops := [Tick; Tick; Save 1; Tick; Tick; CopyFail; Tick; Shutdown] ++ ticks 12 in
  cleanc_from false ops = true /\
  pc (run (true, true, true) (init false 0) ops) = PDone /\
  file (run (true, true, true) (init false 0) ops) = Some (1, TFull).
Proof. vm_compute. auto. Qed.
