(* C15/Crash.v — crash points at the level of os calls, and what a power loss may leave behind.

   Part 1.  A save procedure is a sequence of os-level calls on the data directory.  A crash can
   fall between any two calls, so "never torn at every crash point" = after EVERY PREFIX of the
   sequence the data file is what it was or a complete new version.  [save_calls] is the sequence
   FileManager.save + YamlInterface.save perform (the harness observes it with an audit hook: every
   os-level call of the writer thread that changes the directory is a hand-over / crash point).
   [calls_safe] is the general criterion: the only call that may touch the data file is a rename of
   a COMPLETE file onto it.  Any extra rename/remove/in-place write between the temp write and the
   final replace (backup rotation, remove-then-rename, write in place) violates it:
   [rotation_refuted], [remove_first_refuted], [in_place_refuted].

   Part 2.  Power loss.  The code never calls fsync.  What survives a power cut is what the kernel
   had written back.  ASSUMPTION (modelled, cannot be tied to the code from user space): write-back
   is ORDERED: a rename becomes durable only after the data of the renamed file (ext4 data=ordered
   with auto_da_alloc, btrfs, xfs since 2.6.3x "replace via rename" heuristics).  Then the durable
   data file is always a complete saved version ([power_loss_never_torn_ordered]).  Without that
   assumption (rename durable before the data blocks) the file can come back EMPTY
   ([power_loss_torn_refuted_unordered]): only an fsync of the temp file before os.replace (and of
   the directory after it) would close this; the property's crash model is the process crash. *)
From Common Require Import Prelude.
From C15 Require Import Model Lemmas.
Open Scope Z_scope.

(* ---- Part 1 -------------------------------------------------------------------------------- *)
Inductive fname := NFile | NTemp | NBak.
Definition fname_eqb (a b : fname) : bool :=
  match a, b with NFile, NFile | NTemp, NTemp | NBak, NBak => true | _, _ => false end.

Inductive call :=
| COpen (n : fname) (v : Z)       (* open(n, 'w'): create / truncate; v = version being written *)
| CWrite1 (n : fname)             (* first part of the text flushed                              *)
| CWrite2 (n : fname)             (* rest of the text flushed, closed                            *)
| CRename (src dst : fname)       (* os.replace / os.rename                                      *)
| CRemove (n : fname).            (* os.remove / os.unlink                                       *)

Definition dir := fname -> fileT.
Definition upd (d : dir) (n : fname) (x : fileT) : dir := fun m => if fname_eqb m n then x else d m.

Definition apply (d : dir) (c : call) : dir :=
  match c with
  | COpen n v => upd d n (Some (v, TEmpty))
  | CWrite1 n => match d n with Some (v, _) => upd d n (Some (v, THalf)) | None => d end
  | CWrite2 n => match d n with Some (v, _) => upd d n (Some (v, TFull)) | None => d end
  | CRename a b => match d a with Some x => upd (upd d b (Some x)) a None | None => d end
  | CRemove n => upd d n None
  end.

Definition after (d : dir) (cs : list call) : dir := fold_left apply cs d.

(* the calls of one FileManager.save(file, v) *)
Definition save_calls (v : Z) : list call := [COpen NTemp v; CWrite1 NTemp; CWrite2 NTemp; CRename NTemp NFile].
(* variants *)
Definition rotation_calls (v : Z) : list call :=
  [COpen NTemp v; CWrite1 NTemp; CWrite2 NTemp; CRename NFile NBak; CRename NTemp NFile].
Definition remove_first_calls (v : Z) : list call :=
  [COpen NTemp v; CWrite1 NTemp; CWrite2 NTemp; CRemove NFile; CRename NTemp NFile].
Definition in_place_calls (v : Z) : list call := [COpen NFile v; CWrite1 NFile; CWrite2 NFile].

(* crash-safe at crash point k: the data file is what it was, or a complete version *)
Definition file_ok_after (d : dir) (cs : list call) : Prop :=
  after d cs NFile = d NFile \/ exists v, after d cs NFile = Some (v, TFull).

(* the criterion, checked along the sequence: a call may touch the data file only by renaming a
   complete file onto it *)
Definition touches_file (c : call) : bool :=
  match c with
  | COpen n _ | CWrite1 n | CWrite2 n | CRemove n => fname_eqb n NFile
  | CRename a b => fname_eqb a NFile || fname_eqb b NFile
  end.

Fixpoint calls_safe (d : dir) (cs : list call) : bool :=
  match cs with
  | [] => true
  | c :: r =>
      (negb (touches_file c) ||
       match c with
       | CRename a NFile => negb (fname_eqb a NFile) &&
                            match d a with Some (_, TFull) => true | _ => false end
       | _ => false
       end) && calls_safe (apply d c) r
  end.

Lemma untouched d c : touches_file c = false -> apply d c NFile = d NFile.
Proof.
  destruct c as [n v|n|n|a b|n]; cbn; intros T.
  - unfold upd. cbn. destruct n; cbn in *; try discriminate; reflexivity.
  - destruct (d n) as [[v t]|]; [|reflexivity]. unfold upd. destruct n; cbn in *; try discriminate; reflexivity.
  - destruct (d n) as [[v t]|]; [|reflexivity]. unfold upd. destruct n; cbn in *; try discriminate; reflexivity.
  - destruct (d a) as [x|]; [|reflexivity]. unfold upd. destruct a, b; cbn in *; try discriminate; reflexivity.
  - unfold upd. destruct n; cbn in *; try discriminate; reflexivity.
Qed.

Lemma calls_safe_prefix_l : forall cs d k,
  calls_safe d cs = true -> file_ok_after d (firstn k cs).
Proof.
  induction cs as [|c r IH]; intros d k S.
  - destruct k; left; reflexivity.
  - destruct k as [|k]; [left; reflexivity|].
    cbn [calls_safe] in S. apply andb_true_iff in S as [S1 S2].
    cbn [firstn]. unfold file_ok_after, after. cbn [fold_left].
    specialize (IH (apply d c) k S2). unfold file_ok_after, after in IH.
    destruct (touches_file c) eqn:T; cbn in S1.
    + destruct c as [n v|n|n|a b|n]; try discriminate.
      destruct b; try discriminate. apply andb_true_iff in S1 as [S1a S1b].
      destruct (d a) as [[v t]|] eqn:DA; [|discriminate]. destruct t; try discriminate.
      assert (E : apply d (CRename a NFile) NFile = Some (v, TFull)).
      { cbn. rewrite DA. unfold upd. destruct a; cbn in *; try discriminate; reflexivity. }
      destruct IH as [IH|IH]; [|right; exact IH]. right. exists v. rewrite IH. exact E.
    + rewrite (untouched d c T) in IH. exact IH.
Qed.

Lemma save_calls_safe_l d v : calls_safe d (save_calls v) = true.
Proof. cbn. reflexivity. Qed.

Lemma rotation_refuted_l :
  exists d v k, d NFile = Some (1, TFull) /\ after d (firstn k (rotation_calls v)) NFile = None /\
                calls_safe d (rotation_calls v) = false.
Proof. exists (fun n => match n with NFile => Some (1, TFull) | _ => None end), 2, 4%nat. vm_compute. auto. Qed.

Lemma remove_first_refuted_l :
  exists d v k, d NFile = Some (1, TFull) /\ after d (firstn k (remove_first_calls v)) NFile = None /\
                calls_safe d (remove_first_calls v) = false.
Proof. exists (fun n => match n with NFile => Some (1, TFull) | _ => None end), 2, 4%nat. vm_compute. auto. Qed.

Lemma in_place_refuted_l :
  exists d v k, d NFile = Some (1, TFull) /\ after d (firstn k (in_place_calls v)) NFile = Some (v, THalf) /\
                calls_safe d (in_place_calls v) = false.
Proof. exists (fun n => match n with NFile => Some (1, TFull) | _ => None end), 2, 2%nat. vm_compute. auto. Qed.

Example ex_save_calls :
  let d := fun n => match n with NFile => Some (1, TFull) | NTemp => Some (9, THalf) | NBak => None end in
  after d (firstn 3 (save_calls 2)) NFile = Some (1, TFull) /\ after d (firstn 3 (save_calls 2)) NTemp = Some (2, TFull) /\
  after d (save_calls 2) NFile = Some (2, TFull) /\ after d (save_calls 2) NTemp = None.
Proof. vm_compute. auto. Qed.

(* the calls of the pc machine are exactly save_calls: one full pass PCopy .. PReplace of [tick]
   changes (file, temp) as [save_calls (local)] changes (NFile, NTemp) *)
Definition dir_of (s : state) : dir := fun n => match n with NFile => file s | NTemp => temp s | NBak => None end.

Lemma machine_performs_save_calls_l c s k :
  pc s = POpen -> crashed s = false -> (k <= 4)%nat ->
  let s' := run c s (ticks k) in
  file s' = after (dir_of s) (firstn k (save_calls (local s))) NFile /\
  temp s' = after (dir_of s) (firstn k (save_calls (local s))) NTemp.
Proof.
  intros P CR K. destruct s as [p f d di b st l fi t cr]. cbn in P, CR. subst.
  destruct k as [|[|[|[|[|k]]]]]; try lia; cbn; auto.
  all: destruct f; cbn; auto.
Qed.

(* ---- Part 2: power loss ---------------------------------------------------------------------- *)
Record pstate := mkp { vol : state; dfile : fileT; dtemp : fileT }.

Inductive pop :=
| PO (o : op)          (* a step of the machine of Model.v on the volatile (page-cache) view          *)
| WriteBack            (* ordered write-back: everything done so far becomes durable                  *)
| WriteBackMeta        (* UNORDERED: directory entries (the rename) durable, file contents not yet   *)
| PowerLoss.           (* the volatile view is lost: the next boot sees the durable state            *)

Definition meta_only (f : fileT) : fileT := match f with Some (v, _) => Some (v, TEmpty) | None => None end.

Definition pstep (c : cfg) (s : pstate) (o : pop) : pstate :=
  if crashed (vol s) then s else
  match o with
  | PO o => mkp (step c (vol s) o) (dfile s) (dtemp s)
  | WriteBack => mkp (vol s) (file (vol s)) (temp (vol s))
  | WriteBackMeta => mkp (vol s) (if match file (vol s), dfile s with
                                     | Some (v, _), Some (w, _) => v =? w | None, None => true | _, _ => false end
                                  then dfile s else meta_only (file (vol s)))
                         (meta_only (temp (vol s)))
  | PowerLoss =>
      let v := vol s in
      mkp (mk (pc v) (final v) (data v) (dirty v) (busy v) (stopper v) (local v) (dfile s) (dtemp s) true)
          (dfile s) (dtemp s)
  end.

Definition prun (c : cfg) (s : pstate) (ops : list pop) : pstate := fold_left (pstep c) ops s.
Definition pinit (ifile : bool) (itemp : Z) : pstate :=
  mkp (init ifile itemp) (file (init ifile itemp)) (temp (init ifile itemp)).

Definition psaved (ops : list pop) : list Z :=
  saved (flat_map (fun o => match o with PO o => [o] | _ => [] end) ops).
Definition ordered (ops : list pop) : bool :=
  forallb (fun o => match o with WriteBackMeta => false | _ => true end) ops.

Definition pinv (H : list Z) (i : bool) (s : pstate) : Prop :=
  okfile H i (file (vol s)) /\ okfile H i (dfile s) /\ (crashed (vol s) = false -> inv1 H i (vol s)).

Lemma pinv_step c H i s o :
  (match o with WriteBackMeta => False | _ => True end) ->
  pinv H i s -> pinv (H ++ psaved [o]) i (pstep c s o).
Proof.
  intros NM (A & B & C).
  assert (MA : forall f, okfile H i f -> okfile (H ++ psaved [o]) i f)
    by (intros f; apply okfile_mono, incl_appl, incl_refl).
  unfold pstep. destruct (crashed (vol s)) eqn:CR.
  - split; [apply MA, A|]. split; [apply MA, B|]. intros E. congruence.
  - specialize (C eq_refl). destruct o as [o| | |]; cbn [vol dfile dtemp psaved flat_map List.app saved].
    + assert (I := inv1_step c H i (vol s) o C).
      replace (saved (o :: [])) with (saved [o]) by reflexivity.
      split; [destruct I as (I1 & _); exact I1|]. split; [apply okfile_mono with (H := H); [apply incl_appl, incl_refl|exact B]|].
      intros _. exact I.
    + rewrite List.app_nil_r. split; [exact A|]. split; [exact A|]. intros _. exact C.
    + contradiction.
    + rewrite List.app_nil_r. cbn. split; [exact B|]. split; [exact B|]. intros E. discriminate.
Qed.

Lemma psaved_app a b : psaved (a ++ b) = psaved a ++ psaved b.
Proof. unfold psaved. rewrite flat_map_app, saved_app. reflexivity. Qed.

Lemma pinv_run c i t ops : ordered ops = true -> pinv (psaved ops) i (prun c (pinit i t) ops).
Proof.
  induction ops as [|o ops IH] using rev_ind; intros O.
  - unfold pinv, pinit. cbn [prun fold_left vol dfile]. destruct (inv1_init i t) as (A & R).
    split; [exact A|]. split; [exact A|]. intros _. exact (conj A R).
  - unfold ordered in O. rewrite forallb_app in O. apply andb_true_iff in O as [O1 O2].
    unfold prun. rewrite fold_left_app, psaved_app. cbn [fold_left]. apply pinv_step; [|apply IH, O1].
    cbn in O2. destruct o; auto; discriminate.
Qed.

Lemma power_loss_never_torn_ordered_l c ifile itemp ops v t :
  ordered ops = true ->
  let s := prun c (pinit ifile itemp) ops in
  (dfile s = Some (v, t) -> t = TFull /\ (In v (psaved ops) \/ (ifile = true /\ v = 100))) /\
  (file (vol s) = Some (v, t) -> t = TFull /\ (In v (psaved ops) \/ (ifile = true /\ v = 100))).
Proof.
  intros O. cbn zeta. destruct (pinv_run c ifile itemp ops O) as (A & B & _).
  split; intros E; [rewrite E in B; exact B|rewrite E in A; exact A].
Qed.

Definition ops_unordered : list pop :=
  map PO [Tick; Tick; Save 1; Tick; Tick; Tick; Tick; Tick; Tick; Tick] ++ [WriteBackMeta; PowerLoss].

Lemma power_loss_torn_refuted_unordered_l :
  exists ops, file (vol (prun (true, true, true) (pinit false 0) ops)) = Some (1, TEmpty) /\
              crashed (vol (prun (true, true, true) (pinit false 0) ops)) = true.
Proof. exists ops_unordered. vm_compute. auto. Qed.

Example ex_power_loss_ordered :
  let ops := map PO [Tick; Tick; Save 1; Tick; Tick; Tick; Tick; Tick; Tick; Tick] ++ [WriteBack] ++
             map PO [Tick; Tick; Save 2; Tick; Tick; Tick; Tick; Tick; Tick; Tick] ++ [PowerLoss] in
  ordered ops = true /\
  file (vol (prun (true, true, true) (pinit false 0) ops)) = Some (1, TFull) /\
  crashed (vol (prun (true, true, true) (pinit false 0) ops)) = true.
Proof. vm_compute. auto. Qed.
