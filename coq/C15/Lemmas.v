(* C15/Lemmas.v — proofs about the writer model. *)
From Common Require Import Prelude.
From C15 Require Import Model.
Open Scope Z_scope.

Lemma run_app c s a b : run c s (a ++ b) = run c (run c s a) b.
Proof. apply fold_left_app. Qed.

Lemma run_cons c s o r : run c s (o :: r) = run c (step c s o) r.
Proof. reflexivity. Qed.

Lemma step_crashed c s o : crashed s = true -> step c s o = s.
Proof. intro H. unfold step. rewrite H. reflexivity. Qed.

Lemma crash_freezes_l c ops : forall s, crashed s = true -> run c s ops = s.
Proof.
  induction ops as [|o r IH]; intros s H; [reflexivity|].
  rewrite run_cons, step_crashed by exact H. apply IH, H.
Qed.

Lemma crash_point_l c s a b : run c s (a ++ Crash :: b) = run c s (a ++ [Crash]).
Proof.
  rewrite !run_app. cbn [run fold_left].
  apply crash_freezes_l. unfold step. destruct (crashed (run c s a)) eqn:E; [exact E|reflexivity].
Qed.

Lemma crash_keeps_disk_l c s :
  file (step c s Crash) = file s /\ temp (step c s Crash) = temp s.
Proof. unfold step. destruct (crashed s); split; reflexivity. Qed.

Ltac bools :=
  repeat match goal with
         | |- context [if ?b then _ else _] => destruct b eqn:?; cbn
         end.

(* ---- os.replace is the only write to the data file ------------------------------------------ *)
Lemma only_replace_writes_file_l c s o :
  file (step c s o) <> file s ->
  crashed s = false /\ pc s = PReplace /\ (o = Tick \/ o = CopyFail) /\ file (step c s o) = temp s.
Proof.
  destruct s as [p f d di b st l fi t cr]. unfold step. cbn.
  destruct cr; cbn; [congruence|].
  destruct o; cbn; try congruence;
    destruct p; cbn; unfold after_wait, set_pc, copy_fail; cbn; bools; try congruence; auto 6.
Qed.

(* ---- never torn ------------------------------------------------------------------------------ *)
Definition okfile (H : list Z) (ifile : bool) (f : fileT) : Prop :=
  match f with
  | None => True
  | Some (v, t) => t = TFull /\ (In v H \/ (ifile = true /\ v = 100))
  end.

Definition inv1 (H : list Z) (ifile : bool) (s : state) : Prop :=
  okfile H ifile (file s) /\
  (dirty s = true -> In (data s) H) /\
  match pc s with
  | PSpin | PClear => dirty s = true
  | PCopy => In (local s) H /\ In (data s) H
  | POpen | PW1 | PW2 => In (local s) H
  | PReplace => In (local s) H /\ temp s = Some (local s, TFull)
  | _ => True
  end.

Lemma okfile_mono H H' i f : incl H H' -> okfile H i f -> okfile H' i f.
Proof.
  intros I. destruct f as [[v t]|]; cbn; [|auto]. intros [A [B|B]]; split; auto.
Qed.

Lemma inv1_mono H H' i s : incl H H' -> inv1 H i s -> inv1 H' i s.
Proof.
  intros I (A & B & C). split; [eapply okfile_mono; eauto|]. split; [auto|].
  destruct (pc s); auto; destruct C; split; auto.
Qed.

Lemma inv1_tick c H i s : inv1 H i s -> inv1 H i (tick c s).
Proof.
  intros (A & B & C).
  destruct s as [p f d di b st l fi t cr]. cbn in *.
  destruct p; cbn in *; unfold after_wait, set_pc; cbn;
    bools; repeat split; cbn; auto; try tauto; try discriminate.
  all: try (destruct C as [C1 C2]; rewrite C2; cbn; auto).
Qed.

Lemma inv1_step c H i s o : inv1 H i s -> inv1 (H ++ saved [o]) i (step c s o).
Proof.
  intros I.
  assert (M : inv1 (H ++ saved [o]) i s) by (eapply inv1_mono; [apply incl_appl, incl_refl|exact I]).
  unfold step. destruct (crashed s) eqn:CR; [exact M|].
  destruct o; cbn [saved] in *.
  - (* Save *) destruct M as (A & B & C). split; [exact A|]. split.
    + intros _. cbn. apply in_or_app. right. left. reflexivity.
    + cbn. destruct (pc s); auto. destruct C. split; auto. apply in_or_app. right. left. reflexivity.
  - exact M.
  - exact M.
  - (* IoError *)
    destruct (io_point (pc s)) eqn:IO.
    + destruct M as (A & B & C). unfold raise_in_save. split; [exact A|]. split; [exact B|].
      cbn. destruct (final s); exact Logic.I.
    + apply inv1_tick, M.
  - (* Tick *) apply inv1_tick, M.
  - (* CopyFail *)
    destruct (copy_point (pc s)) eqn:CP; [|apply inv1_tick, M].
    destruct M as (A & B & C).
    destruct s as [p f d di b st l fi t cr]. cbn in *.
    destruct p; try discriminate. unfold copy_fail, set_pc; cbn.
    bools; repeat split; cbn; auto; tauto.
Qed.

Lemma saved_app a b : saved (a ++ b) = saved a ++ saved b.
Proof.
  induction a as [|o a IH]; [reflexivity|]. destruct o; cbn; rewrite ?IH; reflexivity.
Qed.

Lemma inv1_init i t : inv1 [] i (init i t).
Proof.
  unfold inv1, init. cbn. repeat split; try discriminate. destruct i; cbn; auto.
Qed.

Lemma inv1_run c i t ops : inv1 (saved ops) i (run c (init i t) ops).
Proof.
  induction ops as [|o ops IH] using rev_ind; [apply inv1_init|].
  rewrite run_app, saved_app. cbn [run fold_left]. apply inv1_step, IH.
Qed.

Lemma disk_never_torn_l c ifile itemp ops v t :
  file (run c (init ifile itemp) ops) = Some (v, t) ->
  t = TFull /\ (In v (saved ops) \/ (ifile = true /\ v = 100)).
Proof.
  intros E. destruct (inv1_run c ifile itemp ops) as (A & _). rewrite E in A. exact A.
Qed.


(* ---- clean shutdown is durable (code with the final flush) ---------------------------------- *)
(* inv2: facts that hold along every clean history of the code with fix_flush = true *)
Definition inv2 (s : state) : Prop :=
  crashed s = false /\
  (final s = true -> stopper s = true) /\
  match pc s with
  | PFinal => stopper s = true
  | PDone => stopper s = true /\ dirty s = false
  | PCopy | POpen | PW1 | PW2 => final s = true -> dirty s = false
  | PReplace => (final s = true -> dirty s = false) /\ temp s = Some (local s, TFull)
  | _ => True
  end.

(* pend: the current data is on disk, or is being written, or is flagged dirty *)
Definition pend (s : state) : Prop :=
  dirty s = true \/
  match pc s with
  | PCopy | POpen | PW1 | PW2 | PReplace => local s = data s
  | _ => file s = Some (data s, TFull)
  end.

Definition ghost (acc : option Z) (s : state) : Prop :=
  match acc with None => True | Some v => data s = v /\ pend s end.

Definition clean1 (stopped : bool) (o : op) : bool :=
  match o with Save _ => negb stopped | Shutdown | Tick => true | IoError | Crash | CopyFail => false end.

Lemma clean_step fb fc s o acc :
  inv2 s -> ghost acc s -> clean1 (stopper s) o = true ->
  inv2 (step (true, fb, fc) s o) /\ ghost (upd_last acc o) (step (true, fb, fc) s o).
Proof.
  intros (CR & FS & K) G CL. unfold step. rewrite CR.
  destruct s as [p f d di b st l fi t cr]. cbn in *. subst cr.
  destruct o; cbn in CL; try discriminate.
  - (* Save: only before the shutdown request *)
    destruct st; [discriminate|]. cbn.
    split.
    + split; [reflexivity|]. split; [exact FS|]. cbn.
      destruct p; auto; try (intros F; apply FS in F; discriminate);
        try (destruct K; discriminate).
      destruct K as [K1 K2]. split; auto. intros F; apply FS in F; discriminate.
    + split; [reflexivity|]. left. reflexivity.
  - (* Shutdown *)
    split.
    + split; [reflexivity|]. split; [auto|]. cbn. destruct p; auto. destruct K; auto.
    + destruct acc; cbn in *; auto.
  - (* Tick *)
    unfold ghost, pend in *. cbn [upd_last].
    destruct p; cbn in *; unfold after_wait, set_pc; cbn.
    all: bools; cbn.
    all: repeat match goal with H : _ /\ _ |- _ => destruct H end.
    all: try (split; [repeat split; cbn; auto; try tauto; try congruence
                     | destruct acc; cbn in *; auto;
                       repeat match goal with H : _ /\ _ |- _ => destruct H end;
                       split; auto; try tauto; try (intuition congruence)]).
Qed.

Lemma clean_from_cons st o r :
  clean_from st (o :: r) = true ->
  clean1 st o = true /\
  clean_from (match o with Shutdown => true | _ => st end) r = true.
Proof.
  destruct o; cbn; try discriminate; auto.
  intros H. apply andb_true_iff in H. exact H.
Qed.

Lemma stopper_step c s o :
  crashed s = false -> clean1 (stopper s) o = true ->
  stopper (step c s o) = match o with Shutdown => true | _ => stopper s end.
Proof.
  intros CR CL. unfold step. rewrite CR.
  destruct o; cbn in *; try discriminate; try reflexivity.
  destruct s as [p f d di b st l fi t cr]. cbn.
  destruct p; cbn; unfold after_wait, set_pc; cbn; bools; reflexivity.
Qed.

Lemma clean_run fb fc ops : forall s acc,
  inv2 s -> ghost acc s -> clean_from (stopper s) ops = true ->
  inv2 (run (true, fb, fc) s ops) /\ ghost (fold_left upd_last ops acc) (run (true, fb, fc) s ops).
Proof.
  induction ops as [|o r IH]; intros s acc I G CL; [split; assumption|].
  apply clean_from_cons in CL as [C1 C2].
  destruct (clean_step fb fc s o acc I G C1) as [I' G'].
  rewrite run_cons. cbn [fold_left]. apply IH; auto.
  rewrite stopper_step; auto. destruct I; auto.
Qed.

Lemma inv2_init i t : inv2 (init i t).
Proof. unfold inv2, init. cbn. repeat split; auto; discriminate. Qed.

Lemma clean_shutdown_durable_l fb fc ifile itemp ops v :
  clean_from false ops = true ->
  last_saved ops = Some v ->
  pc (run (true, fb, fc) (init ifile itemp) ops) = PDone ->
  file (run (true, fb, fc) (init ifile itemp) ops) = Some (v, TFull).
Proof.
  intros CL LS PD.
  destruct (clean_run fb fc ops (init ifile itemp) None (inv2_init _ _) Logic.I CL) as [I G].
  unfold last_saved in LS. rewrite LS in G. destruct G as [D P].
  destruct I as (_ & _ & K). rewrite PD in K. destruct K as [_ K].
  unfold pend in P. rewrite PD in P. destruct P as [P|P]; [congruence|].
  rewrite P, D. reflexivity.
Qed.

(* the code as it was: the flush after the loop is dead (data is always None there) *)
Definition ops_flush_dead : list op :=
  [Tick; Tick; Save 1; Tick; Tick; Tick; Tick; Tick; Tick; Tick;   (* v1 written, thread in rate-limit sleep *)
   Save 2; Shutdown; Tick; Tick; Tick].

Lemma clean_shutdown_durable_refuted_l fb fc :
  exists ops v,
    clean_from false ops = true /\ last_saved ops = Some v /\
    pc (run (false, fb, fc) (init false 0) ops) = PDone /\
    file (run (false, fb, fc) (init false 0) ops) <> Some (v, TFull).
Proof.
  exists ops_flush_dead, 2. destruct fb, fc; vm_compute; repeat split; try reflexivity; discriminate.
Qed.

(* ---- a failed write is not sticky (code with try/finally around the write) ------------------ *)
(* inv4: holds along EVERY history (errors, crashes, shutdown) of the code with fix_busy = true *)
Definition inv4 (s : state) : Prop :=
  (stopper s = false -> final s = false /\ pc s <> PFinal /\ pc s <> PDone) /\
  busy s = io_point (pc s).

Lemma inv4_step ff s o : inv4 s -> inv4 (step (ff, true, true) s o).
Proof.
  intros (A & B). unfold step. destruct (crashed s) eqn:CR; [split; assumption|].
  destruct s as [p f d di b st l fi t cr]. cbn in *. subst cr b.
  destruct o; cbn.
  - split; auto.
  - split; [discriminate|reflexivity].
  - split; auto.
  - destruct p; cbn; unfold after_wait, set_pc, raise_in_save; cbn; bools; cbn;
      (split; [intros E; cbn in E |- *; try discriminate;
               destruct (A E) as (A1 & A2 & A3); repeat split; cbn; try discriminate; try congruence
              | reflexivity]).
  - destruct p; cbn; unfold after_wait, set_pc, raise_in_save; cbn; bools; cbn;
      (split; [intros E; cbn in E |- *; try discriminate;
               destruct (A E) as (A1 & A2 & A3); repeat split; cbn; try discriminate; try congruence
              | reflexivity]).
  - destruct p; cbn; unfold after_wait, set_pc, raise_in_save, copy_fail; cbn; bools; cbn;
      (split; [intros E; cbn in E |- *; try discriminate;
               destruct (A E) as (A1 & A2 & A3); repeat split; cbn; try discriminate; try congruence
              | reflexivity]).
Qed.

Lemma inv4_run ff ops : forall s, inv4 s -> inv4 (run (ff, true, true) s ops).
Proof.
  induction ops as [|o r IH]; intros s I; [exact I|]. rewrite run_cons. apply IH, inv4_step, I.
Qed.

Lemma inv4_init i t : inv4 (init i t).
Proof. unfold inv4, init; cbn. repeat split; discriminate. Qed.

Lemma settled_tick c v s : settled v s -> settled v (step c s Tick).
Proof.
  intros (D & ST & CR & FI & P & F). unfold step. rewrite CR.
  destruct s as [p f d di b st l fi t cr]. cbn in *. subst.
  destruct P as [P|[P|P]]; subst p; cbn; unfold set_pc; cbn; repeat split; auto.
Qed.

Lemma settled_ticks c v k : forall s, settled v s -> settled v (run c s (ticks k)).
Proof.
  induction k as [|k IH]; intros s S; [exact S|]. cbn [ticks repeat]. rewrite run_cons.
  apply IH, settled_tick, S.
Qed.

Lemma ticks_add a b : ticks (a + b) = ticks a ++ ticks b.
Proof. unfold ticks. apply repeat_app. Qed.

(* from ANY state the fixed code can be in (not crashed, not shut down), a new save is on disk
   after at most 24 thread steps and stays there *)
Lemma save_lands ff s v k :
  inv4 s -> crashed s = false -> stopper s = false ->
  settled v (run (ff, true, true) s (Save v :: ticks (24 + k))).
Proof.
  intros (A & B) CR ST. destruct (A ST) as (FI & P1 & P2).
  rewrite ticks_add, app_comm_cons, run_app. apply settled_ticks.
  destruct s as [p f d di b st l fi t cr]. cbn in *. subst.
  destruct p; try congruence; vm_compute; repeat split; auto.
Qed.

Lemma failed_write_not_sticky_l ff ifile itemp ops v k :
  let s := run (ff, true, true) (init ifile itemp) ops in
  crashed s = false -> stopper s = false ->
  settled v (run (ff, true, true) s (Save v :: ticks (24 + k))).
Proof.
  intros s CR ST. apply save_lands; auto. apply inv4_run, inv4_init.
Qed.

(* the flag is busy only while a write is in progress *)
Lemma busy_only_while_writing_l ff ifile itemp ops :
  let s := run (ff, true, true) (init ifile itemp) ops in busy s = io_point (pc s).
Proof. intros s. apply (inv4_run ff ops _ (inv4_init ifile itemp)). Qed.

(* the code as it was: one failed write and is_busy stays True for ever *)
Definition ops_busy_stuck : list op := [Tick; Tick; Save 1; Tick; Tick; Tick; Tick; IoError].

Lemma spin_forever c n : forall s,
  crashed s = false -> pc s = PSpin -> busy s = true ->
  run c s (ticks n) = s.
Proof.
  induction n as [|n IH]; intros s CR P B; [reflexivity|].
  cbn [ticks repeat]. rewrite run_cons.
  assert (E : step c s Tick = s).
  { unfold step. rewrite CR. destruct s as [p f d di b st l fi t cr]. cbn in *. subst. reflexivity. }
  rewrite E. apply IH; assumption.
Qed.

Lemma failed_write_sticky_orig_l ff fc :
  exists ops, forall v n,
    file (run (ff, false, fc) (init false 0) (ops ++ Save v :: ticks n)) = None /\
    stopper (run (ff, false, fc) (init false 0) (ops ++ Save v :: ticks n)) = false /\
    crashed (run (ff, false, fc) (init false 0) (ops ++ Save v :: ticks n)) = false.
Proof.
  exists ops_busy_stuck. intros v n. rewrite run_app.
  destruct n as [|[|[|n]]]; try solve [destruct ff, fc; vm_compute; auto].
  change (ticks (S (S (S n)))) with (ticks 3 ++ ticks n).
  rewrite app_comm_cons, run_app.
  rewrite spin_forever; destruct ff, fc; vm_compute; auto.
Qed.

(* ---- a failed snapshot (deepcopy raises: the live dict changed size during the copy) ---------- *)
(* code before fixes/C15-snapshot-in-try.patch: the exception escapes _writing_thread; the thread is
   dead, no later save of this manager is ever written *)
Definition ops_copy_dies : list op := [Tick; Tick; Save 1; Tick; Tick; CopyFail].

Lemma dead_forever c n : forall s, pc s = PDone -> run c s (ticks n) = s.
Proof.
  induction n as [|n IH]; intros s P; [reflexivity|].
  cbn [ticks repeat]. rewrite run_cons.
  assert (E : step c s Tick = s).
  { unfold step. destruct (crashed s); [reflexivity|].
    destruct s as [p f d di b st l fi t cr]. cbn in *. subst. reflexivity. }
  rewrite E. apply IH, P.
Qed.

Lemma snapshot_failure_sticky_orig_l ff fb :
  exists ops, forall v n,
    file (run (ff, fb, false) (init false 0) (ops ++ Save v :: ticks n)) = None /\
    stopper (run (ff, fb, false) (init false 0) (ops ++ Save v :: ticks n)) = false /\
    crashed (run (ff, fb, false) (init false 0) (ops ++ Save v :: ticks n)) = false.
Proof.
  exists ops_copy_dies. intros v n. rewrite run_app, run_cons.
  rewrite dead_forever by (destruct ff, fb; reflexivity).
  destruct ff, fb; vm_compute; auto.
Qed.

(* fixed code: the failed snapshot is retried by the thread itself: the data that was being copied
   is on disk after at most 24 further steps, without any new save_all *)
Lemma snapshot_failure_retried_l ff ifile itemp ops k :
  let s := run (ff, true, true) (init ifile itemp) ops in
  crashed s = false -> stopper s = false -> pc s = PCopy ->
  settled (data s) (run (ff, true, true) s (CopyFail :: ticks (24 + k))).
Proof.
  intros s CR ST P.
  assert (I : inv4 s) by (apply inv4_run, inv4_init).
  destruct I as (A & B). destruct (A ST) as (FI & P1 & P2).
  rewrite ticks_add, app_comm_cons, run_app. apply settled_ticks.
  destruct s as [p f d di b st l fi t cr]. cbn in *. subst.
  vm_compute; repeat split; auto.
Qed.

Example ex_snapshot_retried :
  let s := run (true, true, true) (init false 0) [Tick; Tick; Save 1; Tick; Tick] in
  pc s = PCopy /\ crashed s = false /\ stopper s = false /\
  dirty (step (true, true, true) s CopyFail) = true /\
  file (run (true, true, true) s (CopyFail :: ticks 24)) = Some (1, TFull).
Proof. vm_compute. auto. Qed.

(* ============================================================================================ *)
(* machine variables                                                                             *)

Lemma reload_spec_l now d n v :
  In (n, v) (reload now d) <-> exists e sc, In (n, (v, e, sc)) d /\ expired e now = false.
Proof.
  unfold reload. rewrite in_map_iff. split.
  - intros ([k [[w e] sc]] & E & I). cbn in E. inversion E; subst. apply filter_In in I as [I X].
    cbn in X. exists e, sc. split; [exact I|]. destruct (expired e now); [discriminate|reflexivity].
  - intros (e & sc & I & X). exists (n, (v, e, sc)). split; [reflexivity|].
    apply filter_In. split; [exact I|]. cbn. rewrite X. reflexivity.
Qed.

Lemma vlookup_In {A} n (x : A) l : vlookup n l = Some x -> In (n, x) l.
Proof.
  induction l as [|[k y] r IH]; cbn; [discriminate|].
  destruct (k =? n) eqn:E.
  - apply Z.eqb_eq in E. intros H. inversion H; subst. left. reflexivity.
  - intros H. right. apply IH, H.
Qed.

Lemma vupdate_same n y st : vlookup n st = Some y -> vupdate n y st = st.
Proof.
  induction st as [|[k z] r IH]; cbn; [discriminate|].
  destruct (k =? n) eqn:E.
  - intros H. inversion H; subst. reflexivity.
  - intros H. rewrite IH by exact H. reflexivity.
Qed.

Lemma snapshot_cons k z r :
  snapshot ((k, z) :: r) =
  (if vpers z then [(k, (vval z, vtimeout z, vsecs z))] else []) ++ snapshot r.
Proof. unfold snapshot. cbn. destruct (vpers z); reflexivity. Qed.

Lemma snapshot_update_unpersisted n x y st :
  vlookup n st = Some y -> vpers y = false -> vpers x = false ->
  snapshot (vupdate n x st) = snapshot st.
Proof.
  induction st as [|[k z] r IH]; cbn [vlookup vupdate]; [discriminate|].
  destruct (k =? n) eqn:E; intros H Py Px.
  - inversion H; subst. rewrite !snapshot_cons, Py, Px. reflexivity.
  - rewrite !snapshot_cons, IH by assumption. reflexivity.
Qed.

Lemma snapshot_add_unpersisted n x st :
  vlookup n st = None -> vpers x = false -> snapshot (vupdate n x st) = snapshot st.
Proof.
  induction st as [|[k z] r IH]; cbn [vlookup vupdate].
  - intros _ Px. rewrite snapshot_cons, Px. reflexivity.
  - destruct (k =? n) eqn:E; [discriminate|]. intros H Px.
    rewrite !snapshot_cons, IH by assumption. reflexivity.
Qed.

Lemma write_synced s st : synced (write s st).
Proof. reflexivity. Qed.

Lemma write_syncs_l s o : vwrites (vstep s o) <> vwrites s -> synced (vstep s o).
Proof.
  destruct o as [n v p|n p e|n|dt]; cbn.
  - destruct (vlookup n (vstore s)) as [y|]; cbn.
    + destruct (vpers y && _); [intros _; apply write_synced|cbn; congruence].
    + destruct (p && _); [intros _; apply write_synced|cbn; congruence].
  - congruence.
  - destruct (vlookup n (vstore s)); [intros _; apply write_synced|congruence].
  - congruence.
Qed.

Lemma sync_preserved_l s o : synced s -> is_conf o = false -> synced (vstep s o).
Proof.
  intros S C. destruct o as [n v p|n p e|n|dt]; cbn in *; try discriminate.
  - destruct (vlookup n (vstore s)) as [y|] eqn:L; cbn.
    + destruct (vpers y) eqn:P; cbn.
      * destruct (vval y) as [w|] eqn:V; cbn; [|apply write_synced].
        destruct (w =? v) eqn:W; cbn; [|apply write_synced].
        destruct (vsecs y =? 0) eqn:Z0; cbn; [|apply write_synced].
        apply Z.eqb_eq in W. subst w. unfold synced in *. cbn.
        replace (mkv (Some v) true (vsecs y) (vtimeout y)) with y
          by (destruct y; cbn in *; subst; reflexivity).
        rewrite vupdate_same by exact L. exact S.
      * unfold synced in *. cbn. rewrite S. symmetry.
        eapply snapshot_update_unpersisted; eauto.
    + destruct p; cbn; [apply write_synced|].
      unfold synced in *. cbn. rewrite S. symmetry. apply snapshot_add_unpersisted; auto.
  - destruct (vlookup n (vstore s)); [apply write_synced|exact S].
  - exact S.
Qed.

Lemma synced_run_l ops : forall s,
  synced s -> forallb (fun o => negb (is_conf o)) ops = true -> synced (vrun s ops).
Proof.
  induction ops as [|o r IH]; intros s S F; [exact S|].
  cbn in F. apply andb_true_iff in F as [F1 F2]. cbn [vrun fold_left].
  apply IH; [|exact F2]. apply sync_preserved_l; [exact S|]. destruct (is_conf o); [discriminate|reflexivity].
Qed.

Lemma persist_reload_equal_partial_l s now n x :
  synced s ->
  vlookup n (vstore s) = Some x -> vpers x = true -> expired (vtimeout x) now = false ->
  In (n, vval x) (reload now (vdisk s)).
Proof.
  intros S L P X. apply reload_spec_l. exists (vtimeout x), (vsecs x). split; [|exact X].
  rewrite S. unfold snapshot. apply in_map_iff. exists (n, x). split; [reflexivity|].
  apply filter_In. split; [apply vlookup_In, L|exact P].
Qed.

Lemma reload_only_persisted_l s now n v :
  synced s -> In (n, v) (reload now (vdisk s)) ->
  exists x, In (n, x) (vstore s) /\ vpers x = true /\ vval x = v /\ expired (vtimeout x) now = false.
Proof.
  intros S I. apply reload_spec_l in I as (e & sc & I & X). rewrite S in I.
  unfold snapshot in I. apply in_map_iff in I as ([k x] & E & I). cbn in E. inversion E; subst.
  apply filter_In in I as [I P]. exists x. repeat split; auto.
Qed.

Lemma persist_reload_refuted_l :
  exists ops n x now,
    vlookup n (vstore (vrun vinit ops)) = Some x /\ vpers x = true /\
    expired (vtimeout x) now = false /\
    ~ In (n, vval x) (reload now (vdisk (vrun vinit ops))).
Proof.
  exists [VSet 1 5 false; VConf 1 true 0], 1, (mkv (Some 5) true 0 0), 1700000001.
  vm_compute. repeat split; auto.
Qed.

(* ---- load side: unusable file, malformed entries ------------------------------------------ *)
Lemma bad_file_boots_empty_l t now d : 1 <= t < 10 -> reload now (tampered t d) = [].
Proof.
  intros [A B]. unfold tampered.
  destruct (t =? 0) eqn:E0; [apply Z.eqb_eq in E0; lia|].
  destruct (t <? 10) eqn:E1; [reflexivity|apply Z.ltb_ge in E1; lia].
Qed.

Lemma malformed_entry_only_drops_itself_l n now d m v :
  In (m, v) (reload now (drop n d)) <-> m <> n /\ In (m, v) (reload now d).
Proof.
  rewrite !reload_spec_l. unfold drop. split.
  - intros (e & sc & I & X). apply filter_In in I as [I N]. cbn in N.
    split; [intros ->; rewrite Z.eqb_refl in N; discriminate|]. exists e, sc. auto.
  - intros (N & e & sc & I & X). exists e, sc. split; [|exact X]. apply filter_In. split; [exact I|].
    cbn. destruct (m =? n) eqn:E; [apply Z.eqb_eq in E; contradiction|reflexivity].
Qed.

Example ex_tampered :
  let s := vrun vinit [VSet 1 0 true; VSet 2 1000003 true; VConf 3 true 10; VSet 3 7 false] in
  reload 1700000005 (vdisk s) = [(1, Some 0); (2, Some 1000003); (3, Some 7)] /\
  reload 1700000005 (tampered 12 (vdisk s)) = [(1, Some 0); (3, Some 7)] /\
  reload 1700000005 (tampered 3 (vdisk s)) = [] /\
  reload 1700000011 (tampered 11 (vdisk s)) = [(2, Some 1000003)].
Proof. vm_compute. auto. Qed.

(* ============================================================================================ *)
(* the hypotheses of the theorems in Props.v are satisfiable on non-trivial states              *)

(* a crash in the middle of the second write: v1 complete on disk, half of v2 in the temp file *)
Example ex_never_torn :
  let s := run (true, true, true) (init false 0)
               ([Tick; Tick; Save 1] ++ ticks 8 ++ [Save 2; Tick; Tick; Tick; Tick; Tick; Tick; Crash; Tick; Save 3]) in
  file s = Some (1, TFull) /\ temp s = Some (2, THalf) /\ crashed s = true.
Proof. vm_compute. auto. Qed.

Definition ops_clean_example : list op := ops_flush_dead ++ ticks 8.

Example ex_clean_shutdown :
  clean_from false ops_clean_example = true /\ last_saved ops_clean_example = Some 2 /\
  pc (run (true, true, true) (init false 0) ops_clean_example) = PDone /\
  file (run (true, true, true) (init false 0) ops_clean_example) = Some (2, TFull).
Proof. vm_compute. auto. Qed.

Example ex_not_sticky :
  let s := run (true, true, true) (init true 2) ops_busy_stuck in
  crashed s = false /\ stopper s = false /\ pc s = PRate /\ temp s = Some (1, TEmpty) /\
  file (run (true, true, true) s (Save 7 :: ticks 24)) = Some (7, TFull).
Proof. vm_compute. auto. Qed.

Example ex_persist_reload :
  let s := vrun vinit [VConf 1 true 100; VSet 1 5 false; VSet 2 9 true; VAdv 50; VSet 3 1 false] in
  synced s /\ vlookup 1 (vstore s) = Some (mkv (Some 5) true 100 1700000100) /\
  expired 1700000100 1700000100 = false /\ expired 1700000100 1700000101 = true /\
  reload 1700000100 (vdisk s) = [(1, Some 5); (2, Some 9)] /\
  reload 1700000101 (vdisk s) = [(2, Some 9)].
Proof. vm_compute. auto 10. Qed.

(* ============================================================================================ *)
(* FileManager.save called directly                                                              *)

Lemma direct_good_save_lands_l ff b v d :
  let s := direct_save (ff, true, true) b v d 0 in
  file s = Some (v, TFull) /\ temp s = None /\ busy s = false.
Proof. destruct d, ff, b; vm_compute; auto. Qed.

Lemma direct_failed_save_harmless_l ff b v d t :
  t <> 0 ->
  let s := direct_save (ff, true, true) b v d t in
  file s = fst d /\ busy s = false /\
  (temp s = Some (v, TEmpty) \/ temp s = Some (v, THalf)).
Proof.
  intros T. unfold direct_save. destruct (t =? 0) eqn:E0; [apply Z.eqb_eq in E0; contradiction|].
  destruct (t =? 1); destruct d, ff, b; vm_compute; auto.
Qed.

Lemma frun_app c s a b : frun c s (a ++ b) = frun c (frun c s a) b.
Proof. apply fold_left_app. Qed.

Lemma fsave_later_good_save_lands_l ff ops i v :
  let s := frun (ff, true, true) finit (ops ++ [FGood i v]) in
  fbusy s = false /\ fst (if i =? 0 then fd0 s else fd1 s) = Some (v, TFull).
Proof.
  cbn zeta. rewrite frun_app. generalize (frun (ff, true, true) finit ops). intros s.
  cbn [frun fold_left fstep fst].
  destruct (direct_good_save_lands_l ff (fbusy s) v (if i =? 0 then fd0 s else fd1 s)) as (A & B & C).
  cbn zeta in A, B, C. change (0 =? 0) with true. cbn [b2z].
  destruct (i =? 0); cbn; rewrite ?A, ?C; auto.
Qed.

Example ex_fsave :
  let s := frun (true, true, true) finit [FGood 0 1; FFail 0 2 1 2; FFail 1 3 2 1; FGood 1 4] in
  fd0 s = (Some (1, TFull), Some (2, THalf)) /\ fd1 s = (Some (4, TFull), None) /\ fbusy s = false.
Proof. vm_compute. auto. Qed.
