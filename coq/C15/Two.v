(* C15/Two.v — two DataManagers (two files, two writer threads) sharing the class-level flag
   FileManager.is_busy, the machine's thread_stopper and the process (a crash kills both).

   Each thread is the machine of Model.v, unchanged.  The pair keeps one copy of the shared fields
   (busy, stopper, crashed) in each component; after a step of one thread the shared fields are
   copied into the other ([share]).  The schedule says which thread moves: it interleaves the two
   threads at EVERY hand-over point of Model.v, in particular between a thread's last read of
   `FileManager.is_busy` (PWait/PSpin) and its own `FileManager.is_busy = True` (end of PCopy): the
   unlocked test-and-set.  Both threads can pass the test and write at the same time, and the first
   one to finish resets the flag while the other is still writing.

   Definitions only; proofs in TwoLemmas.v. *)
From Common Require Import Prelude.
From C15 Require Import Model.
Open Scope Z_scope.

Record st2 := mk2 { ta : state; tb : state }.

(* the shared fields of [from] are written into [to] *)
Definition share (from to : state) : state :=
  mk (pc to) (final to) (data to) (dirty to) (busy from) (stopper from) (local to) (file to) (temp to)
     (crashed from).

Inductive op2 := OA (o : op) | OB (o : op).     (* Shutdown / Crash act on both, whoever carries them *)

Definition step2 (c : cfg) (s : st2) (o : op2) : st2 :=
  match o with
  | OA o => let a := step c (ta s) o in mk2 a (share a (tb s))
  | OB o => let b := step c (tb s) o in mk2 (share b (ta s)) b
  end.

Definition run2 (c : cfg) (s : st2) (ops : list op2) : st2 := fold_left (step2 c) ops s.

Definition init2 (ia ib : bool) : st2 := mk2 (init ia 0) (init ib 0).

(* ---- observation --------------------------------------------------------------------------- *)
Definition obs2 (s : st2) : list Z :=
  if crashed (ta s)
  then [99; 0; 99; 0; 0; 0] ++ (file_code (file (ta s)) :: temp_code (temp (ta s)))
                            ++ (file_code (file (tb s)) :: temp_code (temp (tb s)))
  else [pc_code (pc (ta s)); b2z (dirty (ta s)); pc_code (pc (tb s)); b2z (dirty (tb s));
        b2z (busy (ta s)); b2z (stopper (ta s))]
         ++ (file_code (file (ta s)) :: temp_code (temp (ta s)))
         ++ (file_code (file (tb s)) :: temp_code (temp (tb s))).

Fixpoint trace2 (c : cfg) (s : st2) (ops : list op2) : list (list Z) :=
  match ops with
  | [] => []
  | o :: r => let s' := step2 c s o in obs2 s' :: trace2 c s' r
  end.

Definition two_run (i : cfg * (bool * bool) * list op2) : list (list Z) :=
  let '(c, (ia, ib), ops) := i in
  obs2 (init2 ia ib) :: trace2 c (init2 ia ib) ops.

(* ---- vocabulary ---------------------------------------------------------------------------- *)
Definition opsA (ops : list op2) : list op :=
  flat_map (fun o => match o with OA o => [o] | OB _ => [] end) ops.
Definition opsB (ops : list op2) : list op :=
  flat_map (fun o => match o with OB o => [o] | OA _ => [] end) ops.

Definition inner (o : op2) : op := match o with OA o => o | OB o => o end.

(* clean history of the pair: no crash, no injected error / failed snapshot in either thread, nothing
   handed to either manager after the shutdown request *)
Definition clean2_from (stopped : bool) (ops : list op2) : bool := clean_from stopped (map inner ops).

(* a fair window: the two threads take turns, fault free *)
Fixpoint rounds (n : nat) : list op2 :=
  match n with O => [] | S k => OA Tick :: OB Tick :: rounds k end.

(* manager A has nothing pending and version v complete on disk (stable under every step of B and
   every fault-free step of A, whatever the shared flags do) *)
Definition settledA (v : Z) (s : st2) : Prop :=
  dirty (ta s) = false /\ file (ta s) = Some (v, TFull) /\
  (pc (ta s) = PRate \/ pc (ta s) = PStop \/ pc (ta s) = PWait \/ pc (ta s) = PFinal \/ pc (ta s) = PDone).

(* the shared fields agree *)
Definition coh (s : st2) : Prop :=
  busy (ta s) = busy (tb s) /\ stopper (ta s) = stopper (tb s) /\ crashed (ta s) = crashed (tb s).
