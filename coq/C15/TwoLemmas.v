(* C15/TwoLemmas.v — proofs about two managers sharing FileManager.is_busy (model: Two.v). *)
From Common Require Import Prelude.
From C15 Require Import Model Lemmas Two.
Open Scope Z_scope.

Lemma run2_app c s a b : run2 c s (a ++ b) = run2 c (run2 c s a) b.
Proof. apply fold_left_app. Qed.

Lemma run2_cons c s o r : run2 c s (o :: r) = run2 c (step2 c s o) r.
Proof. reflexivity. Qed.

Lemma opsA_app a b : opsA (a ++ b) = opsA a ++ opsA b.
Proof. apply flat_map_app. Qed.
Lemma opsB_app a b : opsB (a ++ b) = opsB a ++ opsB b.
Proof. apply flat_map_app. Qed.

(* ---- neither file is ever torn ---------------------------------------------------------------- *)
Lemma share_inv1 H i x s : inv1 H i s -> inv1 H i (share x s).
Proof. intros I. exact I. Qed.

Lemma inv1_run2 c ia ib ops :
  inv1 (saved (opsA ops)) ia (ta (run2 c (init2 ia ib) ops)) /\
  inv1 (saved (opsB ops)) ib (tb (run2 c (init2 ia ib) ops)).
Proof.
  induction ops as [|o ops IH] using rev_ind.
  - split; apply inv1_init.
  - destruct IH as [IA IB]. rewrite run2_app, opsA_app, opsB_app, !saved_app.
    cbn [run2 fold_left]. destruct o as [o|o]; cbn [step2 ta tb opsA opsB flat_map List.app saved].
    + split.
      * replace (saved (o :: [])) with (saved [o]) by reflexivity. apply inv1_step, IA.
      * rewrite List.app_nil_r. apply share_inv1, IB.
    + split.
      * rewrite List.app_nil_r. apply share_inv1, IA.
      * replace (saved (o :: [])) with (saved [o]) by reflexivity. apply inv1_step, IB.
Qed.

Lemma two_never_torn_l c ia ib ops :
  let s := run2 c (init2 ia ib) ops in
  (forall v t, file (ta s) = Some (v, t) -> t = TFull /\ (In v (saved (opsA ops)) \/ (ia = true /\ v = 100))) /\
  (forall v t, file (tb s) = Some (v, t) -> t = TFull /\ (In v (saved (opsB ops)) \/ (ib = true /\ v = 100))).
Proof.
  cbn zeta. destruct (inv1_run2 c ia ib ops) as [(A & _) (B & _)].
  split; intros v t E; [rewrite E in A; exact A|rewrite E in B; exact B].
Qed.

(* ---- the shared fields stay coherent ---------------------------------------------------------- *)
Lemma coh_step c s o : coh (step2 c s o).
Proof. destruct o; unfold coh, step2, share; cbn; auto. Qed.

Lemma coh_run c ops : forall s, coh s -> coh (run2 c s ops).
Proof.
  induction ops as [|o r IH]; intros s C; [exact C|]. rewrite run2_cons. apply IH, coh_step.
Qed.

Lemma coh_init ia ib : coh (init2 ia ib).
Proof. unfold coh, init2; cbn. auto. Qed.

(* ---- clean shutdown: every manager's last save lands ----------------------------------------- *)
Lemma share_inv2 x s :
  inv2 s -> crashed x = false -> (stopper s = true -> stopper x = true) -> inv2 (share x s).
Proof.
  intros (CR & FS & K) CX M. unfold inv2, share; cbn.
  split; [exact CX|]. split; [auto|].
  destruct (pc s); auto; destruct K; auto.
Qed.

Lemma share_ghost acc x s : ghost acc s -> ghost acc (share x s).
Proof. intros G. exact G. Qed.

Lemma clean_step2 fb fc s o accA accB :
  coh s -> inv2 (ta s) -> inv2 (tb s) -> ghost accA (ta s) -> ghost accB (tb s) ->
  clean1 (stopper (ta s)) (inner o) = true ->
  let s' := step2 (true, fb, fc) s o in
  inv2 (ta s') /\ inv2 (tb s') /\
  ghost (fold_left upd_last (opsA [o]) accA) (ta s') /\ ghost (fold_left upd_last (opsB [o]) accB) (tb s').
Proof.
  intros (C1 & C2 & C3) IA IB GA GB CL. destruct o as [o|o]; cbn [inner] in CL; cbn zeta;
    cbn [step2 ta tb opsA opsB flat_map List.app fold_left].
  - destruct (clean_step fb fc (ta s) o accA IA GA CL) as [IA' GA'].
    split; [exact IA'|]. split; [|split; [exact GA'|apply share_ghost, GB]].
    apply share_inv2; [exact IB|destruct IA'; auto|].
    intros SB. rewrite stopper_step; [|destruct IA; auto|exact CL].
    destruct o; auto; rewrite C2; exact SB.
  - rewrite C2 in CL.
    destruct (clean_step fb fc (tb s) o accB IB GB CL) as [IB' GB'].
    split; [|split; [exact IB'|split; [apply share_ghost, GA|exact GB']]].
    apply share_inv2; [exact IA|destruct IB'; auto|].
    intros SA. rewrite stopper_step; [|destruct IB; auto|exact CL].
    destruct o; auto; rewrite <- C2; exact SA.
Qed.

Lemma stopper_step2 c s o :
  coh s -> crashed (ta s) = false -> clean1 (stopper (ta s)) (inner o) = true ->
  stopper (ta (step2 c s o)) = match inner o with Shutdown => true | _ => stopper (ta s) end.
Proof.
  intros (C1 & C2 & C3) CR CL. destruct o as [o|o]; cbn [step2 ta inner share stopper] in *.
  - apply stopper_step; auto.
  - rewrite C2 in *. rewrite C3 in CR. apply stopper_step; auto.
Qed.

Lemma clean_run2 fb fc ops : forall s accA accB,
  coh s -> inv2 (ta s) -> inv2 (tb s) -> ghost accA (ta s) -> ghost accB (tb s) ->
  clean2_from (stopper (ta s)) ops = true ->
  let s' := run2 (true, fb, fc) s ops in
  inv2 (ta s') /\ inv2 (tb s') /\
  ghost (fold_left upd_last (opsA ops) accA) (ta s') /\ ghost (fold_left upd_last (opsB ops) accB) (tb s').
Proof.
  induction ops as [|o r IH]; intros s accA accB C IA IB GA GB CL; cbn zeta; [exact (conj IA (conj IB (conj GA GB)))|].
  unfold clean2_from in CL. cbn [map] in CL. apply clean_from_cons in CL as [CL1 CL2].
  destruct (clean_step2 fb fc s o accA accB C IA IB GA GB CL1) as (IA' & IB' & GA' & GB').
  rewrite run2_cons.
  change (o :: r) with ([o] ++ r). rewrite opsA_app, opsB_app, !fold_left_app.
  apply IH; auto; [apply coh_step|].
  unfold clean2_from. rewrite stopper_step2; auto. destruct IA; auto.
Qed.

Lemma two_clean_shutdown_durable_l fb fc ia ib ops :
  clean2_from false ops = true ->
  let s := run2 (true, fb, fc) (init2 ia ib) ops in
  (forall v, last_saved (opsA ops) = Some v -> pc (ta s) = PDone -> file (ta s) = Some (v, TFull)) /\
  (forall v, last_saved (opsB ops) = Some v -> pc (tb s) = PDone -> file (tb s) = Some (v, TFull)).
Proof.
  intros CL. cbn zeta.
  destruct (clean_run2 fb fc ops (init2 ia ib) None None (coh_init _ _) (inv2_init _ _) (inv2_init _ _)
              Logic.I Logic.I CL) as (IA & IB & GA & GB).
  split; intros v LS PD; unfold last_saved in LS.
  - rewrite LS in GA. destruct GA as [D P]. destruct IA as (_ & _ & K). rewrite PD in K. destruct K as [_ K].
    unfold pend in P. rewrite PD in P. destruct P as [P|P]; [congruence|]. rewrite P, D. reflexivity.
  - rewrite LS in GB. destruct GB as [D P]. destruct IB as (_ & _ & K). rewrite PD in K. destruct K as [_ K].
    unfold pend in P. rewrite PD in P. destruct P as [P|P]; [congruence|]. rewrite P, D. reflexivity.
Qed.

