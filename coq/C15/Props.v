(* C15/Props.v — property theorems only.  Each is closed by [exact] of a lemma from Lemmas.v and
   followed by Print Assumptions (parsed by the check: must be "Closed under the global context").
   Satisfiability examples for the hypotheses: ex_* at the end of Lemmas.v.

   Property C15: data handed to a data manager is on disk after a clean shutdown exactly as last
   saved, however saves and the shutdown are timed; at every instant, including a crash in the
   middle of a write, the file on disk is a complete earlier or later version, never a torn one;
   one failed write does not stop later saves; persistent machine variables reload with equal
   values unless their expiry time has passed.

   cfg = (fix_flush, fix_busy).  (true, true) models the tree with fixes/C15-final-flush.patch
   and fixes/C15-busy-finally.patch (this is what the correspondence run ties to the code);
   fix_flush = false / fix_busy = false model the code before the respective patch: for those the
   property is FALSE (the two *_refuted_orig theorems; witnesses replayed on the unpatched code,
   see NOTES.md). *)
From Common Require Import Prelude.
From C15 Require Import Model Lemmas.
Open Scope Z_scope.

(* 1. never torn — every cfg, every schedule (saves, shutdown, crashes, I/O errors at any step),
      every initial directory: whatever is in the data file is a COMPLETE version that was handed
      to save_all earlier in the schedule (or the file that was there at boot). *)
Theorem disk_never_torn :
  forall (c : cfg) (ifile : bool) (itemp : Z) (ops : list op) (v : Z) (t : tst),
    file (run c (init ifile itemp) ops) = Some (v, t) ->
    t = TFull /\ (In v (saved ops) \/ (ifile = true /\ v = 100)).
Proof. exact disk_never_torn_l. Qed.
Print Assumptions disk_never_torn.

(* os.replace is the only step that changes the data file, and it installs the temp file *)
Theorem only_replace_writes_file :
  forall c s o, file (step c s o) <> file s ->
    crashed s = false /\ pc s = PReplace /\ o = Tick /\ file (step c s o) = temp s.
Proof. exact only_replace_writes_file_l. Qed.
Print Assumptions only_replace_writes_file.

(* a crash at ANY point of ANY schedule freezes the state: what follows is irrelevant, and the
   crash itself leaves both files as they were (so theorem 1 speaks about every crash point) *)
Theorem crash_point :
  forall c s a b, run c s (a ++ Crash :: b) = run c s (a ++ [Crash]).
Proof. exact crash_point_l. Qed.
Print Assumptions crash_point.

Theorem crash_keeps_disk :
  forall c s, file (step c s Crash) = file s /\ temp (step c s Crash) = temp s.
Proof. exact crash_keeps_disk_l. Qed.
Print Assumptions crash_keeps_disk.

(* 2. clean shutdown is durable (code with the final flush; fix_busy irrelevant without errors):
      for every history without crash / injected error in which nothing is handed over after the
      shutdown request, once the writer thread has ended the file is the last version saved. *)
Theorem clean_shutdown_durable :
  forall (fb ifile : bool) (itemp : Z) (ops : list op) (v : Z),
    clean_from false ops = true ->
    last_saved ops = Some v ->
    pc (run (true, fb) (init ifile itemp) ops) = PDone ->
    file (run (true, fb) (init ifile itemp) ops) = Some (v, TFull).
Proof. exact clean_shutdown_durable_l. Qed.
Print Assumptions clean_shutdown_durable.

(* ... and it is FALSE of the code before the patch (flush after the loop is dead code):
   a save during the rate-limit sleep followed by shutdown never reaches the disk *)
Theorem clean_shutdown_durable_refuted_orig :
  forall fb, exists ops v,
    clean_from false ops = true /\ last_saved ops = Some v /\
    pc (run (false, fb) (init false 0) ops) = PDone /\
    file (run (false, fb) (init false 0) ops) <> Some (v, TFull).
Proof. exact clean_shutdown_durable_refuted_l. Qed.
Print Assumptions clean_shutdown_durable_refuted_orig.

(* 3. a failed write is not sticky (code with try/finally): after ANY history (errors included) that
      has neither crashed nor been shut down, a new save is complete on disk after at most 24
      error-free thread steps, the writer is idle again, and it stays that way. *)
Theorem failed_write_not_sticky :
  forall (ff ifile : bool) (itemp : Z) (ops : list op) (v : Z) (k : nat),
    let s := run (ff, true) (init ifile itemp) ops in
    crashed s = false -> stopper s = false ->
    settled v (run (ff, true) s (Save v :: ticks (24 + k))).
Proof. exact failed_write_not_sticky_l. Qed.
Print Assumptions failed_write_not_sticky.

Theorem busy_only_while_writing :
  forall (ff ifile : bool) (itemp : Z) (ops : list op),
    let s := run (ff, true) (init ifile itemp) ops in busy s = io_point (pc s).
Proof. exact busy_only_while_writing_l. Qed.
Print Assumptions busy_only_while_writing.

(* ... and it is FALSE of the code before the patch: one I/O error, and no later save is ever
   written, however long the thread runs (is_busy stays True, the thread spins) *)
Theorem failed_write_not_sticky_refuted_orig :
  forall ff, exists ops, forall v n,
    file (run (ff, false) (init false 0) (ops ++ Save v :: ticks n)) = None /\
    stopper (run (ff, false) (init false 0) (ops ++ Save v :: ticks n)) = false /\
    crashed (run (ff, false) (init false 0) (ops ++ Save v :: ticks n)) = false.
Proof. exact failed_write_sticky_orig_l. Qed.
Print Assumptions failed_write_not_sticky_refuted_orig.

(* 4. machine variables.  What load_machine_vars restores from a file: exactly the entries whose
      expiry has not passed, with the stored value. *)
Theorem reload_spec :
  forall now d n v,
    In (n, v) (reload now d) <-> exists e sc, In (n, (v, e, sc)) d /\ expired e now = false.
Proof. exact reload_spec_l. Qed.
Print Assumptions reload_spec.

(* Full statement: for every history, every variable marked persistent reloads with an equal value
   unless its expiry time has passed.  FALSE of the code (persist_reload_refuted: known finding
   persist-configured-not-written).  Proved with the guard [synced] = the file holds the persisted
   projection of the store, which holds after every writing op and is kept by every op except
   configure_machine_var (the next three theorems). *)
Theorem persist_reload_equal_partial :
  forall s now n x,
    synced s ->
    vlookup n (vstore s) = Some x -> vpers x = true -> expired (vtimeout x) now = false ->
    In (n, vval x) (reload now (vdisk s)).
Proof. exact persist_reload_equal_partial_l. Qed.
Print Assumptions persist_reload_equal_partial.

Theorem reload_only_persisted :
  forall s now n v,
    synced s -> In (n, v) (reload now (vdisk s)) ->
    exists x, In (n, x) (vstore s) /\ vpers x = true /\ vval x = v /\ expired (vtimeout x) now = false.
Proof. exact reload_only_persisted_l. Qed.
Print Assumptions reload_only_persisted.

Theorem write_syncs :
  forall s o, vwrites (vstep s o) <> vwrites s -> synced (vstep s o).
Proof. exact write_syncs_l. Qed.
Print Assumptions write_syncs.

Theorem synced_unless_configure :
  forall ops s, synced s -> forallb (fun o => negb (is_conf o)) ops = true -> synced (vrun s ops).
Proof. exact synced_run_l. Qed.
Print Assumptions synced_unless_configure.

Theorem persist_reload_refuted :
  exists ops n x now,
    vlookup n (vstore (vrun vinit ops)) = Some x /\ vpers x = true /\
    expired (vtimeout x) now = false /\
    ~ In (n, vval x) (reload now (vdisk (vrun vinit ops))).
Proof. exact persist_reload_refuted_l. Qed.
Print Assumptions persist_reload_refuted.

(* 5. FileManager.save called directly (tie: suite "fsave", real ruamel dumper, faults injected in
      write() and by unrepresentable values).  A save that raises leaves the data file and the flag
      untouched and the temp file incomplete; whatever failed before, a later good save is on disk. *)
Theorem direct_good_save_lands :
  forall ff b v d, let s := direct_save (ff, true) b v d 0 in
    file s = Some (v, TFull) /\ temp s = None /\ busy s = false.
Proof. exact direct_good_save_lands_l. Qed.
Print Assumptions direct_good_save_lands.

Theorem direct_failed_save_harmless :
  forall ff b v d t, t <> 0 ->
    let s := direct_save (ff, true) b v d t in
    file s = fst d /\ busy s = false /\ (temp s = Some (v, TEmpty) \/ temp s = Some (v, THalf)).
Proof. exact direct_failed_save_harmless_l. Qed.
Print Assumptions direct_failed_save_harmless.

Theorem fsave_later_good_save_lands :
  forall ff ops i v, let s := frun (ff, true) finit (ops ++ [FGood i v]) in
    fbusy s = false /\ fst (if i =? 0 then fd0 s else fd1 s) = Some (v, TFull).
Proof. exact fsave_later_good_save_lands_l. Qed.
Print Assumptions fsave_later_good_save_lands.
