(* C15/Props.v — property theorems only.  Each is closed by [exact] of a lemma from Lemmas.v and
   followed by Print Assumptions (parsed by the check: must be "Closed under the global context").
   Satisfiability examples for the hypotheses: ex_* at the end of Lemmas.v.

   Property C15: data handed to a data manager is on disk after a clean shutdown exactly as last
   saved, however saves and the shutdown are timed; at every instant, including a crash in the
   middle of a write, the file on disk is a complete earlier or later version, never a torn one;
   one failed write does not stop later saves; persistent machine variables reload with equal
   values unless their expiry time has passed.

   cfg = (fix_flush, fix_busy, fix_copy).  (true, true, true) models the tree with
   fixes/C15-final-flush.patch, fixes/C15-busy-finally.patch and fixes/C15-snapshot-in-try.patch
   (this is what the correspondence run ties to the code); a component = false models the code before
   the respective patch: for those the property is FALSE (the three *_refuted_orig theorems; witnesses
   replayed on the unpatched code, see NOTES.md).
   Sections: 1-3 one manager; 4 machine variables; 5 direct FileManager.save; 6 two managers sharing
   FileManager.is_busy (Two.v); 7 crash points at os-call level, 8 power loss (Crash.v); 9 the
   snapshot under concurrent assignments (Copy.v); 10 the shutdown path (_do_stop) and failed snapshots at
   shutdown (Stop.v); 11 remove_machine_var and the reboot (Vars2.v). *)
From Common Require Import Prelude.
From C15 Require Import Model Lemmas Two TwoLemmas TwoLive Crash Copy Stop Vars2.
Open Scope Z_scope.

(* 1. never torn — every cfg, every schedule (saves, shutdown, crashes, I/O errors at any step),
      every initial directory: whatever is in the data file is a COMPLETE version that was handed
      to save_all earlier in the schedule (or the file that was there at boot). *)
Theorem disk_never_torn :
  forall (c : cfg) (ifile : bool) (itemp : Z) (ops : list op) (v : Z) (t : tst),
    file (run c (init ifile itemp) ops) = Some (v, t) ->
    t = TFull /\ (In v (saved ops) \/ (ifile = true /\ v = 100)).
Proof. exact disk_never_torn_l. Qed.
Print Assumptions disk_never_torn.

(* os.replace is the only step that changes the data file, and it installs the temp file *)
Theorem only_replace_writes_file :
  forall c s o, file (step c s o) <> file s ->
    crashed s = false /\ pc s = PReplace /\ (o = Tick \/ o = CopyFail) /\ file (step c s o) = temp s.
Proof. exact only_replace_writes_file_l. Qed.
Print Assumptions only_replace_writes_file.

(* a crash at ANY point of ANY schedule freezes the state: what follows is irrelevant, and the
   crash itself leaves both files as they were (so theorem 1 speaks about every crash point) *)
Theorem crash_point :
  forall c s a b, run c s (a ++ Crash :: b) = run c s (a ++ [Crash]).
Proof. exact crash_point_l. Qed.
Print Assumptions crash_point.

Theorem crash_keeps_disk :
  forall c s, file (step c s Crash) = file s /\ temp (step c s Crash) = temp s.
Proof. exact crash_keeps_disk_l. Qed.
Print Assumptions crash_keeps_disk.

(* 2. clean shutdown is durable (code with the final flush; fix_busy irrelevant without errors):
      for every history without crash / injected error in which nothing is handed over after the
      shutdown request, once the writer thread has ended the file is the last version saved. *)
Theorem clean_shutdown_durable :
  forall (fb fc ifile : bool) (itemp : Z) (ops : list op) (v : Z),
    clean_from false ops = true ->
    last_saved ops = Some v ->
    pc (run (true, fb, fc) (init ifile itemp) ops) = PDone ->
    file (run (true, fb, fc) (init ifile itemp) ops) = Some (v, TFull).
Proof. exact clean_shutdown_durable_l. Qed.
Print Assumptions clean_shutdown_durable.

(* ... and it is FALSE of the code before the patch (flush after the loop is dead code):
   a save during the rate-limit sleep followed by shutdown never reaches the disk *)
Theorem clean_shutdown_durable_refuted_orig :
  forall fb fc, exists ops v,
    clean_from false ops = true /\ last_saved ops = Some v /\
    pc (run (false, fb, fc) (init false 0) ops) = PDone /\
    file (run (false, fb, fc) (init false 0) ops) <> Some (v, TFull).
Proof. exact clean_shutdown_durable_refuted_l. Qed.
Print Assumptions clean_shutdown_durable_refuted_orig.

(* 3. a failed write is not sticky (code with try/finally): after ANY history (errors included) that
      has neither crashed nor been shut down, a new save is complete on disk after at most 24
      error-free thread steps, the writer is idle again, and it stays that way. *)
Theorem failed_write_not_sticky :
  forall (ff ifile : bool) (itemp : Z) (ops : list op) (v : Z) (k : nat),
    let s := run (ff, true, true) (init ifile itemp) ops in
    crashed s = false -> stopper s = false ->
    settled v (run (ff, true, true) s (Save v :: ticks (24 + k))).
Proof. exact failed_write_not_sticky_l. Qed.
Print Assumptions failed_write_not_sticky.

Theorem busy_only_while_writing :
  forall (ff ifile : bool) (itemp : Z) (ops : list op),
    let s := run (ff, true, true) (init ifile itemp) ops in busy s = io_point (pc s).
Proof. exact busy_only_while_writing_l. Qed.
Print Assumptions busy_only_while_writing.

(* ... and it is FALSE of the code before the patch: one I/O error, and no later save is ever
   written, however long the thread runs (is_busy stays True, the thread spins) *)
Theorem failed_write_not_sticky_refuted_orig :
  forall ff fc, exists ops, forall v n,
    file (run (ff, false, fc) (init false 0) (ops ++ Save v :: ticks n)) = None /\
    stopper (run (ff, false, fc) (init false 0) (ops ++ Save v :: ticks n)) = false /\
    crashed (run (ff, false, fc) (init false 0) (ops ++ Save v :: ticks n)) = false.
Proof. exact failed_write_sticky_orig_l. Qed.
Print Assumptions failed_write_not_sticky_refuted_orig.

(* 3b. a failed SNAPSHOT (copy.deepcopy(self.data) raises because the main thread changed the size of
      the live dict during the copy; ops [CopyFail]).  failed_write_not_sticky above already covers
      histories with CopyFail for the code with fixes/C15-snapshot-in-try.patch (fix_copy = true).
      It is FALSE of the code before the patch: the exception escapes _writing_thread, the writer
      thread of that manager is dead, no later save is ever written (reproduced on the real code). *)
Theorem snapshot_failure_not_sticky_refuted_orig :
  forall ff fb, exists ops, forall v n,
    file (run (ff, fb, false) (init false 0) (ops ++ Save v :: ticks n)) = None /\
    stopper (run (ff, fb, false) (init false 0) (ops ++ Save v :: ticks n)) = false /\
    crashed (run (ff, fb, false) (init false 0) (ops ++ Save v :: ticks n)) = false.
Proof. exact snapshot_failure_sticky_orig_l. Qed.
Print Assumptions snapshot_failure_not_sticky_refuted_orig.

(* fixed code: the snapshot that failed is retried by the thread itself (dirty is set again): the data
   lands within 24 steps without a new save_all *)
Theorem snapshot_failure_retried :
  forall (ff ifile : bool) (itemp : Z) (ops : list op) (k : nat),
    let s := run (ff, true, true) (init ifile itemp) ops in
    crashed s = false -> stopper s = false -> pc s = PCopy ->
    settled (data s) (run (ff, true, true) s (CopyFail :: ticks (24 + k))).
Proof. exact snapshot_failure_retried_l. Qed.
Print Assumptions snapshot_failure_retried.

(* 4. machine variables.  What load_machine_vars restores from a file: exactly the entries whose
      expiry has not passed, with the stored value. *)
Theorem reload_spec :
  forall now d n v,
    In (n, v) (reload now d) <-> exists e sc, In (n, (v, e, sc)) d /\ expired e now = false.
Proof. exact reload_spec_l. Qed.
Print Assumptions reload_spec.

(* Full statement: for every history, every variable marked persistent reloads with an equal value
   unless its expiry time has passed.  FALSE of the code (persist_reload_refuted: known finding
   persist-configured-not-written).  Proved with the guard [synced] = the file holds the persisted
   projection of the store, which holds after every writing op and is kept by every op except
   configure_machine_var (the next three theorems). *)
Theorem persist_reload_equal_partial :
  forall s now n x,
    synced s ->
    vlookup n (vstore s) = Some x -> vpers x = true -> expired (vtimeout x) now = false ->
    In (n, vval x) (reload now (vdisk s)).
Proof. exact persist_reload_equal_partial_l. Qed.
Print Assumptions persist_reload_equal_partial.

Theorem reload_only_persisted :
  forall s now n v,
    synced s -> In (n, v) (reload now (vdisk s)) ->
    exists x, In (n, x) (vstore s) /\ vpers x = true /\ vval x = v /\ expired (vtimeout x) now = false.
Proof. exact reload_only_persisted_l. Qed.
Print Assumptions reload_only_persisted.

Theorem write_syncs :
  forall s o, vwrites (vstep s o) <> vwrites s -> synced (vstep s o).
Proof. exact write_syncs_l. Qed.
Print Assumptions write_syncs.

Theorem synced_unless_configure :
  forall ops s, synced s -> forallb (fun o => negb (is_conf o)) ops = true -> synced (vrun s ops).
Proof. exact synced_run_l. Qed.
Print Assumptions synced_unless_configure.

Theorem persist_reload_refuted :
  exists ops n x now,
    vlookup n (vstore (vrun vinit ops)) = Some x /\ vpers x = true /\
    expired (vtimeout x) now = false /\
    ~ In (n, vval x) (reload now (vdisk (vrun vinit ops))).
Proof. exact persist_reload_refuted_l. Qed.
Print Assumptions persist_reload_refuted.

(* 4b. load side.  Values are tokens: a token stands for a class of values equal under Python's ==
      (0 / 0.0 / False; '' ; [] ; {} ; strings, lists, dicts, nested), so the theorems of this section
      hold for every value type; that the real YAML round trip maps every such value to an equal one is
      checked on the code (suites vars / writer).  A file that is unusable as a whole boots with no
      variables; a malformed entry is skipped and does not affect any other entry. *)
Theorem bad_file_boots_empty :
  forall t now d, 1 <= t < 10 -> reload now (tampered t d) = [].
Proof. exact bad_file_boots_empty_l. Qed.
Print Assumptions bad_file_boots_empty.

Theorem malformed_entry_only_drops_itself :
  forall n now d m v, In (m, v) (reload now (drop n d)) <-> m <> n /\ In (m, v) (reload now d).
Proof. exact malformed_entry_only_drops_itself_l. Qed.
Print Assumptions malformed_entry_only_drops_itself.

(* 5. FileManager.save called directly (tie: suite "fsave", real ruamel dumper, faults injected in
      write() and by unrepresentable values).  A save that raises leaves the data file and the flag
      untouched and the temp file incomplete; whatever failed before, a later good save is on disk. *)
Theorem direct_good_save_lands :
  forall ff b v d, let s := direct_save (ff, true, true) b v d 0 in
    file s = Some (v, TFull) /\ temp s = None /\ busy s = false.
Proof. exact direct_good_save_lands_l. Qed.
Print Assumptions direct_good_save_lands.

Theorem direct_failed_save_harmless :
  forall ff b v d t, t <> 0 ->
    let s := direct_save (ff, true, true) b v d t in
    file s = fst d /\ busy s = false /\ (temp s = Some (v, TEmpty) \/ temp s = Some (v, THalf)).
Proof. exact direct_failed_save_harmless_l. Qed.
Print Assumptions direct_failed_save_harmless.

Theorem fsave_later_good_save_lands :
  forall ff ops i v, let s := frun (ff, true, true) finit (ops ++ [FGood i v]) in
    fbusy s = false /\ fst (if i =? 0 then fd0 s else fd1 s) = Some (v, TFull).
Proof. exact fsave_later_good_save_lands_l. Qed.
Print Assumptions fsave_later_good_save_lands.

(* 6. SEVERAL data managers (machine_vars, audits, earnings, high_scores: one writer thread each) share the
      class-level flag FileManager.is_busy, which is tested (`while FileManager.is_busy`) and set
      (`FileManager.is_busy = True`) without a lock.  Model Two.v: two threads of the machine above, the
      schedule interleaves them at every hand-over point (tie: suite "two", two real writer threads).
      The race is real (two_race_witness: both threads inside FileManager.save, flag down while one is
      still writing) and harmless for the property, because every manager writes its own temp file: *)
Theorem two_never_torn :
  forall (c : cfg) (ia ib : bool) (ops : list op2),
    let s := run2 c (init2 ia ib) ops in
    (forall v t, file (ta s) = Some (v, t) -> t = TFull /\ (In v (saved (opsA ops)) \/ (ia = true /\ v = 100))) /\
    (forall v t, file (tb s) = Some (v, t) -> t = TFull /\ (In v (saved (opsB ops)) \/ (ib = true /\ v = 100))).
Proof. exact two_never_torn_l. Qed.
Print Assumptions two_never_torn.

(* every manager's last save is on disk once its thread has ended after a clean shutdown, for every
   interleaving of the two threads *)
Theorem two_clean_shutdown_durable :
  forall (fb fc ia ib : bool) (ops : list op2),
    clean2_from false ops = true ->
    let s := run2 (true, fb, fc) (init2 ia ib) ops in
    (forall v, last_saved (opsA ops) = Some v -> pc (ta s) = PDone -> file (ta s) = Some (v, TFull)) /\
    (forall v, last_saved (opsB ops) = Some v -> pc (tb s) = PDone -> file (tb s) = Some (v, TFull)).
Proof. exact two_clean_shutdown_durable_l. Qed.
Print Assumptions two_clean_shutdown_durable.

(* a failed write / failed snapshot of one manager does not block the other: after ANY history of the
   pair (errors in either thread included) that has neither crashed nor been shut down, a new save to
   A is complete on disk after at most 24 fault-free rounds in which the two threads take turns, and
   stays there.  (Fairness is needed: a thread that is never scheduled while the flag is down waits
   for ever; the real threads sleep 0.2 s / >= 1 s.) *)
Theorem two_failed_write_not_sticky :
  forall (ff ia ib : bool) (ops : list op2) (v : Z) (k : nat),
    let s := run2 (ff, true, true) (init2 ia ib) ops in
    crashed (ta s) = false -> stopper (ta s) = false ->
    settledA v (run2 (ff, true, true) s (OA (Save v) :: rounds (WINDOW + k))).
Proof. exact two_failed_write_not_sticky_l. Qed.
Print Assumptions two_failed_write_not_sticky.

Theorem two_busy_only_while_writing :
  forall (ff ia ib : bool) (ops : list op2),
    let s := run2 (ff, true, true) (init2 ia ib) ops in
    busy (ta s) = true -> io_point (pc (ta s)) || io_point (pc (tb s)) = true.
Proof. exact two_busy_only_while_writing_l. Qed.
Print Assumptions two_busy_only_while_writing.

Theorem two_race_witness :
  let s := run2 (true, true, true) (init2 false false) (firstn 12 ops_race) in
  let s' := run2 (true, true, true) (init2 false false) ops_race in
  io_point (pc (ta s)) = true /\ io_point (pc (tb s)) = true /\
  busy (ta s') = false /\ io_point (pc (tb s')) = true /\ file (ta s') = Some (1, TFull).
Proof. exact two_race_witness_l. Qed.
Print Assumptions two_race_witness.

(* 7. Crash points at the level of os calls (Crash.v part 1).  A save is a sequence of calls on the
      directory; a crash can fall after any prefix.  General criterion: if the only calls that touch
      the data file are renames of a COMPLETE file onto it, then after EVERY prefix the data file is
      what it was or a complete version. *)
Theorem calls_safe_every_crash_point :
  forall (cs : list call) (d : dir) (k : nat),
    calls_safe d cs = true -> file_ok_after d (firstn k cs).
Proof. exact calls_safe_prefix_l. Qed.
Print Assumptions calls_safe_every_crash_point.

(* the calls FileManager.save performs satisfy it, whatever is in the directory ... *)
Theorem save_calls_safe : forall d v, calls_safe d (save_calls v) = true.
Proof. exact save_calls_safe_l. Qed.
Print Assumptions save_calls_safe.

(* ... and they are what the pc machine does between POpen and the end of PReplace *)
Theorem machine_performs_save_calls :
  forall c s k, pc s = POpen -> crashed s = false -> (k <= 4)%nat ->
    let s' := run c s (ticks k) in
    file s' = after (dir_of s) (firstn k (save_calls (local s))) NFile /\
    temp s' = after (dir_of s) (firstn k (save_calls (local s))) NTemp.
Proof. exact machine_performs_save_calls_l. Qed.
Print Assumptions machine_performs_save_calls.

(* any extra rename / remove between the temp write and the final replace, or writing in place, is a
   violation at some crash point (the data file vanishes / is half written) *)
Theorem rotation_refuted :
  exists d v k, d NFile = Some (1, TFull) /\ after d (firstn k (rotation_calls v)) NFile = None /\
                calls_safe d (rotation_calls v) = false.
Proof. exact rotation_refuted_l. Qed.
Print Assumptions rotation_refuted.

Theorem remove_first_refuted :
  exists d v k, d NFile = Some (1, TFull) /\ after d (firstn k (remove_first_calls v)) NFile = None /\
                calls_safe d (remove_first_calls v) = false.
Proof. exact remove_first_refuted_l. Qed.
Print Assumptions remove_first_refuted.

Theorem in_place_refuted :
  exists d v k, d NFile = Some (1, TFull) /\ after d (firstn k (in_place_calls v)) NFile = Some (v, THalf) /\
                calls_safe d (in_place_calls v) = false.
Proof. exact in_place_refuted_l. Qed.
Print Assumptions in_place_refuted.

(* 8. Power loss (Crash.v part 2; MODELLED ASSUMPTION, not tied to the code): with ordered write-back
      the durable data file - what the next boot sees after a power cut at any point - is a complete
      saved version; with unordered write-back (rename durable before the data) it can be empty.
      The code does not fsync. *)
Theorem power_loss_never_torn_ordered :
  forall c ifile itemp ops v t,
    ordered ops = true ->
    let s := prun c (pinit ifile itemp) ops in
    (dfile s = Some (v, t) -> t = TFull /\ (In v (psaved ops) \/ (ifile = true /\ v = 100))) /\
    (file (vol s) = Some (v, t) -> t = TFull /\ (In v (psaved ops) \/ (ifile = true /\ v = 100))).
Proof. exact power_loss_never_torn_ordered_l. Qed.
Print Assumptions power_loss_never_torn_ordered.

Theorem power_loss_torn_refuted_unordered :
  exists ops, file (vol (prun (true, true, true) (pinit false 0) ops)) = Some (1, TEmpty) /\
              crashed (vol (prun (true, true, true) (pinit false 0) ops)) = true.
Proof. exact power_loss_torn_refuted_unordered_l. Qed.
Print Assumptions power_loss_torn_refuted_unordered.

(* 9. The snapshot (Copy.v; tie: suite "snap").  The writer thread copies the live dict cell by cell while
      the main thread may assign cells.  Guaranteed: every cell of what is written held that value at some
      instant of the copy.  Without interference the snapshot is the dict.  NOT guaranteed: that the
      snapshot as a whole is a state the dict ever was in (known finding snapshot-mixes-versions). *)
Theorem snapshot_cellwise :
  forall l ops j x, nth_error (snap (crun (mkc l []) ops)) j = Some x ->
    exists pre post, ops = pre ++ post /\ nth_error (live (crun (mkc l []) pre)) j = Some x.
Proof. exact snapshot_cellwise_l. Qed.
Print Assumptions snapshot_cellwise.

Theorem snapshot_exact_without_interference :
  forall l, snap (crun (mkc l []) (repeat CCopy (length l))) = l.
Proof. exact snapshot_exact_without_interference_l. Qed.
Print Assumptions snapshot_exact_without_interference.

Theorem snapshot_consistent_refuted :
  exists l ops, snap (crun (mkc l []) ops) = [1; 2] /\ length (snap (crun (mkc l []) ops)) = length l /\
                forall pre post, ops = pre ++ post -> live (crun (mkc l []) pre) <> snap (crun (mkc l []) ops).
Proof. exact snapshot_mixed_refuted_l. Qed.
Print Assumptions snapshot_consistent_refuted.

(* 10. The shutdown path (Stop.v; tie: suite "stop", which runs the real MachineController._do_stop / shutdown
       with a real EventManager).  First: clean shutdown is durable for histories WITH failed snapshots
       (CopyFail) before the shutdown request - the strengthening of theorem 2 that the except branch's
       `self._dirty.set()` buys. *)
Theorem clean_shutdown_durable_failed_snapshots :
  forall (fb ifile : bool) (itemp : Z) (ops : list op) (v : Z),
    cleanc_from false ops = true ->
    last_saved ops = Some v ->
    pc (run (true, fb, true) (init ifile itemp) ops) = PDone ->
    file (run (true, fb, true) (init ifile itemp) ops) = Some (v, TFull).
Proof. exact clean_shutdown_durable_failed_snapshots_l. Qed.
Print Assumptions clean_shutdown_durable_failed_snapshots.

(* ... and FALSE of a writer that does not set _dirty again when the snapshot failed (run_nd): the data is
   neither retried nor flushed *)
Theorem snapshot_not_rearmed_refuted :
  exists ops v,
    cleanc_from false ops = true /\ last_saved ops = Some v /\
    pc (run_nd (true, true, true) (init false 0) ops) = PDone /\
    file (run_nd (true, true, true) (init false 0) ops) <> Some (v, TFull).
Proof. exact snapshot_not_rearmed_refuted_l. Qed.
Print Assumptions snapshot_not_rearmed_refuted.

(* _do_stop: every save issued before or DURING _do_stop - by the handlers of the shutdown event and of the
   events they post, in any number, with the writer thread at any point of its loop when _do_stop starts and
   running at any speed meanwhile, failed snapshots included - is followed by the shutdown request; once the
   writer thread has ended the last of them is on disk ... *)
Theorem do_stop_durable :
  forall (fb ifile : bool) (itemp : Z) (pre : list op) (hs : list (list op)) (post : list op) (v : Z),
    quiet pre = true -> forallb quiet hs = true -> forallb is_tick post = true ->
    last_saved (pre ++ concat hs) = Some v ->
    pc (run (true, fb, true) (init ifile itemp) (stop_ops pre hs post)) = PDone ->
    file (run (true, fb, true) (init ifile itemp) (stop_ops pre hs post)) = Some (v, TFull).
Proof. exact do_stop_durable_l. Qed.
Print Assumptions do_stop_durable.

(* ... and the writer thread does end: after ANY history, 24 thread steps after the shutdown request *)
Theorem stop_terminates :
  forall (ff ifile : bool) (itemp : Z) (ops : list op) (k : nat),
    let s := run (ff, true, true) (init ifile itemp) ops in
    crashed s = false -> stopper s = true ->
    pc (run (ff, true, true) s (ticks (24 + k))) = PDone.
Proof. exact stop_terminates_l. Qed.
Print Assumptions stop_terminates.

(* the ORDER inside _do_stop is needed: with the shutdown request made before the handlers run, a save from a
   handler of the shutdown event is lost *)
Theorem stopper_before_handlers_refuted :
  exists pre hs post v,
    quiet pre = true /\ forallb quiet hs = true /\ forallb is_tick post = true /\
    last_saved (pre ++ concat hs) = Some v /\
    pc (run (true, true, true) (init false 0) (early_stop_ops pre hs post)) = PDone /\
    file (run (true, true, true) (init false 0) (early_stop_ops pre hs post)) <> Some (v, TFull).
Proof. exact stopper_before_handlers_refuted_l. Qed.
Print Assumptions stopper_before_handlers_refuted.

(* 11. remove_machine_var (Vars2.v; tie: suite "vars" with removals as the last change before power off).
       After remove_machine_var(n) - as the last op, or followed by anything that does not set or configure
       n again - no boot at any time reloads n, with any value.  (The converse of persist_reload_equal:
       what is not a variable any more does not come back.) *)
Theorem removed_var_not_reloaded :
  forall (ops : list vop) (n : Z) (tail : list vop) (now : Z) (v : option Z),
    forallb (not_creating n) tail = true ->
    ~ In (n, v) (reload now (vdisk (vrun vinit (ops ++ VRemove n :: tail)))).
Proof. exact removed_var_not_reloaded_l. Qed.
Print Assumptions removed_var_not_reloaded.

(* ... and FALSE of a remove_machine_var that writes the file before deleting the variable (vstep_wb) *)
Theorem remove_write_before_delete_refuted :
  exists ops n now v,
    In (n, v) (reload now (vdisk (fold_left vstep_wb (ops ++ [VRemove n]) vinit))) /\
    vlookup n (vstore (fold_left vstep_wb (ops ++ [VRemove n]) vinit)) = None.
Proof. exact remove_write_before_delete_refuted_l. Qed.
Print Assumptions remove_write_before_delete_refuted.
