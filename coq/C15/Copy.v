(* C15/Copy.v — what copy.deepcopy(self.data) in the writer thread guarantees when the main thread
   keeps assigning values in the live dict it handed to save_all (Auditor, credits, high_score do).

   The dict is a list of cells (top-level values, in iteration order).  deepcopy copies cell by cell,
   front to back; the main thread can run between any two cell copies (GIL hand-over) and assign any
   cell ([CSet]; a change of the SIZE of the dict is the CopyFail op of Model.v).

   Guarantee ([snapshot_cellwise]): every cell of the snapshot holds a value that this cell had at some
   instant between the start and the end of the copy.  NOT guaranteed ([snapshot_mixed_refuted]): that
   the snapshot as a whole is a state the dict ever was in - what is written can mix an earlier and a
   later version (known finding snapshot-mixes-versions).  A caller that calls save_all after its
   assignments sets dirty again, so the complete later version is written next (Model.v: the Save
   op at any pc; failed_write_not_sticky / clean_shutdown_durable). *)
From Common Require Import Prelude.
Open Scope Z_scope.

Record cst := mkc { live : list Z; snap : list Z }.

Inductive cop :=
| CCopy                      (* the writer thread copies the next cell             *)
| CSet (i : nat) (v : Z).    (* the main thread assigns cell i of the live dict    *)

Fixpoint upd_nth (i : nat) (v : Z) (l : list Z) : list Z :=
  match l, i with
  | [], _ => []
  | _ :: r, O => v :: r
  | x :: r, S k => x :: upd_nth k v r
  end.

Definition cstep (s : cst) (o : cop) : cst :=
  match o with
  | CCopy => match nth_error (live s) (length (snap s)) with
             | Some x => mkc (live s) (snap s ++ [x])
             | None => s
             end
  | CSet i v => mkc (upd_nth i v (live s)) (snap s)
  end.

Definition crun (s : cst) (ops : list cop) : cst := fold_left cstep ops s.

(* one pre-emption point after h cells (what the harness can produce with its hook inside the dict) *)
Definition one_preemption (h : nat) (assigns : list (nat * Z)) (rest : nat) : list cop :=
  repeat CCopy h ++ map (fun a => CSet (fst a) (snd a)) assigns ++ repeat CCopy rest.

Definition zn (z : Z) : nat := Z.to_nat z.

Definition snap_run (i : list Z * Z * list (Z * Z)) : list (list Z) :=
  let '(l, h, assigns) := i in
  let s := crun (mkc l []) (one_preemption (zn h) (map (fun a => (zn (fst a), snd a)) assigns)
                                           (length l - zn h)) in
  [snap s; live s].

(* ---- proofs ------------------------------------------------------------------------------------ *)
Lemma crun_app s a b : crun s (a ++ b) = crun (crun s a) b.
Proof. apply fold_left_app. Qed.

Lemma snapshot_cellwise_l l ops :
  forall j x, nth_error (snap (crun (mkc l []) ops)) j = Some x ->
  exists pre post, ops = pre ++ post /\ nth_error (live (crun (mkc l []) pre)) j = Some x.
Proof.
  induction ops as [|o ops IH] using rev_ind; intros j x E.
  - cbn in E. destruct j; discriminate.
  - rewrite crun_app in E. cbn [crun fold_left] in E.
    set (s := crun (mkc l []) ops) in *.
    destruct o as [|i v]; cbn [cstep] in E.
    + destruct (nth_error (live s) (length (snap s))) as [y|] eqn:N.
      * cbn [snap] in E. destruct (Nat.lt_ge_cases j (length (snap s))) as [L|G].
        -- rewrite nth_error_app1 in E by exact L. destruct (IH j x E) as (pre & post & -> & P).
           exists pre, (post ++ [CCopy]). split; [rewrite List.app_assoc; reflexivity|exact P].
        -- rewrite nth_error_app2 in E by exact G.
           destruct (j - length (snap s))%nat as [|k] eqn:D; [|destruct k; discriminate].
           cbn in E. inversion E; subst y. assert (j = length (snap s)) by lia. subst j.
           exists ops, [CCopy]. split; [reflexivity|exact N].
      * destruct (IH j x E) as (pre & post & -> & P).
        exists pre, (post ++ [CCopy]). split; [rewrite List.app_assoc; reflexivity|exact P].
    + cbn [snap] in E. destruct (IH j x E) as (pre & post & -> & P).
      exists pre, (post ++ [CSet i v]). split; [rewrite List.app_assoc; reflexivity|exact P].
Qed.

(* without interference the snapshot is the dict *)
Lemma firstn_snoc {A} (l : list A) : forall k x, nth_error l k = Some x -> firstn (S k) l = firstn k l ++ [x].
Proof.
  induction l as [|y r IH]; intros k x E; [destruct k; discriminate|].
  destruct k as [|k]; cbn in *; [inversion E; reflexivity|]. f_equal. apply IH, E.
Qed.

Lemma copies_l l n : forall sn, sn = firstn (length sn) l ->
  snap (crun (mkc l sn) (repeat CCopy n)) = firstn (length sn + n) l /\
  live (crun (mkc l sn) (repeat CCopy n)) = l.
Proof.
  unfold crun. induction n as [|n IH]; intros sn E.
  - cbn. rewrite Nat.add_0_r. auto.
  - cbn [repeat fold_left cstep live snap].
    destruct (nth_error l (length sn)) as [y|] eqn:N.
    + specialize (IH (sn ++ [y])). rewrite app_length in IH. cbn [length] in IH.
      replace (length sn + 1)%nat with (S (length sn)) in IH by lia.
      rewrite (firstn_snoc l _ _ N) in IH. rewrite <- E in IH. specialize (IH eq_refl).
      replace (length sn + S n)%nat with (S (length sn) + n)%nat by lia. exact IH.
    + specialize (IH sn E). destruct IH as [I1 I2]. split; [|exact I2]. rewrite I1.
      apply nth_error_None in N. rewrite !firstn_all2 by lia. reflexivity.
Qed.

Lemma snapshot_exact_without_interference_l l :
  snap (crun (mkc l []) (repeat CCopy (length l))) = l.
Proof.
  destruct (copies_l l (length l) [] eq_refl) as [A _]. rewrite A. cbn. apply firstn_all.
Qed.

(* the snapshot can be a state the dict never was in *)
Definition ops_mixed : list cop := [CCopy; CSet 0 2; CSet 1 2; CCopy].

Lemma snapshot_mixed_refuted_l :
  exists l ops, snap (crun (mkc l []) ops) = [1; 2] /\ length (snap (crun (mkc l []) ops)) = length l /\
                forall pre post, ops = pre ++ post -> live (crun (mkc l []) pre) <> snap (crun (mkc l []) ops).
Proof.
  exists [1; 1], ops_mixed. split; [reflexivity|]. split; [reflexivity|].
  intros pre post E.
  destruct pre as [|a [|b [|c [|d [|e pre]]]]]; cbn in E; inversion E; subst; cbn; try discriminate.
Qed.

Example ex_snap_run :
  snap_run ([1; 1; 1], 1, [(0, 2); (2, 3)]) = [[1; 1; 3]; [2; 1; 3]].
Proof. vm_compute. reflexivity. Qed.
