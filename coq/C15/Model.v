(* C15/Model.v — executable model of the persistent-data writer:
     mpf/core/data_manager.py   DataManager.save_all, DataManager._writing_thread
     mpf/core/file_manager.py   FileManager.save  (temp file "_<name>" + os.replace, global flag is_busy)
     mpf/file_interfaces/yaml_interface.py  YamlInterface.save (open(temp,'w'); dump; close)
   and of machine-variable persistence (mpf/core/machine_vars.py), second half of the file.

   The writer thread is a program-counter machine.  A pc names the call at which the thread is
   standing (the next thing it will do); one [Tick] executes that call and everything up to the
   next such call.  The environment (main thread, operator, kernel) acts between two ticks:
   [Save v] = DataManager.save_all(v), [Shutdown] = machine.thread_stopper.set(), [Crash] = the
   process dies (whatever is on disk stays), [IoError] = like Tick, but if the pending call is one
   of the four I/O calls it raises OSError instead of being executed.  The schedule is the op list.

   [CopyFail] = like Tick, but if the pending call is copy.deepcopy(self.data) the main thread
   changes the size of the live dict while the copy iterates it: deepcopy raises RuntimeError.

   [cfg] = (fix_flush, fix_busy, fix_copy) selects the code that is modelled:
     fix_flush = false : the code before fixes/C15-final-flush.patch   (`if data and dirty` — data is always None)
     fix_busy  = false : the code before fixes/C15-busy-finally.patch  (is_busy not reset when save raises)
     fix_copy  = false : the code before fixes/C15-snapshot-in-try.patch (deepcopy outside the try: the
                         RuntimeError ends the writer thread)
   (true, true, true) is the tree with all patches; the correspondence run uses that one.

   Versions of the data are abstract tokens (Z); 0 is the empty store ({}), 100 a pre-existing file.
   Definitions only; proofs are in Lemmas.v. *)
From Common Require Import Prelude.
Open Scope Z_scope.

Inductive pcT :=
| PInit      (* time.sleep(min_wait_secs)  before the loop                      *)
| PStop      (* machine.thread_stopper.is_set()   (loop condition)              *)
| PWait      (* self._dirty.wait(1)                                             *)
| PSpin      (* time.sleep(0.2)   inside `while FileManager.is_busy`            *)
| PClear     (* self._dirty.clear(); then the reference self.data is read       *)
| PCopy      (* copy.deepcopy(<that object>); then FileManager.save: is_busy = True *)
| POpen      (* open(temp, 'w')            creates / truncates the temp file    *)
| PW1        (* first half of the text is written and flushed                   *)
| PW2        (* second half written, file closed                                *)
| PReplace   (* os.replace(temp, file); is_busy = False; data = None            *)
| PRate      (* time.sleep(min_wait_secs)  rate limit                           *)
| PFinal     (* self._dirty.is_set()  after the loop (fixed code only)          *)
| PDone.     (* thread has ended                                                *)

Inductive tst := TEmpty | THalf | TFull.      (* how much of a version's text a file holds *)

Definition fileT := option (Z * tst).

Record state := mk {
  pc : pcT;
  final : bool;          (* the thread is in the flush after the loop          *)
  data : Z;              (* DataManager.data  (version token)                  *)
  dirty : bool;          (* DataManager._dirty                                 *)
  busy : bool;           (* FileManager.is_busy                                *)
  stopper : bool;        (* machine.thread_stopper                             *)
  local : Z;             (* the object the thread copies and writes            *)
  file : fileT;          (* <name>.yaml                                        *)
  temp : fileT;          (* _<name>.yaml                                       *)
  crashed : bool }.

Inductive op := Save (v : Z) | Shutdown | Crash | IoError | Tick | CopyFail.

Definition cfg := (bool * bool * bool)%type.
Definition fix_flush (c : cfg) := fst (fst c).
Definition fix_busy (c : cfg) := snd (fst c).
Definition fix_copy (c : cfg) := snd c.

Definition set_pc (s : state) (p : pcT) : state :=
  mk p (final s) (data s) (dirty s) (busy s) (stopper s) (local s) (file s) (temp s) (crashed s).

(* an exception escapes FileManager.save: in the loop it is caught and logged (data = None,
   rate-limit sleep); in the final flush it ends the thread *)
Definition raise_in_save (c : cfg) (s : state) : state :=
  mk (if final s then PDone else PRate) (final s) (data s) (dirty s)
     (if fix_busy c then false else busy s) (stopper s) (local s) (file s) (temp s) (crashed s).

Definition after_wait (s : state) : state :=       (* `while FileManager.is_busy: sleep(0.2)` entered *)
  set_pc s (if busy s then PSpin else PClear).

Definition tick (c : cfg) (s : state) : state :=
  match pc s with
  | PInit => set_pc s PStop
  | PStop => if stopper s then set_pc s (if fix_flush c then PFinal else PDone) else set_pc s PWait
  | PWait => if dirty s then after_wait s else set_pc s PStop
  | PSpin => after_wait s
  | PClear => mk PCopy (final s) (data s) false (busy s) (stopper s) (data s) (file s) (temp s) (crashed s)
  | PCopy => mk POpen (final s) (data s) (dirty s) true (stopper s) (local s) (file s) (temp s) (crashed s)
  | POpen => mk PW1 (final s) (data s) (dirty s) (busy s) (stopper s) (local s) (file s)
                (Some (local s, TEmpty)) (crashed s)
  | PW1 => mk PW2 (final s) (data s) (dirty s) (busy s) (stopper s) (local s) (file s)
              (Some (local s, THalf)) (crashed s)
  | PW2 => mk PReplace (final s) (data s) (dirty s) (busy s) (stopper s) (local s) (file s)
              (Some (local s, TFull)) (crashed s)
  | PReplace => mk (if final s then PDone else PRate) (final s) (data s) (dirty s) false (stopper s)
                   (local s) (temp s) None (crashed s)
  | PRate => set_pc s PStop
  | PFinal => if dirty s
              then after_wait (mk PFinal true (data s) (dirty s) (busy s) (stopper s) (local s) (file s)
                                  (temp s) (crashed s))
              else set_pc s PDone
  | PDone => s
  end.

(* copy.deepcopy(self.data) raises (the live dict changed size during the iteration).  Fixed code:
   caught and logged, the data is marked dirty again (retried after the rate-limit sleep); is_busy
   has not been touched yet.  Code before the patch, and the flush after the loop: the exception
   escapes _writing_thread, the thread ends. *)
Definition copy_fail (c : cfg) (s : state) : state :=
  if final s then set_pc s PDone
  else if fix_copy c
       then mk PRate (final s) (data s) true (busy s) (stopper s) (local s) (file s) (temp s) (crashed s)
       else set_pc s PDone.

Definition copy_point (p : pcT) : bool := match p with PCopy => true | _ => false end.

Definition io_point (p : pcT) : bool :=
  match p with POpen | PW1 | PW2 | PReplace => true | _ => false end.

Definition step (c : cfg) (s : state) (o : op) : state :=
  if crashed s then s else
  match o with
  | Save v => mk (pc s) (final s) v true (busy s) (stopper s) (local s) (file s) (temp s) (crashed s)
  | Shutdown => mk (pc s) (final s) (data s) (dirty s) (busy s) true (local s) (file s) (temp s) (crashed s)
  | Crash => mk (pc s) (final s) (data s) (dirty s) (busy s) (stopper s) (local s) (file s) (temp s) true
  | IoError => if io_point (pc s) then raise_in_save c s else tick c s
  | Tick => tick c s
  | CopyFail => if copy_point (pc s) then copy_fail c s else tick c s
  end.

Definition run (c : cfg) (s : state) (ops : list op) : state := fold_left (step c) ops s.

(* boot: DataManager.__init__ loads the file if there is one; a temp file may be left over from an
   earlier crash (itemp: 0 none, 1 empty, 2 partial, 3 complete; its version token is 101) *)
Definition init (ifile : bool) (itemp : Z) : state :=
  mk PInit false (if ifile then 100 else 0) false false false 0
     (if ifile then Some (100, TFull) else None)
     (if itemp =? 1 then Some (101, TEmpty) else if itemp =? 2 then Some (101, THalf)
      else if itemp =? 3 then Some (101, TFull) else None)
     false.

(* ---- observation (what the harness can see after every op) -------------------------------- *)
Definition pc_code (p : pcT) : Z :=
  match p with
  | PInit => 1 | PRate => 1 | PStop => 2 | PWait => 3 | PSpin => 4 | PClear => 5 | PCopy => 6
  | POpen => 7 | PW1 => 8 | PW2 => 9 | PReplace => 10 | PFinal => 11 | PDone => 12
  end.

Definition b2z (b : bool) : Z := if b then 1 else 0.

(* the data file: 0 missing, version token if complete, -2 empty, -1 anything else (torn) *)
Definition file_code (f : fileT) : Z :=
  match f with None => 0 | Some (v, TFull) => v | Some (_, TEmpty) => -2 | Some (_, THalf) => -1 end.

(* the temp file: (0,0) missing, (1,0) empty, (2,0) partial, (3,v) complete *)
Definition temp_code (f : fileT) : list Z :=
  match f with None => [0; 0] | Some (_, TEmpty) => [1; 0] | Some (_, THalf) => [2; 0]
          | Some (v, TFull) => [3; v] end.

Definition obs (s : state) : list Z :=
  if crashed s then [99; 0; 0; 0; file_code (file s)] ++ temp_code (temp s)
  else [pc_code (pc s); b2z (dirty s); b2z (busy s); b2z (stopper s); file_code (file s)]
         ++ temp_code (temp s).

Fixpoint trace (c : cfg) (s : state) (ops : list op) : list (list Z) :=
  match ops with
  | [] => []
  | o :: r => let s' := step c s o in obs s' :: trace c s' r
  end.

Definition writer_run (i : cfg * bool * Z * list op) : list (list Z) :=
  let '(c, ifile, itemp, ops) := i in
  obs (init ifile itemp) :: trace c (init ifile itemp) ops.

(* ---- vocabulary of the theorems ----------------------------------------------------------- *)
Fixpoint saved (ops : list op) : list Z :=
  match ops with
  | [] => []
  | Save v :: r => v :: saved r
  | _ :: r => saved r
  end.

Definition upd_last (acc : option Z) (o : op) : option Z :=
  match o with Save v => Some v | _ => acc end.
Definition last_saved (ops : list op) : option Z := fold_left upd_last ops None.

(* a clean history: no crash, no injected error, nothing handed over after the shutdown request *)
Fixpoint clean_from (stopped : bool) (ops : list op) : bool :=
  match ops with
  | [] => true
  | Save _ :: r => negb stopped && clean_from stopped r
  | Shutdown :: r => clean_from true r
  | Tick :: r => clean_from stopped r
  | Crash :: _ => false
  | IoError :: _ => false
  | CopyFail :: _ => false
  end.

Definition ticks (n : nat) : list op := repeat Tick n.

(* the writer is idle (or asleep) with nothing pending and version v complete on disk *)
Definition settled (v : Z) (s : state) : Prop :=
  dirty s = false /\ stopper s = false /\ crashed s = false /\ final s = false /\
  (pc s = PRate \/ pc s = PStop \/ pc s = PWait) /\ file s = Some (v, TFull).

(* ============================================================================================ *)
(* machine-variable persistence (mpf/core/machine_vars.py)                                      *)
(*   set_machine_var / configure_machine_var / remove_machine_var / _write_machine_vars_to_disk *)
(*   and load_machine_vars.  Names are tokens (Z), values are ints or None, times are whole      *)
(*   seconds (Z); 0 stands for Python's None in expire_secs / timeout.                           *)

Record mvar := mkv { vval : option Z; vpers : bool; vsecs : Z; vtimeout : Z }.

Definition store := list (Z * mvar).
Definition dentry := (option Z * Z * Z)%type.          (* value, expire, expire_secs *)
Definition ddisk := list (Z * dentry).

Record vstate := mkvs { vstore : store; vdisk : ddisk; vnow : Z; vwrites : Z }.

Inductive vop :=
| VSet (n v : Z) (p : bool)           (* set_machine_var(name, value, persist=p)               *)
| VConf (n : Z) (p : bool) (e : Z)    (* configure_machine_var(name, persist, expire_secs)     *)
| VRemove (n : Z)                     (* remove_machine_var(name)                              *)
| VAdv (dt : Z).                      (* the clock advances                                    *)

Fixpoint vlookup {A} (n : Z) (l : list (Z * A)) : option A :=
  match l with
  | [] => None
  | (k, x) :: r => if k =? n then Some x else vlookup n r
  end.

Fixpoint vupdate (n : Z) (x : mvar) (l : store) : store :=     (* dict assignment keeps the position *)
  match l with
  | [] => [(n, x)]
  | (k, y) :: r => if k =? n then (k, x) :: r else (k, y) :: vupdate n x r
  end.

Fixpoint vdelete (n : Z) (l : store) : store :=
  match l with
  | [] => []
  | (k, y) :: r => if k =? n then r else (k, y) :: vdelete n r
  end.

(* what _write_machine_vars_to_disk hands to DataManager.save_all *)
Definition snapshot (st : store) : ddisk :=
  map (fun kv => (fst kv, (vval (snd kv), vtimeout (snd kv), vsecs (snd kv))))
      (filter (fun kv => vpers (snd kv)) st).

Definition write (s : vstate) (st : store) : vstate :=
  mkvs st (snapshot st) (vnow s) (vwrites s + 1).

Definition timeout_of (e now : Z) : Z := if e =? 0 then 0 else e + now.

Definition vstep (s : vstate) (o : vop) : vstate :=
  match o with
  | VConf n p e =>
      let x := match vlookup n (vstore s) with
               | Some y => mkv (vval y) p e (timeout_of e (vnow s))
               | None => mkv None p e (timeout_of e (vnow s))
               end in
      mkvs (vupdate n x (vstore s)) (vdisk s) (vnow s) (vwrites s)
  | VSet n v p =>
      let '(y, change) := match vlookup n (vstore s) with
                          | Some y => (y, negb (match vval y with Some w => w =? v | None => false end))
                          | None => (mkv None p 0 0, true)
                          end in
      let x := mkv (Some v) (vpers y) (vsecs y)
                   (if vsecs y =? 0 then vtimeout y else vnow s + vsecs y) in
      let st := vupdate n x (vstore s) in
      if vpers y && (change || negb (vsecs y =? 0)) then write s st
      else mkvs st (vdisk s) (vnow s) (vwrites s)
  | VRemove n =>
      match vlookup n (vstore s) with
      | Some _ => write s (vdelete n (vstore s))
      | None => s
      end
  | VAdv dt => mkvs (vstore s) (vdisk s) (vnow s + dt) (vwrites s)
  end.

Definition vrun (s : vstate) (ops : list vop) : vstate := fold_left vstep ops s.

Definition vinit : vstate := mkvs [] [] 1700000000 0.

(* load_machine_vars: entries whose expiry time has passed are skipped *)
Definition expired (e now : Z) : bool := negb (e =? 0) && (e <? now).

Definition reload (now : Z) (d : ddisk) : list (Z * option Z) :=
  map (fun kv => (fst kv, fst (fst (snd kv))))
      (filter (fun kv => negb (expired (snd (fst (snd kv))) now)) d).

Definition synced (s : vstate) : Prop := vdisk s = snapshot (vstore s).

Definition is_conf (o : vop) : bool := match o with VConf _ _ _ => true | _ => false end.

(* ---- observation -------------------------------------------------------------------------- *)
Definition names : list Z := [1; 2; 3; 4].

Definition oz (o : option Z) : list Z := match o with Some v => [1; v] | None => [0; 0] end.

Definition disk_row (d : ddisk) : list Z :=
  flat_map (fun n => match vlookup n d with
                     | Some (v, e, sc) => 1 :: oz v ++ [e; sc]
                     | None => [0; 0; 0; 0; 0]
                     end) names.

Definition load_row (l : list (Z * option Z)) : list Z :=
  flat_map (fun n => match vlookup n l with
                     | Some v => 1 :: oz v
                     | None => [0; 0; 0]
                     end) names.

Fixpoint vtrace (s : vstate) (ops : list vop) : list (list Z) * vstate :=
  match ops with
  | [] => ([], s)
  | o :: r => let s' := vstep s o in
              let '(t, sf) := vtrace s' r in
              ((vwrites s' :: disk_row (vdisk s')) :: t, sf)
  end.

Definition vars_run (i : list vop * Z) : list (list Z) :=
  let '(ops, dt) := i in
  let '(t, sf) := vtrace vinit ops in
  t ++ [load_row (reload (vnow sf + dt) (vdisk sf))].

(* what the next boot may find instead of the file a clean shutdown left.  t = 0: the file as written;
   1..9: a file that is unusable as a whole (missing, empty, not YAML, not UTF-8, top-level list or
   scalar): FileManager.load(halt_on_error=False) / DataManager._load / get_data end up with an empty
   dict; 10+n: the entry of variable n is malformed (not a dict, or no "value" key):
   load_machine_vars skips that entry *)
Definition drop (n : Z) (d : ddisk) : ddisk := filter (fun kv => negb (fst kv =? n)) d.

Definition tampered (t : Z) (d : ddisk) : ddisk :=
  if t =? 0 then d else if t <? 10 then [] else drop (t - 10) d.

Definition vars_run_t (i : list vop * Z * Z) : list (list Z) :=
  let '(ops, dt, t) := i in
  let '(tr, sf) := vtrace vinit ops in
  tr ++ [load_row (reload (vnow sf + dt) (tampered t (vdisk sf)))].

(* ============================================================================================ *)
(* FileManager.save called directly (suite "fsave": real YamlInterface, real ruamel dumper,      *)
(* faults injected in the file object's write() and by unrepresentable values).  One call is the *)
(* writer machine from PCopy to the end, in "final" mode (an exception is not caught).           *)
(*   fault 0: none; 1: the dump raises before anything reached the temp file (temp left empty);  *)
(*   2: it raises after part of the text was written (temp left partial)                         *)

Definition direct_state (b : bool) (v : Z) (d : fileT * fileT) : state :=
  mk PCopy true v false b false v (fst d) (snd d) false.

Definition direct_save (c : cfg) (b : bool) (v : Z) (d : fileT * fileT) (fault : Z) : state :=
  run c (direct_state b v d)
      (if fault =? 0 then ticks 5
       else if fault =? 1 then [Tick; Tick; IoError] else [Tick; Tick; Tick; IoError]).

Inductive fop :=
| FGood (i v : Z)                (* save of a representable version v to file i (0 or 1), no fault *)
| FFail (i v e t : Z).           (* the save raises (e: 1 RepresenterError, 2 OSError); t as above  *)

Record fstate := mkf { fbusy : bool; fd0 : fileT * fileT; fd1 : fileT * fileT }.

Definition fstep (c : cfg) (s : fstate) (o : fop) : fstate * list Z :=
  let '(i, v, e, t) := match o with FGood i v => (i, v, 0, 0) | FFail i v e t => (i, v, e, t) end in
  let d := if i =? 0 then fd0 s else fd1 s in
  let r := direct_save c (fbusy s) v d t in
  let d' := (file r, temp r) in
  let s' := if i =? 0 then mkf (busy r) d' (fd1 s) else mkf (busy r) (fd0 s) d' in
  (s', [b2z (t =? 0); e; b2z (fbusy s')]
         ++ file_code (fst (fd0 s')) :: temp_code (snd (fd0 s'))
         ++ file_code (fst (fd1 s')) :: temp_code (snd (fd1 s'))).

Fixpoint ftrace (c : cfg) (s : fstate) (ops : list fop) : list (list Z) :=
  match ops with
  | [] => []
  | o :: r => let '(s', row) := fstep c s o in row :: ftrace c s' r
  end.

Definition finit : fstate := mkf false (None, None) (None, None).

Definition frun (c : cfg) (s : fstate) (ops : list fop) : fstate :=
  fold_left (fun s o => fst (fstep c s o)) ops s.

Definition fsave_run (i : cfg * list fop) : list (list Z) := ftrace (fst i) finit (snd i).
