(* Common/Prelude.v — shared, axiom-free helpers used by every property model
   and by the generated correspondence files (cases_*.v).  Stdlib only. *)
From Coq Require Export List ZArith Bool Lia.
Export ListNotations.
Open Scope Z_scope.

(* ---------------------------------------------------------------------- *)
(* decidable equality helpers for the canonical observation encodings      *)

Fixpoint list_eqb {A} (eqb : A -> A -> bool) (a b : list A) : bool :=
  match a, b with
  | [], [] => true
  | x :: a', y :: b' => eqb x y && list_eqb eqb a' b'
  | _, _ => false
  end.

Lemma list_eqb_spec {A} (eqb : A -> A -> bool)
      (H : forall x y, eqb x y = true <-> x = y) :
  forall a b, list_eqb eqb a b = true <-> a = b.
Proof.
  induction a as [|x a IH]; destruct b as [|y b]; cbn; split; intro E;
    try reflexivity; try discriminate.
  - apply andb_true_iff in E as [E1 E2]. apply H in E1. apply IH in E2. congruence.
  - inversion E; subst. apply andb_true_iff; split; [apply H | apply IH]; reflexivity.
Qed.

Definition zs_eqb : list Z -> list Z -> bool := list_eqb Z.eqb.
Definition zss_eqb : list (list Z) -> list (list Z) -> bool := list_eqb zs_eqb.
Definition zsss_eqb : list (list (list Z)) -> list (list (list Z)) -> bool := list_eqb zss_eqb.

Lemma zs_eqb_spec a b : zs_eqb a b = true <-> a = b.
Proof. apply list_eqb_spec. intros; apply Z.eqb_eq. Qed.
Lemma zss_eqb_spec a b : zss_eqb a b = true <-> a = b.
Proof. apply list_eqb_spec. apply zs_eqb_spec. Qed.

Definition option_eqb {A} (eqb : A -> A -> bool) (a b : option A) : bool :=
  match a, b with
  | None, None => true
  | Some x, Some y => eqb x y
  | _, _ => false
  end.

(* ---------------------------------------------------------------------- *)
(* correspondence driver: the harness writes a list of (input, observed     *)
(* implementation output) pairs; [mismatches] returns the indices where the *)
(* model's executable definition disagrees.                                 *)

Fixpoint mismatches_from {I O} (run : I -> O) (eqb : O -> O -> bool)
         (k : nat) (cs : list (I * O)) : list nat :=
  match cs with
  | [] => []
  | (i, o) :: cs' =>
      if eqb (run i) o then mismatches_from run eqb (S k) cs'
      else k :: mismatches_from run eqb (S k) cs'
  end.

Definition mismatches {I O} (run : I -> O) (eqb : O -> O -> bool)
           (cs : list (I * O)) : list nat := mismatches_from run eqb 0%nat cs.

(* ---------------------------------------------------------------------- *)
(* small list utilities                                                     *)

Fixpoint zs_prefixb (p s : list Z) : bool :=
  match p, s with
  | [], _ => true
  | x :: p', y :: s' => Z.eqb x y && zs_prefixb p' s'
  | _ :: _, [] => false
  end.

Lemma zs_prefixb_app p s : zs_prefixb p (p ++ s) = true.
Proof. induction p as [|x p IH]; cbn; [reflexivity|]. rewrite Z.eqb_refl. exact IH. Qed.

Fixpoint assoc_z {V} (k : list Z) (l : list (list Z * V)) : option V :=
  match l with
  | [] => None
  | (k', v) :: l' => if zs_eqb k k' then Some v else assoc_z k l'
  end.

Definition sumZ (l : list Z) : Z := fold_right Z.add 0 l.

Lemma fold_left_app_step {S O} (f : S -> O -> S) (a b : list O) (s : S) :
  fold_left f (a ++ b) s = fold_left f b (fold_left f a s).
Proof. apply fold_left_app. Qed.
