(* C02/LemRelay.v — the queue relay player keeps its two tables in step: no blocked queue event is ever orphaned. *)
From Common Require Import Prelude.
From Coq Require Import Sorting.Permutation.
From C02 Require Import Model LemQueue Relay.
Open Scope Z_scope.

Definition ent (h : whandler) : dentry := mkDE (wh_ctx h) (wh_q h) (wh_key h).

(* every instance-dict entry has exactly its own wake-up handler in the registry and vice versa *)
Record RInv (rs : rstate) : Prop := mkRInv {
  ri_d : rs_d rs = map ent (rs_h rs);
  ri_keys : NoDup (map wh_key (rs_h rs));
  ri_qs : NoDup (map wh_q (rs_h rs));
  ri_lt : forall h, In h (rs_h rs) -> (wh_key h < rs_next rs)%nat }.

(* ---------------------------------------------------------------------------------------------- *)
Lemma NoDup_map_inj {A B} (f : A -> B) l x y :
  NoDup (map f l) -> In x l -> In y l -> f x = f y -> x = y.
Proof.
  induction l as [|a l IH]; cbn; intros N Hx Hy E; [contradiction|].
  inversion N as [|? ? Na Nl]; subst.
  destruct Hx as [->|Hx], Hy as [->|Hy]; auto.
  - exfalso. apply Na. rewrite E. apply in_map. exact Hy.
  - exfalso. apply Na. rewrite <- E. apply in_map. exact Hx.
Qed.

Lemma NoDup_map_filter {A B} (f : A -> B) p l : NoDup (map f l) -> NoDup (map f (filter p l)).
Proof.
  induction l as [|a l IH]; cbn; intros N; [constructor|].
  inversion N as [|? ? Na Nl]; subst. destruct (p a); cbn; auto.
  constructor; auto. intros H. apply Na. apply in_map_iff in H as [x [E Hx]].
  apply filter_In in Hx as [Hx _]. rewrite <- E. apply in_map. exact Hx.
Qed.

Lemma NoDup_app_snoc {A} (l : list A) x : NoDup l -> ~ In x l -> NoDup (l ++ [x]).
Proof.
  induction l as [|a l IH]; cbn; intros N H; [constructor; auto; constructor|].
  inversion N; subst. constructor.
  - intros X. apply in_app_or in X as [X|[X|[]]]; auto.
  - apply IH; auto.
Qed.

Lemma filter_map_comm {A B} (g : A -> B) p l : filter p (map g l) = map g (filter (fun x => p (g x)) l).
Proof. induction l as [|a l IH]; cbn; auto. destruct (p (g a)); cbn; rewrite IH; reflexivity. Qed.

Lemma filter_filter {A} (p q : A -> bool) l : filter p (filter q l) = filter (fun x => q x && p x) l.
Proof.
  induction l as [|a l IH]; cbn; auto. destruct (q a); cbn; [destruct (p a); cbn|]; rewrite IH; reflexivity.
Qed.

Lemma de_match_key l x h :
  NoDup (map wh_key l) -> NoDup (map wh_q l) -> In x l -> In h l ->
  de_match (wh_ctx h) (wh_q h) (ent x) = Nat.eqb (wh_key x) (wh_key h).
Proof.
  intros Nk Nq Hx Hh. unfold de_match, ent; cbn.
  destruct (Nat.eqb (wh_key x) (wh_key h)) eqn:K.
  - apply Nat.eqb_eq in K. assert (x = h) by (apply (NoDup_map_inj wh_key l x h Nk Hx Hh K)). subst.
    rewrite Z.eqb_refl, Nat.eqb_refl. reflexivity.
  - destruct (Nat.eqb (wh_q x) (wh_q h)) eqn:Q; [|apply andb_false_r].
    apply Nat.eqb_eq in Q. assert (x = h) by (apply (NoDup_map_inj wh_q l x h Nq Hx Hh Q)). subst.
    rewrite Nat.eqb_refl in K. discriminate.
Qed.

Lemma find_ent l h :
  NoDup (map wh_key l) -> NoDup (map wh_q l) -> In h l ->
  exists x, In x l /\ find (de_match (wh_ctx h) (wh_q h)) (map ent l) = Some (ent x) /\ wh_key x = wh_key h.
Proof.
  intros Nk Nq Hh.
  assert (G : forall l0, (forall x, In x l0 -> In x l) -> In h l0 ->
            exists x, In x l /\ find (de_match (wh_ctx h) (wh_q h)) (map ent l0) = Some (ent x) /\ wh_key x = wh_key h).
  { induction l0 as [|a l0 IH]; cbn; intros Sub Hin; [contradiction|].
    rewrite (de_match_key l a h Nk Nq) by auto.
    destruct (Nat.eqb (wh_key a) (wh_key h)) eqn:K.
    - apply Nat.eqb_eq in K. exists a. auto.
    - destruct Hin as [->|Hin]; [rewrite Nat.eqb_refl in K; discriminate|]. apply IH; auto. }
  apply G; auto.
Qed.

Definition drop_key (k : nat) (l : list whandler) : list whandler := filter (fun x => negb (Nat.eqb (wh_key x) k)) l.

Lemma drop_key_inv rs k :
  RInv rs -> RInv (mkRS (drop_key k (rs_h rs)) (map ent (drop_key k (rs_h rs))) (rs_next rs) (rs_err rs)).
Proof.
  intros [D Nk Nq Lt]. constructor; cbn; auto; unfold drop_key.
  - apply NoDup_map_filter; auto.
  - apply NoDup_map_filter; auto.
  - intros h H. apply filter_In in H as [H _]. auto.
Qed.

(* _callback of a handler that is registered: it finds its own dict entry, removes exactly itself from both tables *)
Lemma cb_ok rs h :
  RInv rs -> In h (rs_h rs) ->
  r_callback rs h = (mkRS (drop_key (wh_key h) (rs_h rs)) (map ent (drop_key (wh_key h) (rs_h rs))) (rs_next rs) (rs_err rs),
                     [wh_q h]).
Proof.
  intros I Hh. destruct I as [D Nk Nq Lt]. unfold r_callback. rewrite D.
  destruct (find_ent _ h Nk Nq Hh) as [x [Hx [F K]]]. rewrite F. cbn [de_key ent].
  f_equal. f_equal.
  - rewrite K. reflexivity.
  - rewrite filter_map_comm. f_equal. apply filter_ext_in. intros a Ha.
    rewrite (de_match_key _ a h Nk Nq Ha Hh). reflexivity.
Qed.

Definition in_keys (snap : list whandler) (x : whandler) : bool := existsb (fun h => Nat.eqb (wh_key x) (wh_key h)) snap.

Lemma fold_cb : forall snap rs acc,
  RInv rs -> (forall h, In h snap -> In h (rs_h rs)) -> NoDup (map wh_key snap) ->
  exists rs', fold_left (fun acc h => (fst (r_callback (fst acc) h), snd acc ++ snd (r_callback (fst acc) h))) snap (rs, acc)
              = (rs', acc ++ map wh_q snap) /\
    rs_h rs' = filter (fun x => negb (in_keys snap x)) (rs_h rs) /\ rs_next rs' = rs_next rs /\
    rs_err rs' = rs_err rs /\ RInv rs'.
Proof.
  induction snap as [|h snap IH]; intros rs acc I Sub N; cbn [fold_left map].
  - exists rs. rewrite app_nil_r. split; [reflexivity|]. split; [|auto]. unfold in_keys. cbn [existsb negb].
    clear. induction (rs_h rs) as [|a l IHl]; cbn; congruence.
  - cbn [fst snd]. rewrite (cb_ok rs h I) by (apply Sub; left; reflexivity). cbn [fst snd].
    inversion N as [|? ? Nh Ns]; subst.
    destruct (IH _ (acc ++ [wh_q h]) (drop_key_inv rs (wh_key h) I)) as [rs' [F [H1 [H2 [H3 H4]]]]]; auto.
    + cbn. intros x Hx. unfold drop_key. apply filter_In. split; [apply Sub; right; exact Hx|].
      destruct (Nat.eqb (wh_key x) (wh_key h)) eqn:K; auto. apply Nat.eqb_eq in K.
      exfalso. apply Nh. rewrite <- K. apply in_map. exact Hx.
    + exists rs'. rewrite F, <- app_assoc. cbn [app]. split; [reflexivity|]. split; [|auto].
      rewrite H1. cbn [rs_h]. unfold drop_key. rewrite filter_filter. apply filter_ext. intros a.
      unfold in_keys. cbn [existsb]. rewrite negb_orb. reflexivity.
Qed.

(* ---------------------------------------------------------------------------------------------- *)
Lemma w_ins_perm x l : Permutation (w_ins x l) (x :: l).
Proof.
  induction l as [|y l IH]; cbn; auto. destruct (wh_prio x <=? wh_prio y); auto.
  rewrite IH. apply perm_swap.
Qed.

Lemma w_sort_perm l : Permutation (w_sort l) l.
Proof.
  unfold w_sort. assert (G : forall l acc, Permutation (fold_left (fun acc x => w_ins x acc) l acc) (l ++ acc)).
  { induction l0 as [|x l0 IH]; intros acc; cbn; auto. rewrite IH, w_ins_perm. symmetry. apply Permutation_middle. }
  rewrite G, app_nil_r. reflexivity.
Qed.

Lemma r_post_ok rs w :
  RInv rs ->
  let snap := w_sort (filter (fun h => wh_ev h =? w) (rs_h rs)) in
  let rs' := mkRS (filter (fun h => negb (wh_ev h =? w)) (rs_h rs))
                  (map ent (filter (fun h => negb (wh_ev h =? w)) (rs_h rs))) (rs_next rs) (rs_err rs) in
  r_post w rs = (rs', map wh_q snap) /\ RInv rs'.
Proof.
  intros I snap rs'. pose proof (w_sort_perm (filter (fun h => wh_ev h =? w) (rs_h rs))) as P. fold snap in P.
  assert (Sub : forall h, In h snap -> In h (rs_h rs) /\ wh_ev h =? w = true).
  { intros h H. apply (Permutation_in _ P) in H. apply filter_In in H. exact H. }
  assert (N : NoDup (map wh_key snap)).
  { eapply Permutation_NoDup; [apply Permutation_map; symmetry; exact P|]. apply NoDup_map_filter. apply I. }
  destruct (fold_cb snap rs [] I (fun h H => proj1 (Sub h H)) N) as [r [F [H1 [H2 [H3 H4]]]]].
  unfold r_post, r_fold. fold snap. rewrite F. cbn [app].
  assert (E : rs_h r = filter (fun h => negb (wh_ev h =? w)) (rs_h rs)).
  { rewrite H1. apply filter_ext_in. intros a Ha. f_equal. unfold in_keys.
    destruct (wh_ev a =? w) eqn:W.
    - apply existsb_exists. exists a. split; [|apply Nat.eqb_refl].
      apply (Permutation_in _ (Permutation_sym P)). apply filter_In. auto.
    - destruct (existsb _ snap) eqn:X; auto. apply existsb_exists in X as [h [Hh K]]. apply Nat.eqb_eq in K.
      destruct (Sub h Hh) as [S1 S2]. assert (a = h) by (apply (NoDup_map_inj wh_key _ a h (ri_keys _ I) Ha S1 K)). subst.
      congruence. }
  assert (R : r = rs').
  { destruct r as [rh rd rn re]. cbn in *. subst rs'. destruct H4 as [D _ _ _]. cbn in D. subst. rewrite E. reflexivity. }
  rewrite <- R. auto.
Qed.

Lemma fold_clear : forall es rs acc,
  fold_left (fun acc e => (fst (r_clear_entry (fst acc) e), snd acc ++ snd (r_clear_entry (fst acc) e))) es (rs, acc)
  = (mkRS (filter (fun x => negb (existsb (fun e => Nat.eqb (wh_key x) (de_key e)) es)) (rs_h rs)) (rs_d rs) (rs_next rs) (rs_err rs),
     acc ++ map de_q es).
Proof.
  induction es as [|e es IH]; intros rs acc; cbn [fold_left map existsb].
  - rewrite app_nil_r. destruct rs; cbn. f_equal. f_equal.
    clear. induction rs_h; cbn; congruence.
  - cbn [fst snd r_clear_entry]. rewrite IH. cbn [rs_h rs_d rs_next rs_err]. rewrite <- app_assoc. cbn [app].
    f_equal. f_equal. rewrite filter_filter. apply filter_ext. intros a. rewrite negb_orb. reflexivity.
Qed.

Lemma r_clear_ok rs c :
  RInv rs ->
  let rs' := mkRS (filter (fun h => negb (wh_ctx h =? c)) (rs_h rs))
                  (map ent (filter (fun h => negb (wh_ctx h =? c)) (rs_h rs))) (rs_next rs) (rs_err rs) in
  r_clear c rs = (rs', map wh_q (filter (fun h => wh_ctx h =? c) (rs_h rs))) /\ RInv rs'.
Proof.
  intros I rs'. destruct I as [D Nk Nq Lt]. unfold r_clear. rewrite fold_clear. cbn [fst snd rs_h rs_err app].
  rewrite D, !filter_map_comm. cbn [de_ctx ent]. rewrite map_map. cbn [de_q ent].
  split.
  - subst rs'. f_equal. f_equal. apply filter_ext_in. intros a Ha. f_equal.
    destruct (wh_ctx a =? c) eqn:W.
    + apply existsb_exists. exists (ent a). split; [|apply Nat.eqb_refl].
      apply in_map. apply filter_In. auto.
    + destruct (existsb _ _) eqn:X; auto. apply existsb_exists in X as [e [He K]]. apply Nat.eqb_eq in K.
      apply in_map_iff in He as [h [<- Hh]]. apply filter_In in Hh as [Hh Hc]. cbn in K.
      assert (a = h) by (apply (NoDup_map_inj wh_key _ a h Nk Ha Hh K)). subst. congruence.
  - subst rs'. constructor; cbn; auto using NoDup_map_filter.
    intros h H. apply filter_In in H as [H _]. auto.
Qed.

Lemma r_play_inv rs c w p q : RInv rs -> RInv (r_play c w p q rs).
Proof.
  intros [D Nk Nq Lt]. unfold r_play. destruct (existsb _ (rs_d rs)) eqn:X; [constructor; auto|].
  constructor; cbn.
  - rewrite map_app, D. reflexivity.
  - rewrite map_app. cbn. apply NoDup_app_snoc; auto. intros H. apply in_map_iff in H as [h [E Hh]].
    apply Lt in Hh. lia.
  - rewrite map_app. cbn. apply NoDup_app_snoc; auto. intros H. apply in_map_iff in H as [h [E Hh]].
    assert (Y : existsb (fun e => Nat.eqb (de_q e) q) (rs_d rs) = true).
    { apply existsb_exists. exists (ent h). split; [rewrite D; apply in_map; exact Hh|]. cbn. rewrite E. apply Nat.eqb_refl. }
    congruence.
  - intros h H. apply in_app_or in H as [H|[<-|[]]]; [apply Lt in H; lia|cbn; lia].
Qed.

Lemma rinv_init : RInv rs_init.
Proof. constructor; cbn; auto using NoDup_nil. intros h []. Qed.

(* the tables stay in step for every history; the only error the player can raise is a double lock in play:
   _callback never fails with "Queue missing in instance dict" *)
Lemma relay_tables_agree_l :
  RInv rs_init /\
  forall rs o, RInv rs ->
    RInv (fst (r_op rs o)) /\
    rs_err (fst (r_op rs o)) =
      (rs_err rs || match o with RPlay _ _ _ q => existsb (fun e => Nat.eqb (de_q e) q) (rs_d rs) | _ => false end)%bool.
Proof.
  split; [exact rinv_init|]. intros rs o I. destruct o as [c w p q|w|c]; cbn [r_op fst].
  - split; [apply r_play_inv; exact I|]. unfold r_play. destruct (existsb _ (rs_d rs)); cbn.
    + rewrite orb_true_r. reflexivity.
    + rewrite orb_false_r. reflexivity.
  - destruct (r_post_ok rs w I) as [E I']. rewrite E. cbn. rewrite orb_false_r. auto.
  - destruct (r_clear_ok rs c I) as [E I']. rewrite E. cbn. rewrite orb_false_r. auto.
Qed.

Lemma r_ops_inv ops : forall rs, RInv rs -> RInv (r_ops ops rs).
Proof.
  induction ops as [|o ops IH]; intros rs I; cbn; auto. apply IH. apply relay_tables_agree_l. exact I.
Qed.

(* a wait_for event releases exactly the queues waiting for it (priority order), a stopping context exactly its own
   queues (insertion order); the handlers and dict entries of everything else are untouched *)
Lemma relay_release_exact_l rs :
  RInv rs ->
  (forall w, r_post w rs =
     (mkRS (filter (fun h => negb (wh_ev h =? w)) (rs_h rs)) (map ent (filter (fun h => negb (wh_ev h =? w)) (rs_h rs)))
           (rs_next rs) (rs_err rs),
      map wh_q (w_sort (filter (fun h => wh_ev h =? w) (rs_h rs))))) /\
  (forall c, r_clear c rs =
     (mkRS (filter (fun h => negb (wh_ctx h =? c)) (rs_h rs)) (map ent (filter (fun h => negb (wh_ctx h =? c)) (rs_h rs)))
           (rs_next rs) (rs_err rs),
      map wh_q (filter (fun h => wh_ctx h =? c) (rs_h rs)))).
Proof.
  intros I. split; intros x; [apply (r_post_ok rs x I)|apply (r_clear_ok rs x I)].
Qed.

(* no wait is orphaned: every queue the player holds has its wake-up handler registered; posting that handler's
   event or clearing that handler's context releases the queue, and afterwards the player no longer holds it (it is
   released exactly once) *)
Lemma relay_no_orphan_l rs e :
  RInv rs -> In e (rs_d rs) ->
  exists h, In h (rs_h rs) /\ e = ent h /\
    In (de_q e) (snd (r_post (wh_ev h) rs)) /\ ~ In (de_q e) (map de_q (rs_d (fst (r_post (wh_ev h) rs)))) /\
    In (de_q e) (snd (r_clear (de_ctx e) rs)) /\ ~ In (de_q e) (map de_q (rs_d (fst (r_clear (de_ctx e) rs)))).
Proof.
  intros I He. pose proof I as [D Nk Nq Lt]. rewrite D in He. apply in_map_iff in He as [h [<- Hh]].
  exists h. destruct (relay_release_exact_l rs I) as [P C]. rewrite P, C. cbn [fst snd rs_d de_q de_ctx ent].
  repeat split; auto.
  - apply in_map. apply (Permutation_in _ (Permutation_sym (w_sort_perm _))). apply filter_In. split; auto. apply Z.eqb_refl.
  - rewrite map_map. cbn. intros H. apply in_map_iff in H as [x [E Hx]]. apply filter_In in Hx as [Hx W].
    assert (x = h) by (apply (NoDup_map_inj wh_q _ x h Nq Hx Hh E)). subst. rewrite Z.eqb_refl in W. discriminate.
  - apply in_map. apply filter_In. split; auto. apply Z.eqb_refl.
  - rewrite map_map. cbn. intros H. apply in_map_iff in H as [x [E Hx]]. apply filter_In in Hx as [Hx W].
    assert (x = h) by (apply (NoDup_map_inj wh_q _ x h Nq Hx Hh E)). subst. rewrite Z.eqb_refl in W. discriminate.
Qed.

(* ---------------------------------------------------------------------------------------------- *)
(* the composition only produces reachable machine states (so the Part 1 theorems apply to it) and keeps RInv *)
Lemma relay_handler_fresh e : fresh_h (snd (relay_handler e)) = true.
Proof. reflexivity. Qed.
Lemma qep_handler_fresh e : fresh_h (snd (qep_handler e)) = true.
Proof. reflexivity. Qed.

Lemma ctx_handlers_fresh rc qc c : forallb (fun eh => fresh_h (snd eh)) (ctx_handlers rc qc c) = true.
Proof.
  unfold ctx_handlers. rewrite forallb_app. apply andb_true_iff. split; apply forallb_forall; intros x H;
    apply in_map_iff in H as [e [<- _]]; reflexivity.
Qed.

Lemma add_handlers_reachable hs : forall s,
  forallb (fun eh => fresh_h (snd eh)) hs = true -> reachable false s -> reachable false (add_handlers hs s).
Proof.
  unfold add_handlers. induction hs as [|[ev h] hs IH]; intros s F R; cbn; auto.
  cbn in F. apply andb_true_iff in F as [F1 F2]. apply IH; auto. apply r_add; auto.
Qed.

Lemma env_batch_reachable fuel acts s :
  forallb fresh_action acts = true -> reachable false s -> reachable false (env_batch false fuel acts s).
Proof.
  intros F R. unfold env_batch. destruct (err s); auto. apply run_fuel_reachable. apply r_env; auto.
Qed.

Lemma clearq_fresh qs : forallb fresh_action (map AClearQ qs) = true.
Proof. induction qs; cbn; auto. Qed.

Lemma scan_plays_inv rc cs : RInv (cs_r cs) -> RInv (cs_r (scan_plays rc cs)) /\ cs_m (scan_plays rc cs) = cs_m cs.
Proof.
  intros I. unfold scan_plays. cbn. split; [|reflexivity].
  generalize (rev (firstn (length (log (cs_m cs)) - cs_seen cs) (log (cs_m cs)))). intros l.
  revert I. generalize (cs_r cs). induction l as [|o l IH]; intros r I; cbn; auto.
  apply IH. destruct o; auto. destruct (find _ rc); auto. apply r_play_inv. exact I.
Qed.

Lemma c_step_ok rc qc cs o :
  forallb fresh_action (match o with CEnv acts => acts | _ => [] end) = true ->
  reachable false (cs_m cs) -> RInv (cs_r cs) ->
  reachable false (cs_m (c_step rc qc cs o)) /\ RInv (cs_r (c_step rc qc cs o)).
Proof.
  intros F R I. unfold c_step.
  match goal with |- context [scan_plays rc ?x] => destruct (scan_plays_inv rc x) as [A B] end.
  - destruct o; cbn [cs_r]; auto.
    + destruct (r_post_ok _ w I) as [E I']. rewrite E. exact I'.
    + destruct (r_clear_ok _ c I) as [E I']. rewrite E. exact I'.
  - rewrite B. split; [|exact A]. destruct o; cbn [cs_m].
    + apply env_batch_reachable; auto.
    + apply env_batch_reachable; auto. apply clearq_fresh.
    + apply env_batch_reachable; auto. apply add_handlers_reachable; auto. apply ctx_handlers_fresh.
    + apply env_batch_reachable; auto. rewrite forallb_app. apply andb_true_iff. split; [|apply clearq_fresh].
      apply forallb_forall. intros x H. apply in_map_iff in H as [e [<- _]]. reflexivity.
Qed.

Definition cop_fresh (o : cop) : bool := match o with CEnv acts => forallb fresh_action acts | _ => true end.

Lemma relay_driver_reachable_l rc qc regs ops :
  forallb (fun eh => fresh_h (snd eh)) regs = true -> forallb cop_fresh ops = true ->
  let cs := fold_left (c_step rc qc) ops (mkCS (init_state (ctx_handlers rc qc 0 ++ regs)) rs_init 0%nat) in
  reachable false (cs_m cs) /\ RInv (cs_r cs).
Proof.
  intros Fr Fo.
  assert (G : forall ops cs, forallb cop_fresh ops = true -> reachable false (cs_m cs) -> RInv (cs_r cs) ->
            reachable false (cs_m (fold_left (c_step rc qc) ops cs)) /\ RInv (cs_r (fold_left (c_step rc qc) ops cs))).
  { induction ops0 as [|o ops0 IH]; intros cs F R I; cbn; auto.
    cbn in F. apply andb_true_iff in F as [F1 F2].
    destruct (c_step_ok rc qc cs o) as [R' I']; auto.
    { destruct o; auto. } }
  apply G; auto.
  - cbn. apply r_init. rewrite forallb_app. apply andb_true_iff. split; auto. apply ctx_handlers_fresh.
  - apply rinv_init.
Qed.

(* ---------------------------------------------------------------------------------------------- *)
(* examples / witnesses *)
Definition ex_rc : list rcfg := [mkRC 0 1 801 0 1; mkRC 1 3 812 100 1; mkRC 2 2 821 200 2].
Definition ex_qc : list qcfg := [mkQC 0 11 851 0 1 [(1, 1)]].
Definition ex_cops : list cop :=
  [CStart 1; CStart 2; CEnv [APostQ 1 false []]; CEnv [APostQ 3 false []]; CEnv [APostQ 2 false []]; CStop 2].
Definition ex_cs : cstate :=
  fold_left (c_step ex_rc ex_qc) ex_cops (mkCS (init_state (ctx_handlers ex_rc ex_qc 0)) rs_init 0%nat).

(* three queue events blocked by relays of three contexts; context 2 stops: only its queue event (post 2) completes,
   the other two keep their wake-up handlers and complete when wait_for event 1 is posted *)
Lemma ex_relay_contexts :
  reachable false (cs_m ex_cs) /\ RInv (cs_r ex_cs) /\
  map wh_q (rs_h (cs_r ex_cs)) = [0; 1]%nat /\ map wh_ctx (rs_h (cs_r ex_cs)) = [0; 1] /\
  existsb (obs_eqb (LCallback 2)) (log (cs_m ex_cs)) = true /\
  existsb (obs_eqb (LCallback 0)) (log (cs_m ex_cs)) = false /\
  (let cs := c_step ex_rc ex_qc ex_cs (CWaitFor 1) in
   rs_h (cs_r cs) = [] /\ existsb (obs_eqb (LCallback 0)) (log (cs_m cs)) = true /\
   existsb (obs_eqb (LCallback 1)) (log (cs_m cs)) = true /\ outst (cs_m cs) = []).
Proof.
  destruct (relay_driver_reachable_l ex_rc ex_qc [] ex_cops eq_refl eq_refl) as [R I].
  rewrite app_nil_r in R, I. split; [exact R|]. split; [exact I|]. vm_compute. repeat split; reflexivity.
Qed.

(* queue_event_player entry with args [(1, 1)] and events_when_finished: its queue event (post 1) completes and the
   callback is called with the posted kwargs - which the unfixed _callback does not accept *)
Lemma qep_args_callback_refuted_l :
  exists qc ops e,
    let cs := fold_left (c_step [] qc) ops (mkCS (init_state (ctx_handlers [] qc 0)) rs_init 0%nat) in
    In e qc /\ existsb (obs_eqb (LPostQ 1)) (log (cs_m cs)) = true /\ existsb (obs_eqb (LCallback 1)) (log (cs_m cs)) = true /\
    err (cs_m cs) = false /\
    qep_callback_accepts false (kw_norm (qc_args e)) = false /\ qep_callback_accepts true (kw_norm (qc_args e)) = true.
Proof.
  exists ex_qc, [CEnv [APostP 11]], (mkQC 0 11 851 0 1 [(1, 1)]). vm_compute. repeat split; auto.
Qed.
