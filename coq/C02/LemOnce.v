(* C02/LemOnce.v — bookkeeping of post sequence numbers in the queue-event machine (Part 1): every queue post is in
   exactly one place - event_queue / pending stack, callback_queue, a dispatcher that is not done, or the log as a
   completed callback - and post numbers are never reused.  Gives "callback exactly once per post". *)
From Common Require Import Prelude.
From C02 Require Import Model LemQueue.
Open Scope Z_scope.

Fixpoint sum {A} (f : A -> nat) (l : list A) : nat :=
  match l with [] => 0%nat | x :: l' => (f x + sum f l')%nat end.

Lemma sum_app {A} (f : A -> nat) a b : sum f (a ++ b) = (sum f a + sum f b)%nat.
Proof. induction a; cbn; lia. Qed.

Lemma sum_set_nth {A} (f : A -> nat) x : forall l i old,
  nth_error l i = Some old -> (sum f (set_nth i x l) + f old = sum f l + f x)%nat.
Proof.
  induction l as [|y l IH]; intros [|i] old H; cbn in *; try discriminate.
  - inversion H; subst. lia.
  - specialize (IH i old H). lia.
Qed.

Definition b2n (b : bool) : nat := if b then 1%nat else 0%nat.
Definition qp (p : nat) (x : posted) : nat := b2n (p_queue x && Nat.eqb (p_psn x) p).
Definition dp (p : nat) (d : disp) : nat := b2n (not_done d && Nat.eqb (d_psn d) p).
Definition cp (p : nat) (c : nat) : nat := b2n (Nat.eqb c p).
Definition lc (p : nat) (o : obs) : nat := match o with LCallback c => b2n (Nat.eqb c p) | _ => 0%nat end.
Definition lq (p : nat) (o : obs) : nat := match o with LPostQ c => b2n (Nat.eqb c p) | _ => 0%nat end.

(* where post number p is, minus how often it was posted as a queue event *)
Definition places (p : nat) (s : state) : nat :=
  (sum (qp p) (evq s) + sum (qp p) (pend s) + sum (cp p) (cbq s) + sum (dp p) (disps s) + sum (lc p) (log s))%nat.
Definition nposted (p : nat) (s : state) : nat := sum (lq p) (log s).
Definition bal (p : nat) (s : state) : Z := Z.of_nat (places p s) - Z.of_nat (nposted p s).
(* post numbers at or above npsn have not been used, those below at most once *)
Definition Uat (p : nat) (s : state) : Prop := (nposted p s <= b2n (p <? npsn s)%nat)%nat.

Definition sim (d d' : disp) : Prop := d_psn d' = d_psn d /\ not_done d' = not_done d.
Definition dsim (ds ds' : list disp) : Prop := Forall2 sim ds ds'.

Lemma dsim_refl ds : dsim ds ds.
Proof. induction ds; constructor; auto. split; reflexivity. Qed.

Lemma dsim_trans a b c : dsim a b -> dsim b c -> dsim a c.
Proof.
  intros H. revert c. induction H as [|x y l l' [A B] _ IH]; intros c H2;
    inversion H2 as [|y' z m m' [C D] H3]; subst; constructor.
  - split; congruence.
  - apply IH; auto.
Qed.

Lemma dsim_sum p ds ds' : dsim ds ds' -> sum (dp p) ds' = sum (dp p) ds.
Proof. induction 1 as [|d d' ds ds' [A B] _ IH]; cbn; auto. unfold dp at 1 3. rewrite A, B, IH. reflexivity. Qed.

Lemma dsim_nth ds ds' i d0 : dsim ds ds' -> nth_error ds i = Some d0 -> exists d1, nth_error ds' i = Some d1 /\ sim d0 d1.
Proof.
  intros H. revert i. induction H; intros [|i] E; cbn in *; try discriminate.
  - inversion E; subst. eauto.
  - eauto.
Qed.

Lemma wake_dsim e : forall ds i0, dsim ds (fst (wake_ds e i0 ds)).
Proof.
  induction ds as [|d ds IH]; intros i0; cbn [wake_ds]; [constructor|].
  destruct (d_st d) eqn:St; try destruct (Nat.eqb e e0); cbn [fst]; constructor; try apply IH; unfold sim;
    try (split; reflexivity).
  destruct d; cbn in *; subst; split; reflexivity.
Qed.

Definition Fr (p : nat) (s s' : state) : Prop :=
  bal p s' = bal p s /\ dsim (disps s) (disps s') /\ (Uat p s -> Uat p s').

Lemma Fr_refl p s : Fr p s s.
Proof. repeat split; auto using dsim_refl. Qed.

Lemma Fr_trans p a b c : Fr p a b -> Fr p b c -> Fr p a c.
Proof. intros [A1 [A2 A3]] [B1 [B2 B3]]. repeat split; [congruence|eapply dsim_trans; eauto|auto]. Qed.

(* nothing that counts changes *)
Lemma Fr_same p s s' :
  evq s' = evq s -> pend s' = pend s -> cbq s' = cbq s -> dsim (disps s) (disps s') -> npsn s' = npsn s ->
  sum (lc p) (log s') = sum (lc p) (log s) -> sum (lq p) (log s') = sum (lq p) (log s) -> Fr p s s'.
Proof.
  intros E1 E2 E3 D N L1 L2. unfold Fr, bal, Uat, places, nposted.
  rewrite E1, E2, E3, N, L1, L2, (dsim_sum p _ _ D). repeat split; auto.
Qed.

Ltac same := apply Fr_same; sst; auto using dsim_refl.

Lemma fr_fail p s c : Fr p s (fail s c).
Proof. same. Qed.

Lemma fr_do_clear p q s : Fr p s (do_clear q s).
Proof.
  unfold do_clear. destruct (nth_error (heap s) q) as [o|]; [|apply fr_fail].
  destruct (q_waiter o); [|apply fr_fail].
  destruct (q_event o) as [e|].
  - unfold wake. same. apply wake_dsim.
  - same.
Qed.

Lemma fr_upd_outst p s l : Fr p s (upd_outst s l).
Proof. same. Qed.

Lemma fr_push_ready p s r : Fr p s (push_ready s r).
Proof. unfold push_ready. same. Qed.

Lemma fr_do_wait p q hold s : Fr p s (do_wait q hold s).
Proof.
  unfold do_wait. destruct (nth_error (heap s) q) as [o|]; [|apply fr_fail].
  destruct (q_waiter o); [apply fr_fail|]. destruct hold; same.
Qed.

Lemma b2n_eq_succ n p : b2n (Nat.eqb n p) = 1%nat -> n = p.
Proof. destruct (Nat.eqb n p) eqn:E; [apply Nat.eqb_eq in E; auto|discriminate]. Qed.

Lemma fr_post p ev isq kwq kw s : Fr p s (post ev isq kwq kw s).
Proof.
  unfold post. destruct isq; cbn [negb andb].
  - (* queue post: LPostQ (npsn s) logged, the event enqueued *)
    set (n := npsn s).
    assert (G : forall s2, evq s2 = evq s -> pend s2 = pend s -> cbq s2 = cbq s -> disps s2 = disps s ->
                           log s2 = LPostQ n :: log s -> npsn s2 = S n ->
                           Fr p s (upd_evq s2 (evq s2 ++ [mkP n ev true kwq kw]))).
    { intros s2 E1 E2 E3 E4 E5 E6. unfold Fr, bal, Uat, places, nposted. sst.
      rewrite E1, E2, E3, E4, E5, E6, sum_app. cbn [sum lc lq]. unfold qp at 2. cbn [p_queue p_psn andb].
      fold n. repeat split.
      - lia.
      - apply dsim_refl.
      - intros U. unfold Uat, nposted in U. fold n in U.
        destruct (Nat.eqb n p) eqn:E; cbn [b2n].
        + apply Nat.eqb_eq in E. subst p. replace (n <? n)%nat with false in U by (symmetry; apply Nat.ltb_irrefl).
          replace (n <? S n)%nat with true by (symmetry; apply Nat.ltb_lt; lia). cbn [b2n] in *. lia.
        + apply Nat.eqb_neq in E. destruct (p <? n)%nat eqn:L.
          * apply Nat.ltb_lt in L. replace (p <? S n)%nat with true by (symmetry; apply Nat.ltb_lt; lia). cbn in *. lia.
          * cbn [b2n] in U. destruct (p <? S n)%nat; cbn; lia. }
    apply G; unfold push_ready; sst; destruct (evq s) eqn:Q; sst; rewrite ?Q; reflexivity.
  - destruct (negb (reg_has ev (reg (upd_npsn s (S (npsn s)))))).
    + (* fast path *)
      unfold Fr, bal, Uat, places, nposted. sst. repeat split; auto using dsim_refl.
      intros U. destruct (p <? npsn s)%nat eqn:L.
      * apply Nat.ltb_lt in L. replace (p <? S (npsn s))%nat with true by (symmetry; apply Nat.ltb_lt; lia). exact U.
      * cbn [b2n] in U. lia.
    + assert (G : forall s2, evq s2 = evq s -> pend s2 = pend s -> cbq s2 = cbq s -> disps s2 = disps s ->
                             log s2 = log s -> npsn s2 = S (npsn s) ->
                             Fr p s (upd_evq s2 (evq s2 ++ [mkP (npsn s) ev false kwq kw]))).
      { intros s2 E1 E2 E3 E4 E5 E6. unfold Fr, bal, Uat, places, nposted. sst.
        rewrite E1, E2, E3, E4, E5, E6, sum_app. cbn [sum]. unfold qp at 2. cbn [p_queue andb b2n].
        repeat split; [lia|apply dsim_refl|].
        intros U. unfold Uat, nposted in U. destruct (p <? npsn s)%nat eqn:L.
        - apply Nat.ltb_lt in L. replace (p <? S (npsn s))%nat with true by (symmetry; apply Nat.ltb_lt; lia). exact U.
        - cbn [b2n] in U. lia. }
      apply G; unfold push_ready; sst; destruct (evq s) eqn:Q; sst; rewrite ?Q; reflexivity.
Qed.

Lemma fr_clear_nth p k s : Fr p s (clear_nth k s).
Proof.
  unfold clear_nth. destruct (outst s); [apply Fr_refl|].
  destruct (nth_error _ _) as [[q|q]|]; [| |apply Fr_refl].
  - eapply Fr_trans; [apply fr_upd_outst|apply fr_do_clear].
  - eapply Fr_trans; [apply fr_upd_outst|apply fr_push_ready].
Qed.

Lemma fr_cancel_nth p k s : Fr p s (cancel_nth k s).
Proof.
  unfold cancel_nth. destruct (outst s); [apply Fr_refl|].
  destruct (nth_error _ _) as [[q|q]|]; try apply Fr_refl.
  eapply Fr_trans; [apply fr_upd_outst|apply fr_push_ready].
Qed.

Lemma fr_exec_action p own a s : Fr p s (exec_action own a s).
Proof.
  destruct a; cbn [exec_action].
  - destruct own; [apply fr_do_wait|apply Fr_refl].
  - destruct own; [|apply Fr_refl]. eapply Fr_trans; [apply fr_upd_outst|apply fr_do_clear].
  - apply fr_clear_nth.
  - destruct (held q s); [|apply Fr_refl]. eapply Fr_trans; [apply fr_upd_outst|apply fr_do_clear].
  - apply fr_cancel_nth.
  - apply fr_post.
  - apply fr_post.
  - same.
Qed.

Lemma fr_exec_actions p own acts : forall s, Fr p s (exec_actions own acts s).
Proof.
  induction acts as [|a acts IH]; intros s; cbn [exec_actions]; [apply Fr_refl|].
  eapply Fr_trans; [apply fr_exec_action|apply IH].
Qed.

Lemma fr_adapter p q aw s : Fr p s (async_adapter q aw s).
Proof.
  unfold async_adapter. destruct (waiter_of q s); [apply fr_fail|].
  eapply Fr_trans; [apply fr_do_wait|apply fr_push_ready].
Qed.

(* steps that may add or finish dispatchers *)
Definition Pr (p : nat) (s s' : state) : Prop := bal p s' = bal p s /\ (Uat p s -> Uat p s').

Lemma Pr_refl p s : Pr p s s.
Proof. split; auto. Qed.

Lemma Pr_trans p a b c : Pr p a b -> Pr p b c -> Pr p a c.
Proof. intros [A1 A2] [B1 B2]. split; [congruence|auto]. Qed.

Lemma Fr_Pr p s s' : Fr p s s' -> Pr p s s'.
Proof. intros [A [_ B]]. split; auto. Qed.

Definition slot (i P : nat) (s : state) : Prop :=
  exists d0, nth_error (disps s) i = Some d0 /\ not_done d0 = true /\ d_psn d0 = P.

Lemma slot_Fr p i P s s' : Fr p s s' -> slot i P s -> slot i P s'.
Proof.
  intros [_ [D _]] [d0 [H [N E]]]. destruct (dsim_nth _ _ _ _ D H) as [d1 [H1 [A B]]].
  exists d1. repeat split; auto; congruence.
Qed.

(* dispatcher i (not done, post number P) is replaced by a not-done dispatcher with the same post number *)
Lemma pr_set_live p i s d' s0 :
  slot i (d_psn d') s -> not_done d' = true ->
  evq s0 = evq s -> pend s0 = pend s -> cbq s0 = cbq s -> disps s0 = disps s -> log s0 = log s -> npsn s0 = npsn s ->
  Pr p s (set_disp i d' s0).
Proof.
  intros [d0 [H [N E]]] N' E1 E2 E3 E4 E5 E6. unfold Pr, bal, Uat, places, nposted, set_disp. sst.
  rewrite E1, E2, E3, E4, E5, E6.
  pose proof (sum_set_nth (dp p) d' _ _ _ H) as X.
  assert (Y : dp p d0 = dp p d') by (unfold dp; rewrite N, N', E; reflexivity).
  split; [lia|auto].
Qed.

(* dispatcher i finishes: DDone and LCallback *)
Lemma pr_finish p i s d' :
  slot i (d_psn d') s -> not_done d' = false ->
  Pr p s (add_log (set_disp i d' s) (LCallback (d_psn d'))).
Proof.
  intros [d0 [H [N E]]] N'. unfold Pr, bal, Uat, places, nposted, set_disp. sst. cbn [sum lc lq].
  pose proof (sum_set_nth (dp p) d' _ _ _ H) as X.
  assert (Y : dp p d0 = b2n (Nat.eqb (d_psn d') p)) by (unfold dp; rewrite N, E; reflexivity).
  assert (Z0 : dp p d' = 0%nat) by (unfold dp; rewrite N'; reflexivity).
  split; [lia|auto].
Qed.

Lemma pr_run_hs p i : forall rem d s, slot i (d_psn d) s -> Pr p s (run_hs i d rem s).
Proof.
  induction rem as [|h rem IH]; intros d s S; cbn [run_hs].
  - apply (pr_finish p i s (mkD (d_psn d) (d_ev d) (d_kwq d) (d_kw d) (d_snap d) [] DDone)); auto.
  - destruct (negb (cond_ok (h_cond h) (merged_kw d h))); [apply IH; exact S|].
    set (q := match merged_queue d h with Some q => q | None => length (heap s) end).
    set (s1 := match merged_queue d h with Some _ => s | None => upd_heap s (heap s ++ [mkQ false None]) end).
    set (s2 := add_log (add_log s1 (LInvoke (d_psn d) (h_id h) q)) (LArgs (merged_kw d h))).
    set (s3 := match h_body h with HSync acts => exec_actions (Some q) acts s2 | HAsync aw => async_adapter q aw s2 end).
    assert (F2 : Fr p s s2).
    { unfold s2, s1. destruct (merged_queue d h); same. }
    assert (F3 : Fr p s s3).
    { eapply Fr_trans; [exact F2|]. unfold s3. destruct (h_body h); [apply fr_exec_actions|apply fr_adapter]. }
    assert (S3 : slot i (d_psn d) s3) by (eapply slot_Fr; eauto).
    destruct (waiter_of q s3).
    + eapply Pr_trans; [apply Fr_Pr; exact F3|].
      apply (pr_set_live p i s3 (mkD (d_psn d) (d_ev d) (d_kwq d) (d_kw d) (d_snap d) rem (DSleep q (nev s3)))); sst; auto.
    + eapply Pr_trans; [apply Fr_Pr; exact F3|]. apply IH. exact S3.
Qed.

Lemma pr_disp_step p i s : Pr p s (disp_step false i s).
Proof.
  unfold disp_step. destruct (nth_error (disps s) i) as [d|] eqn:Hd; [|apply Pr_refl].
  destruct (d_st d) eqn:St.
  - assert (S : slot i (d_psn d) s) by (exists d; unfold not_done; rewrite St; auto).
    destruct (reg_get (d_ev d) (reg s)) as [hs|].
    + apply (pr_run_hs p i hs (mkD (d_psn d) (d_ev d) (d_kwq d) (d_kw d) hs hs DNew)). exact S.
    + pose proof (pr_finish p i s (set_st d DDone)) as X. destruct d; cbn in *. apply X; auto.
  - assert (S : slot i (d_psn d) s) by (exists d; unfold not_done; rewrite St; auto).
    destruct (waiter_of q s).
    + pose proof (pr_set_live p i s (set_st d (DSleep q (nev s)))) as X. destruct d; cbn in *. apply X; sst; auto.
    + apply pr_run_hs. exact S.
  - apply Pr_refl.
  - apply Pr_refl.
Qed.

Lemma fr_run_plain p psn hs : forall s, Fr p s (run_plain psn hs s).
Proof.
  induction hs as [|h hs IH]; intros s; cbn [run_plain]; [apply Fr_refl|].
  eapply Fr_trans; [|apply IH].
  destruct (h_body h).
  - eapply Fr_trans; [|apply fr_exec_actions]. same.
  - eapply Fr_trans; [|apply fr_fail]. same.
Qed.

(* one event leaves the pending stack: a queue event becomes a dispatcher or goes to callback_queue *)
Lemma bal_process p x s :
  bal p (process x s) = bal p s + Z.of_nat (qp p x) /\ (Uat p s -> Uat p (process x s)).
Proof.
  unfold process. destruct (p_queue x) eqn:Q.
  - destruct (reg_has (p_ev x) (reg s)).
    + unfold bal, Uat, places, nposted, push_ready. sst. rewrite sum_app. cbn [sum]. unfold dp at 2, qp.
      cbn [not_done d_st d_psn]. rewrite Q. cbn [andb]. split; [lia|auto].
    + unfold bal, Uat, places, nposted. sst. rewrite sum_app. cbn [sum]. unfold cp at 2, qp. rewrite Q. cbn [andb].
      split; [lia|auto].
  - assert (Z0 : qp p x = 0%nat) by (unfold qp; rewrite Q; reflexivity). rewrite Z0.
    destruct (reg_get (p_ev x) (reg s)).
    + destruct (fr_run_plain p (p_psn x) l s) as [A [_ B]]. split; [lia|auto].
    + split; [lia|auto].
Qed.

Lemma rev_cons_last {A} (l : list A) c r : rev l = c :: r -> l = removelast l ++ [c].
Proof.
  intros H. assert (E : l = rev r ++ [c]) by (rewrite <- (rev_involutive l), H; reflexivity).
  rewrite E at 2. rewrite removelast_last. exact E.
Qed.

Lemma pr_peq_step p s : Pr p s (peq_step s).
Proof.
  unfold peq_step. destruct (pend s) as [|x ps] eqn:Hp.
  - destruct (evq s) as [|y ys] eqn:He.
    + destruct (rev (cbq s)) as [|c r] eqn:Hc.
      * unfold Pr, bal, Uat, places, nposted. sst. auto.
      * apply rev_cons_last in Hc. unfold Pr, bal, Uat, places, nposted. sst. cbn [sum lc lq].
        assert (X : sum (cp p) (cbq s) = (sum (cp p) (removelast (cbq s)) + cp p c)%nat).
        { rewrite Hc at 1. rewrite sum_app. cbn. lia. }
        unfold cp in X at 3. split; [lia|auto].
    + unfold Pr, bal, Uat, places, nposted. sst. rewrite Hp, He. cbn [sum]. split; [lia|auto].
  - destruct (bal_process p x (upd_pend s ps)) as [B U].
    set (s1 := process x (upd_pend s ps)) in *.
    unfold Pr. split.
    + assert (B0 : bal p (upd_pend s ps) = bal p s - Z.of_nat (qp p x)).
      { unfold bal, places, nposted. sst. rewrite Hp. cbn [sum]. lia. }
      assert (B1 : bal p (upd_evq (upd_pend s1 (evq s1 ++ pend s1)) []) = bal p s1).
      { unfold bal, places, nposted. sst. rewrite sum_app. cbn [sum]. lia. }
      lia.
    + intros U0. unfold Uat, nposted in *. sst. apply U. exact U0.
Qed.

Lemma pr_step p s s' : step false s = Some s' -> Pr p s s'.
Proof.
  unfold step. destruct (err s); [discriminate|]. destruct (inpeq s).
  - intros H. inversion H; subst. apply pr_peq_step.
  - destruct (ready s) as [|r rs]; [discriminate|]. intros H. inversion H; subst; clear H.
    assert (F0 : Fr p s (upd_ready s rs)) by same.
    eapply Pr_trans; [apply Fr_Pr; exact F0|].
    destruct r as [|i|q aw|q|q].
    + apply Fr_Pr. same.
    + apply pr_disp_step.
    + destruct aw; apply Fr_Pr; [same|apply fr_push_ready].
    + apply Fr_Pr. apply fr_push_ready.
    + apply Fr_Pr. apply fr_do_clear.
Qed.

Lemma reachable_bal s : reachable false s -> forall p, bal p s = 0 /\ Uat p s.
Proof.
  induction 1; intros p.
  - unfold bal, Uat, places, nposted, init_state. sst. cbn. split; [reflexivity|lia].
  - destruct (IHreachable p) as [B U]. destruct (fr_exec_actions p None acts s) as [A [_ C]]. split; [lia|auto].
  - destruct (IHreachable p) as [B U]. destruct (pr_step p _ _ H0) as [A C]. split; [lia|auto].
  - destruct (IHreachable p) as [B U]. unfold bal, Uat, places, nposted in *. sst. auto.
Qed.

(* ---------------------------------------------------------------------------------------------- *)
(* the callback of every post fires at most once, never without a post, and - when the loop is idle and nothing is
   outstanding - exactly once for every queue post *)
Lemma b2n_le b : (b2n b <= 1)%nat.
Proof. destruct b; cbn; lia. Qed.

Lemma queue_callback_once_l s :
  reachable false s ->
  (forall p, (sum (lc p) (log s) <= sum (lq p) (log s) <= 1)%nat) /\
  (idle false s -> outst s = [] -> forall p, sum (lc p) (log s) = sum (lq p) (log s)).
Proof.
  intros R. split.
  - intros p. destruct (reachable_bal s R p) as [B U]. unfold bal, places, nposted, Uat, nposted in *.
    pose proof (b2n_le (p <? npsn s)%nat). lia.
  - intros I O p. destruct (reachable_bal s R p) as [B _].
    destruct (queue_all_complete_l false s R I O) as [D [E1 [E2 E3]]].
    assert (Z0 : sum (dp p) (disps s) = 0%nat).
    { clear -D. induction (disps s) as [|d ds IH]; cbn; auto.
      rewrite IH by (intros; apply D; right; auto).
      unfold dp, not_done. rewrite (D d) by (left; auto). reflexivity. }
    unfold bal, places, nposted in B. rewrite E1, E2, E3, Z0 in B. cbn [sum] in B. lia.
Qed.

Lemma sum_existsb p l : (1 <= sum (lc p) l)%nat <-> existsb (obs_eqb (LCallback p)) l = true.
Proof.
  induction l as [|o l IH]; cbn; [split; [lia|discriminate]|].
  destruct o; cbn; try exact IH.
  destruct (Nat.eqb p psn) eqn:E.
  - apply Nat.eqb_eq in E. subst. rewrite Nat.eqb_refl. cbn. split; auto. lia.
  - rewrite Nat.eqb_sym, E. cbn. exact IH.
Qed.

Definition ncallbacks (p : nat) (l : list obs) : nat := sum (lc p) l.     (* LCallback p entries *)
Definition nqposts (p : nat) (l : list obs) : nat := sum (lq p) l.        (* LPostQ p entries *)

Lemma ncallbacks_cons p o l : ncallbacks p (o :: l) = (match o with LCallback c => if Nat.eqb c p then 1 else 0 | _ => 0 end + ncallbacks p l)%nat.
Proof. unfold ncallbacks. cbn [sum]. destruct o; cbn [lc b2n]; auto. Qed.

Lemma nqposts_cons p o l : nqposts p (o :: l) = (match o with LPostQ c => if Nat.eqb c p then 1 else 0 | _ => 0 end + nqposts p l)%nat.
Proof. unfold nqposts. cbn [sum]. destruct o; cbn [lq b2n]; auto. Qed.

Lemma queue_callback_once_full_l s :
  reachable false s ->
  (forall p, (ncallbacks p (log s) <= nqposts p (log s) <= 1)%nat) /\
  (idle false s -> outst s = [] ->
   (forall p, ncallbacks p (log s) = nqposts p (log s)) /\
   (forall p, existsb (obs_eqb (LPostQ p)) (log s) = true -> ncallbacks p (log s) = 1%nat)).
Proof.
  intros R. destruct (queue_callback_once_l s R) as [A B]. split; [exact A|].
  intros I O. specialize (B I O). split; [exact B|].
  intros p E. specialize (A p). specialize (B p). unfold ncallbacks.
  assert (X : (1 <= sum (lq p) (log s))%nat).
  { clear -E. induction (log s) as [|o l IH]; cbn in *; [discriminate|].
    apply orb_true_iff in E as [E|E].
    - destruct o; cbn in E; try discriminate. apply Nat.eqb_eq in E. subst. cbn. rewrite Nat.eqb_refl. cbn. lia.
    - specialize (IH E). lia. }
  lia.
Qed.
