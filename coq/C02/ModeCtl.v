(* C02/ModeCtl.v — Part 4 of the model (definitions only): ModeController._ball_ending / _mode_stopped_callback
   (mode_controller.py) and the part of Mode.stop / Mode._stopped / Mode._mode_stopped_callback (mode.py) they rely on:
   a nested client of queue events.  The handler of the `ball_ending` queue event locks the queue it is given, asks
   every running game mode with stop_on_ball_end to stop with a callback, counts them (mode_stop_count), and clears the
   queue when the count returns to zero.  A mode's stop is itself a queue event (`mode_<name>_stopping`) which other
   handlers may hold open for any time; a mode that is ALREADY stopping only gets the callback appended.

     Mode.stop(callback):  if not active: return False; stop_callbacks.append(callback);
                           if stopping: return True;  stopping = True; post_queue(mode_<n>_stopping, _stopped); return True
     Mode._stopped -> (mode_<n>_stopped) -> _mode_stopped_callback: active = stopping = False;
                           for cb in stop_callbacks: cb(); stop_callbacks = []
     ModeController._ball_ending(queue): queue.wait(); count = 0;
                           for mode in active_modes: if game mode and stop_on_ball_end: count += 1; mode.stop(cb)
                           if not count: queue.clear()
     ModeController._mode_stopped_callback: count -= 1; if not count: queue.clear()
   (`if not self.active_modes: return` never applies during a game: the game mode itself is active.) *)
From Common Require Import Prelude.
From C02 Require Import Model.
Open Scope Z_scope.

Inductive mphase := MIdle | MActive | MStopping.

Record gmode := mkGM { gm_game : bool;          (* is_game_mode *)
                       gm_auto : bool;          (* stop_on_ball_end *)
                       gm_phase : mphase;       (* _active / stopping *)
                       gm_cbs : nat }.          (* ModeController callbacks in stop_callbacks *)

Record mcstate := mkMC { mc_modes : list gmode;
                         mc_count : Z;          (* mode_stop_count *)
                         mc_locked : bool;      (* the ball_ending queue is held by the controller *)
                         mc_done : nat;         (* number of queue.clear() calls: completions of ball_ending *)
                         mc_err : bool }.       (* Double lock / Not locked *)

Inductive mcop :=
| OpStart (i : nat)         (* mode i starts (and becomes active) *)
| OpStop (i : nat)          (* somebody else calls mode i .stop() *)
| OpStopped (i : nat)       (* the mode_<i>_stopping queue event of mode i completes *)
| OpBallEnding.             (* the ball_ending queue event reaches ModeController._ball_ending *)

Definition is_idle (p : mphase) : bool := match p with MIdle => true | _ => false end.

Definition set_mode (i : nat) (m : gmode) (st : mcstate) : mcstate :=
  mkMC (set_nth i m (mc_modes st)) (mc_count st) (mc_locked st) (mc_done st) (mc_err st).

(* queue.clear() *)
Definition mc_clear (st : mcstate) : mcstate :=
  if mc_locked st then mkMC (mc_modes st) (mc_count st) false (S (mc_done st)) (mc_err st)
  else mkMC (mc_modes st) (mc_count st) false (mc_done st) true.

(* ModeController._mode_stopped_callback *)
Definition ctl_cb (st : mcstate) : mcstate :=
  let st1 := mkMC (mc_modes st) (mc_count st - 1) (mc_locked st) (mc_done st) (mc_err st) in
  if mc_count st1 =? 0 then mc_clear st1 else st1.

Fixpoint iter_cb (n : nat) (st : mcstate) : mcstate :=
  match n with O => st | S n' => iter_cb n' (ctl_cb st) end.

(* a mode the controller waits for *)
Definition counted (m : gmode) : bool := gm_game m && gm_auto m && negb (is_idle (gm_phase m)).

(* mode.stop(callback=self._mode_stopped_callback) on a running mode *)
Definition be_mode (m : gmode) : gmode :=
  if counted m then mkGM (gm_game m) (gm_auto m) MStopping (S (gm_cbs m)) else m.

Definition op_ball_ending (st : mcstate) : mcstate :=
  if mc_locked st then mkMC (mc_modes st) (mc_count st) (mc_locked st) (mc_done st) true      (* Double lock *)
  else
    let st1 := mkMC (map be_mode (mc_modes st)) (Z.of_nat (length (filter counted (mc_modes st)))) true
                    (mc_done st) (mc_err st) in
    if mc_count st1 =? 0 then mc_clear st1 else st1.

Definition mc_op (st : mcstate) (o : mcop) : mcstate :=
  match o with
  | OpStart i =>
      match nth_error (mc_modes st) i with
      | Some m => if is_idle (gm_phase m) then set_mode i (mkGM (gm_game m) (gm_auto m) MActive (gm_cbs m)) st else st
      | None => st
      end
  | OpStop i =>
      match nth_error (mc_modes st) i with
      | Some m => match gm_phase m with
                  | MActive => set_mode i (mkGM (gm_game m) (gm_auto m) MStopping (gm_cbs m)) st
                  | _ => st
                  end
      | None => st
      end
  | OpStopped i =>
      match nth_error (mc_modes st) i with
      | Some m => match gm_phase m with
                  | MStopping => iter_cb (gm_cbs m) (set_mode i (mkGM (gm_game m) (gm_auto m) MIdle 0%nat) st)
                  | _ => st
                  end
      | None => st
      end
  | OpBallEnding => op_ball_ending st
  end.

Definition mc_ops (ops : list mcop) (st : mcstate) : mcstate := fold_left mc_op ops st.

(* ---------------------------------------------------------------------------------------------- *)
(* driver for the correspondence run: one environment operation per loop slice; a mode whose mode_<n>_stopping event
   nobody holds completes its stop within the slice *)
Inductive beop := BStart (i : nat) | BStop (i : nat) | BRelease (i : nat) | BBallEnding.

Fixpoint settle_from (holds : list bool) (i : nat) (n : nat) (st : mcstate) : mcstate :=
  match n with
  | O => st
  | S n' =>
      let st' := match nth_error (mc_modes st) i, nth_error holds i with
                 | Some m, Some false => match gm_phase m with MStopping => mc_op st (OpStopped i) | _ => st end
                 | _, _ => st
                 end in
      settle_from holds (S i) n' st'
  end.

Definition settle (holds : list bool) (st : mcstate) : mcstate := settle_from holds 0%nat (length (mc_modes st)) st.

Definition be_step (holds : list bool) (st : mcstate) (o : beop) : mcstate :=
  settle holds match o with
               | BStart i => mc_op st (OpStart i)
               | BStop i => mc_op st (OpStop i)
               | BRelease i => mc_op st (OpStopped i)
               | BBallEnding => mc_op st OpBallEnding
               end.

Definition phase_code (p : mphase) : Z := match p with MIdle => 0 | MActive => 1 | MStopping => 2 end.

(* observation after every operation: phases, mode_stop_count, queue locked, completions so far, error *)
Definition mc_obs (st : mcstate) : list Z * Z * bool * nat * bool :=
  (map (fun m => phase_code (gm_phase m)) (mc_modes st), mc_count st, mc_locked st, mc_done st, mc_err st).

Fixpoint be_trace (holds : list bool) (ops : list beop) (st : mcstate) : list (list Z * Z * bool * nat * bool) :=
  match ops with
  | [] => []
  | o :: ops' => let st' := be_step holds st o in mc_obs st' :: be_trace holds ops' st'
  end.

Definition mc_init (cfg : list (bool * bool)) : mcstate :=
  mkMC (map (fun c => mkGM (fst c) (snd c) MIdle 0%nat) cfg) 0 false 0%nat false.

Definition ballend_run (inp : list (bool * bool) * list bool * list beop) : list (list Z * Z * bool * nat * bool) :=
  be_trace (snd (fst inp)) (snd inp) (mc_init (fst (fst inp))).

Definition mcobs_eqb (a b : list Z * Z * bool * nat * bool) : bool :=
  match a, b with
  | (p1, c1, l1, d1, e1), (p2, c2, l2, d2, e2) =>
      list_eqb Z.eqb p1 p2 && (c1 =? c2) && Bool.eqb l1 l2 && Nat.eqb d1 d2 && Bool.eqb e1 e2
  end.

Definition ballend_out_eqb (a b : list (list Z * Z * bool * nat * bool)) : bool := list_eqb mcobs_eqb a b.
