(* C02/Lemmas.v — remaining lemmas: priority order of the registry, satisfiability examples. *)
From Common Require Import Prelude.
From Coq Require Import Sorting.Sorted.
From C02 Require Import Model LemSync LemQueue.
Open Scope Z_scope.

Definition prio_ge (a b : handler) : Prop := h_prio a >= h_prio b.

Lemma insert_h_sorted h l : StronglySorted prio_ge l -> StronglySorted prio_ge (insert_h h l).
Proof.
  induction l as [|x l IH]; cbn; intros S.
  - constructor; constructor.
  - inversion S as [|? ? S' F]; subst.
    destruct (h_prio x <? h_prio h) eqn:E.
    + apply Z.ltb_lt in E. constructor; [exact S|]. constructor; [unfold prio_ge; lia|].
      eapply Forall_impl; [|exact F]. unfold prio_ge. intros; lia.
    + apply Z.ltb_ge in E. constructor; [apply IH; exact S'|].
      assert (G : forall l0, Forall (prio_ge x) l0 -> Forall (prio_ge x) (insert_h h l0)).
      { induction l0 as [|y l0 IH0]; cbn; intros F0.
        - constructor; [unfold prio_ge; lia|constructor].
        - inversion F0; subst. destruct (h_prio y <? h_prio h); constructor; auto.
          unfold prio_ge; lia. }
      apply G. exact F.
Qed.

(* equal priorities keep registration order: the new handler goes after every handler of priority >= its own *)
Lemma insert_h_stable h l :
  exists pre post, l = pre ++ post /\ insert_h h l = pre ++ h :: post /\
    Forall (fun x => h_prio x >= h_prio h) pre /\ (forall y post', post = y :: post' -> h_prio y < h_prio h).
Proof.
  induction l as [|x l IH]; cbn.
  - exists [], []. repeat split; auto. intros; discriminate.
  - destruct (h_prio x <? h_prio h) eqn:E.
    + apply Z.ltb_lt in E. exists [], (x :: l). repeat split; auto. intros y p' H. inversion H; subst. exact E.
    + apply Z.ltb_ge in E. destruct IH as [pre [post [A [B [C D]]]]].
      exists (x :: pre), post. repeat split; cbn; try congruence; auto. constructor; [lia|exact C].
Qed.

Lemma filter_sorted {A} (R : A -> A -> Prop) f l : StronglySorted R l -> StronglySorted R (filter f l).
Proof.
  induction 1 as [|x l S IH F]; cbn; [constructor|].
  destruct (f x); auto. constructor; auto.
  clear -F. induction F; cbn; auto. destruct (f x0); auto.
Qed.

Definition reg_sorted (r : list (Z * list handler)) : Prop :=
  forall ev hs, In (ev, hs) r -> StronglySorted prio_ge hs.

Lemma reg_add_sorted ev h r : reg_sorted r -> reg_sorted (reg_add ev h r).
Proof.
  unfold reg_sorted. induction r as [|[e0 hs0] r IH]; cbn; intros Hr e hs Hin.
  - destruct Hin as [Hin|[]]. inversion Hin; subst. constructor; constructor.
  - destruct (e0 =? ev).
    + destruct Hin as [Hin|Hin]; [|eauto]. inversion Hin; subst. apply insert_h_sorted; eauto.
    + destruct Hin as [Hin|Hin]; [inversion Hin; subst; eauto|]. eapply IH; eauto.
Qed.

Lemma init_reg_sorted_l regs : reg_sorted (init_reg regs).
Proof.
  unfold init_reg. assert (G : forall r, reg_sorted r ->
     reg_sorted (fold_left (fun r eh => reg_add (fst eh) (snd eh) r) regs r)).
  { induction regs as [|[ev h] regs IH]; cbn; intros r Hr; auto. apply IH. apply reg_add_sorted. exact Hr. }
  apply G. intros ? ? [].
Qed.

Lemma reg_remove_sorted_l h r : reg_sorted r -> reg_sorted (reg_remove h r).
Proof.
  unfold reg_sorted. intros Hr ev hs' Hin. destruct (reg_remove_In _ _ _ _ Hin) as [hs [A ->]].
  unfold drop_h. apply filter_sorted. eauto.
Qed.

(* One iteration of the loop of _run_handlers_sequential.
   - condition false on the merged kwargs: the handler is skipped without a trace;
   - otherwise the FIRST thing that happens is the invocation of the head of the remaining list (the snapshot is
     consumed front to back) with the queue object [registered `queue` kwarg, else posted `queue` kwarg, else a fresh
     QueuedEvent] and with the data kwargs [merged_kw d h] = posted kwargs overridden by the registered ones. *)
Lemma run_hs_iteration i d h rem s :
  (cond_ok (h_cond h) (merged_kw d h) = false -> run_hs i d (h :: rem) s = run_hs i d rem s) /\
  (cond_ok (h_cond h) (merged_kw d h) = true ->
   let q := match h_kwq h with Some q => q | None => match d_kwq d with Some q => q | None => length (heap s) end end in
   exists s2, log s2 = LArgs (kw_update (d_kw d) (h_kw h)) :: LInvoke (d_psn d) (h_id h) q :: log s /\
    run_hs i d (h :: rem) s =
      (let s3 := match h_body h with HSync acts => exec_actions (Some q) acts s2 | HAsync aw => async_adapter q aw s2 end in
       if waiter_of q s3 then
         set_disp i (mkD (d_psn d) (d_ev d) (d_kwq d) (d_kw d) (d_snap d) rem (DSleep q (nev s3)))
           (upd_nev (upd_heap s3 (set_nth q (mkQ (q_waiter match nth_error (heap s3) q with Some o => o | None => mkQ true None end)
                                                  (Some (nev s3))) (heap s3))) (S (nev s3)))
       else run_hs i d rem s3)).
Proof.
  split; intros C; cbn [run_hs]; rewrite C; cbn [negb]; [reflexivity|].
  unfold merged_queue. destruct (h_kwq h) as [q1|]; [|destruct (d_kwq d) as [q2|]];
    cbv zeta; eexists; (split; [|reflexivity]); reflexivity.
Qed.

(* dict semantics of the merge: a key registered with the handler wins (last binding), other keys pass through *)
Lemma kw_get_set k k' v kw : kw_get k (kw_set k' v kw) = if k =? k' then Some v else kw_get k kw.
Proof.
  induction kw as [|[k0 v0] kw IH]; cbn.
  - destruct (k =? k'); reflexivity.
  - destruct (k' =? k0) eqn:E1; cbn.
    + apply Z.eqb_eq in E1. subst k0. destruct (k =? k'); reflexivity.
    + destruct (k' <? k0) eqn:E2; cbn.
      * destruct (k =? k'); reflexivity.
      * rewrite IH. destruct (k =? k0) eqn:E3; [|reflexivity].
        apply Z.eqb_eq in E3. subst k0. rewrite Z.eqb_sym, E1. reflexivity.
Qed.

Definition last_binding (k : Z) (d : list (Z * Z)) (dflt : option Z) : option Z :=
  fold_left (fun acc kv => if k =? fst kv then Some (snd kv) else acc) d dflt.

Lemma kw_get_update k : forall d kw, kw_get k (kw_update kw d) = last_binding k d (kw_get k kw).
Proof.
  unfold kw_update, last_binding. induction d as [|[k' v] d IH]; intros kw; cbn; [reflexivity|].
  rewrite IH, kw_get_set. reflexivity.
Qed.

Lemma queue_handler_kwargs_l :
  (forall k d kw, kw_get k (kw_update kw d) = last_binding k d (kw_get k kw)) /\
  (forall i d h rem s,
    (cond_ok (h_cond h) (merged_kw d h) = false -> run_hs i d (h :: rem) s = run_hs i d rem s) /\
    (cond_ok (h_cond h) (merged_kw d h) = true ->
     let q := match h_kwq h with Some q => q | None => match d_kwq d with Some q => q | None => length (heap s) end end in
     exists s2, log s2 = LArgs (kw_update (d_kw d) (h_kw h)) :: LInvoke (d_psn d) (h_id h) q :: log s /\
      run_hs i d (h :: rem) s =
        (let s3 := match h_body h with HSync acts => exec_actions (Some q) acts s2 | HAsync aw => async_adapter q aw s2 end in
         if waiter_of q s3 then
           set_disp i (mkD (d_psn d) (d_ev d) (d_kwq d) (d_kw d) (d_snap d) rem (DSleep q (nev s3)))
             (upd_nev (upd_heap s3 (set_nth q (mkQ (q_waiter match nth_error (heap s3) q with Some o => o | None => mkQ true None end)
                                                    (Some (nev s3))) (heap s3))) (S (nev s3)))
         else run_hs i d rem s3))).
Proof. split; [exact kw_get_update|exact run_hs_iteration]. Qed.

(* ---------------------------------------------------------------------------------------------- *)
(* satisfiability examples *)

(* two queue events in flight, nested post, waits released later in reverse order *)
Definition ex_regs : list (Z * handler) :=
  [(1, mkH 1 5 [(1, 7)] None None (HSync [AWait; APostQ 2 false [(2, 3)]])); (1, mkH 2 1 [] None (Some (1, 4)) (HAsync true));
   (2, mkH 3 1 [] None None (HSync [AWait]))].
Definition ex_env1 : list (list action) := [[APostQ 1 false [(1, 4)]]].
Definition ex_env2 : list (list action) := [[APostQ 1 false [(1, 4)]]; [AClearNth 1]; [AClearNth 0]; [AClearNth 0]].

Lemma ex_fresh : forallb (fun eh => fresh_h (snd eh)) ex_regs = true /\
                 forallb (forallb fresh_action) ex_env2 = true /\ forallb (forallb fresh_action) ex_env1 = true.
Proof. repeat split. Qed.

Lemma ex_sleeping :
  let s := env_run false default_fuel ex_env1 (init_state ex_regs) in
  reachable false s /\ exists i d q e, nth_error (disps s) i = Some d /\ d_st d = DSleep q e /\ (length (disps s) = 2)%nat.
Proof.
  split.
  - apply env_run_reachable; [apply r_init|]; apply ex_fresh.
  - vm_compute. exists 0%nat. eexists. exists 0%nat, 0%nat. repeat split.
Qed.

Lemma ex_complete :
  let s := env_run false default_fuel ex_env2 (init_state ex_regs) in
  reachable false s /\ idle false s /\ outst s = [] /\ (length (disps s) = 2)%nat /\
  existsb (obs_eqb (LCallback 0)) (log s) = true /\ existsb (obs_eqb (LCallback 1)) (log s) = true.
Proof.
  split.
  - apply env_run_reachable; [apply r_init|]; apply ex_fresh.
  - vm_compute. repeat split.
Qed.

Lemma mode_start_fixed_fresh_l uwq ev : forallb fresh_action (mode_start_script uwq false ev) = true.
Proof. destruct uwq; reflexivity. Qed.

Lemma ex_relay :
  let hs := [mkSH 1 (beh_fun (BIncr 1)); mkSH 2 (beh_fun (BConst (RDict [(2, 7)]))); mkSH 3 (beh_fun (BIncr 1))] in
  so_seen (run_sync TRelay hs [(1, 5)] [] RNone) = [(1, [(1, 5)]); (2, [(1, 6)]); (3, [(1, 6); (2, 7)])] /\
  so_kwargs (run_sync TRelay hs [(1, 5)] [] RNone) = [(1, 7); (2, 7)].
Proof. vm_compute. split; reflexivity. Qed.

Lemma ex_boolean :
  let hs := [mkSH 1 (beh_fun (BConst (RBool true))); mkSH 2 (beh_fun (BFalseIf 1 5)); mkSH 3 (beh_fun (BConst RNone))] in
  map fst (so_seen (run_sync TBoolean hs [(1, 5)] [] RNone)) = [1; 2] /\
  callback_evres (run_sync TBoolean hs [(1, 5)] [] RNone) = EFalse.
Proof. vm_compute. split; reflexivity. Qed.

Lemma driver_states_reachable_l :
  forall lost fuel regs bs,
    forallb (fun eh => fresh_h (snd eh)) regs = true -> forallb (forallb fresh_action) bs = true ->
    reachable lost (env_run lost fuel bs (init_state regs)).
Proof. intros. apply env_run_reachable; [apply r_init|]; assumption. Qed.

Lemma nested_shared_queue_refuted_full :
  exists regs env,
    let s := env_run false default_fuel env (init_state regs) in
    err s = false /\ quiescent false s = true /\ outst s = [] /\
    existsb (obs_eqb (LPostQ 0)) (log s) = true /\ existsb (obs_eqb (LCallback 0)) (log s) = false.
Proof. exists shared_regs, shared_env. vm_compute. repeat split. Qed.

Lemma removed_handlers_callback_lost_refuted_full :
  exists regs env,
    forallb (fun eh => fresh_h (snd eh)) regs = true /\ forallb (forallb fresh_action) env = true /\
    let s := env_run true default_fuel env (init_state regs) in
    err s = false /\ quiescent true s = true /\ outst s = [] /\
    existsb (obs_eqb (LPostQ 1)) (log s) = true /\ existsb (obs_eqb (LCallback 1)) (log s) = false.
Proof. exists removed_regs, removed_env. vm_compute. repeat split. Qed.

Lemma registry_priority_sorted_l :
  (forall regs ev hs, In (ev, hs) (init_reg regs) -> StronglySorted prio_ge hs) /\
  (forall h r, reg_sorted r -> reg_sorted (reg_remove h r)) /\
  (forall h l, exists pre post, l = pre ++ post /\ insert_h h l = pre ++ h :: post /\
     Forall (fun x => h_prio x >= h_prio h) pre /\ (forall y post', post = y :: post' -> h_prio y < h_prio h)).
Proof. split; [exact init_reg_sorted_l|split; [exact reg_remove_sorted_l|exact insert_h_stable]]. Qed.

(* handler 1 is registered with k1=7 and is posted k1=4: it sees 7; handler 2 has condition k1==4 on the posted value *)
Lemma ex_args :
  let s := env_run false default_fuel ex_env2 (init_state ex_regs) in
  existsb (obs_eqb (LArgs [(1, 7)])) (log s) = true /\ existsb (obs_eqb (LArgs [(1, 4)])) (log s) = true /\
  existsb (obs_eqb (LInvoke 0 2 2)) (log s) = true /\
  last_binding 1 [(1, 7)] (kw_get 1 [(1, 4)]) = Some 7.
Proof. vm_compute. repeat split. Qed.
