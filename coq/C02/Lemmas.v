(* C02/Lemmas.v — remaining lemmas: priority order of the registry, satisfiability examples. *)
From Common Require Import Prelude.
From Coq Require Import Sorting.Sorted.
From C02 Require Import Model LemSync LemQueue LemOnce.
Open Scope Z_scope.

Definition prio_ge (a b : handler) : Prop := h_prio a >= h_prio b.

Lemma insert_h_sorted h l : StronglySorted prio_ge l -> StronglySorted prio_ge (insert_h h l).
Proof.
  induction l as [|x l IH]; cbn; intros S.
  - constructor; constructor.
  - inversion S as [|? ? S' F]; subst.
    destruct (h_prio x <? h_prio h) eqn:E.
    + apply Z.ltb_lt in E. constructor; [exact S|]. constructor; [unfold prio_ge; lia|].
      eapply Forall_impl; [|exact F]. unfold prio_ge. intros; lia.
    + apply Z.ltb_ge in E. constructor; [apply IH; exact S'|].
      assert (G : forall l0, Forall (prio_ge x) l0 -> Forall (prio_ge x) (insert_h h l0)).
      { induction l0 as [|y l0 IH0]; cbn; intros F0.
        - constructor; [unfold prio_ge; lia|constructor].
        - inversion F0; subst. destruct (h_prio y <? h_prio h); constructor; auto.
          unfold prio_ge; lia. }
      apply G. exact F.
Qed.

(* equal priorities keep registration order: the new handler goes after every handler of priority >= its own *)
Lemma insert_h_stable h l :
  exists pre post, l = pre ++ post /\ insert_h h l = pre ++ h :: post /\
    Forall (fun x => h_prio x >= h_prio h) pre /\ (forall y post', post = y :: post' -> h_prio y < h_prio h).
Proof.
  induction l as [|x l IH]; cbn.
  - exists [], []. repeat split; auto. intros; discriminate.
  - destruct (h_prio x <? h_prio h) eqn:E.
    + apply Z.ltb_lt in E. exists [], (x :: l). repeat split; auto. intros y p' H. inversion H; subst. exact E.
    + apply Z.ltb_ge in E. destruct IH as [pre [post [A [B [C D]]]]].
      exists (x :: pre), post. repeat split; cbn; try congruence; auto. constructor; [lia|exact C].
Qed.

Lemma filter_sorted {A} (R : A -> A -> Prop) f l : StronglySorted R l -> StronglySorted R (filter f l).
Proof.
  induction 1 as [|x l S IH F]; cbn; [constructor|].
  destruct (f x); auto. constructor; auto.
  clear -F. induction F; cbn; auto. destruct (f x0); auto.
Qed.

Definition reg_sorted (r : list (Z * list handler)) : Prop :=
  forall ev hs, In (ev, hs) r -> StronglySorted prio_ge hs.

Lemma reg_add_sorted ev h r : reg_sorted r -> reg_sorted (reg_add ev h r).
Proof.
  unfold reg_sorted. induction r as [|[e0 hs0] r IH]; cbn; intros Hr e hs Hin.
  - destruct Hin as [Hin|[]]. inversion Hin; subst. constructor; constructor.
  - destruct (e0 =? ev).
    + destruct Hin as [Hin|Hin]; [|eauto]. inversion Hin; subst. apply insert_h_sorted; eauto.
    + destruct Hin as [Hin|Hin]; [inversion Hin; subst; eauto|]. eapply IH; eauto.
Qed.

Lemma init_reg_sorted_l regs : reg_sorted (init_reg regs).
Proof.
  unfold init_reg. assert (G : forall r, reg_sorted r ->
     reg_sorted (fold_left (fun r eh => reg_add (fst eh) (snd eh) r) regs r)).
  { induction regs as [|[ev h] regs IH]; cbn; intros r Hr; auto. apply IH. apply reg_add_sorted. exact Hr. }
  apply G. intros ? ? [].
Qed.

Lemma reg_remove_sorted_l h r : reg_sorted r -> reg_sorted (reg_remove h r).
Proof.
  unfold reg_sorted. intros Hr ev hs' Hin. destruct (reg_remove_In _ _ _ _ Hin) as [hs [A ->]].
  unfold drop_h. apply filter_sorted. eauto.
Qed.

(* One iteration of the loop of _run_handlers_sequential.
   - condition false on the merged kwargs: the handler is skipped without a trace;
   - otherwise the FIRST thing that happens is the invocation of the head of the remaining list (the snapshot is
     consumed front to back) with the queue object [registered `queue` kwarg, else posted `queue` kwarg, else a fresh
     QueuedEvent] and with the data kwargs [merged_kw d h] = posted kwargs overridden by the registered ones. *)
Lemma run_hs_iteration i d h rem s :
  (cond_ok (h_cond h) (merged_kw d h) = false -> run_hs i d (h :: rem) s = run_hs i d rem s) /\
  (cond_ok (h_cond h) (merged_kw d h) = true ->
   let q := match h_kwq h with Some q => q | None => match d_kwq d with Some q => q | None => length (heap s) end end in
   exists s2, log s2 = LArgs (kw_update (d_kw d) (h_kw h)) :: LInvoke (d_psn d) (h_id h) q :: log s /\
    run_hs i d (h :: rem) s =
      (let s3 := match h_body h with HSync acts => exec_actions (Some q) acts s2 | HAsync aw => async_adapter q aw s2 end in
       if waiter_of q s3 then
         set_disp i (mkD (d_psn d) (d_ev d) (d_kwq d) (d_kw d) (d_snap d) rem (DSleep q (nev s3)))
           (upd_nev (upd_heap s3 (set_nth q (mkQ (q_waiter match nth_error (heap s3) q with Some o => o | None => mkQ true None end)
                                                  (Some (nev s3))) (heap s3))) (S (nev s3)))
       else run_hs i d rem s3)).
Proof.
  split; intros C; cbn [run_hs]; rewrite C; cbn [negb]; [reflexivity|].
  unfold merged_queue. destruct (h_kwq h) as [q1|]; [|destruct (d_kwq d) as [q2|]];
    cbv zeta; eexists; (split; [|reflexivity]); reflexivity.
Qed.

(* dict semantics of the merge (kw_get_set, last_binding, kw_get_update): LemSync.v *)

Lemma queue_handler_kwargs_l :
  (forall k d kw, kw_get k (kw_update kw d) = last_binding k d (kw_get k kw)) /\
  (forall i d h rem s,
    (cond_ok (h_cond h) (merged_kw d h) = false -> run_hs i d (h :: rem) s = run_hs i d rem s) /\
    (cond_ok (h_cond h) (merged_kw d h) = true ->
     let q := match h_kwq h with Some q => q | None => match d_kwq d with Some q => q | None => length (heap s) end end in
     exists s2, log s2 = LArgs (kw_update (d_kw d) (h_kw h)) :: LInvoke (d_psn d) (h_id h) q :: log s /\
      run_hs i d (h :: rem) s =
        (let s3 := match h_body h with HSync acts => exec_actions (Some q) acts s2 | HAsync aw => async_adapter q aw s2 end in
         if waiter_of q s3 then
           set_disp i (mkD (d_psn d) (d_ev d) (d_kwq d) (d_kw d) (d_snap d) rem (DSleep q (nev s3)))
             (upd_nev (upd_heap s3 (set_nth q (mkQ (q_waiter match nth_error (heap s3) q with Some o => o | None => mkQ true None end)
                                                    (Some (nev s3))) (heap s3))) (S (nev s3)))
         else run_hs i d rem s3))).
Proof. split; [exact kw_get_update|exact run_hs_iteration]. Qed.

(* ---------------------------------------------------------------------------------------------- *)
(* satisfiability examples *)

(* two queue events in flight, nested post, waits released later in reverse order *)
Definition ex_regs : list (Z * handler) :=
  [(1, mkH 1 5 [(1, 7)] None None (HSync [AWait; APostQ 2 false [(2, 3)]])); (1, mkH 2 1 [] None (Some (1, 4)) (HAsync true));
   (2, mkH 3 1 [] None None (HSync [AWait]))].
Definition ex_env1 : list (list action) := [[APostQ 1 false [(1, 4)]]].
Definition ex_env2 : list (list action) := [[APostQ 1 false [(1, 4)]]; [AClearNth 1]; [AClearNth 0]; [AClearNth 0]].

Lemma ex_fresh : forallb (fun eh => fresh_h (snd eh)) ex_regs = true /\
                 forallb (forallb fresh_action) ex_env2 = true /\ forallb (forallb fresh_action) ex_env1 = true.
Proof. repeat split. Qed.

Lemma ex_sleeping :
  let s := env_run false default_fuel ex_env1 (init_state ex_regs) in
  reachable false s /\ exists i d q e, nth_error (disps s) i = Some d /\ d_st d = DSleep q e /\ (length (disps s) = 2)%nat.
Proof.
  split.
  - apply env_run_reachable; [apply r_init|]; apply ex_fresh.
  - vm_compute. exists 0%nat. eexists. exists 0%nat, 0%nat. repeat split.
Qed.

Lemma ex_complete :
  let s := env_run false default_fuel ex_env2 (init_state ex_regs) in
  reachable false s /\ idle false s /\ outst s = [] /\ (length (disps s) = 2)%nat /\
  existsb (obs_eqb (LCallback 0)) (log s) = true /\ existsb (obs_eqb (LCallback 1)) (log s) = true.
Proof.
  split.
  - apply env_run_reachable; [apply r_init|]; apply ex_fresh.
  - vm_compute. repeat split.
Qed.

Lemma mode_start_fixed_fresh_l uwq ev : forallb fresh_action (mode_start_script uwq false ev) = true.
Proof. destruct uwq; reflexivity. Qed.

(* the relay event is posted WITHOUT arguments; handler 1 introduces k1, handler 2 is registered with k9=2 and must
   see k1 as well, handler 3 (registered without kwargs) must not see k9 *)
Definition ex_relay_hs : list shandler :=
  [mkSH 1 3 [] None (beh_fun (BConst (RDict [(1, 10)]))); mkSH 2 2 [(9, 2)] None (beh_fun (BIncr 1));
   mkSH 3 1 [] None (beh_fun (BIncr 1))].

Lemma ex_relay :
  so_seen (run_sync TRelay ex_relay_hs ([], None) [] RNone)
    = [(1, ([], None)); (2, ([(1, 10); (9, 2)], None)); (3, ([(1, 11)], None))] /\
  so_st (run_sync TRelay ex_relay_hs ([], None) [] RNone) = ([(1, 12)], None) /\
  calls TRelay [] ex_relay_hs ([], None) = so_seen (run_sync TRelay ex_relay_hs ([], None) [] RNone).
Proof. vm_compute. repeat split; reflexivity. Qed.

(* handler 1 blocks facility 7 below priority 5; handler 2 (facility 7, priority 3) is skipped; handler 3 returns
   False because it sees k1 = 5; handler 4 is not called *)
Definition ex_boolean_hs : list shandler :=
  [mkSH 1 10 [] None (beh_fun (BBlock 7 5)); mkSH 2 3 [] (Some 7) (beh_fun (BConst (RBool false)));
   mkSH 3 2 [(1, 5)] None (beh_fun (BFalseIf 1 5)); mkSH 4 1 [] None (beh_fun (BConst RNone))].

Lemma ex_boolean :
  map fst (so_seen (run_sync TBoolean ex_boolean_hs ([(1, 4)], None) [] RNone)) = [1; 3] /\
  callback_evres (run_sync TBoolean ex_boolean_hs ([(1, 4)], None) [] RNone) = EFalse /\
  so_st (run_sync TBoolean ex_boolean_hs ([(1, 4)], None) [] RNone) = ([(1, 4)], Some (0, [(7, 5)])) /\
  no_abort TBoolean (firstn 2 ex_boolean_hs) ([(1, 4)], None) /\
  aborts TBoolean (mkSH 3 2 [(1, 5)] None (beh_fun (BFalseIf 1 5)))
         (st_after TBoolean (firstn 2 ex_boolean_hs) ([(1, 4)], None)) = true.
Proof.
  split; [vm_compute; reflexivity|]. split; [vm_compute; reflexivity|]. split; [vm_compute; reflexivity|].
  split; [|vm_compute; reflexivity].
  intros pre x post E. destruct pre as [|a [|b [|c pre]]]; cbn in E; inversion E; subst; try reflexivity.
Qed.

Lemma driver_states_reachable_l :
  forall lost fuel regs bs,
    forallb (fun eh => fresh_h (snd eh)) regs = true -> forallb (forallb fresh_action) bs = true ->
    reachable lost (env_run lost fuel bs (init_state regs)).
Proof. intros. apply env_run_reachable; [apply r_init|]; assumption. Qed.

Lemma nested_shared_queue_refuted_full :
  exists regs env,
    let s := env_run false default_fuel env (init_state regs) in
    err s = false /\ quiescent false s = true /\ outst s = [] /\
    existsb (obs_eqb (LPostQ 0)) (log s) = true /\ existsb (obs_eqb (LCallback 0)) (log s) = false.
Proof. exists shared_regs, shared_env. vm_compute. repeat split. Qed.

Lemma removed_handlers_callback_lost_refuted_full :
  exists regs env,
    forallb (fun eh => fresh_h (snd eh)) regs = true /\ forallb (forallb fresh_action) env = true /\
    let s := env_run true default_fuel env (init_state regs) in
    err s = false /\ quiescent true s = true /\ outst s = [] /\
    existsb (obs_eqb (LPostQ 1)) (log s) = true /\ existsb (obs_eqb (LCallback 1)) (log s) = false.
Proof. exists removed_regs, removed_env. vm_compute. repeat split. Qed.

Lemma registry_priority_sorted_l :
  (forall regs ev hs, In (ev, hs) (init_reg regs) -> StronglySorted prio_ge hs) /\
  (forall h r, reg_sorted r -> reg_sorted (reg_remove h r)) /\
  (forall h l, exists pre post, l = pre ++ post /\ insert_h h l = pre ++ h :: post /\
     Forall (fun x => h_prio x >= h_prio h) pre /\ (forall y post', post = y :: post' -> h_prio y < h_prio h)).
Proof. split; [exact init_reg_sorted_l|split; [exact reg_remove_sorted_l|exact insert_h_stable]]. Qed.

(* handler 1 is registered with k1=7 and is posted k1=4: it sees 7; handler 2 has condition k1==4 on the posted value *)
Lemma ex_args :
  let s := env_run false default_fuel ex_env2 (init_state ex_regs) in
  existsb (obs_eqb (LArgs [(1, 7)])) (log s) = true /\ existsb (obs_eqb (LArgs [(1, 4)])) (log s) = true /\
  existsb (obs_eqb (LInvoke 0 2 2)) (log s) = true /\
  last_binding 1 [(1, 7)] (kw_get 1 [(1, 4)]) = Some 7.
Proof. vm_compute. repeat split. Qed.

(* the dispatcher re-checks the lock after every wake-up (fixes/C02-dispatcher-rechecks-wait.patch): woken although its
   queue is locked (a queue object shared by several dispatches was locked again before the task ran), it invokes no
   handler, calls no callback and sleeps again on a new Event of the same queue, with the same handlers remaining *)
Lemma queue_dispatcher_rechecks_lock_l lost s i d q :
  nth_error (disps s) i = Some d -> d_st d = DReady q -> waiter_of q s = true ->
  log (disp_step lost i s) = log s /\ outst (disp_step lost i s) = outst s /\
  exists d', nth_error (disps (disp_step lost i s)) i = Some d' /\ d_st d' = DSleep q (nev s) /\ d_rem d' = d_rem d /\
             d_psn d' = d_psn d /\ waiter_of q (disp_step lost i s) = true.
Proof.
  intros Hd St W. unfold disp_step. rewrite Hd, St, W. sst. repeat split; auto.
  exists (set_st d (DSleep q (nev s))). unfold set_disp. sst.
  assert (Hi : (i < length (disps s))%nat) by (apply nth_error_Some; congruence).
  rewrite nth_set_eq by exact Hi. destruct d; cbn. repeat split; auto.
  unfold waiter_of in *. sst. destruct (nth_error (heap s) q) as [o|] eqn:Hq; [|discriminate].
  rewrite nth_set_eq by (apply nth_error_Some; congruence). exact W.
Qed.

(* one coroutine handler registered with a queue object of its own (shared by all dispatches of event 1); the event is
   posted, the coroutine's future is resolved and the event is posted again in the same loop slice: the second dispatch
   locks queue 0 again before the first dispatcher wakes up *)
Definition ex_regs3 : list (Z * handler) := [(1, mkH 2 10 [] (Some 0%nat) None (HAsync true))].
Definition ex_env3 : list (list action) := [[APostQ 1 false []]; [AClearNth 0; APostQ 1 false []]].

Lemma ex_recheck :
  let s := env_run false default_fuel ex_env3 (init_state ex_regs3) in
  err s = false /\ existsb (obs_eqb (LCallback 0)) (log s) = false /\ length (filter not_done (disps s)) = 2%nat /\
  outst s = [OFut 0%nat] /\ waiter_of 0 s = true /\
  (let s' := env_run false default_fuel [[AClearNth 0]] s in
   existsb (obs_eqb (LCallback 0)) (log s') = true /\ outst s' = []).
Proof. vm_compute. repeat split; reflexivity. Qed.

Lemma ex_once :
  let s := env_run false default_fuel ex_env2 (init_state ex_regs) in
  reachable false s /\ idle false s /\ outst s = [] /\
  nqposts 0 (log s) = 1%nat /\ ncallbacks 0 (log s) = 1%nat /\ nqposts 1 (log s) = 1%nat /\ ncallbacks 1 (log s) = 1%nat /\
  (let s1 := env_run false default_fuel ex_env1 (init_state ex_regs) in
   nqposts 0 (log s1) = 1%nat /\ ncallbacks 0 (log s1) = 0%nat /\ outst s1 <> []).
Proof.
  split.
  - apply env_run_reachable; [apply r_init|]; apply ex_fresh.
  - vm_compute. repeat split. discriminate.
Qed.
