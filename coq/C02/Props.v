(* C02/Props.v — property theorems only.  Each is closed by [exact] of a lemma and followed by
   Print Assumptions (parsed by the check: must be "Closed under the global context").

   Property C02: a queue event's completion callback fires exactly once, only after every handler has run in
   priority order and every wait has been cleared; no later handler runs while an earlier handler's wait is
   outstanding, whatever the timing of clears and whatever is nested; relay events fold the kwargs, boolean
   events stop at the first False.

   [reachable lost s]: s is reached from ANY set of registrations by ANY interleaving of machine steps and
   environment scripts (posts, releases of outstanding waits in any order, handler removals), where no script
   hands the queue object it was given on into another queue event and no handler is registered with a `queue`
   kwarg ("fresh queues": fresh_h / fresh_action).
   [lost = false] is the event manager with fixes/C02-queue-callback-when-handlers-removed.patch, fresh queues
   is what fixes/C02-mode-start-no-queue-forward.patch establishes for Mode.start (mode_start_fixed_fresh).
   Both hypotheses are necessary: nested_shared_queue_refuted, removed_handlers_callback_lost_refuted. *)
From Common Require Import Prelude.
From Coq Require Import Sorting.Sorted.
From C02 Require Import Model Relay ModeCtl Life Relock LemSync LemQueue LemOnce Lemmas LemRelay LemModeCtl LemLife LemRelock.
Open Scope Z_scope.

(* No later handler runs while an earlier handler's wait is outstanding: a dispatcher that is about to run its
   next handler (DReady q: woken after the handler that was given queue q) finds q unlocked; as long as q is
   locked the dispatcher is asleep (DSleep), and the step function of a sleeping dispatcher is the identity.
   (Handlers of a dispatcher are invoked by disp_step only.) *)
Theorem queue_handlers_sequential :
  forall lost s i d q, reachable lost s -> nth_error (disps s) i = Some d ->
    (d_st d = DReady q -> waiter_of q s = false) /\
    (forall e, d_st d = DSleep q e -> waiter_of q s = true /\ disp_step lost i s = s).
Proof. exact queue_handlers_sequential_l. Qed.
Print Assumptions queue_handlers_sequential.

Example queue_handlers_sequential_sat :
  let s := env_run false default_fuel ex_env1 (init_state ex_regs) in
  reachable false s /\ exists i d q e, nth_error (disps s) i = Some d /\ d_st d = DSleep q e /\ (length (disps s) = 2)%nat.
Proof. exact ex_sleeping. Qed.
Print Assumptions queue_handlers_sequential_sat.

(* The dispatcher re-checks the lock after EVERY wake-up (`while queue.waiter:`, fixes/C02-dispatcher-rechecks-wait.patch),
   in any state whatsoever (also with queue objects shared between dispatches, where the first conjunct above does not
   apply): woken while its queue is locked it invokes no handler and calls no callback, but sleeps again on a new Event
   of the same queue with the same handlers remaining.  (Code as it was: relock_lost_wait_refuted.) *)
Theorem queue_dispatcher_rechecks_lock :
  forall lost s i d q,
    nth_error (disps s) i = Some d -> d_st d = DReady q -> waiter_of q s = true ->
    log (disp_step lost i s) = log s /\ outst (disp_step lost i s) = outst s /\
    exists d', nth_error (disps (disp_step lost i s)) i = Some d' /\ d_st d' = DSleep q (nev s) /\ d_rem d' = d_rem d /\
               d_psn d' = d_psn d /\ waiter_of q (disp_step lost i s) = true.
Proof. exact queue_dispatcher_rechecks_lock_l. Qed.
Print Assumptions queue_dispatcher_rechecks_lock.

Example queue_dispatcher_rechecks_lock_sat :
  let s := env_run false default_fuel ex_env3 (init_state ex_regs3) in
  err s = false /\ existsb (obs_eqb (LCallback 0)) (log s) = false /\ length (filter not_done (disps s)) = 2%nat /\
  outst s = [OFut 0%nat] /\ waiter_of 0 s = true /\
  (let s' := env_run false default_fuel [[AClearNth 0]] s in
   existsb (obs_eqb (LCallback 0)) (log s') = true /\ outst s' = []).
Proof. exact ex_recheck. Qed.
Print Assumptions queue_dispatcher_rechecks_lock_sat.

(* FULL statement (DESIGN: queue_callback_once_after_waits): under fair clearing and fresh queues the callback of
   every posted queue event is observed exactly once, after all its handlers and all clears.
   PROVED here: whenever the loop is idle and nothing is outstanding (i.e. every registered wait has been
   cleared: fair clearing), every sequential dispatcher has run to completion (DDone: all handlers of its
   snapshot invoked, callback called - run_hs ends with LCallback) and no posted event or callback is left in
   event_queue / callback_queue.  MISSING for the full statement: the bookkeeping invariant that post sequence
   numbers are unique across event_queue, callback_queue, dispatchers and the log (which gives "at most once"
   per post and "LPostQ p in the log implies LCallback p in the log"); both are checked on every run by the
   trace oracle and the correspondence with the implementation instead. *)
Theorem queue_callback_once_after_waits_partial :
  forall lost s, reachable lost s -> idle lost s -> outst s = [] ->
    (forall d, In d (disps s) -> d_st d = DDone) /\ evq s = [] /\ pend s = [] /\ cbq s = [].
Proof. exact queue_all_complete_l. Qed.
Print Assumptions queue_callback_once_after_waits_partial.

Example queue_callback_once_after_waits_sat :
  let s := env_run false default_fuel ex_env2 (init_state ex_regs) in
  reachable false s /\ idle false s /\ outst s = [] /\ (length (disps s) = 2)%nat /\
  existsb (obs_eqb (LCallback 0)) (log s) = true /\ existsb (obs_eqb (LCallback 1)) (log s) = true.
Proof. exact ex_complete. Qed.
Print Assumptions queue_callback_once_after_waits_sat.

(* FULL statement (work item of round 5; the bookkeeping invariant that was missing: LemOnce.v).
   [ncallbacks p l] / [nqposts p l]: number of LCallback p / LPostQ p entries of the log.
   For every reachable state of the event manager with both fixes (lost = false, fresh queues):
   - the completion callback of a post has fired at most as often as the post was made, and a post number is used at
     most once: AT MOST ONCE, and never without a post - at any time, whatever is in flight;
   - whenever the loop is idle and nothing is outstanding (every registered wait has been cleared): EXACTLY ONCE for
     every queue event that was posted.
   Invariant behind it (reachable_bal): every queue post is in exactly one place - event_queue / the pending stack of
   process_event_queue, callback_queue, a dispatcher that is not done, or the log as a completed callback.
   "After every handler has run and every wait has been cleared" is the structure of the dispatcher: run_hs emits
   LCallback only when its handler snapshot is exhausted (queue_handler_kwargs: one iteration per handler, head first)
   and continues only when the previous queue is unlocked (queue_handlers_sequential, queue_dispatcher_rechecks_lock). *)
Theorem queue_callback_once_after_waits :
  forall s, reachable false s ->
    (forall p, (ncallbacks p (log s) <= nqposts p (log s) <= 1)%nat) /\
    (idle false s -> outst s = [] ->
     (forall p, ncallbacks p (log s) = nqposts p (log s)) /\
     (forall p, existsb (obs_eqb (LPostQ p)) (log s) = true -> ncallbacks p (log s) = 1%nat)).
Proof. exact queue_callback_once_full_l. Qed.
Print Assumptions queue_callback_once_after_waits.

Example queue_callback_once_after_waits_full_sat :
  let s := env_run false default_fuel ex_env2 (init_state ex_regs) in
  reachable false s /\ idle false s /\ outst s = [] /\
  nqposts 0 (log s) = 1%nat /\ ncallbacks 0 (log s) = 1%nat /\ nqposts 1 (log s) = 1%nat /\ ncallbacks 1 (log s) = 1%nat /\
  (let s1 := env_run false default_fuel ex_env1 (init_state ex_regs) in
   nqposts 0 (log s1) = 1%nat /\ ncallbacks 0 (log s1) = 0%nat /\ outst s1 <> []).
Proof. exact ex_once. Qed.
Print Assumptions queue_callback_once_after_waits_full_sat.

(* the driver used by the correspondence run only produces reachable states *)
Theorem driver_states_reachable :
  forall lost fuel regs bs,
    forallb (fun eh => fresh_h (snd eh)) regs = true -> forallb (forallb fresh_action) bs = true ->
    reachable lost (env_run lost fuel bs (init_state regs)).
Proof. exact driver_states_reachable_l. Qed.
Print Assumptions driver_states_reachable.

(* the fixed Mode.start does not forward the queue *)
Theorem mode_start_fixed_fresh :
  forall use_wait_queue ev, forallb fresh_action (mode_start_script use_wait_queue false ev) = true.
Proof. exact mode_start_fixed_fresh_l. Qed.
Print Assumptions mode_start_fixed_fresh.

(* Mode.start as it was (queue forwarded, use_wait_queue, one no-op handler on mode_<m>_starting): every wait is
   released, the loop is idle, nothing is outstanding - and queue event 0 (the trigger) never completes. *)
Theorem nested_shared_queue_refuted :
  exists regs env,
    let s := env_run false default_fuel env (init_state regs) in
    err s = false /\ quiescent false s = true /\ outst s = [] /\
    existsb (obs_eqb (LPostQ 0)) (log s) = true /\ existsb (obs_eqb (LCallback 0)) (log s) = false.
Proof. exact nested_shared_queue_refuted_full. Qed.
Print Assumptions nested_shared_queue_refuted.

(* original _run_handlers_sequential (lost = true): the only handler of queue event 1 is removed before its task
   starts; the callback is never called although all scripts are fresh and nothing is outstanding *)
Theorem removed_handlers_callback_lost_refuted :
  exists regs env,
    forallb (fun eh => fresh_h (snd eh)) regs = true /\ forallb (forallb fresh_action) env = true /\
    let s := env_run true default_fuel env (init_state regs) in
    err s = false /\ quiescent true s = true /\ outst s = [] /\
    existsb (obs_eqb (LPostQ 1)) (log s) = true /\ existsb (obs_eqb (LCallback 1)) (log s) = false.
Proof. exact removed_handlers_callback_lost_refuted_full. Qed.
Print Assumptions removed_handlers_callback_lost_refuted.

(* handlers are kept, and therefore invoked (run_hs consumes its snapshot front to back), in priority order;
   equal priorities keep registration order *)
Theorem registry_priority_sorted :
  (forall regs ev hs, In (ev, hs) (init_reg regs) -> StronglySorted prio_ge hs) /\
  (forall h r, reg_sorted r -> reg_sorted (reg_remove h r)) /\
  (forall h l, exists pre post, l = pre ++ post /\ insert_h h l = pre ++ h :: post /\
     Forall (fun x => h_prio x >= h_prio h) pre /\ (forall y post', post = y :: post' -> h_prio y < h_prio h)).
Proof. exact registry_priority_sorted_l. Qed.
Print Assumptions registry_priority_sorted.

(* The arguments a queue-event handler receives: data kwargs = the posted kwargs overridden by the kwargs it was
   registered with (last_binding: a registered key wins, every other posted key passes through), queue = the `queue`
   it was registered with, else the posted one, else a fresh QueuedEvent; a handler whose condition is false on the
   merged kwargs is skipped without a trace; otherwise the head of the remaining snapshot is invoked first. *)
Theorem queue_handler_kwargs :
  (forall k d kw, kw_get k (kw_update kw d) = last_binding k d (kw_get k kw)) /\
  (forall i d h rem s,
    (cond_ok (h_cond h) (merged_kw d h) = false -> run_hs i d (h :: rem) s = run_hs i d rem s) /\
    (cond_ok (h_cond h) (merged_kw d h) = true ->
     let q := match h_kwq h with Some q => q | None => match d_kwq d with Some q => q | None => length (heap s) end end in
     exists s2, log s2 = LArgs (kw_update (d_kw d) (h_kw h)) :: LInvoke (d_psn d) (h_id h) q :: log s /\
      run_hs i d (h :: rem) s =
        (let s3 := match h_body h with HSync acts => exec_actions (Some q) acts s2 | HAsync aw => async_adapter q aw s2 end in
         if waiter_of q s3 then
           set_disp i (mkD (d_psn d) (d_ev d) (d_kwq d) (d_kw d) (d_snap d) rem (DSleep q (nev s3)))
             (upd_nev (upd_heap s3 (set_nth q (mkQ (q_waiter match nth_error (heap s3) q with Some o => o | None => mkQ true None end)
                                                    (Some (nev s3))) (heap s3))) (S (nev s3)))
         else run_hs i d rem s3))).
Proof. exact queue_handler_kwargs_l. Qed.
Print Assumptions queue_handler_kwargs.

Example queue_handler_kwargs_sat :
  let s := env_run false default_fuel ex_env2 (init_state ex_regs) in
  existsb (obs_eqb (LArgs [(1, 7)])) (log s) = true /\ existsb (obs_eqb (LArgs [(1, 4)])) (log s) = true /\
  existsb (obs_eqb (LInvoke 0 2 2)) (log s) = true /\
  last_binding 1 [(1, 7)] (kw_get 1 [(1, 4)]) = Some 7.
Proof. exact ex_args. Qed.
Print Assumptions queue_handler_kwargs_sat.

(* relay (hs = the event's handlers in priority order, st0 = posted kwargs and optional _min_priority):
   the calls made are exactly [calls TRelay [] hs st0]: handler number i is called - unless _min_priority blocks it -
   with the kwargs as updated by the results of ALL handlers 0..i-1 (st_after (firstn i hs)), overridden by the kwargs
   it was registered with (hview); the callback gets the final kwargs.  hview and a dict result are dict updates: the
   last binding of a key wins, every other key passes through - in particular whether the posted kwargs were empty
   makes no difference. *)
Theorem relay_fold :
  forall hs st0,
    let o := run_sync TRelay hs st0 [] RNone in
    so_seen o = calls TRelay [] hs st0 /\ so_st o = st_after TRelay hs st0 /\
    (forall h st k, kw_get k (fst (hview h st)) = last_binding k (sh_kw h) (kw_get k (fst st)) /\ snd (hview h st) = snd st) /\
    (forall d st k, kw_get k (fst (apply_res TRelay (RDict d) st)) = last_binding k d (kw_get k (fst st))) /\
    (forall d m st k, kw_get k (fst (apply_res TRelay (RDictMP d m) st)) = last_binding k d (kw_get k (fst st)) /\
                      snd (apply_res TRelay (RDictMP d m) st) = Some m).
Proof. exact relay_fold_l. Qed.
Print Assumptions relay_fold.

Example relay_fold_sat :
  so_seen (run_sync TRelay ex_relay_hs ([], None) [] RNone)
    = [(1, ([], None)); (2, ([(1, 10); (9, 2)], None)); (3, ([(1, 11)], None))] /\
  so_st (run_sync TRelay ex_relay_hs ([], None) [] RNone) = ([(1, 12)], None) /\
  calls TRelay [] ex_relay_hs ([], None) = so_seen (run_sync TRelay ex_relay_hs ([], None) [] RNone).
Proof. exact ex_relay. Qed.
Print Assumptions relay_fold_sat.

(* boolean: the dispatch stops at the first handler that is reached (not blocked) and returns False: the calls made
   are those for the handlers up to and including it, the callback gets ev_result = False and the posted data kwargs;
   if no handler aborts all unblocked handlers are called and ev_result is not False *)
Theorem boolean_first_false :
  forall hs st0,
    let o := run_sync TBoolean hs st0 [] RNone in
    (forall pre h post, hs = pre ++ h :: post ->
       no_abort TBoolean pre st0 -> aborts TBoolean h (st_after TBoolean pre st0) = true ->
       so_seen o = calls TBoolean [] (pre ++ [h]) st0 /\ so_st o = st_after TBoolean pre st0 /\
       fst (so_st o) = fst st0 /\ callback_evres o = EFalse) /\
    (no_abort TBoolean hs st0 ->
       so_seen o = calls TBoolean [] hs st0 /\ so_st o = st_after TBoolean hs st0 /\
       fst (so_st o) = fst st0 /\ callback_evres o <> EFalse).
Proof. exact boolean_first_false_l. Qed.
Print Assumptions boolean_first_false.

Example boolean_first_false_sat :
  map fst (so_seen (run_sync TBoolean ex_boolean_hs ([(1, 4)], None) [] RNone)) = [1; 3] /\
  callback_evres (run_sync TBoolean ex_boolean_hs ([(1, 4)], None) [] RNone) = EFalse /\
  so_st (run_sync TBoolean ex_boolean_hs ([(1, 4)], None) [] RNone) = ([(1, 4)], Some (0, [(7, 5)])) /\
  no_abort TBoolean (firstn 2 ex_boolean_hs) ([(1, 4)], None) /\
  aborts TBoolean (mkSH 3 2 [(1, 5)] None (beh_fun (BFalseIf 1 5)))
         (st_after TBoolean (firstn 2 ex_boolean_hs) ([(1, 4)], None)) = true.
Proof. exact ex_boolean. Qed.
Print Assumptions boolean_first_false_sat.

(* ---------------------------------------------------------------------------------------------- *)
(* Clients of queue events: queue_relay_player (several contexts) and queue_event_player.

   The relay player keeps two tables - the event manager's registry of its wake-up handlers (rs_h) and its
   instance dicts (rs_d).  For EVERY history of plays, wait_for events and context clears they stay in step
   (RInv: the dict entries are exactly the entries of the registered handlers, keys and queues are unique), and the
   only error the player can raise is the double lock of a queue it already holds: `_callback` never fails with
   "Queue missing in instance dict". *)
Theorem relay_tables_agree :
  RInv rs_init /\
  forall rs o, RInv rs ->
    RInv (fst (r_op rs o)) /\
    rs_err (fst (r_op rs o)) =
      (rs_err rs || match o with RPlay _ _ _ q => existsb (fun e => Nat.eqb (de_q e) q) (rs_d rs) | _ => false end)%bool.
Proof. exact relay_tables_agree_l. Qed.
Print Assumptions relay_tables_agree.

(* A wait_for event releases exactly the queues whose relay waits for it (in the registry's priority order), a stopping
   context exactly its own queues (insertion order); handlers and dict entries of every other relay are untouched. *)
Theorem relay_release_exact :
  forall rs, RInv rs ->
  (forall w, r_post w rs =
     (mkRS (filter (fun h => negb (wh_ev h =? w)) (rs_h rs)) (map ent (filter (fun h => negb (wh_ev h =? w)) (rs_h rs)))
           (rs_next rs) (rs_err rs),
      map wh_q (w_sort (filter (fun h => wh_ev h =? w) (rs_h rs))))) /\
  (forall c, r_clear c rs =
     (mkRS (filter (fun h => negb (wh_ctx h =? c)) (rs_h rs)) (map ent (filter (fun h => negb (wh_ctx h =? c)) (rs_h rs)))
           (rs_next rs) (rs_err rs),
      map wh_q (filter (fun h => wh_ctx h =? c) (rs_h rs)))).
Proof. exact relay_release_exact_l. Qed.
Print Assumptions relay_release_exact.

(* No wait is orphaned: every queue the player holds has its wake-up handler registered; posting that handler's event,
   or clearing that handler's context, releases the queue, and afterwards the player no longer holds it (released
   exactly once). *)
Theorem relay_no_orphan :
  forall rs e, RInv rs -> In e (rs_d rs) ->
  exists h, In h (rs_h rs) /\ e = ent h /\
    In (de_q e) (snd (r_post (wh_ev h) rs)) /\ ~ In (de_q e) (map de_q (rs_d (fst (r_post (wh_ev h) rs)))) /\
    In (de_q e) (snd (r_clear (de_ctx e) rs)) /\ ~ In (de_q e) (map de_q (rs_d (fst (r_clear (de_ctx e) rs)))).
Proof. exact relay_no_orphan_l. Qed.
Print Assumptions relay_no_orphan.

(* The composition used by the correspondence run (relay player + queue_event_player + mode start/stop on top of the
   event-manager machine) only produces reachable machine states - queue_handlers_sequential and
   queue_callback_once_after_waits_partial apply to it - and keeps the relay tables in step. *)
Theorem relay_driver_reachable :
  forall rc qc regs ops,
  forallb (fun eh => fresh_h (snd eh)) regs = true -> forallb cop_fresh ops = true ->
  let cs := fold_left (c_step rc qc) ops (mkCS (init_state (ctx_handlers rc qc 0 ++ regs)) rs_init 0%nat) in
  reachable false (cs_m cs) /\ RInv (cs_r cs).
Proof. exact relay_driver_reachable_l. Qed.
Print Assumptions relay_driver_reachable.

Example relay_contexts_sat :
  reachable false (cs_m ex_cs) /\ RInv (cs_r ex_cs) /\
  map wh_q (rs_h (cs_r ex_cs)) = [0; 1]%nat /\ map wh_ctx (rs_h (cs_r ex_cs)) = [0; 1] /\
  existsb (obs_eqb (LCallback 2)) (log (cs_m ex_cs)) = true /\
  existsb (obs_eqb (LCallback 0)) (log (cs_m ex_cs)) = false /\
  (let cs := c_step ex_rc ex_qc ex_cs (CWaitFor 1) in
   rs_h (cs_r cs) = [] /\ existsb (obs_eqb (LCallback 0)) (log (cs_m cs)) = true /\
   existsb (obs_eqb (LCallback 1)) (log (cs_m cs)) = true /\ outst (cs_m cs) = []).
Proof. exact ex_relay_contexts. Qed.
Print Assumptions relay_contexts_sat.

(* queue_event_player as it was: an entry with args and events_when_finished; its queue event completes and the
   callback is called with the posted kwargs, which `_callback(self, event, s)` rejects (TypeError out of the loop);
   with fixes/C02-queue-event-player-args-callback.patch the call is accepted. *)
Theorem qep_args_callback_refuted :
  exists qc ops e,
    let cs := fold_left (c_step [] qc) ops (mkCS (init_state (ctx_handlers [] qc 0)) rs_init 0%nat) in
    In e qc /\ existsb (obs_eqb (LPostQ 1)) (log (cs_m cs)) = true /\ existsb (obs_eqb (LCallback 1)) (log (cs_m cs)) = true /\
    err (cs_m cs) = false /\
    qep_callback_accepts false (kw_norm (qc_args e)) = false /\ qep_callback_accepts true (kw_norm (qc_args e)) = true.
Proof. exact qep_args_callback_refuted_l. Qed.
Print Assumptions qep_args_callback_refuted.

(* ---------------------------------------------------------------------------------------------- *)
(* Nested client: ModeController._ball_ending + _mode_stopped_callback over game modes in ARBITRARY lifecycle phases
   (idle / active / already stopping with their mode_<n>_stopping queue event held open by anybody for any time).
   [mc_reach cfg st]: st is reached from any set of modes by any history of mode starts, stops by third parties,
   completions of mode stops and ball_ending events (a new ball_ending only after the previous one completed).
   For every such state:
   - no Double lock / Not locked error;
   - the controller's wait on the ball_ending queue is outstanding EXACTLY as long as some mode it asked to stop has
     not finished stopping;
   - mc_done (completions of ball_ending) goes up by one exactly when the queue goes from held to free (or at a
     ball_ending with nothing to wait for): the queue is cleared exactly once per ball_ending;
   - a ball_ending asks EVERY running game mode with stop_on_ball_end - active or already stopping - and waits. *)
Theorem ballend_waits_for_modes :
  forall cfg st, mc_reach cfg st ->
  mc_err st = false /\
  (mc_locked st = true <-> exists m, In m (mc_modes st) /\ gm_cbs m = 1%nat /\ gm_phase m = MStopping) /\
  (forall o, op_ok st o -> done_spec st (mc_op st o) o) /\
  (mc_locked st = false -> forall i m, nth_error (mc_modes st) i = Some m -> counted m = true ->
     let st' := mc_op st OpBallEnding in
     mc_locked st' = true /\ mc_done st' = mc_done st /\
     exists m', nth_error (mc_modes st') i = Some m' /\ gm_cbs m' = 1%nat /\ gm_phase m' = MStopping).
Proof. exact ballend_waits_for_modes_l. Qed.
Print Assumptions ballend_waits_for_modes.

(* the driver of the correspondence run stays inside mc_reach *)
Theorem ballend_driver_reachable :
  forall cfg holds st o, mc_reach cfg st -> (o = BBallEnding -> mc_locked st = false) -> mc_reach cfg (be_step holds st o).
Proof. exact be_step_reach. Qed.
Print Assumptions ballend_driver_reachable.

Example ballend_waits_for_modes_sat :
  let st := fold_left (be_step [true; false; false]) ex_mc_ops (mc_init ex_mc_cfg) in
  mc_locked st = true /\ mc_count st = 1 /\ mc_done st = 0%nat /\
  map (fun m => phase_code (gm_phase m)) (mc_modes st) = [2; 0; 1] /\
  (let st2 := be_step [true; false; false] st (BRelease 0) in
   mc_locked st2 = false /\ mc_done st2 = 1%nat /\ mc_err st2 = false /\
   map (fun m => phase_code (gm_phase m)) (mc_modes st2) = [0; 0; 1]).
Proof. exact ex_ballend. Qed.
Print Assumptions ballend_waits_for_modes_sat.

(* ---------------------------------------------------------------------------------------------- *)
(* The whole life of the wait a use_wait_queue mode holds on the queue event that started it (Life.v): Mode.start as a
   handler script of the event-manager machine, Mode._started / Mode.stop / Mode._stopped composed with it step by step,
   for chains of modes whose start event is a lifecycle event of another mode.

   Every state of the composition is a reachable state of the event-manager machine: queue_handlers_sequential (the
   dispatcher of the outer queue event sleeps as long as the queue it handed to Mode.start is locked) and
   queue_callback_once_after_waits_partial hold for it.  The fixed Mode.start does not pass its queue on. *)
Theorem life_driver_reachable :
  (forall regs n ops,
    forallb (fun eh => fresh_h (snd eh)) regs = true -> forallb lop_fresh ops = true ->
    reachable false (fst (fold_left (life_op default_fuel) ops (life_init regs n)))) /\
  (forall uwq m g, forallb fresh_action (life_start_script uwq m g) = true).
Proof. split; [exact life_driver_reachable_l | exact life_start_fresh_l]. Qed.
Print Assumptions life_driver_reachable.

(* Nesting clause: the composition releases the wait of a mode (AClearQ q in the effects of a log entry) for exactly one
   reason - the entry is the completion callback of THAT mode's mode_<m>_stopping post, the mode was stopping and held q -
   and with it the mode becomes idle and holds nothing (released once).  The environment cannot release a mode's wait,
   and a stop request is honoured only for an active mode and releases nothing: it posts mode_<m>_stopping. *)
Theorem life_release_only_when_stopped :
  (forall c o q, In (AClearQ q) (sc_eff (scan1 c o)) ->
     In (AClearQ q) (sc_eff c) \/
     exists psn m e, o = LCallback psn /\ nth_error (sc_t c) m = Some e /\ le_phase e = LStopping /\ le_psn e = psn /\
                     le_wq e = Some q /\ nth_error (sc_t (scan1 c o)) m = Some (mkLE LIdle None psn (le_gen e))) /\
  (forall s t k q, nth_error (outst s) k = Some (OWait q) -> is_mode_wait q t = true -> life_env s t (LRelN k) = (s, t)) /\
  (forall s t m, life_env s t (LStop m) =
     match le_phase (get_ent m t) with
     | LActive => (post (ev_of m 5 (pred (le_gen (get_ent m t)))) true None [] s,
                   set_nth m (mkLE LStopping (le_wq (get_ent m t)) (npsn s) (le_gen (get_ent m t))) t)
     | _ => (s, t)
     end).
Proof. split; [exact life_release_only_when_stopped_l | split; [exact life_env_guard_l | exact life_stop_spec_l]]. Qed.
Print Assumptions life_release_only_when_stopped.

Example life_release_only_when_stopped_sat :
  map (fun e => (lphase_code (le_phase e), le_wq e)) (snd ex_life_st) = [(3, Some 0%nat)] /\
  existsb inv7 (log (fst ex_life_st)) = false /\
  existsb (obs_eqb (LCallback 0)) (log (fst ex_life_st)) = false /\
  (let st := life_op default_fuel ex_life_st (LRelN 1) in
   map (fun e => (lphase_code (le_phase e), le_wq e)) (snd st) = [(0, None)] /\
   existsb inv7 (log (fst st)) = true /\
   existsb (obs_eqb (LCallback 0)) (log (fst st)) = true /\ outst (fst st) = [] /\ err (fst st) = false).
Proof. exact ex_life. Qed.
Print Assumptions life_release_only_when_stopped_sat.

(* The release moved from Mode._stopped into Mode.stop (wait released when the stop is REQUESTED): the later handler of
   the outer queue event runs and the event completes while the mode is still stopping. *)
Theorem life_early_release_refuted :
  exists regs ops,
    forallb (fun eh => fresh_h (snd eh)) regs = true /\ forallb lop_fresh ops = true /\
    let st := fold_left (life_op_early default_fuel) ops (life_init regs 1) in
    err (fst st) = false /\ map (fun e => lphase_code (le_phase e)) (snd st) = [3] /\
    existsb inv7 (log (fst st)) = true /\ existsb (obs_eqb (LCallback 0)) (log (fst st)) = true.
Proof. exact life_early_release_refuted_l. Qed.
Print Assumptions life_early_release_refuted.

(* ---------------------------------------------------------------------------------------------- *)
(* QueuedEvent.wait / clear from outside the handlers, at any time relative to the dispatcher's wake-ups (Relock.v).
   With fixes/C02-dispatcher-rechecks-wait.patch (recheck = true), for ALL handler lists and ALL sequences of waits,
   clears and loop runs: the dispatcher never invokes the next handler / the callback while its current queue is locked. *)
Theorem relock_no_overrun :
  forall hs ops, k_bad (relock_states true hs ops) = false.
Proof. exact relock_no_overrun_l. Qed.
Print Assumptions relock_no_overrun.

(* No lost wake-up and exactly one callback, in both versions: whenever the loop is idle (and no script misused a queue)
   the dispatcher has finished and called the callback exactly once, or it sleeps on a queue that IS locked (so a clear
   will wake it) and has not called the callback. *)
Theorem relock_idle :
  forall recheck hs ops,
    let st := relock_states recheck hs ops in
    k_err st = false ->
    (k_disp st = KFinished /\ count_cb (k_log st) = 1%nat) \/
    (k_disp st = KAwait /\ cur_locked st = true /\ count_cb (k_log st) = 0%nat).
Proof. exact relock_idle_l. Qed.
Print Assumptions relock_idle.

(* The dispatcher as it was (`if queue.waiter:`): clear, lock again before the task wakes up - the second handler and the
   callback run while queue 0 is locked. *)
Theorem relock_lost_wait_refuted :
  exists hs ops,
    let st := relock_states false hs ops in
    k_err st = false /\ k_bad st = true /\ k_disp st = KFinished /\ nth 0 (k_waiter st) false = true /\
    rev (k_log st) = [KoInv 0; KoWait 0; KoClear 0; KoWait 0; KoInv 1; KoCb].
Proof. exact relock_lost_wait_refuted_l. Qed.
Print Assumptions relock_lost_wait_refuted.

Example relock_no_overrun_sat :
  let st := relock_states true ex_relock_hs ex_relock_ops in
  k_err st = false /\ k_bad st = false /\ k_disp st = KAwait /\ cur_locked st = true /\
  rev (k_log st) = [KoInv 0; KoWait 0; KoClear 0; KoWait 0] /\
  (let st2 := relock_states true ex_relock_hs (ex_relock_ops ++ [KClear 0%nat]) in
   k_disp st2 = KFinished /\ k_bad st2 = false /\ count_cb (k_log st2) = 1%nat).
Proof. exact ex_relock_fixed. Qed.
Print Assumptions relock_no_overrun_sat.
