(* C02/Props.v — property theorems only.  Each is closed by [exact] of a lemma and followed by
   Print Assumptions (parsed by the check: must be "Closed under the global context").

   Property C02: a queue event's completion callback fires exactly once, only after every handler has run in
   priority order and every wait has been cleared; no later handler runs while an earlier handler's wait is
   outstanding, whatever the timing of clears and whatever is nested; relay events fold the kwargs, boolean
   events stop at the first False.

   [reachable lost s]: s is reached from ANY set of registrations by ANY interleaving of machine steps and
   environment scripts (posts, releases of outstanding waits in any order, handler removals), where no script
   hands the queue object it was given on into another queue event and no handler is registered with a `queue`
   kwarg ("fresh queues": fresh_h / fresh_action).
   [lost = false] is the event manager with fixes/C02-queue-callback-when-handlers-removed.patch, fresh queues
   is what fixes/C02-mode-start-no-queue-forward.patch establishes for Mode.start (mode_start_fixed_fresh).
   Both hypotheses are necessary: nested_shared_queue_refuted, removed_handlers_callback_lost_refuted. *)
From Common Require Import Prelude.
From Coq Require Import Sorting.Sorted.
From C02 Require Import Model LemSync LemQueue Lemmas.
Open Scope Z_scope.

(* No later handler runs while an earlier handler's wait is outstanding: a dispatcher that is about to run its
   next handler (DReady q: woken after the handler that was given queue q) finds q unlocked; as long as q is
   locked the dispatcher is asleep (DSleep), and the step function of a sleeping dispatcher is the identity.
   (Handlers of a dispatcher are invoked by disp_step only.) *)
Theorem queue_handlers_sequential :
  forall lost s i d q, reachable lost s -> nth_error (disps s) i = Some d ->
    (d_st d = DReady q -> waiter_of q s = false) /\
    (forall e, d_st d = DSleep q e -> waiter_of q s = true /\ disp_step lost i s = s).
Proof. exact queue_handlers_sequential_l. Qed.
Print Assumptions queue_handlers_sequential.

Example queue_handlers_sequential_sat :
  let s := env_run false default_fuel ex_env1 (init_state ex_regs) in
  reachable false s /\ exists i d q e, nth_error (disps s) i = Some d /\ d_st d = DSleep q e /\ (length (disps s) = 2)%nat.
Proof. exact ex_sleeping. Qed.
Print Assumptions queue_handlers_sequential_sat.

(* FULL statement (DESIGN: queue_callback_once_after_waits): under fair clearing and fresh queues the callback of
   every posted queue event is observed exactly once, after all its handlers and all clears.
   PROVED here: whenever the loop is idle and nothing is outstanding (i.e. every registered wait has been
   cleared: fair clearing), every sequential dispatcher has run to completion (DDone: all handlers of its
   snapshot invoked, callback called - run_hs ends with LCallback) and no posted event or callback is left in
   event_queue / callback_queue.  MISSING for the full statement: the bookkeeping invariant that post sequence
   numbers are unique across event_queue, callback_queue, dispatchers and the log (which gives "at most once"
   per post and "LPostQ p in the log implies LCallback p in the log"); both are checked on every run by the
   trace oracle and the correspondence with the implementation instead. *)
Theorem queue_callback_once_after_waits_partial :
  forall lost s, reachable lost s -> idle lost s -> outst s = [] ->
    (forall d, In d (disps s) -> d_st d = DDone) /\ evq s = [] /\ pend s = [] /\ cbq s = [].
Proof. exact queue_all_complete_l. Qed.
Print Assumptions queue_callback_once_after_waits_partial.

Example queue_callback_once_after_waits_sat :
  let s := env_run false default_fuel ex_env2 (init_state ex_regs) in
  reachable false s /\ idle false s /\ outst s = [] /\ (length (disps s) = 2)%nat /\
  existsb (obs_eqb (LCallback 0)) (log s) = true /\ existsb (obs_eqb (LCallback 1)) (log s) = true.
Proof. exact ex_complete. Qed.
Print Assumptions queue_callback_once_after_waits_sat.

(* the driver used by the correspondence run only produces reachable states *)
Theorem driver_states_reachable :
  forall lost fuel regs bs,
    forallb (fun eh => fresh_h (snd eh)) regs = true -> forallb (forallb fresh_action) bs = true ->
    reachable lost (env_run lost fuel bs (init_state regs)).
Proof. exact driver_states_reachable_l. Qed.
Print Assumptions driver_states_reachable.

(* the fixed Mode.start does not forward the queue *)
Theorem mode_start_fixed_fresh :
  forall use_wait_queue ev, forallb fresh_action (mode_start_script use_wait_queue false ev) = true.
Proof. exact mode_start_fixed_fresh_l. Qed.
Print Assumptions mode_start_fixed_fresh.

(* Mode.start as it was (queue forwarded, use_wait_queue, one no-op handler on mode_<m>_starting): every wait is
   released, the loop is idle, nothing is outstanding - and queue event 0 (the trigger) never completes. *)
Theorem nested_shared_queue_refuted :
  exists regs env,
    let s := env_run false default_fuel env (init_state regs) in
    err s = false /\ quiescent false s = true /\ outst s = [] /\
    existsb (obs_eqb (LPostQ 0)) (log s) = true /\ existsb (obs_eqb (LCallback 0)) (log s) = false.
Proof. exact nested_shared_queue_refuted_full. Qed.
Print Assumptions nested_shared_queue_refuted.

(* original _run_handlers_sequential (lost = true): the only handler of queue event 1 is removed before its task
   starts; the callback is never called although all scripts are fresh and nothing is outstanding *)
Theorem removed_handlers_callback_lost_refuted :
  exists regs env,
    forallb (fun eh => fresh_h (snd eh)) regs = true /\ forallb (forallb fresh_action) env = true /\
    let s := env_run true default_fuel env (init_state regs) in
    err s = false /\ quiescent true s = true /\ outst s = [] /\
    existsb (obs_eqb (LPostQ 1)) (log s) = true /\ existsb (obs_eqb (LCallback 1)) (log s) = false.
Proof. exact removed_handlers_callback_lost_refuted_full. Qed.
Print Assumptions removed_handlers_callback_lost_refuted.

(* handlers are kept, and therefore invoked (run_hs consumes its snapshot front to back), in priority order;
   equal priorities keep registration order *)
Theorem registry_priority_sorted :
  (forall regs ev hs, In (ev, hs) (init_reg regs) -> StronglySorted prio_ge hs) /\
  (forall h r, reg_sorted r -> reg_sorted (reg_remove h r)) /\
  (forall h l, exists pre post, l = pre ++ post /\ insert_h h l = pre ++ h :: post /\
     Forall (fun x => h_prio x >= h_prio h) pre /\ (forall y post', post = y :: post' -> h_prio y < h_prio h)).
Proof. exact registry_priority_sorted_l. Qed.
Print Assumptions registry_priority_sorted.

(* The arguments a queue-event handler receives: data kwargs = the posted kwargs overridden by the kwargs it was
   registered with (last_binding: a registered key wins, every other posted key passes through), queue = the `queue`
   it was registered with, else the posted one, else a fresh QueuedEvent; a handler whose condition is false on the
   merged kwargs is skipped without a trace; otherwise the head of the remaining snapshot is invoked first. *)
Theorem queue_handler_kwargs :
  (forall k d kw, kw_get k (kw_update kw d) = last_binding k d (kw_get k kw)) /\
  (forall i d h rem s,
    (cond_ok (h_cond h) (merged_kw d h) = false -> run_hs i d (h :: rem) s = run_hs i d rem s) /\
    (cond_ok (h_cond h) (merged_kw d h) = true ->
     let q := match h_kwq h with Some q => q | None => match d_kwq d with Some q => q | None => length (heap s) end end in
     exists s2, log s2 = LArgs (kw_update (d_kw d) (h_kw h)) :: LInvoke (d_psn d) (h_id h) q :: log s /\
      run_hs i d (h :: rem) s =
        (let s3 := match h_body h with HSync acts => exec_actions (Some q) acts s2 | HAsync aw => async_adapter q aw s2 end in
         if waiter_of q s3 then
           set_disp i (mkD (d_psn d) (d_ev d) (d_kwq d) (d_kw d) (d_snap d) rem (DSleep q (nev s3)))
             (upd_nev (upd_heap s3 (set_nth q (mkQ (q_waiter match nth_error (heap s3) q with Some o => o | None => mkQ true None end)
                                                    (Some (nev s3))) (heap s3))) (S (nev s3)))
         else run_hs i d rem s3))).
Proof. exact queue_handler_kwargs_l. Qed.
Print Assumptions queue_handler_kwargs.

Example queue_handler_kwargs_sat :
  let s := env_run false default_fuel ex_env2 (init_state ex_regs) in
  existsb (obs_eqb (LArgs [(1, 7)])) (log s) = true /\ existsb (obs_eqb (LArgs [(1, 4)])) (log s) = true /\
  existsb (obs_eqb (LInvoke 0 2 2)) (log s) = true /\
  last_binding 1 [(1, 7)] (kw_get 1 [(1, 4)]) = Some 7.
Proof. exact ex_args. Qed.
Print Assumptions queue_handler_kwargs_sat.

(* relay: handler number i is called with the posted kwargs updated by the dict results of handlers 0..i-1 (each
   applied to what that handler saw); the callback gets the final kwargs *)
Theorem relay_fold :
  forall hs kw,
    let o := run_sync TRelay hs kw [] RNone in
    (forall i h, nth_error hs i = Some h -> nth_error (so_seen o) i = Some (sh_id h, relay_view hs kw i)) /\
    length (so_seen o) = length hs /\
    so_kwargs o = relay_kwargs hs kw.
Proof. exact relay_fold_l. Qed.
Print Assumptions relay_fold.

Example relay_fold_sat :
  let hs := [mkSH 1 (beh_fun (BIncr 1)); mkSH 2 (beh_fun (BConst (RDict [(2, 7)]))); mkSH 3 (beh_fun (BIncr 1))] in
  so_seen (run_sync TRelay hs [(1, 5)] [] RNone) = [(1, [(1, 5)]); (2, [(1, 6)]); (3, [(1, 6); (2, 7)])] /\
  so_kwargs (run_sync TRelay hs [(1, 5)] [] RNone) = [(1, 7); (2, 7)].
Proof. exact ex_relay. Qed.
Print Assumptions relay_fold_sat.

(* boolean: handlers after the first one that returns False are not called and the callback gets
   ev_result = False; if none returns False all are called and ev_result is not False *)
Theorem boolean_first_false :
  forall hs kw,
    let o := run_sync TBoolean hs kw [] RNone in
    (forall pre h post, hs = pre ++ h :: post ->
       (forall x, In x pre -> is_false (sh_res x kw) = false) -> is_false (sh_res h kw) = true ->
       so_seen o = map (fun h => (sh_id h, kw)) (pre ++ [h]) /\ so_kwargs o = kw /\ callback_evres o = EFalse) /\
    ((forall x, In x hs -> is_false (sh_res x kw) = false) ->
       so_seen o = map (fun h => (sh_id h, kw)) hs /\ so_kwargs o = kw /\ callback_evres o <> EFalse).
Proof. exact boolean_first_false_l. Qed.
Print Assumptions boolean_first_false.

Example boolean_first_false_sat :
  let hs := [mkSH 1 (beh_fun (BConst (RBool true))); mkSH 2 (beh_fun (BFalseIf 1 5)); mkSH 3 (beh_fun (BConst RNone))] in
  map fst (so_seen (run_sync TBoolean hs [(1, 5)] [] RNone)) = [1; 2] /\
  callback_evres (run_sync TBoolean hs [(1, 5)] [] RNone) = EFalse.
Proof. exact ex_boolean. Qed.
Print Assumptions boolean_first_false_sat.
