(* C02/Model.v — executable model of queue / relay / boolean event dispatch in mpf/core/events.py
   (definitions only).

   Part 1 (queue events): EventManager._post / process_event_queue / _process_queue_event /
   _run_handlers_sequential / QueuedEvent.wait,clear / add_async_handler adapter, on top of a FIFO model
   of the asyncio ready queue (call_soon, create_task, Event.set wake-ups).  A sequential dispatch is a
   program-counter machine {snapshot, remaining handlers, state}, queue objects live in a heap
   {waiter, event}, handler bodies are data (scripts of actions), the environment executes scripts
   "between loop runs" (posts, clears of outstanding waits in any order, handler removal).

   Part 2 (relay / boolean events): EventManager._run_handlers + _process_event as a fold.

   The flag [lost] selects the ORIGINAL behaviour of _run_handlers_sequential when every handler of the
   event was removed between process_event_queue and the first step of the task (return without
   calling the callback); [lost = false] is the code with fixes/C02-queue-callback-when-handlers-removed.patch.
   Sharing of a queue object between two dispatchers (what Mode.start did before
   fixes/C02-mode-start-no-queue-forward.patch) is the [share] flag of [APostQ]. *)
From Common Require Import Prelude.
Open Scope Z_scope.

(* keyword arguments carrying data: sorted association lists (canonical form of a dict) *)
Definition kwargs := list (Z * Z).        (* sorted association list: canonical form of a dict *)

Fixpoint kw_set (k v : Z) (kw : kwargs) : kwargs :=
  match kw with
  | [] => [(k, v)]
  | (k', v') :: kw' => if k =? k' then (k, v) :: kw'
                       else if k <? k' then (k, v) :: kw
                       else (k', v') :: kw_set k v kw'
  end.

Fixpoint kw_get (k : Z) (kw : kwargs) : option Z :=
  match kw with
  | [] => None
  | (k', v') :: kw' => if k =? k' then Some v' else kw_get k kw'
  end.

Definition kw_update (kw : kwargs) (d : list (Z * Z)) : kwargs :=
  fold_left (fun acc kv => kw_set (fst kv) (snd kv) acc) d kw.

Definition kw_norm (kw : list (Z * Z)) : kwargs := kw_update [] kw.

(* ------------------------------------------------------------------------------------------- *)
(* Part 1: queue events                                                                          *)

Inductive action :=
| AWait                         (* queue.wait() on the queue object this handler was given *)
| AClearOwn                     (* queue.clear() on it *)
| AClearNth (k : nat)           (* release the (k mod n)-th outstanding wait / coroutine future *)
| AClearQ (q : nat)             (* release the held wait on queue object q (if held) *)
| ACancelNth (k : nat)          (* cancel the future the (k mod n)-th outstanding item awaits (coroutines only) *)
| APostQ (ev : Z) (share : bool) (kw : list (Z * Z))   (* post_queue(ev, callback[, queue=own queue], **kw) *)
| APostP (ev : Z)               (* post(ev) *)
| ARemove (h : Z).              (* remove_handler_by_key *)

Inductive body := HSync (acts : list action) | HAsync (aw : bool).
(* h_kw / h_kwq: keyword arguments given at registration (data, and a `queue` object allocated before the run);
   h_cond: condition "name{k==v}" evaluated on the merged kwargs (a missing key makes it false) *)
Record handler := mkH { h_id : Z; h_prio : Z; h_kw : list (Z * Z); h_kwq : option nat;
                        h_cond : option (Z * Z); h_body : body }.

Record qobj := mkQ { q_waiter : bool; q_event : option nat }.

Inductive dstate := DNew | DReady (q : nat) | DSleep (q : nat) (e : nat) | DDone.
Record disp := mkD { d_psn : nat; d_ev : Z; d_kwq : option nat; d_kw : kwargs;
                     d_snap : list handler; d_rem : list handler; d_st : dstate }.

Inductive ritem := RPeq | RDisp (d : nat) | RCoroStart (q : nat) (aw : bool) | RCoroWake (q : nat)
                 | RCoroDone (q : nat).
Inductive oitem := OWait (q : nat) | OFut (q : nat).
Record posted := mkP { p_psn : nat; p_ev : Z; p_queue : bool; p_kwq : option nat; p_kw : kwargs }.

Inductive obs :=
| LInvoke (psn : nat) (h : Z) (q : nat)
| LArgs (kw : kwargs)                    (* data kwargs the handler just invoked was called with *)
| LPlain (psn : nat) (h : Z)
| LCallback (psn : nat)
| LPostQ (psn : nat)
| LWait (q : nat)
| LClear (q : nat)
| LErr (code : Z).

Record state := mkS {
  reg : list (Z * list handler);     (* registered_handlers (key present <-> in dict) *)
  evq : list posted;                 (* self.event_queue *)
  cbq : list nat;                    (* self.callback_queue (append right, pop right) *)
  pend : list posted;                (* process_event_queue: flattened next_queue + inner_queue *)
  inpeq : bool;                      (* inside process_event_queue *)
  ready : list ritem;                (* asyncio loop._ready (FIFO) *)
  heap : list qobj;
  disps : list disp;
  outst : list oitem;                (* what the environment may still release, registration order *)
  nev : nat;                         (* next asyncio.Event id *)
  npsn : nat;                        (* next post sequence number *)
  log : list obs;                    (* newest first *)
  err : bool }.

Definition upd_reg s x := mkS x (evq s) (cbq s) (pend s) (inpeq s) (ready s) (heap s) (disps s) (outst s) (nev s) (npsn s) (log s) (err s).
Definition upd_evq s x := mkS (reg s) x (cbq s) (pend s) (inpeq s) (ready s) (heap s) (disps s) (outst s) (nev s) (npsn s) (log s) (err s).
Definition upd_cbq s x := mkS (reg s) (evq s) x (pend s) (inpeq s) (ready s) (heap s) (disps s) (outst s) (nev s) (npsn s) (log s) (err s).
Definition upd_pend s x := mkS (reg s) (evq s) (cbq s) x (inpeq s) (ready s) (heap s) (disps s) (outst s) (nev s) (npsn s) (log s) (err s).
Definition upd_inpeq s x := mkS (reg s) (evq s) (cbq s) (pend s) x (ready s) (heap s) (disps s) (outst s) (nev s) (npsn s) (log s) (err s).
Definition upd_ready s x := mkS (reg s) (evq s) (cbq s) (pend s) (inpeq s) x (heap s) (disps s) (outst s) (nev s) (npsn s) (log s) (err s).
Definition upd_heap s x := mkS (reg s) (evq s) (cbq s) (pend s) (inpeq s) (ready s) x (disps s) (outst s) (nev s) (npsn s) (log s) (err s).
Definition upd_disps s x := mkS (reg s) (evq s) (cbq s) (pend s) (inpeq s) (ready s) (heap s) x (outst s) (nev s) (npsn s) (log s) (err s).
Definition upd_outst s x := mkS (reg s) (evq s) (cbq s) (pend s) (inpeq s) (ready s) (heap s) (disps s) x (nev s) (npsn s) (log s) (err s).
Definition upd_nev s x := mkS (reg s) (evq s) (cbq s) (pend s) (inpeq s) (ready s) (heap s) (disps s) (outst s) x (npsn s) (log s) (err s).
Definition upd_npsn s x := mkS (reg s) (evq s) (cbq s) (pend s) (inpeq s) (ready s) (heap s) (disps s) (outst s) (nev s) x (log s) (err s).
Definition add_log s o := mkS (reg s) (evq s) (cbq s) (pend s) (inpeq s) (ready s) (heap s) (disps s) (outst s) (nev s) (npsn s) (o :: log s) (err s).
Definition fail s c := mkS (reg s) (evq s) (cbq s) (pend s) (inpeq s) (ready s) (heap s) (disps s) (outst s) (nev s) (npsn s) (LErr c :: log s) true.

Definition push_ready s r := upd_ready s (ready s ++ [r]).

(* --- registry ------------------------------------------------------------------------------- *)
(* list.sort(key=priority, reverse=True) after every append is stable: the new handler goes after all
   handlers of priority >= its own *)
Fixpoint insert_h (h : handler) (l : list handler) : list handler :=
  match l with
  | [] => [h]
  | x :: l' => if h_prio x <? h_prio h then h :: l else x :: insert_h h l'
  end.

Fixpoint reg_get (ev : Z) (r : list (Z * list handler)) : option (list handler) :=
  match r with
  | [] => None
  | (e, hs) :: r' => if e =? ev then Some hs else reg_get ev r'
  end.

Fixpoint reg_add (ev : Z) (h : handler) (r : list (Z * list handler)) : list (Z * list handler) :=
  match r with
  | [] => [(ev, [h])]
  | (e, hs) :: r' => if e =? ev then (e, insert_h h hs) :: r' else (e, hs) :: reg_add ev h r'
  end.

Definition drop_h (h : Z) (hs : list handler) : list handler :=
  filter (fun x => negb (h_id x =? h)) hs.

(* remove_handler_by_key + _remove_event_if_empty (handler ids are unique) *)
Fixpoint reg_remove (h : Z) (r : list (Z * list handler)) : list (Z * list handler) :=
  match r with
  | [] => []
  | (e, hs) :: r' =>
      match drop_h h hs with
      | [] => reg_remove h r'
      | hs' => (e, hs') :: reg_remove h r'
      end
  end.

Definition reg_has (ev : Z) (r : list (Z * list handler)) : bool :=
  match reg_get ev r with Some _ => true | None => false end.

(* --- heap / dispatcher table ----------------------------------------------------------------- *)
Fixpoint set_nth {A} (n : nat) (x : A) (l : list A) : list A :=
  match l, n with
  | [], _ => []
  | _ :: l', O => x :: l'
  | y :: l', S n' => y :: set_nth n' x l'
  end.

Fixpoint remove_nth {A} (n : nat) (l : list A) : list A :=
  match l, n with
  | [], _ => []
  | _ :: l', O => l'
  | y :: l', S n' => y :: remove_nth n' l'
  end.

Definition waiter_of (q : nat) (s : state) : bool :=
  match nth_error (heap s) q with Some o => q_waiter o | None => false end.

Definition oitem_eqb (a b : oitem) : bool :=
  match a, b with
  | OWait x, OWait y => Nat.eqb x y
  | OFut x, OFut y => Nat.eqb x y
  | _, _ => false
  end.

Fixpoint remove_first (x : oitem) (l : list oitem) : list oitem :=
  match l with
  | [] => []
  | y :: l' => if oitem_eqb x y then l' else y :: remove_first x l'
  end.

Definition held (q : nat) (s : state) : bool := existsb (oitem_eqb (OWait q)) (outst s).

Definition set_st (d : disp) (st : dstate) : disp :=
  mkD (d_psn d) (d_ev d) (d_kwq d) (d_kw d) (d_snap d) (d_rem d) st.

(* asyncio.Event.set(): wake whoever sleeps on event e *)
Fixpoint wake_ds (e : nat) (i : nat) (ds : list disp) : list disp * list ritem :=
  match ds with
  | [] => ([], [])
  | d :: ds' =>
      let r := wake_ds e (S i) ds' in
      match d_st d with
      | DSleep q e' => if Nat.eqb e e' then (set_st d (DReady q) :: fst r, RDisp i :: snd r)
                       else (d :: fst r, snd r)
      | _ => (d :: fst r, snd r)
      end
  end.

Definition wake (e : nat) (s : state) : state :=
  let r := wake_ds e 0%nat (disps s) in
  upd_ready (upd_disps s (fst r)) (ready s ++ snd r).

(* QueuedEvent.clear() *)
Definition do_clear (q : nat) (s : state) : state :=
  match nth_error (heap s) q with
  | None => fail s 3
  | Some o =>
      if q_waiter o then
        let s1 := add_log (upd_heap s (set_nth q (mkQ false (q_event o)) (heap s))) (LClear q) in
        match q_event o with
        | None => s1
        | Some e => wake e s1
        end
      else fail s 2       (* AssertionError("Not locked") *)
  end.

(* QueuedEvent.wait(); [hold]: the wait is released by the environment (sync handler) *)
Definition do_wait (q : nat) (hold : bool) (s : state) : state :=
  match nth_error (heap s) q with
  | None => fail s 3
  | Some o =>
      if q_waiter o then fail s 1      (* AssertionError("Double lock") *)
      else
        let s1 := add_log (upd_heap s (set_nth q (mkQ true (q_event o)) (heap s))) (LWait q) in
        if hold then upd_outst s1 (outst s1 ++ [OWait q]) else s1
  end.

(* EventManager._post *)
Definition post (ev : Z) (isq : bool) (kwq : option nat) (kw : kwargs) (s : state) : state :=
  let p := mkP (npsn s) ev isq kwq kw in
  let s1 := upd_npsn (if isq then add_log s (LPostQ (npsn s)) else s) (S (npsn s)) in
  if negb isq && negb (reg_has ev (reg s1)) then s1      (* fast path: no callback, no handler *)
  else
    let s2 := match evq s1 with [] => push_ready s1 RPeq | _ => s1 end in
    upd_evq s2 (evq s2 ++ [p]).

Definition clear_nth (k : nat) (s : state) : state :=
  match outst s with
  | [] => s
  | _ =>
      let i := Nat.modulo k (length (outst s)) in
      match nth_error (outst s) i with
      | None => s
      | Some (OWait q) => do_clear q (upd_outst s (remove_nth i (outst s)))
      | Some (OFut q) => push_ready (upd_outst s (remove_nth i (outst s))) (RCoroWake q)
      end
  end.

(* The future a coroutine handler awaits is cancelled (or the coroutine raises CancelledError): the task ends
   CANCELLED, _async_handler_done swallows the CancelledError and still calls queue.clear() - the same ready-queue
   pattern as a normal completion.  A held wait of a sync handler cannot be cancelled: no-op. *)
Definition cancel_nth (k : nat) (s : state) : state :=
  match outst s with
  | [] => s
  | _ =>
      let i := Nat.modulo k (length (outst s)) in
      match nth_error (outst s) i with
      | Some (OFut q) => push_ready (upd_outst s (remove_nth i (outst s))) (RCoroWake q)
      | _ => s
      end
  end.

Definition exec_action (own : option nat) (a : action) (s : state) : state :=
  match a with
  | AWait => match own with Some q => do_wait q true s | None => s end
  | AClearOwn => match own with
                 | Some q => do_clear q (upd_outst s (remove_first (OWait q) (outst s)))
                 | None => s
                 end
  | AClearNth k => clear_nth k s
  | AClearQ q => if held q s then do_clear q (upd_outst s (remove_first (OWait q) (outst s))) else s
  | ACancelNth k => cancel_nth k s
  | APostQ ev share kw => post ev true (if share then own else None) (kw_norm kw) s
  | APostP ev => post ev false None [] s
  | ARemove h => upd_reg s (reg_remove h (reg s))
  end.

Fixpoint exec_actions (own : option nat) (acts : list action) (s : state) : state :=
  match acts with
  | [] => s
  | a :: acts' => exec_actions own acts' (exec_action own a s)
  end.

(* EventManager._async_handler_coroutine *)
Definition async_adapter (q : nat) (aw : bool) (s : state) : state :=
  if waiter_of q s then fail s 1
  else push_ready (do_wait q false s) (RCoroStart q aw).

Definition set_disp (i : nat) (d : disp) (s : state) : state := upd_disps s (set_nth i d (disps s)).

(* the body of the for loop of _run_handlers_sequential, from handler list [rem] on *)
Definition cond_ok (c : option (Z * Z)) (kw : kwargs) : bool :=
  match c with
  | None => true
  | Some (k, v) => match kw_get k kw with Some v' => v =? v' | None => false end
  end.

(* merged_kwargs = dict(list(kwargs.items()) + list(handler.kwargs.items())): the handler's registered kwargs win *)
Definition merged_kw (d : disp) (h : handler) : kwargs := kw_update (d_kw d) (h_kw h).
(* merged_kwargs.pop('queue'): the handler's registered queue, else the posted one, else a fresh QueuedEvent *)
Definition merged_queue (d : disp) (h : handler) : option nat :=
  match h_kwq h with Some q => Some q | None => d_kwq d end.

Fixpoint run_hs (i : nat) (d : disp) (rem : list handler) (s : state) : state :=
  match rem with
  | [] => add_log (set_disp i (mkD (d_psn d) (d_ev d) (d_kwq d) (d_kw d) (d_snap d) [] DDone) s) (LCallback (d_psn d))
  | h :: rem' =>
      if negb (cond_ok (h_cond h) (merged_kw d h)) then run_hs i d rem' s      (* condition false: skipped *)
      else
      let q := match merged_queue d h with Some q => q | None => length (heap s) end in
      let s1 := match merged_queue d h with Some _ => s | None => upd_heap s (heap s ++ [mkQ false None]) end in
      let s2 := add_log (add_log s1 (LInvoke (d_psn d) (h_id h) q)) (LArgs (merged_kw d h)) in
      let s3 := match h_body h with
                | HSync acts => exec_actions (Some q) acts s2
                | HAsync aw => async_adapter q aw s2
                end in
      if waiter_of q s3 then
        (* queue.event = asyncio.Event(); await queue.event.wait() *)
        let e := nev s3 in
        let o := match nth_error (heap s3) q with Some o => o | None => mkQ true None end in
        set_disp i (mkD (d_psn d) (d_ev d) (d_kwq d) (d_kw d) (d_snap d) rem' (DSleep q e))
                 (upd_nev (upd_heap s3 (set_nth q (mkQ (q_waiter o) (Some e)) (heap s3))) (S e))
      else run_hs i d rem' s3
  end.

Definition disp_step (lost : bool) (i : nat) (s : state) : state :=
  match nth_error (disps s) i with
  | None => s
  | Some d =>
      match d_st d with
      | DNew =>
          match reg_get (d_ev d) (reg s) with
          | None =>
              let s1 := set_disp i (set_st d DDone) s in
              if lost then s1 else add_log s1 (LCallback (d_psn d))
          | Some hs => run_hs i (mkD (d_psn d) (d_ev d) (d_kwq d) (d_kw d) hs hs DNew) hs s
          end
      | DReady q =>
          (* `while queue.waiter:` (fixes/C02-dispatcher-rechecks-wait.patch): the queue was locked again between the
             clear and this wake-up (possible for a queue object shared by several dispatches): new Event, sleep again *)
          if waiter_of q s then
            let e := nev s in
            let o := match nth_error (heap s) q with Some o => o | None => mkQ true None end in
            set_disp i (set_st d (DSleep q e))
                     (upd_nev (upd_heap s (set_nth q (mkQ (q_waiter o) (Some e)) (heap s))) (S e))
          else run_hs i d (d_rem d) s
      | _ => s
      end
  end.

(* _run_handlers for a plain event (handler snapshot [hs]) *)
Fixpoint run_plain (psn : nat) (hs : list handler) (s : state) : state :=
  match hs with
  | [] => s
  | h :: hs' =>
      let s1 := add_log s (LPlain psn (h_id h)) in
      run_plain psn hs' (match h_body h with
                         | HSync acts => exec_actions None acts s1
                         | HAsync _ => fail s1 4
                         end)
  end.

(* one event taken from the queue inside process_event_queue *)
Definition process (p : posted) (s : state) : state :=
  if p_queue p then
    if reg_has (p_ev p) (reg s) then
      push_ready (upd_disps s (disps s ++ [mkD (p_psn p) (p_ev p) (p_kwq p) (p_kw p) [] [] DNew]))
                 (RDisp (length (disps s)))
    else upd_cbq s (cbq s ++ [p_psn p])
  else
    match reg_get (p_ev p) (reg s) with
    | Some hs => run_plain (p_psn p) hs s
    | None => s
    end.

(* process_event_queue, one iteration at a time (it is atomic w.r.t. the ready queue) *)
Definition peq_step (s : state) : state :=
  match pend s with
  | p :: ps =>
      let s1 := process p (upd_pend s ps) in
      upd_evq (upd_pend s1 (evq s1 ++ pend s1)) []      (* events posted meanwhile go first *)
  | [] =>
      match evq s with
      | _ :: _ => upd_evq (upd_pend s (evq s)) []
      | [] =>
          match rev (cbq s) with
          | c :: _ => add_log (upd_cbq s (removelast (cbq s))) (LCallback c)
          | [] => upd_inpeq s false
          end
      end
  end.

Definition step (lost : bool) (s : state) : option state :=
  if err s then None
  else if inpeq s then Some (peq_step s)
  else
    match ready s with
    | [] => None
    | r :: rs =>
        let s0 := upd_ready s rs in
        Some (match r with
              | RPeq => upd_inpeq s0 true
              | RDisp d => disp_step lost d s0
              | RCoroStart q aw => if aw then upd_outst s0 (outst s0 ++ [OFut q])
                                   else push_ready s0 (RCoroDone q)
              | RCoroWake q => push_ready s0 (RCoroDone q)
              | RCoroDone q => do_clear q s0
              end)
    end.

Fixpoint run_fuel (lost : bool) (n : nat) (s : state) : state :=
  match n with
  | O => s
  | S n' => match step lost s with None => s | Some s' => run_fuel lost n' s' end
  end.

(* the environment: a script executed outside the loop (own queue: none), then the loop runs until idle *)
Definition env_batch (lost : bool) (fuel : nat) (acts : list action) (s : state) : state :=
  if err s then s else run_fuel lost fuel (exec_actions None acts s).

Fixpoint env_run (lost : bool) (fuel : nat) (bs : list (list action)) (s : state) : state :=
  match bs with
  | [] => s
  | b :: bs' => env_run lost fuel bs' (env_batch lost fuel b s)
  end.

Definition init_reg (regs : list (Z * handler)) : list (Z * list handler) :=
  fold_left (fun r eh => reg_add (fst eh) (snd eh) r) regs [].

(* QueuedEvent objects handed to add_handler(..., queue=Q) exist before the run: numbers 0 .. n-1 *)
Definition prealloc (regs : list (Z * handler)) : nat :=
  fold_right (fun eh n => match h_kwq (snd eh) with Some q => Nat.max (S q) n | None => n end) 0%nat regs.

Definition init_state (regs : list (Z * handler)) : state :=
  mkS (init_reg regs) [] [] [] false [] (repeat (mkQ false None) (prealloc regs)) [] [] 0%nat 0%nat [] false.

(* --- observation ------------------------------------------------------------------------------ *)
Definition is_err (o : obs) : bool := match o with LErr _ => true | _ => false end.

(* chronological log, cut after the first error *)
Fixpoint cut_err (l : list obs) : list obs :=
  match l with
  | [] => []
  | o :: l' => if is_err o then [o] else o :: cut_err l'
  end.

Definition not_done (d : disp) : bool := match d_st d with DDone => false | _ => true end.

Definition quiescent (lost : bool) (s : state) : bool :=
  match step lost s with None => true | Some _ => false end.

Record outcome := mkO { o_log : list obs; o_pending : nat; o_outst : list oitem; o_err : bool; o_idle : bool }.

Definition observe (lost : bool) (s : state) : outcome :=
  if err s then mkO (cut_err (rev (log s))) 0 [] true true
  else mkO (rev (log s)) (length (filter not_done (disps s))) (outst s) false (quiescent lost s).

Definition default_fuel : nat := Nat.mul 100 100.

Definition queue_run (inp : list (Z * handler) * list (list action)) : outcome :=
  observe false (env_run false default_fuel (snd inp) (init_state (fst inp))).

Definition queue_run_orig (inp : list (Z * handler) * list (list action)) : outcome :=
  observe true (env_run true default_fuel (snd inp) (init_state (fst inp))).

Definition obs_eqb (a b : obs) : bool :=
  match a, b with
  | LInvoke p h q, LInvoke p' h' q' => Nat.eqb p p' && (h =? h') && Nat.eqb q q'
  | LArgs a, LArgs b => list_eqb (fun x y => (fst x =? fst y) && (snd x =? snd y)) a b
  | LPlain p h, LPlain p' h' => Nat.eqb p p' && (h =? h')
  | LCallback p, LCallback p' => Nat.eqb p p'
  | LPostQ p, LPostQ p' => Nat.eqb p p'
  | LWait q, LWait q' => Nat.eqb q q'
  | LClear q, LClear q' => Nat.eqb q q'
  | LErr _, LErr _ => true
  | _, _ => false
  end.

Definition outcome_eqb (a b : outcome) : bool :=
  list_eqb obs_eqb (o_log a) (o_log b) && Nat.eqb (o_pending a) (o_pending b)
  && list_eqb oitem_eqb (o_outst a) (o_outst b) && Bool.eqb (o_err a) (o_err b)
  && Bool.eqb (o_idle a) (o_idle b).

(* What Mode.start does with the queue it receives from the triggering queue event
   (mode.py: queue.wait() when use_wait_queue, then post_queue('mode_<name>_starting', **kwargs)).
   [forward = true] is the code before fixes/C02-mode-start-no-queue-forward.patch. *)
Definition mode_start_script (use_wait_queue forward : bool) (starting_ev : Z) : list action :=
  (if use_wait_queue then [AWait] else []) ++ [APostQ starting_ev forward []].

(* ------------------------------------------------------------------------------------------- *)
(* Part 2: relay and boolean events (_run_handlers + _process_event)                              *)

(* kwargs['_min_priority'] = {'all': a, facility: p, ...} *)
Definition minprio := (Z * list (Z * Z))%type.

Inductive result := RNone | RBool (b : bool) | RInt (z : Z) | RDict (d : list (Z * Z))
                  | RDictMP (d : list (Z * Z)) (m : minprio).      (* a dict containing the key '_min_priority' *)

Definition truthy (r : result) : bool :=
  match r with
  | RNone => false
  | RBool b => b
  | RInt z => negb (z =? 0)
  | RDict d => match d with [] => false | _ => true end
  | RDictMP _ _ => true
  end.

Inductive evtype := TPlain | TRelay | TBoolean.

(* the event's kwargs while _run_handlers runs: data kwargs and the optional '_min_priority' entry *)
Definition sstate := (kwargs * option minprio)%type.

(* a synchronous handler: priority, kwargs it was registered with, blocking facility, and its return value as a
   function of the arguments it is called with *)
Record shandler := mkSH { sh_id : Z; sh_prio : Z; sh_kw : list (Z * Z); sh_fac : option Z;
                          sh_res : sstate -> result }.

(* '_min_priority' in kwargs and handler.blocking_facility and (mp['all'] > prio or
   (facility in mp and mp[facility] > prio)) : the handler is skipped *)
Definition blocked (h : shandler) (mp : option minprio) : bool :=
  match mp, sh_fac h with
  | Some (a, facs), Some f =>
      (sh_prio h <? a) || match kw_get f facs with Some p => sh_prio h <? p | None => false end
  | _, _ => false
  end.

(* merged_kwargs: the event's CURRENT kwargs overridden by the kwargs the handler was registered with
   (all three branches of the if/elif/else in _run_handlers denote this dict) *)
Definition hview (h : shandler) (st : sstate) : sstate := (kw_update (fst st) (sh_kw h), snd st).

(* what a handler's result does to the event's kwargs *)
Definition apply_res (t : evtype) (r : result) (st : sstate) : sstate :=
  match t, r with
  | TRelay, RDict d => (kw_update (fst st) d, snd st)                (* kwargs.update(result) *)
  | TRelay, RDictMP d m => (kw_update (fst st) d, Some m)
  | _, RDictMP _ m => (fst st, Some m)                               (* kwargs['_min_priority'] = result[...] *)
  | _, _ => st
  end.

Record sync_out := mkSO {
  so_seen : list (Z * sstate);       (* (handler id, arguments it saw), in call order *)
  so_st : sstate;                    (* kwargs handed to the callback (without ev_result) *)
  so_false : bool;                   (* kwargs['ev_result'] = False was set by the boolean abort *)
  so_last : result }.                (* result of the last handler called *)

Fixpoint run_sync (t : evtype) (hs : list shandler) (st : sstate) (seen : list (Z * sstate)) (last : result)
  : sync_out :=
  match hs with
  | [] => mkSO (rev seen) st false last
  | h :: hs' =>
      if blocked h (snd st) then run_sync t hs' st seen last
      else
        let v := hview h st in
        let r := sh_res h v in
        let seen' := (sh_id h, v) :: seen in
        match t, r with
        | TBoolean, RBool false => mkSO (rev seen') st true r
        | _, _ => run_sync t hs' (apply_res t r st) seen' r
        end
  end.

(* what the callback receives: kwargs, plus ev_result = last result when truthy, else False if aborted *)
Inductive evres := ENone | EFalse | ERes (r : result).

Definition callback_evres (o : sync_out) : evres :=
  if truthy (so_last o) then ERes (so_last o) else if so_false o then EFalse else ENone.

(* concrete handler behaviours used by the correspondence run *)
Inductive sbeh :=
| BConst (r : result)                 (* return r *)
| BIncr (k : Z)                       (* return {k: kwargs.get(k, 0) + 1} *)
| BFalseIf (k v : Z)                  (* return False if kwargs.get(k) == v else True *)
| BBlock (f p : Z).                   (* block_event_player: mp = copy of kwargs.get('_min_priority', {'all': 0});
                                         mp[f] = p; return {'_min_priority': mp} *)

Definition beh_fun (b : sbeh) : sstate -> result :=
  match b with
  | BConst r => fun _ => r
  | BIncr k => fun st => RDict [(k, match kw_get k (fst st) with Some v => v + 1 | None => 1 end)]
  | BFalseIf k v => fun st => match kw_get k (fst st) with
                              | Some v' => RBool (negb (v =? v'))
                              | None => RBool true
                              end
  | BBlock f p => fun st => match snd st with
                            | Some (a, facs) => RDictMP [] (a, kw_set f p facs)
                            | None => RDictMP [] (0, [(f, p)])
                            end
  end.

(* a registration: id, priority, registered kwargs, blocking facility, behaviour *)
Record sreg := mkSR { sr_id : Z; sr_prio : Z; sr_kw : list (Z * Z); sr_fac : option Z; sr_beh : sbeh }.

Definition mk_sh (x : sreg) : shandler := mkSH (sr_id x) (sr_prio x) (sr_kw x) (sr_fac x) (beh_fun (sr_beh x)).

(* registrations in registration order -> priority order (stable) *)
Fixpoint insert_s (x : sreg) (l : list sreg) :=
  match l with
  | [] => [x]
  | y :: l' => if sr_prio y <? sr_prio x then x :: l else y :: insert_s x l'
  end.

Definition sort_s (l : list sreg) := fold_left (fun acc x => insert_s x acc) l [].

Definition sync_run (inp : evtype * list sreg * (list (Z * Z) * option minprio)) : sync_out * evres :=
  let t := fst (fst inp) in
  let o := run_sync t (map mk_sh (sort_s (snd (fst inp)))) (kw_norm (fst (snd inp)), snd (snd inp)) [] RNone in
  (o, callback_evres o).

Definition zz_eqb (a b : Z * Z) : bool := (fst a =? fst b) && (snd a =? snd b).
Definition kw_eqb : kwargs -> kwargs -> bool := list_eqb zz_eqb.

Definition mp_eqb (a b : minprio) : bool := (fst a =? fst b) && kw_eqb (kw_norm (snd a)) (kw_norm (snd b)).

Definition omp_eqb (a b : option minprio) : bool :=
  match a, b with
  | None, None => true
  | Some x, Some y => mp_eqb x y
  | _, _ => false
  end.

Definition sstate_eqb (a b : sstate) : bool := kw_eqb (fst a) (fst b) && omp_eqb (snd a) (snd b).

Definition result_eqb (a b : result) : bool :=
  match a, b with
  | RNone, RNone => true
  | RBool x, RBool y => Bool.eqb x y
  | RInt x, RInt y => x =? y
  | RDict x, RDict y => kw_eqb (kw_norm x) (kw_norm y)      (* dicts compare as maps *)
  | RDictMP x m, RDictMP y n => kw_eqb (kw_norm x) (kw_norm y) && mp_eqb m n
  | _, _ => false
  end.

Definition evres_eqb (a b : evres) : bool :=
  match a, b with
  | ENone, ENone => true
  | EFalse, EFalse => true
  | ERes x, ERes y => result_eqb x y
  | _, _ => false
  end.

Definition seen_eqb (a b : Z * sstate) : bool := (fst a =? fst b) && sstate_eqb (snd a) (snd b).

(* the harness reports: handlers' views, callback kwargs, callback ev_result *)
Definition sync_out_eqb (a b : sync_out * evres) : bool :=
  list_eqb seen_eqb (so_seen (fst a)) (so_seen (fst b))
  && sstate_eqb (so_st (fst a)) (so_st (fst b))
  && evres_eqb (snd a) (snd b).
