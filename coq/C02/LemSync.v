(* C02/LemSync.v — relay / boolean folding (Part 2 of the model) and the two refutation witnesses. *)
From Common Require Import Prelude.
From C02 Require Import Model.
Open Scope Z_scope.

(* ---------------------------------------------------------------------------------------------- *)
(* dict update: the last binding of a key wins, every other key passes through *)
Definition last_binding (k : Z) (d : list (Z * Z)) (dflt : option Z) : option Z :=
  fold_left (fun acc kv => if k =? fst kv then Some (snd kv) else acc) d dflt.

Lemma kw_get_set k k' v kw : kw_get k (kw_set k' v kw) = if k =? k' then Some v else kw_get k kw.
Proof.
  induction kw as [|[a b] kw IH]; cbn.
  - destruct (k =? k'); reflexivity.
  - destruct (k' =? a) eqn:E1.
    + apply Z.eqb_eq in E1; subst. cbn. destruct (k =? a); reflexivity.
    + destruct (k' <? a) eqn:E2; cbn.
      * destruct (k =? k'); reflexivity.
      * rewrite IH. destruct (k =? a) eqn:E3; [|reflexivity].
        apply Z.eqb_eq in E3; subst. rewrite Z.eqb_sym, E1. reflexivity.
Qed.

Lemma kw_get_update k : forall d kw, kw_get k (kw_update kw d) = last_binding k d (kw_get k kw).
Proof.
  unfold kw_update, last_binding. induction d as [|[k' v] d IH]; intros kw; cbn; [reflexivity|].
  rewrite IH, kw_get_set. reflexivity.
Qed.

(* ---------------------------------------------------------------------------------------------- *)
(* relay / boolean / plain: independent, positional specification of _run_handlers *)

(* the effect of handler h on the event's kwargs when the kwargs are st *)
Definition sync_step (t : evtype) (st : sstate) (h : shandler) : sstate :=
  if blocked h (snd st) then st else apply_res t (sh_res h (hview h st)) st.

(* the event's kwargs after the handlers hs (none of which aborts) *)
Definition st_after (t : evtype) (hs : list shandler) (st : sstate) : sstate := fold_left (sync_step t) hs st.

(* the calls made for the handlers [rest] which come after the handlers [pre]: handler number i is called - unless
   blocked by _min_priority - with the kwargs as updated by ALL handlers before it, overridden by its own
   registered kwargs *)
Fixpoint calls (t : evtype) (pre rest : list shandler) (st0 : sstate) : list (Z * sstate) :=
  match rest with
  | [] => []
  | h :: r =>
      (let st := st_after t pre st0 in if blocked h (snd st) then [] else [(sh_id h, hview h st)])
      ++ calls t (pre ++ [h]) r st0
  end.

Definition is_false (r : result) : bool := match r with RBool false => true | _ => false end.

(* handler h, reached with kwargs st, ends the dispatch (boolean events only) *)
Definition aborts (t : evtype) (h : shandler) (st : sstate) : bool :=
  match t with
  | TBoolean => negb (blocked h (snd st)) && is_false (sh_res h (hview h st))
  | _ => false
  end.

Definition no_abort (t : evtype) (hs : list shandler) (st0 : sstate) : Prop :=
  forall pre x post, hs = pre ++ x :: post -> aborts t x (st_after t pre st0) = false.

Fixpoint calls_from (t : evtype) (hs : list shandler) (st : sstate) : list (Z * sstate) :=
  match hs with
  | [] => []
  | h :: r => if blocked h (snd st) then calls_from t r st
              else (sh_id h, hview h st) :: calls_from t r (apply_res t (sh_res h (hview h st)) st)
  end.

Lemma st_after_snoc t pre h st : st_after t (pre ++ [h]) st = sync_step t (st_after t pre st) h.
Proof. unfold st_after. rewrite fold_left_app. reflexivity. Qed.

Lemma calls_from_calls t : forall rest pre st0,
  calls_from t rest (st_after t pre st0) = calls t pre rest st0.
Proof.
  induction rest as [|h r IH]; intros pre st0; cbn [calls_from calls]; [reflexivity|].
  rewrite <- IH, st_after_snoc. unfold sync_step.
  destruct (blocked h (snd (st_after t pre st0))); reflexivity.
Qed.

Lemma no_abort_tail t h hs st : no_abort t (h :: hs) st -> no_abort t hs (sync_step t st h).
Proof.
  intros H pre x post E. specialize (H (h :: pre) x post). cbn in H. apply H. rewrite E. reflexivity.
Qed.

Lemma run_sync_no_abort t : forall hs st seen last, no_abort t hs st ->
  let o := run_sync t hs st seen last in
  so_seen o = rev seen ++ calls_from t hs st /\ so_st o = st_after t hs st /\ so_false o = false.
Proof.
  induction hs as [|h hs IH]; intros st seen last H; cbn [run_sync calls_from st_after fold_left].
  - cbn. rewrite app_nil_r. auto.
  - pose proof (H [] h hs eq_refl) as Hh. cbn in Hh.
    pose proof (no_abort_tail _ _ _ _ H) as Ht. unfold sync_step in Ht |- *.
    destruct (blocked h (snd st)) eqn:B.
    + apply IH. exact Ht.
    + assert (G : forall r, r = sh_res h (hview h st) ->
        let o := run_sync t hs (apply_res t r st) ((sh_id h, hview h st) :: seen) r in
        so_seen o = rev seen ++ (sh_id h, hview h st) :: calls_from t hs (apply_res t r st) /\
        so_st o = st_after t hs (apply_res t r st) /\ so_false o = false).
      { intros r ->. cbv zeta. destruct (IH _ ((sh_id h, hview h st) :: seen) (sh_res h (hview h st)) Ht) as [A [B' C]].
        rewrite A, B', C. cbn [rev]. rewrite <- app_assoc. auto. }
      unfold aborts in Hh. rewrite B in Hh.
      destruct t; destruct (sh_res h (hview h st)) as [|[|]|z|d|d m] eqn:E;
        try (apply (G _ eq_refl)); cbn in Hh; discriminate Hh.
Qed.

Lemma run_sync_abort : forall pre h post st seen last,
  no_abort TBoolean pre st -> aborts TBoolean h (st_after TBoolean pre st) = true ->
  let o := run_sync TBoolean (pre ++ h :: post) st seen last in
  so_seen o = rev seen ++ calls_from TBoolean (pre ++ [h]) st /\ so_st o = st_after TBoolean pre st /\
  so_false o = true /\ so_last o = RBool false.
Proof.
  induction pre as [|p pre IH]; intros h post st seen last H Hf; cbn [app run_sync calls_from st_after fold_left] in *.
  - unfold aborts in Hf. destruct (blocked h (snd st)) eqn:B; [discriminate|]. cbn in Hf.
    destruct (sh_res h (hview h st)) as [|[|]|z|d|d m] eqn:E; try discriminate Hf. cbn. auto.
  - pose proof (H [] p pre eq_refl) as Hp. unfold st_after in Hp. cbn [fold_left] in Hp.
    pose proof (no_abort_tail _ _ _ _ H) as Ht. unfold sync_step in Ht, Hf |- *.
    destruct (blocked p (snd st)) eqn:B.
    + apply IH; assumption.
    + unfold aborts in Hp. rewrite B in Hp. cbn [negb andb] in Hp.
      assert (G : run_sync TBoolean (pre ++ h :: post) (apply_res TBoolean (sh_res p (hview p st)) st)
                    ((sh_id p, hview p st) :: seen) (sh_res p (hview p st)) =
                  match sh_res p (hview p st) with
                  | RBool false => mkSO (rev ((sh_id p, hview p st) :: seen)) st true (sh_res p (hview p st))
                  | _ => run_sync TBoolean (pre ++ h :: post) (apply_res TBoolean (sh_res p (hview p st)) st)
                           ((sh_id p, hview p st) :: seen) (sh_res p (hview p st))
                  end).
      { destruct (sh_res p (hview p st)) as [|[|]|z|d|d m]; try reflexivity. discriminate Hp. }
      rewrite <- G. clear G.
      destruct (IH h post _ ((sh_id p, hview p st) :: seen) (sh_res p (hview p st)) Ht Hf) as [A [B' [C D]]].
      rewrite A, B', C, D. cbn [rev]. rewrite <- app_assoc. auto.
Qed.

Lemma no_abort_not_boolean t hs st : t <> TBoolean -> no_abort t hs st.
Proof. intros Ht pre x post _. destruct t; try reflexivity. congruence. Qed.

Lemma st_after_fst t : t <> TRelay -> forall hs st, fst (st_after t hs st) = fst st.
Proof.
  intros Ht. induction hs as [|h hs IH]; intros st; cbn; [reflexivity|].
  unfold st_after in IH. rewrite IH. unfold sync_step. destruct (blocked h (snd st)); [reflexivity|].
  destruct t; try congruence; destruct (sh_res h (hview h st)); reflexivity.
Qed.

(* relay: every handler that is not blocked is called, in order, with the kwargs as updated by all earlier handlers
   and overridden by its own registered kwargs; the callback gets the final kwargs.  hview / a dict result are
   dict updates: the last binding wins, all other keys pass through. *)
Lemma relay_fold_l : forall hs st0,
  let o := run_sync TRelay hs st0 [] RNone in
  so_seen o = calls TRelay [] hs st0 /\ so_st o = st_after TRelay hs st0 /\
  (forall h st k, kw_get k (fst (hview h st)) = last_binding k (sh_kw h) (kw_get k (fst st)) /\ snd (hview h st) = snd st) /\
  (forall d st k, kw_get k (fst (apply_res TRelay (RDict d) st)) = last_binding k d (kw_get k (fst st))) /\
  (forall d m st k, kw_get k (fst (apply_res TRelay (RDictMP d m) st)) = last_binding k d (kw_get k (fst st)) /\
                    snd (apply_res TRelay (RDictMP d m) st) = Some m).
Proof.
  intros hs st0 o. subst o.
  destruct (run_sync_no_abort TRelay hs st0 [] RNone (no_abort_not_boolean TRelay hs st0 ltac:(discriminate))) as [A [B _]].
  rewrite A, B. cbn [rev app]. rewrite <- (calls_from_calls TRelay hs [] st0). cbn.
  repeat split; intros; cbn; apply kw_get_update.
Qed.

Lemma boolean_first_false_l : forall hs st0,
  let o := run_sync TBoolean hs st0 [] RNone in
  (forall pre h post, hs = pre ++ h :: post ->
     no_abort TBoolean pre st0 -> aborts TBoolean h (st_after TBoolean pre st0) = true ->
     so_seen o = calls TBoolean [] (pre ++ [h]) st0 /\ so_st o = st_after TBoolean pre st0 /\
     fst (so_st o) = fst st0 /\ callback_evres o = EFalse) /\
  (no_abort TBoolean hs st0 ->
     so_seen o = calls TBoolean [] hs st0 /\ so_st o = st_after TBoolean hs st0 /\
     fst (so_st o) = fst st0 /\ callback_evres o <> EFalse).
Proof.
  intros hs st0 o. split.
  - intros pre h post -> H Hf. subst o.
    destruct (run_sync_abort pre h post st0 [] RNone H Hf) as [A [B [C D]]].
    rewrite A, B. cbn [rev app]. rewrite <- (calls_from_calls TBoolean (pre ++ [h]) [] st0). cbn.
    repeat split. + apply st_after_fst. discriminate. + unfold callback_evres. rewrite D, C. reflexivity.
  - intros H. subst o. destruct (run_sync_no_abort TBoolean hs st0 [] RNone H) as [A [B C]].
    rewrite A, B. cbn [rev app]. rewrite <- (calls_from_calls TBoolean hs [] st0). cbn.
    repeat split. + apply st_after_fst. discriminate.
    + unfold callback_evres. rewrite C. destruct (truthy _); discriminate.
Qed.

(* the handlers called are exactly the unblocked ones, whatever the event type *)
Lemma calls_blocked_skipped t h pre rest st0 :
  blocked h (snd (st_after t pre st0)) = true -> calls t pre (h :: rest) st0 = calls t (pre ++ [h]) rest st0.
Proof. intros B. cbn [calls]. rewrite B. reflexivity. Qed.

(* ---------------------------------------------------------------------------------------------- *)
(* refutation witnesses (evaluated by vm_compute) *)

Definition stuck_post (lost : bool) (s : state) (p : nat) : bool :=
  negb (err s) && quiescent lost s && match outst s with [] => true | _ => false end
  && existsb (obs_eqb (LPostQ p)) (log s) && negb (existsb (obs_eqb (LCallback p)) (log s)).

(* Mode.start as it was (forward = true) with use_wait_queue, started by queue event 1, one no-op handler
   on mode_<m>_starting (event 2); the environment then releases every outstanding wait *)
Definition shared_regs : list (Z * handler) :=
  [(1, mkH 900 100 [] None None (HSync (mode_start_script true true 2))); (2, mkH 1 1 [] None None (HSync []))].
Definition shared_env : list (list action) := [[APostQ 1 false []]; [AClearNth 0]; [AClearNth 0]].

Lemma nested_shared_queue_refuted_l :
  stuck_post false (env_run false default_fuel shared_env (init_state shared_regs)) 0 = true.
Proof. vm_compute. reflexivity. Qed.

(* the same scenario with the fixed Mode.start (forward = false) completes *)
Lemma nested_fixed_completes_l :
  let s := env_run false default_fuel shared_env
             (init_state [(1, mkH 900 100 [] None None (HSync (mode_start_script true false 2))); (2, mkH 1 1 [] None None (HSync []))]) in
  stuck_post false s 0 = false /\ existsb (obs_eqb (LCallback 0)) (log s) = true
  /\ existsb (obs_eqb (LCallback 1)) (log s) = true.
Proof. vm_compute. repeat split. Qed.

(* original _run_handlers_sequential: the only handler of event 2 is removed by a handler of event 1 between
   process_event_queue and the first step of the task of event 2 *)
Definition removed_regs : list (Z * handler) :=
  [(1, mkH 1 1 [] None None (HSync [ARemove 2])); (2, mkH 2 1 [] None None (HSync []))].
Definition removed_env : list (list action) := [[APostQ 1 false []; APostQ 2 false []]].

Lemma removed_handlers_callback_lost_refuted_l :
  stuck_post true (env_run true default_fuel removed_env (init_state removed_regs)) 1 = true.
Proof. vm_compute. reflexivity. Qed.

Lemma removed_handlers_fixed_l :
  stuck_post false (env_run false default_fuel removed_env (init_state removed_regs)) 1 = false
  /\ existsb (obs_eqb (LCallback 1)) (log (env_run false default_fuel removed_env (init_state removed_regs))) = true.
Proof. vm_compute. split; reflexivity. Qed.
