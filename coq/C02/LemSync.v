(* C02/LemSync.v — relay / boolean folding (Part 2 of the model) and the two refutation witnesses. *)
From Common Require Import Prelude.
From C02 Require Import Model.
Open Scope Z_scope.

(* ---------------------------------------------------------------------------------------------- *)
(* relay: independent specification *)

(* kwargs after the dict results of a list of handlers, each applied to what it saw *)
Fixpoint relay_kwargs (hs : list shandler) (kw : kwargs) : kwargs :=
  match hs with
  | [] => kw
  | h :: hs' => relay_kwargs hs' (match sh_res h kw with RDict d => kw_update kw d | _ => kw end)
  end.

(* what handler number i (0-based) must be called with *)
Definition relay_view (hs : list shandler) (kw : kwargs) (i : nat) : kwargs := relay_kwargs (firstn i hs) kw.

Fixpoint relay_views (hs : list shandler) (kw : kwargs) : list (Z * kwargs) :=
  match hs with
  | [] => []
  | h :: hs' => (sh_id h, kw) :: relay_views hs' (match sh_res h kw with RDict d => kw_update kw d | _ => kw end)
  end.

Lemma run_sync_relay_gen : forall hs kw seen last,
  so_seen (run_sync TRelay hs kw seen last) = rev seen ++ relay_views hs kw /\
  so_kwargs (run_sync TRelay hs kw seen last) = relay_kwargs hs kw.
Proof.
  induction hs as [|h hs IH]; intros kw seen last; cbn [run_sync relay_views relay_kwargs].
  - cbn. rewrite app_nil_r. split; reflexivity.
  - destruct (sh_res h kw) as [|b|z|d] eqn:E.
    + destruct (IH kw ((sh_id h, kw) :: seen) RNone) as [A B].
      rewrite A, B. cbn [rev]. rewrite <- app_assoc. split; reflexivity.
    + destruct (IH kw ((sh_id h, kw) :: seen) (RBool b)) as [A B].
      rewrite A, B. cbn [rev]. rewrite <- app_assoc. split; reflexivity.
    + destruct (IH kw ((sh_id h, kw) :: seen) (RInt z)) as [A B].
      rewrite A, B. cbn [rev]. rewrite <- app_assoc. split; reflexivity.
    + destruct (IH (kw_update kw d) ((sh_id h, kw) :: seen) (RDict d)) as [A B].
      rewrite A, B. cbn [rev]. rewrite <- app_assoc. split; reflexivity.
Qed.

Lemma relay_views_nth : forall hs kw i h,
  nth_error hs i = Some h -> nth_error (relay_views hs kw) i = Some (sh_id h, relay_view hs kw i).
Proof.
  induction hs as [|x hs IH]; intros kw i h H.
  - destruct i; discriminate.
  - destruct i as [|i]; cbn in *.
    + inversion H; subst. reflexivity.
    + unfold relay_view in *. cbn [firstn relay_kwargs]. apply IH. exact H.
Qed.

Lemma relay_fold_l : forall hs kw,
  let o := run_sync TRelay hs kw [] RNone in
  (forall i h, nth_error hs i = Some h -> nth_error (so_seen o) i = Some (sh_id h, relay_view hs kw i)) /\
  length (so_seen o) = length hs /\
  so_kwargs o = relay_kwargs hs kw.
Proof.
  intros hs kw o. destruct (run_sync_relay_gen hs kw [] RNone) as [A B]. subst o.
  rewrite A, B. cbn [rev app]. repeat split.
  - intros i h H. apply relay_views_nth. exact H.
  - clear. revert kw. induction hs; intros; cbn; [reflexivity | rewrite IHhs; reflexivity].
Qed.

(* ---------------------------------------------------------------------------------------------- *)
(* boolean *)

Definition is_false (r : result) : bool := match r with RBool false => true | _ => false end.

Lemma run_sync_bool_nofalse : forall hs kw seen last,
  (forall x, In x hs -> is_false (sh_res x kw) = false) ->
  let o := run_sync TBoolean hs kw seen last in
  so_seen o = rev seen ++ map (fun h => (sh_id h, kw)) hs /\ so_kwargs o = kw /\ so_false o = false.
Proof.
  induction hs as [|h hs IH]; intros kw seen last H; cbn [run_sync map].
  - cbn. rewrite app_nil_r. auto.
  - assert (Hh : is_false (sh_res h kw) = false) by (apply H; left; reflexivity).
    assert (Ht : forall x, In x hs -> is_false (sh_res x kw) = false) by (intros; apply H; right; assumption).
    destruct (sh_res h kw) as [|b|z|d] eqn:E; try destruct b; try discriminate Hh;
      destruct (IH kw ((sh_id h, kw) :: seen) (sh_res h kw) Ht) as [A [B C]]; rewrite E in *;
      rewrite A, B, C; cbn [rev]; rewrite <- app_assoc; auto.
Qed.

Lemma run_sync_bool_false : forall pre kw h post seen last,
  (forall x, In x pre -> is_false (sh_res x kw) = false) ->
  is_false (sh_res h kw) = true ->
  let o := run_sync TBoolean (pre ++ h :: post) kw seen last in
  so_seen o = rev seen ++ map (fun h => (sh_id h, kw)) (pre ++ [h]) /\ so_kwargs o = kw /\
  so_false o = true /\ so_last o = RBool false.
Proof.
  induction pre as [|p pre IH]; intros kw h post seen last H Hf; cbn [app run_sync map].
  - destruct (sh_res h kw) as [|b|z|d] eqn:E; try destruct b; try discriminate Hf. cbn. auto.
  - assert (Hh : is_false (sh_res p kw) = false) by (apply H; left; reflexivity).
    assert (Ht : forall x, In x pre -> is_false (sh_res x kw) = false) by (intros; apply H; right; assumption).
    destruct (sh_res p kw) as [|b|z|d] eqn:E; try destruct b; try discriminate Hh;
      destruct (IH kw h post ((sh_id p, kw) :: seen) (sh_res p kw) Ht Hf) as [A [B [C D]]]; rewrite E in *;
      rewrite A, B, C, D; cbn [rev]; rewrite <- app_assoc; auto.
Qed.

Lemma boolean_first_false_l : forall hs kw,
  let o := run_sync TBoolean hs kw [] RNone in
  (forall pre h post, hs = pre ++ h :: post ->
     (forall x, In x pre -> is_false (sh_res x kw) = false) -> is_false (sh_res h kw) = true ->
     so_seen o = map (fun h => (sh_id h, kw)) (pre ++ [h]) /\ so_kwargs o = kw /\ callback_evres o = EFalse) /\
  ((forall x, In x hs -> is_false (sh_res x kw) = false) ->
     so_seen o = map (fun h => (sh_id h, kw)) hs /\ so_kwargs o = kw /\ callback_evres o <> EFalse).
Proof.
  intros hs kw o. split.
  - intros pre h post -> H Hf. subst o.
    destruct (run_sync_bool_false pre kw h post [] RNone H Hf) as [A [B [C D]]].
    rewrite A, B. repeat split. unfold callback_evres. rewrite D, C. reflexivity.
  - intros H. subst o. destruct (run_sync_bool_nofalse hs kw [] RNone H) as [A [B C]].
    rewrite A, B. repeat split. unfold callback_evres. rewrite C.
    destruct (truthy _); discriminate.
Qed.

(* ---------------------------------------------------------------------------------------------- *)
(* refutation witnesses (evaluated by vm_compute) *)

Definition stuck_post (lost : bool) (s : state) (p : nat) : bool :=
  negb (err s) && quiescent lost s && match outst s with [] => true | _ => false end
  && existsb (obs_eqb (LPostQ p)) (log s) && negb (existsb (obs_eqb (LCallback p)) (log s)).

(* Mode.start as it was (forward = true) with use_wait_queue, started by queue event 1, one no-op handler
   on mode_<m>_starting (event 2); the environment then releases every outstanding wait *)
Definition shared_regs : list (Z * handler) :=
  [(1, mkH 900 100 [] None None (HSync (mode_start_script true true 2))); (2, mkH 1 1 [] None None (HSync []))].
Definition shared_env : list (list action) := [[APostQ 1 false []]; [AClearNth 0]; [AClearNth 0]].

Lemma nested_shared_queue_refuted_l :
  stuck_post false (env_run false default_fuel shared_env (init_state shared_regs)) 0 = true.
Proof. vm_compute. reflexivity. Qed.

(* the same scenario with the fixed Mode.start (forward = false) completes *)
Lemma nested_fixed_completes_l :
  let s := env_run false default_fuel shared_env
             (init_state [(1, mkH 900 100 [] None None (HSync (mode_start_script true false 2))); (2, mkH 1 1 [] None None (HSync []))]) in
  stuck_post false s 0 = false /\ existsb (obs_eqb (LCallback 0)) (log s) = true
  /\ existsb (obs_eqb (LCallback 1)) (log s) = true.
Proof. vm_compute. repeat split. Qed.

(* original _run_handlers_sequential: the only handler of event 2 is removed by a handler of event 1 between
   process_event_queue and the first step of the task of event 2 *)
Definition removed_regs : list (Z * handler) :=
  [(1, mkH 1 1 [] None None (HSync [ARemove 2])); (2, mkH 2 1 [] None None (HSync []))].
Definition removed_env : list (list action) := [[APostQ 1 false []; APostQ 2 false []]].

Lemma removed_handlers_callback_lost_refuted_l :
  stuck_post true (env_run true default_fuel removed_env (init_state removed_regs)) 1 = true.
Proof. vm_compute. reflexivity. Qed.

Lemma removed_handlers_fixed_l :
  stuck_post false (env_run false default_fuel removed_env (init_state removed_regs)) 1 = false
  /\ existsb (obs_eqb (LCallback 1)) (log (env_run false default_fuel removed_env (init_state removed_regs))) = true.
Proof. vm_compute. split; reflexivity. Qed.
