(* C02/Life.v — the whole life of the wait a `use_wait_queue` mode holds on the queue event that started it,
   for chains of modes, composed with the event-manager machine of Model.v (definitions only).

   mode.py:  Mode.start   : post mode_<m>_will_start; [queue.wait() if use_wait_queue and a queue was handed in];
                            post_queue(mode_<m>_starting, callback=_started)          (a handler script of the machine)
             Mode._started: active; post(mode_<m>_started, callback=..)               (callback of the starting event)
             Mode.stop    : (only when active and not yet stopping) post_queue(mode_<m>_stopping, callback=_stopped)
             Mode._stopped: not active; post(mode_<m>_stopped, callback=..); _mode_start_wait_queue.clear()
                                                                                      (callback of the stopping event)
   The event-manager machine only LOGS callbacks.  A callback is the last thing a machine step does (end of
   _run_handlers_sequential, or the pop of callback_queue in process_event_queue), so the composition below runs the
   machine one step at a time and executes what Mode._started / Mode._stopped do directly after the step that logged
   the callback of that mode's starting / stopping post, as a script in the environment position (own queue: none).
   Mode.start of mode m is the handler with id 900 + 10*m + j (j-th start event of m) of its start event, which may be a
   lifecycle event of another mode: plain (will_start 1, started 3, stopped 6) or queue (starting 2, stopping 5).
   Which start requests start the mode (idle) and which are ignored (starting / active / stopping) is decided by the
   implementation, checked by the oracle, and given to the model as that handler's script (life_start_script or []).
   Whether a stop request stops the mode is decided by the model (phase = active).
   Handler scripts are static data, the decision of Mode.start is not: the input is UNROLLED per instance - the g-th post
   of an outer event e is event e + 100*g, the lifecycle events of the g-th life of mode m are ev_of m k g, every handler
   is registered for every instance of its event, and the script of a Mode.start handler for instance g is what the
   implementation did at that invocation.  (No handler is added or removed in these runs, so instances of one event
   differ in nothing but the recorded decisions.) *)
From Common Require Import Prelude.
From C02 Require Import Model.
Open Scope Z_scope.

Inductive lphase := LIdle | LStarting | LActive | LStopping.
(* le_wq: the queue object the mode waits on (_mode_start_wait_queue); le_psn: post number of its current starting /
   stopping queue event *)
Record lent := mkLE { le_phase : lphase; le_wq : option nat; le_psn : nat; le_gen : nat (* lives so far *) }.
Definition ltable := list lent.          (* index = mode number *)

Definition ev_of (m : nat) (k : Z) (g : nat) : Z := 100 * Z.of_nat g + 10 * (Z.of_nat m + 1) + k.

Definition life_start_script (use_wait_queue : bool) (m g : nat) : list action :=
  [APostP (ev_of m 1 g)] ++ (if use_wait_queue then [AWait] else []) ++ [APostQ (ev_of m 2 g) false []].

Definition start_mode (h : Z) : option nat :=
  if (900 <=? h) && (h <? 1000) then Some (Z.to_nat ((h - 900) / 10)) else None.

Definition le0 := mkLE LIdle None 0 0.
Definition get_ent (m : nat) (t : ltable) : lent := nth m t le0.

Definition phase_eqb (a b : lphase) : bool :=
  match a, b with
  | LIdle, LIdle | LStarting, LStarting | LActive, LActive | LStopping, LStopping => true
  | _, _ => false
  end.

(* the mode whose current starting / stopping post has number psn *)
Fixpoint find_cb (psn : nat) (i : nat) (t : ltable) : option (nat * lent) :=
  match t with
  | [] => None
  | e :: t' =>
      if (phase_eqb (le_phase e) LStarting || phase_eqb (le_phase e) LStopping) && Nat.eqb (le_psn e) psn
      then Some (i, e) else find_cb psn (S i) t'
  end.

(* reading one log entry: sc_cur = the Mode.start invocation whose script is executing (mode, queue it was given) *)
Record scan_st := mkSC { sc_t : ltable; sc_cur : option (nat * option nat); sc_eff : list action }.

Definition scan1 (c : scan_st) (o : obs) : scan_st :=
  match o with
  | LInvoke _ h q =>
      mkSC (sc_t c) (match start_mode h with Some m => Some (m, Some q) | None => None end) (sc_eff c)
  | LPlain _ h =>
      mkSC (sc_t c) (match start_mode h with Some m => Some (m, None) | None => None end) (sc_eff c)
  | LWait q =>
      match sc_cur c with
      | Some (m, Some q') =>
          if Nat.eqb q q' then
            let e := get_ent m (sc_t c) in
            mkSC (set_nth m (mkLE (le_phase e) (Some q) (le_psn e) (le_gen e)) (sc_t c)) (sc_cur c) (sc_eff c)
          else c
      | _ => c
      end
  | LPostQ psn =>
      match sc_cur c with
      | Some (m, _) =>
          let e := get_ent m (sc_t c) in
          mkSC (set_nth m (mkLE LStarting (le_wq e) psn (S (le_gen e))) (sc_t c)) None (sc_eff c)
      | None => c
      end
  | LCallback psn =>
      match find_cb psn 0 (sc_t c) with
      | Some (m, e) =>
          match le_phase e with
          | LStarting =>                                         (* Mode._started *)
              mkSC (set_nth m (mkLE LActive (le_wq e) psn (le_gen e)) (sc_t c)) None
                   (sc_eff c ++ [APostP (ev_of m 3 (pred (le_gen e)))])
          | LStopping =>                                         (* Mode._stopped *)
              mkSC (set_nth m (mkLE LIdle None psn (le_gen e)) (sc_t c)) None
                   (sc_eff c ++ [APostP (ev_of m 6 (pred (le_gen e)))] ++ match le_wq e with Some q => [AClearQ q] | None => [] end)
          | _ => c
          end
      | None => c
      end
  | _ => c
  end.

Definition new_entries (old new : list obs) : list obs :=
  rev (firstn (length new - length old) new).

(* after a machine step / an environment script: update the mode table from the new log entries and run the
   callbacks' effects *)
Definition absorb (s0 s1 : state) (t : ltable) : state * ltable :=
  let c := fold_left scan1 (new_entries (log s0) (log s1)) (mkSC t None []) in
  (exec_actions None (sc_eff c) s1, sc_t c).

Fixpoint life_fuel (n : nat) (s : state) (t : ltable) : state * ltable :=
  match n with
  | O => (s, t)
  | S n' =>
      match step false s with
      | None => (s, t)
      | Some s' => let st := absorb s s' t in life_fuel n' (fst st) (snd st)
      end
  end.

Inductive lop :=
| LEnv (acts : list action)        (* posts of the outer events *)
| LStop (m : nat)                  (* mode.stop() *)
| LRelN (k : nat)                  (* release the k-th outstanding item - unless it is a mode's wait *)
| LCancelN (k : nat).

Definition is_mode_wait (q : nat) (t : ltable) : bool :=
  existsb (fun e => match le_wq e with Some q' => Nat.eqb q q' | None => false end) t.

Definition life_env (s : state) (t : ltable) (o : lop) : state * ltable :=
  match o with
  | LEnv acts => absorb s (exec_actions None acts s) t
  | LStop m =>
      let e := get_ent m t in
      match le_phase e with
      | LActive => (exec_actions None [APostQ (ev_of m 5 (pred (le_gen e))) false []] s,
                    set_nth m (mkLE LStopping (le_wq e) (npsn s) (le_gen e)) t)
      | _ => (s, t)
      end
  | LRelN k =>
      match nth_error (outst s) k with
      | Some (OWait q) => if is_mode_wait q t then (s, t) else (exec_actions None [AClearNth k] s, t)
      | Some (OFut _) => (exec_actions None [AClearNth k] s, t)
      | None => (s, t)
      end
  | LCancelN k => (exec_actions None [ACancelNth k] s, t)
  end.

Definition life_op (fuel : nat) (st : state * ltable) (o : lop) : state * ltable :=
  if err (fst st) then st
  else let st1 := life_env (fst st) (snd st) o in life_fuel fuel (fst st1) (snd st1).

Definition life_init (regs : list (Z * handler)) (n : nat) : state * ltable :=
  (init_state regs, repeat le0 n).

Definition lphase_code (p : lphase) : Z :=
  match p with LIdle => 0 | LStarting => 1 | LActive => 2 | LStopping => 3 end.

Definition life_obs (st : state * ltable) : outcome * list (Z * option nat) :=
  (observe false (fst st), map (fun e => (lphase_code (le_phase e), le_wq e)) (snd st)).

Definition life_run (inp : list (Z * handler) * nat * list lop) : outcome * list (Z * option nat) :=
  life_obs (fold_left (life_op default_fuel) (snd inp) (life_init (fst (fst inp)) (snd (fst inp)))).

Definition onat_eqb (a b : option nat) : bool :=
  match a, b with Some x, Some y => Nat.eqb x y | None, None => true | _, _ => false end.

Definition life_out_eqb (a b : outcome * list (Z * option nat)) : bool :=
  outcome_eqb (fst a) (fst b) &&
  list_eqb (fun x y => (fst x =? fst y) && onat_eqb (snd x) (snd y)) (snd a) (snd b).

(* Mode.stop as changed by a reordering that releases the wait when the stop is REQUESTED (the clear moved from
   _stopped into stop): used for the refutation witness only *)
Definition life_env_early (s : state) (t : ltable) (o : lop) : state * ltable :=
  match o with
  | LStop m =>
      let e := get_ent m t in
      match le_phase e with
      | LActive => (exec_actions None (match le_wq e with Some q => [AClearQ q] | None => [] end
                                       ++ [APostQ (ev_of m 5 (pred (le_gen e))) false []]) s,
                    set_nth m (mkLE LStopping None (npsn s) (le_gen e)) t)
      | _ => (s, t)
      end
  | _ => life_env s t o
  end.

Definition life_op_early (fuel : nat) (st : state * ltable) (o : lop) : state * ltable :=
  if err (fst st) then st
  else let st1 := life_env_early (fst st) (snd st) o in life_fuel fuel (fst st1) (snd st1).
