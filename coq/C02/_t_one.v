From Common Require Import Prelude.
From C02 Require Import Model.
Definition run := queue_run.
Definition out_eqb := outcome_eqb.

Definition c := (([(1, mkH 900 100 (HSync (mode_start_script true false 2)));(1, mkH 2 101 (HSync []));(1, mkH 1 50 (HAsync false));(2, mkH 3 5 (HSync [(AClearNth 0%nat)]))], [[(APostQ 1 false)];[];[];[];[];[];[];[];[];[];[];[]]), (mkO [(LInvoke 0%nat 2 0%nat);(LInvoke 0%nat 900 1%nat);(LWait 1%nat);(LInvoke 1%nat 3 2%nat);(LCallback 1%nat);(LClear 1%nat);(LInvoke 0%nat 1 3%nat);(LWait 3%nat);(LClear 3%nat);(LCallback 0%nat)] 0%nat [] false true)).
Eval vm_compute in (run (fst c)).
Eval vm_compute in (snd c).
