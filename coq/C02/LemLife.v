(* C02/LemLife.v — lemmas about the mode-life composition (Life.v). *)
From Common Require Import Prelude.
From C02 Require Import Model Life LemQueue.
Open Scope Z_scope.

(* ---------------------------------------------------------------------------------------------- *)
(* the effects of callbacks are fresh scripts: the composition stays inside [reachable] *)
Lemma forallb_app_true {A} (f : A -> bool) a b :
  forallb f a = true -> forallb f b = true -> forallb f (a ++ b) = true.
Proof. intros Ha Hb. rewrite forallb_app, Ha, Hb. reflexivity. Qed.

Lemma scan1_fresh c o :
  forallb fresh_action (sc_eff c) = true -> forallb fresh_action (sc_eff (scan1 c o)) = true.
Proof.
  intros H. destruct o; cbn; auto.
  - destruct (find_cb psn 0 (sc_t c)) as [[m e]|]; auto.
    destruct (le_phase e); cbn; auto.
    + apply forallb_app_true; auto.
    + apply forallb_app_true; auto. destruct (le_wq e); reflexivity.
  - destruct (sc_cur c) as [[m oq]|]; auto.
  - destruct (sc_cur c) as [[m [q'|]]|]; auto. destruct (Nat.eqb q q'); auto.
Qed.

Lemma scan_fresh es : forall c,
  forallb fresh_action (sc_eff c) = true -> forallb fresh_action (sc_eff (fold_left scan1 es c)) = true.
Proof. induction es as [|o es IH]; intros c H; cbn; auto. apply IH. apply scan1_fresh. exact H. Qed.

Lemma absorb_reachable s0 s1 t : reachable false s1 -> reachable false (fst (absorb s0 s1 t)).
Proof. intros R. unfold absorb. cbn [fst]. apply r_env; auto. apply scan_fresh. reflexivity. Qed.

Lemma life_fuel_reachable n : forall s t, reachable false s -> reachable false (fst (life_fuel n s t)).
Proof.
  induction n; intros s t R; cbn; auto.
  destruct (step false s) as [s'|] eqn:E; auto.
  apply IHn. apply absorb_reachable. eapply r_step; eauto.
Qed.

Definition lop_fresh (o : lop) : bool := match o with LEnv acts => forallb fresh_action acts | _ => true end.

Lemma life_env_reachable s t o :
  reachable false s -> lop_fresh o = true -> reachable false (fst (life_env s t o)).
Proof.
  intros R F. destruct o; cbn.
  - apply absorb_reachable. apply r_env; auto.
  - destruct (le_phase (get_ent m t)); cbn; auto. apply (r_env false s [APostQ (ev_of m 5 (pred (le_gen (get_ent m t)))) false []]); auto.
  - destruct (nth_error (outst s) k) as [[q|q]|]; cbn; auto.
    + destruct (is_mode_wait q t); cbn; auto. apply (r_env false s [AClearNth k]); auto.
    + apply (r_env false s [AClearNth k]); auto.
  - apply (r_env false s [ACancelNth k]); auto.
Qed.

Lemma life_op_reachable fuel st o :
  reachable false (fst st) -> lop_fresh o = true -> reachable false (fst (life_op fuel st o)).
Proof.
  intros R F. unfold life_op. destruct (err (fst st)); auto.
  apply life_fuel_reachable. apply life_env_reachable; auto.
Qed.

Lemma life_driver_reachable_l regs n ops :
  forallb (fun eh => fresh_h (snd eh)) regs = true -> forallb lop_fresh ops = true ->
  reachable false (fst (fold_left (life_op default_fuel) ops (life_init regs n))).
Proof.
  intros Hr Ho.
  assert (G : forall ops st, reachable false (fst st) -> forallb lop_fresh ops = true ->
                             reachable false (fst (fold_left (life_op default_fuel) ops st))).
  { clear. induction ops as [|o ops IH]; intros st R F; cbn; auto.
    cbn in F. apply andb_true_iff in F as [F1 F2]. apply IH; auto. apply life_op_reachable; auto. }
  apply G; auto. cbn. apply r_init. exact Hr.
Qed.

Lemma life_start_fresh_l uwq m g : forallb fresh_action (life_start_script uwq m g) = true.
Proof. destruct uwq; reflexivity. Qed.

(* ---------------------------------------------------------------------------------------------- *)
(* the table: a mode's wait is released by exactly one thing - the callback of its stopping post *)
Lemma find_cb_spec psn : forall t i m e,
  find_cb psn i t = Some (m, e) ->
  (i <= m)%nat /\ nth_error t (m - i) = Some e /\ (le_phase e = LStarting \/ le_phase e = LStopping) /\ le_psn e = psn.
Proof.
  induction t as [|x t IH]; intros i m e H; cbn in H; [discriminate|].
  destruct ((phase_eqb (le_phase x) LStarting || phase_eqb (le_phase x) LStopping) && Nat.eqb (le_psn x) psn) eqn:C.
  - inversion H; subst. rewrite Nat.sub_diag. cbn. apply andb_true_iff in C as [C1 C2].
    apply Nat.eqb_eq in C2. repeat split; auto.
    apply orb_true_iff in C1 as [C1|C1]; destruct (le_phase e); try discriminate; auto.
  - apply IH in H as [L [N R]]. split; [lia|]. split; auto.
    replace (m - i)%nat with (S (m - S i)) by lia. exact N.
Qed.

Lemma nth_set_nth_same {A} (x : A) : forall l n, (n < length l)%nat -> nth_error (set_nth n x l) n = Some x.
Proof. induction l; intros [|n] H; cbn in *; try lia; auto. apply IHl. lia. Qed.

Lemma life_release_only_when_stopped_l c o q :
  In (AClearQ q) (sc_eff (scan1 c o)) ->
  In (AClearQ q) (sc_eff c) \/
  exists psn m e, o = LCallback psn /\ nth_error (sc_t c) m = Some e /\ le_phase e = LStopping /\ le_psn e = psn /\
                  le_wq e = Some q /\
                  nth_error (sc_t (scan1 c o)) m = Some (mkLE LIdle None psn (le_gen e)).
Proof.
  destruct o; cbn; auto.
  - destruct (find_cb psn 0 (sc_t c)) as [[m e]|] eqn:F; auto.
    apply find_cb_spec in F as [_ [N [_ P]]]. rewrite Nat.sub_0_r in N.
    destruct (le_phase e) eqn:Ph; cbn; auto.
    + intros H. apply in_app_or in H as [H|[H|[]]]; auto. discriminate.
    + intros H. apply in_app_or in H as [H|H]; auto. right.
      destruct H as [H|H]; [discriminate|].
      destruct (le_wq e) as [q'|] eqn:W; [|destruct H].
      destruct H as [H|[]]. inversion H; subst q'.
      exists psn, m, e. repeat split; auto.
      apply nth_set_nth_same. apply nth_error_Some. congruence.
  - destruct (sc_cur c) as [[m oq]|]; auto.
  - destruct (sc_cur c) as [[m [q'|]]|]; auto. destruct (Nat.eqb q0 q'); auto.
Qed.

(* the environment cannot release a mode's wait; a stop request is honoured only for an active mode and releases
   nothing by itself *)
Lemma life_env_guard_l s t k q :
  nth_error (outst s) k = Some (OWait q) -> is_mode_wait q t = true -> life_env s t (LRelN k) = (s, t).
Proof. intros H W. cbn. rewrite H, W. reflexivity. Qed.

Lemma life_stop_spec_l s t m :
  life_env s t (LStop m) =
    match le_phase (get_ent m t) with
    | LActive => (post (ev_of m 5 (pred (le_gen (get_ent m t)))) true None [] s,
                  set_nth m (mkLE LStopping (le_wq (get_ent m t)) (npsn s) (le_gen (get_ent m t))) t)
    | _ => (s, t)
    end.
Proof. cbn. destruct (le_phase (get_ent m t)); reflexivity. Qed.

(* ---------------------------------------------------------------------------------------------- *)
(* example / witnesses: outer queue event 1 with handlers Mode.start(m0, use_wait_queue) at priority 100 and a later
   handler 7 at priority 50; one waiting handler (8) on mode_m0_stopping (event 15) *)
Definition ex_life_regs : list (Z * handler) :=
  [(1, mkH 900 100 [] None None (HSync (life_start_script true 0 0)));
   (1, mkH 7 50 [] None None (HSync []));
   (13, mkH 9 1 [] None None (HSync []));
   (16, mkH 10 1 [] None None (HSync []));
   (15, mkH 8 1 [] None None (HSync [AWait]))].

Definition ex_life_ops : list lop := [LEnv [APostQ 1 false []]; LStop 0].

Lemma ex_life_fresh : forallb (fun eh => fresh_h (snd eh)) ex_life_regs = true /\ forallb lop_fresh ex_life_ops = true.
Proof. split; reflexivity. Qed.

Definition inv7 (o : obs) : bool := match o with LInvoke p h _ => Nat.eqb p 0 && (h =? 7) | _ => false end.

Definition ex_life_st := fold_left (life_op default_fuel) ex_life_ops (life_init ex_life_regs 1).
Definition ex_life_st_early := fold_left (life_op_early default_fuel) ex_life_ops (life_init ex_life_regs 1).

(* faithful composition: the stop is requested, handler 8 holds mode_m0_stopping: the mode is still stopping, still
   holds queue 0, handler 7 of the outer event has not run and the outer event has not completed; after the release
   of handler 8's wait the mode is idle, its wait released, handler 7 has run and the outer event completed *)
Lemma ex_life :
  map (fun e => (lphase_code (le_phase e), le_wq e)) (snd ex_life_st) = [(3, Some 0%nat)] /\
  existsb inv7 (log (fst ex_life_st)) = false /\
  existsb (obs_eqb (LCallback 0)) (log (fst ex_life_st)) = false /\
  (let st := life_op default_fuel ex_life_st (LRelN 1) in
   map (fun e => (lphase_code (le_phase e), le_wq e)) (snd st) = [(0, None)] /\
   existsb inv7 (log (fst st)) = true /\
   existsb (obs_eqb (LCallback 0)) (log (fst st)) = true /\ outst (fst st) = [] /\ err (fst st) = false).
Proof. vm_compute. repeat split; reflexivity. Qed.

(* the wait released when the stop is REQUESTED: handler 7 runs and the outer queue event completes while the mode is
   still stopping (its stopping queue event is held by handler 8) *)
Lemma life_early_release_refuted_l :
  exists regs ops,
    forallb (fun eh => fresh_h (snd eh)) regs = true /\ forallb lop_fresh ops = true /\
    let st := fold_left (life_op_early default_fuel) ops (life_init regs 1) in
    err (fst st) = false /\ map (fun e => lphase_code (le_phase e)) (snd st) = [3] /\
    existsb inv7 (log (fst st)) = true /\ existsb (obs_eqb (LCallback 0)) (log (fst st)) = true.
Proof. exists ex_life_regs, ex_life_ops. vm_compute. repeat split; reflexivity. Qed.
