(* C02/LemRelock.v — lemmas about the dispatcher / re-lock model (Relock.v). *)
From Common Require Import Prelude.
From C02 Require Import Relock.
Open Scope Z_scope.

Lemma set_b_length n x : forall l, length (set_b n x l) = length l.
Proof. intros l. revert n. induction l; destruct n; cbn; auto. Qed.

Lemma nth_set_b_neq n m x : forall l, n <> m -> nth m (set_b n x l) false = nth m l false.
Proof.
  intros l. revert n m. induction l as [|y l IH]; intros n m N; destruct n, m; cbn; auto; try congruence.
Qed.

Lemma nth_set_b_eq n x : forall l, (n < length l)%nat -> nth n (set_b n x l) false = x.
Proof. intros l. revert n. induction l as [|y l IH]; intros [|n] H; cbn in *; try lia; auto. apply IH. lia. Qed.

Lemma nth_app_last (l : list bool) x : nth (length l) (l ++ [x]) false = x.
Proof. rewrite app_nth2 by lia. rewrite Nat.sub_diag. reflexivity. Qed.

Fixpoint count_cb (l : list kobs) : nat :=
  match l with [] => 0 | KoCb :: l' => S (count_cb l') | _ :: l' => count_cb l' end.

(* the invariant of both versions *)
Record KInvariant (st : kstate) : Prop := mkKIv {
  ri_len : length (k_waiter st) = k_next st;
  ri_run : k_disp st = KRun -> k_next st = 0%nat;
  ri_await : k_disp st = KAwait -> cur_locked st = true;
  ri_cb : count_cb (k_log st) = match k_disp st with KFinished => 1%nat | _ => 0%nat end }.

Ltac ksimp := cbn [k_disp k_waiter k_next k_log k_bad k_err count_cb app].

Lemma k_advance_inv : forall rem st,
  length (k_waiter st) = k_next st -> k_disp st <> KFinished -> count_cb (k_log st) = 0%nat ->
  KInvariant (k_advance rem st) /\ (k_disp (k_advance rem st) = KAwait \/ k_disp (k_advance rem st) = KFinished).
Proof.
  induction rem as [|w rem IH]; intros st L D C; cbn [k_advance].
  - split; [|auto]. constructor; ksimp; auto; try discriminate; try (rewrite C; reflexivity).
  - destruct w.
    + split; [|auto]. constructor; ksimp; try discriminate.
      * rewrite app_length. cbn. lia.
      * intros _. unfold cur_locked. ksimp. cbn [pred]. rewrite <- L. apply nth_app_last.
      * exact C.
    + apply IH; ksimp; try discriminate; auto. rewrite app_length. cbn. lia.
Qed.

Lemma k_loop_inv rc hs st :
  KInvariant st ->
  KInvariant (k_loop rc hs st) /\ (k_disp (k_loop rc hs st) = KAwait \/ k_disp (k_loop rc hs st) = KFinished).
Proof.
  intros [L R A C]. unfold k_loop. destruct (k_disp st) eqn:D.
  - apply k_advance_inv; auto; congruence.
  - split; [constructor; auto; rewrite D; auto | auto].
  - destruct (rc && cur_locked st) eqn:E.
    + apply andb_true_iff in E as [_ E]. split; [|auto]. constructor; ksimp; auto; discriminate.
    + apply k_advance_inv; auto; congruence.
  - split; [constructor; auto; rewrite D; auto | auto].
Qed.

Lemma k_op_inv rc hs st o : KInvariant st -> KInvariant (k_op rc hs st o).
Proof.
  intros I. unfold k_op. destruct (k_err st); auto. destruct o as [i|i|].
  - destruct (i <? k_next st)%nat eqn:B; auto. apply Nat.ltb_lt in B.
    destruct I as [L R A C]. destruct (nth i (k_waiter st) false) eqn:W.
    + constructor; ksimp; auto.
    + constructor; ksimp.
      * rewrite set_b_length. auto.
      * auto.
      * intros D. specialize (A D). unfold cur_locked in *. ksimp.
        destruct (Nat.eq_dec i (pred (k_next st))) as [->|N].
        -- apply nth_set_b_eq. lia.
        -- rewrite nth_set_b_neq; auto.
      * auto.
  - destruct (i <? k_next st)%nat eqn:B; auto. apply Nat.ltb_lt in B.
    destruct I as [L R A C]. destruct (nth i (k_waiter st) false) eqn:W.
    + constructor; ksimp.
      * rewrite set_b_length. auto.
      * destruct (k_disp st); auto; try discriminate. destruct (Nat.eqb (S i) (k_next st)); discriminate.
      * destruct (k_disp st) eqn:D; try discriminate.
        destruct (Nat.eqb (S i) (k_next st)) eqn:E; [discriminate|]. intros _.
        apply Nat.eqb_neq in E. specialize (A eq_refl). unfold cur_locked in *. ksimp.
        rewrite nth_set_b_neq; auto. lia.
      * destruct (k_disp st); auto. destruct (Nat.eqb (S i) (k_next st)); auto.
    + constructor; ksimp; auto.
  - apply k_loop_inv. exact I.
Qed.

Lemma k_init_inv : KInvariant k_init.
Proof. constructor; cbn; auto; discriminate. Qed.

Lemma k_fold_inv rc hs ops : forall st, KInvariant st -> KInvariant (fold_left (k_op rc hs) ops st).
Proof. induction ops as [|o ops IH]; intros st I; cbn; auto. apply IH. apply k_op_inv. exact I. Qed.

(* no lost wake-up, callback exactly once: when the loop is idle the dispatcher has finished (callback logged exactly
   once) or sleeps on a queue that is locked (callback not yet logged) - in BOTH versions *)
Lemma relock_idle_l rc hs ops :
  let st := relock_states rc hs ops in
  k_err st = false ->
  (k_disp st = KFinished /\ count_cb (k_log st) = 1%nat) \/
  (k_disp st = KAwait /\ cur_locked st = true /\ count_cb (k_log st) = 0%nat).
Proof.
  cbn zeta. unfold relock_states. rewrite fold_left_app. cbn [fold_left].
  set (st0 := fold_left (k_op rc hs) ops (k_loop rc hs k_init)).
  assert (I0 : KInvariant st0) by (apply k_fold_inv, k_loop_inv, k_init_inv).
  destruct (k_err st0) eqn:E.
  { unfold k_op. rewrite E. intros H. congruence. }
  assert (Eq : k_op rc hs st0 KLoop = k_loop rc hs st0) by (unfold k_op; rewrite E; reflexivity).
  rewrite Eq. intros _.
  destruct (k_loop_inv rc hs st0 I0) as [[L R A C] [D|D]].
  - right. rewrite D in C. auto.
  - left. rewrite D in C. auto.
Qed.

(* the fixed dispatcher never goes on while its current queue is locked *)
Record KInv (st : kstate) : Prop := mkKI {
  ki_len : length (k_waiter st) = k_next st;
  ki_run : k_disp st = KRun -> k_next st = 0%nat;
  ki_bad : k_bad st = false }.

Lemma advance_bad : forall rem st,
  length (k_waiter st) = k_next st -> k_bad st = false -> cur_locked st = false ->
  KInv (k_advance rem st) /\ k_disp (k_advance rem st) <> KRun.
Proof.
  induction rem as [|w rem IH]; intros st L B Cu; cbn [k_advance].
  - split; [constructor|]; ksimp; auto; try discriminate. rewrite B, Cu. reflexivity.
  - destruct w.
    + split; [constructor|]; ksimp; try discriminate.
      * rewrite app_length. cbn. lia.
      * rewrite B, Cu. reflexivity.
    + apply IH; ksimp.
      * rewrite app_length. cbn. lia.
      * rewrite B, Cu. reflexivity.
      * unfold cur_locked. ksimp. cbn [pred]. rewrite <- L. apply nth_app_last.
Qed.

Lemma cur_locked_zero st : length (k_waiter st) = k_next st -> k_next st = 0%nat -> cur_locked st = false.
Proof. intros L N. unfold cur_locked. rewrite N in *. destruct (k_waiter st); [reflexivity|discriminate]. Qed.

Lemma loop_bad hs st : KInv st -> KInv (k_loop true hs st).
Proof.
  intros [L R B]. unfold k_loop. destruct (k_disp st) eqn:D.
  - apply advance_bad; auto. apply cur_locked_zero; auto.
  - constructor; auto. rewrite D. discriminate.
  - cbn [andb]. destruct (cur_locked st) eqn:E.
    + constructor; ksimp; auto. discriminate.
    + apply advance_bad; auto.
  - constructor; auto. rewrite D. discriminate.
Qed.

Lemma op_bad hs st o : KInv st -> KInv (k_op true hs st o).
Proof.
  intros I. unfold k_op. destruct (k_err st); auto. destruct o as [i|i|].
  - destruct (i <? k_next st)%nat; auto. destruct I as [L R B].
    destruct (nth i (k_waiter st) false); constructor; ksimp; auto. rewrite set_b_length. auto.
  - destruct (i <? k_next st)%nat; auto. destruct I as [L R B].
    destruct (nth i (k_waiter st) false); constructor; ksimp; auto.
    + rewrite set_b_length. auto.
    + destruct (k_disp st); auto; try discriminate. destruct (Nat.eqb (S i) (k_next st)); discriminate.
  - apply loop_bad. exact I.
Qed.

Lemma relock_no_overrun_l hs ops : k_bad (relock_states true hs ops) = false.
Proof.
  unfold relock_states.
  assert (G : forall ops st, KInv st -> KInv (fold_left (k_op true hs) ops st)).
  { clear. induction ops as [|o ops IH]; intros st I; cbn; auto. apply IH. apply op_bad. exact I. }
  apply G. apply loop_bad. constructor; cbn; auto.
Qed.

(* the code as it was: clear, lock again before the task wakes up -> the second handler and the callback run while
   queue 0 is locked; the second clear finds nobody waiting *)
Definition ex_relock_hs := [true; false].
Definition ex_relock_ops := [KClear 0%nat; KWait 0%nat; KLoop].

Lemma relock_lost_wait_refuted_l :
  exists hs ops,
    let st := relock_states false hs ops in
    k_err st = false /\ k_bad st = true /\ k_disp st = KFinished /\ nth 0 (k_waiter st) false = true /\
    rev (k_log st) = [KoInv 0; KoWait 0; KoClear 0; KoWait 0; KoInv 1; KoCb].
Proof. exists ex_relock_hs, ex_relock_ops. vm_compute. repeat split; reflexivity. Qed.

Lemma ex_relock_fixed :
  let st := relock_states true ex_relock_hs ex_relock_ops in
  k_err st = false /\ k_bad st = false /\ k_disp st = KAwait /\ cur_locked st = true /\
  rev (k_log st) = [KoInv 0; KoWait 0; KoClear 0; KoWait 0] /\
  (let st2 := relock_states true ex_relock_hs (ex_relock_ops ++ [KClear 0%nat]) in
   k_disp st2 = KFinished /\ k_bad st2 = false /\ count_cb (k_log st2) = 1%nat).
Proof. vm_compute. repeat split; reflexivity. Qed.
