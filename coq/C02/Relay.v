(* C02/Relay.v — Part 3 of the model (definitions only): the config players that are CLIENTS of queue events.

   mpf/config_players/queue_relay_player.py
     play(settings, context, queue):  key = add_handler(wait_for, _callback, prio, context=context, queue=queue);
                                      instance_dict[context][queue] = key; queue.wait(); post(settings['post'])
     _callback(queue, context):       key = instance_dict[context][queue]  (AssertionError when missing);
                                      remove_handler_by_key(key); del instance_dict[context][queue]; queue.clear()
     clear_context(context):          for queue, key in instance_dict[context].items():
                                          remove_handler_by_key(key); queue.clear()
                                      instance_dict[context] = {}
   The player keeps TWO tables: the event manager's registry of its `_callback` handlers (rs_h, registration order)
   and its instance dicts (rs_d, insertion order; the dict of one context is the sub-list of that context).

   mpf/config_players/queue_event_player.py
     play(settings): post_queue(settings['queue_event'], callback -> post(events_when_finished), **args)
   is a plain-event handler whose script is [APostQ queue_event false args] (qep_handler).

   relay_run composes the relay player with the event-manager machine of Model.v: `play` is the queue-event handler
   [AWait] (relay_handler); the registration of its wake-up is read off the machine's log after every batch
   (no wait_for event and no mode stop happens inside a batch: one environment operation per batch); a wait_for
   event / a mode stop releases exactly the queues r_post / r_clear return. *)
From Common Require Import Prelude.
From C02 Require Import Model.
Open Scope Z_scope.

Record whandler := mkWH { wh_key : nat; wh_ev : Z; wh_prio : Z; wh_ctx : Z; wh_q : nat }.
Record dentry := mkDE { de_ctx : Z; de_q : nat; de_key : nat }.
Record rstate := mkRS { rs_h : list whandler; rs_d : list dentry; rs_next : nat; rs_err : bool }.

Definition rs_init : rstate := mkRS [] [] 0%nat false.

Definition de_match (c : Z) (q : nat) (e : dentry) : bool := (de_ctx e =? c) && Nat.eqb (de_q e) q.

(* QueueRelayPlayer.play; queue.wait() on a queue that is already locked raises "Double lock" *)
Definition r_play (c w prio : Z) (q : nat) (rs : rstate) : rstate :=
  if existsb (fun e => Nat.eqb (de_q e) q) (rs_d rs) then mkRS (rs_h rs) (rs_d rs) (rs_next rs) true
  else mkRS (rs_h rs ++ [mkWH (rs_next rs) w prio c q]) (rs_d rs ++ [mkDE c q (rs_next rs)]) (S (rs_next rs)) (rs_err rs).

(* QueueRelayPlayer._callback(queue=q, context=c): returns the queue it cleared *)
Definition r_callback (rs : rstate) (h : whandler) : rstate * list nat :=
  match find (de_match (wh_ctx h) (wh_q h)) (rs_d rs) with
  | None => (mkRS (rs_h rs) (rs_d rs) (rs_next rs) true, [])           (* "Queue missing in instance dict" *)
  | Some e =>
      (mkRS (filter (fun x => negb (Nat.eqb (wh_key x) (de_key e))) (rs_h rs))
            (filter (fun x => negb (de_match (wh_ctx h) (wh_q h) x)) (rs_d rs)) (rs_next rs) (rs_err rs),
       [wh_q h])
  end.

(* priority order of the registry (descending, registration order among equals) *)
Fixpoint w_ins (x : whandler) (l : list whandler) : list whandler :=
  match l with
  | [] => [x]
  | y :: l' => if wh_prio x <=? wh_prio y then y :: w_ins x l' else x :: l
  end.
Definition w_sort (l : list whandler) : list whandler := fold_left (fun acc x => w_ins x acc) l [].

Definition r_fold (f : rstate -> whandler -> rstate * list nat) (hs : list whandler) (rs : rstate) : rstate * list nat :=
  fold_left (fun acc h => (fst (f (fst acc) h), snd acc ++ snd (f (fst acc) h))) hs (rs, []).

(* the wait_for event w is posted: _run_handlers over a snapshot of the handlers registered for w *)
Definition r_post (w : Z) (rs : rstate) : rstate * list nat :=
  r_fold r_callback (w_sort (filter (fun h => wh_ev h =? w) (rs_h rs))) rs.

(* clear_context(c): one loop iteration per dict entry of the context *)
Definition r_clear_entry (rs : rstate) (e : dentry) : rstate * list nat :=
  (mkRS (filter (fun x => negb (Nat.eqb (wh_key x) (de_key e))) (rs_h rs)) (rs_d rs) (rs_next rs) (rs_err rs), [de_q e]).

Definition r_clear (c : Z) (rs : rstate) : rstate * list nat :=
  let r := fold_left (fun acc e => (fst (r_clear_entry (fst acc) e), snd acc ++ snd (r_clear_entry (fst acc) e)))
                     (filter (fun e => de_ctx e =? c) (rs_d rs)) (rs, []) in
  (mkRS (rs_h (fst r)) (filter (fun e => negb (de_ctx e =? c)) (rs_d rs)) (rs_next rs) (rs_err (fst r)), snd r).

(* abstract histories of the player alone *)
Inductive rpop := RPlay (c w prio : Z) (q : nat) | RPost (w : Z) | RClear (c : Z).

Definition r_op (rs : rstate) (o : rpop) : rstate * list nat :=
  match o with
  | RPlay c w prio q => (r_play c w prio q rs, [])
  | RPost w => r_post w rs
  | RClear c => r_clear c rs
  end.

Definition r_ops (ops : list rpop) (rs : rstate) : rstate := fold_left (fun rs o => fst (r_op rs o)) ops rs.

(* ---------------------------------------------------------------------------------------------- *)
(* composition with the event-manager machine *)

(* config entries: context 0 = machine-wide (registered at boot), other contexts = modes *)
Record rcfg := mkRC { rc_ctx : Z; rc_ev : Z; rc_hid : Z; rc_prio : Z; rc_wait : Z }.
Record qcfg := mkQC { qc_ctx : Z; qc_trig : Z; qc_hid : Z; qc_prio : Z; qc_ev : Z; qc_args : list (Z * Z) }.

Definition relay_handler (e : rcfg) : Z * handler := (rc_ev e, mkH (rc_hid e) (rc_prio e) [] None None (HSync [AWait])).
Definition qep_handler (e : qcfg) : Z * handler :=
  (qc_trig e, mkH (qc_hid e) (qc_prio e) [] None None (HSync [APostQ (qc_ev e) false (qc_args e)])).

Definition ctx_handlers (rc : list rcfg) (qc : list qcfg) (c : Z) : list (Z * handler) :=
  map relay_handler (filter (fun e => rc_ctx e =? c) rc) ++ map qep_handler (filter (fun e => qc_ctx e =? c) qc).

Inductive cop :=
| CEnv (acts : list action)       (* posts of queue events / trigger events, releases of the harness handlers' waits *)
| CWaitFor (w : Z)                (* a wait_for event is posted *)
| CStart (c : Z)                  (* mode c starts: its player handlers are registered *)
| CStop (c : Z).                  (* mode c stops: handlers unloaded, clear_context(c) *)

Record cstate := mkCS { cs_m : state; cs_r : rstate; cs_seen : nat }.

(* QueueRelayPlayer.play calls recorded in the part of the log that has not been looked at yet *)
Definition scan_plays (rc : list rcfg) (cs : cstate) : cstate :=
  let new := rev (firstn (length (log (cs_m cs)) - cs_seen cs) (log (cs_m cs))) in
  let r := fold_left (fun r o => match o with
                                 | LInvoke _ hid q =>
                                     match find (fun e => rc_hid e =? hid) rc with
                                     | Some e => r_play (rc_ctx e) (rc_wait e) (rc_prio e) q r
                                     | None => r
                                     end
                                 | _ => r
                                 end) new (cs_r cs) in
  mkCS (cs_m cs) r (length (log (cs_m cs))).

Definition add_handlers (hs : list (Z * handler)) (s : state) : state :=
  fold_left (fun s eh => upd_reg s (reg_add (fst eh) (snd eh) (reg s))) hs s.

Definition c_step (rc : list rcfg) (qc : list qcfg) (cs : cstate) (o : cop) : cstate :=
  scan_plays rc
    match o with
    | CEnv acts => mkCS (env_batch false default_fuel acts (cs_m cs)) (cs_r cs) (cs_seen cs)
    | CWaitFor w =>
        let r := r_post w (cs_r cs) in
        mkCS (env_batch false default_fuel (map AClearQ (snd r)) (cs_m cs)) (fst r) (cs_seen cs)
    | CStart c =>
        mkCS (env_batch false default_fuel [] (add_handlers (ctx_handlers rc qc c) (cs_m cs))) (cs_r cs) (cs_seen cs)
    | CStop c =>
        let r := r_clear c (cs_r cs) in
        mkCS (env_batch false default_fuel
                (map (fun eh => ARemove (h_id (snd eh))) (ctx_handlers rc qc c) ++ map AClearQ (snd r)) (cs_m cs))
             (fst r) (cs_seen cs)
    end.

Definition relay_run (inp : (list rcfg * list qcfg) * list (Z * handler) * list cop) : outcome * bool * list nat :=
  let rc := fst (fst (fst inp)) in
  let qc := snd (fst (fst inp)) in
  let cs0 := mkCS (init_state (ctx_handlers rc qc 0 ++ snd (fst inp))) rs_init 0%nat in
  let cs := fold_left (c_step rc qc) (snd inp) cs0 in
  (observe false (cs_m cs), rs_err (cs_r cs), map wh_q (rs_h (cs_r cs))).

Definition relay_out_eqb (a b : outcome * bool * list nat) : bool :=
  outcome_eqb (fst (fst a)) (fst (fst b)) && Bool.eqb (snd (fst a)) (snd (fst b))
  && list_eqb Nat.eqb (snd a) (snd b).

(* The completion callback queue_event_player passes to post_queue is partial(self._callback, event, args); the event
   manager calls it with the kwargs the queue event was posted with (= args).  [fixed = false]: `_callback(self,
   event, s)` as it was - the call raises TypeError as soon as there is a keyword argument;
   [fixed = true]: fixes/C02-queue-event-player-args-callback.patch (`**kwargs` accepted and ignored). *)
Definition qep_callback_accepts (fixed : bool) (posted : kwargs) : bool :=
  fixed || match posted with [] => true | _ => false end.
