(* C02/LemModeCtl.v — ModeController._ball_ending waits for exactly the running game modes, whatever their phase. *)
From Common Require Import Prelude.
From C02 Require Import Model LemQueue ModeCtl.
Open Scope Z_scope.

Fixpoint sumc (ms : list gmode) : Z :=
  match ms with [] => 0 | m :: r => Z.of_nat (gm_cbs m) + sumc r end.

Record MInv (st : mcstate) : Prop := mkMInv {
  mi_sum : mc_locked st = true -> mc_count st = sumc (mc_modes st) /\ 0 < mc_count st;
  mi_free : mc_locked st = false -> sumc (mc_modes st) = 0;
  mi_one : forall m, In m (mc_modes st) -> (gm_cbs m <= 1)%nat;
  mi_stp : forall m, In m (mc_modes st) -> (0 < gm_cbs m)%nat -> gm_phase m = MStopping;
  mi_err : mc_err st = false }.

Lemma sumc_nonneg ms : 0 <= sumc ms.
Proof. induction ms; cbn; lia. Qed.

Lemma sumc_zero ms : sumc ms = 0 -> forall m, In m ms -> gm_cbs m = 0%nat.
Proof.
  induction ms as [|a ms IH]; cbn; intros H m Hm; [contradiction|].
  pose proof (sumc_nonneg ms). destruct Hm as [<-|Hm]; [lia|]. apply IH; auto. lia.
Qed.

Lemma sumc_pos ms : 0 < sumc ms -> exists m, In m ms /\ (0 < gm_cbs m)%nat.
Proof.
  induction ms as [|a ms IH]; cbn; intros H; [lia|].
  destruct (gm_cbs a) eqn:E.
  - destruct IH as [m [Hm C]]; [lia|]. exists m. auto.
  - exists a. split; auto. lia.
Qed.

Lemma sumc_set i m m' : forall ms, nth_error ms i = Some m ->
  sumc (set_nth i m' ms) = sumc ms - Z.of_nat (gm_cbs m) + Z.of_nat (gm_cbs m').
Proof.
  induction i as [|i IH]; intros [|a ms] H; cbn in *; try discriminate.
  - inversion H; subst. lia.
  - rewrite (IH ms H). lia.
Qed.

Lemma sumc_be ms : (forall m, In m ms -> gm_cbs m = 0%nat) ->
  sumc (map be_mode ms) = Z.of_nat (length (filter counted ms)).
Proof.
  induction ms as [|a ms IH]; cbn [map filter sumc length]; intros H; [reflexivity|].
  rewrite IH by (intros; apply H; right; assumption).
  unfold be_mode at 1. destruct (counted a); cbn [gm_cbs length].
  - rewrite (H a) by (left; reflexivity). lia.
  - rewrite (H a) by (left; reflexivity). lia.
Qed.

Lemma minv_init cfg : MInv (mc_init cfg).
Proof.
  unfold mc_init. constructor; cbn; try discriminate; auto.
  - induction cfg; cbn; auto.
  - intros m H. apply in_map_iff in H as [c [<- _]]. cbn. lia.
  - intros m H. apply in_map_iff in H as [c [<- _]]. cbn. lia.
Qed.

Definition is_be (o : mcop) : bool := match o with OpBallEnding => true | _ => false end.

(* completions: mc_done goes up by one exactly when the queue goes from held to free *)
Definition done_spec (st st' : mcstate) (o : mcop) : Prop :=
  mc_done st' = (mc_done st + (if (mc_locked st || is_be o) && negb (mc_locked st') then 1 else 0))%nat.

Lemma set_same_cbs st i m m' :
  MInv st -> nth_error (mc_modes st) i = Some m -> gm_cbs m' = gm_cbs m ->
  ((0 < gm_cbs m')%nat -> gm_phase m' = MStopping) ->
  MInv (set_mode i m' st) /\ done_spec st (set_mode i m' st) (OpStart i).
Proof.
  intros [S F O P E] Hn Hc Hp. split.
  - constructor; cbn [set_mode mc_modes mc_count mc_locked mc_done mc_err]; auto.
    + intros L. rewrite (sumc_set _ _ _ _ Hn), Hc. destruct (S L). split; lia.
    + intros L. rewrite (sumc_set _ _ _ _ Hn), Hc. rewrite (F L). lia.
    + intros x Hx. apply In_set_nth in Hx as [->|Hx]; auto. rewrite Hc. apply O. eapply nth_error_In; eauto.
    + intros x Hx. apply In_set_nth in Hx as [->|Hx]; auto.
  - unfold done_spec. cbn. destruct (mc_locked st); cbn; lia.
Qed.

Lemma mc_op_inv st o :
  MInv st -> (o = OpBallEnding -> mc_locked st = false) ->
  MInv (mc_op st o) /\ done_spec st (mc_op st o) o.
Proof.
  intros I Hbe. pose proof I as [S F O P E].
  assert (Triv : done_spec st st o -> MInv st /\ done_spec st st o) by auto.
  assert (Same : forall o', is_be o' = false -> done_spec st st o').
  { intros o' B. unfold done_spec. rewrite B. destruct (mc_locked st); cbn; lia. }
  destruct o as [i|i|i|]; cbn [mc_op].
  - (* start *)
    destruct (nth_error (mc_modes st) i) as [m|] eqn:Hn; [|apply Triv, Same; reflexivity].
    destruct (is_idle (gm_phase m)) eqn:Id; [|apply Triv, Same; reflexivity].
    apply (set_same_cbs st i m); auto. cbn. intros C. apply P in C; [|eapply nth_error_In; eauto].
    rewrite C in Id. discriminate.
  - (* stop by somebody else *)
    destruct (nth_error (mc_modes st) i) as [m|] eqn:Hn; [|apply Triv, Same; reflexivity].
    destruct (gm_phase m) eqn:Ph; try (apply Triv, Same; reflexivity).
    destruct (set_same_cbs st i m (mkGM (gm_game m) (gm_auto m) MStopping (gm_cbs m)) I Hn eq_refl (fun _ => eq_refl)) as [A B].
    split; auto.
  - (* the stop of mode i completes *)
    destruct (nth_error (mc_modes st) i) as [m|] eqn:Hn; [|apply Triv, Same; reflexivity].
    destruct (gm_phase m) eqn:Ph; try (apply Triv, Same; reflexivity).
    pose proof (nth_error_In _ _ Hn) as Hin. pose proof (O m Hin) as Le.
    set (m' := mkGM (gm_game m) (gm_auto m) MIdle 0%nat).
    assert (Sm : sumc (mc_modes (set_mode i m' st)) = sumc (mc_modes st) - Z.of_nat (gm_cbs m)).
    { cbn. rewrite (sumc_set _ _ _ _ Hn). cbn. lia. }
    assert (Om : forall x, In x (mc_modes (set_mode i m' st)) -> (gm_cbs x <= 1)%nat).
    { cbn. intros x Hx. apply In_set_nth in Hx as [->|Hx]; auto. }
    assert (Pm : forall x, In x (mc_modes (set_mode i m' st)) -> (0 < gm_cbs x)%nat -> gm_phase x = MStopping).
    { cbn. intros x Hx C. apply In_set_nth in Hx as [->|Hx]; auto. cbn in C. lia. }
    destruct (gm_cbs m) as [|[|n]] eqn:Cb; [| |lia]; cbn [iter_cb].
    + split.
      * constructor; auto; cbn [set_mode mc_locked mc_count mc_err]; intros L.
        -- rewrite Sm. destruct (S L). split; lia.
        -- rewrite Sm, (F L). reflexivity.
      * unfold done_spec. cbn. destruct (mc_locked st); cbn; lia.
    + destruct (mc_locked st) eqn:L.
      2:{ exfalso. pose proof (sumc_zero _ (F eq_refl) m Hin). lia. }
      destruct (S eq_refl) as [Sc Sp]. unfold ctl_cb. cbn [set_mode mc_count mc_modes mc_locked mc_done mc_err].
      destruct (mc_count st - 1 =? 0) eqn:Z0.
      * apply Z.eqb_eq in Z0. unfold mc_clear. cbn [mc_locked]. rewrite L. split.
        -- constructor; cbn [mc_locked mc_count mc_modes mc_err]; auto; try discriminate.
           intros _. cbn in Sm. rewrite Sm. lia.
        -- unfold done_spec. cbn. rewrite L. cbn. lia.
      * apply Z.eqb_neq in Z0. split.
        -- constructor; cbn [mc_locked mc_count mc_modes mc_err]; auto; try (rewrite L; discriminate).
           intros _. cbn in Sm. rewrite Sm. split; lia.
        -- unfold done_spec. cbn. rewrite L. cbn. lia.
  - (* ball_ending *)
    specialize (Hbe eq_refl). unfold op_ball_ending. rewrite Hbe.
    pose proof (sumc_zero _ (F Hbe)) as Z0.
    assert (Sb := sumc_be _ Z0).
    assert (Ob : forall x, In x (map be_mode (mc_modes st)) -> (gm_cbs x <= 1)%nat).
    { intros x Hx. apply in_map_iff in Hx as [y [<- Hy]]. unfold be_mode. destruct (counted y); cbn; [rewrite (Z0 y Hy); lia|auto]. }
    assert (Pb : forall x, In x (map be_mode (mc_modes st)) -> (0 < gm_cbs x)%nat -> gm_phase x = MStopping).
    { intros x Hx C. apply in_map_iff in Hx as [y [<- Hy]]. unfold be_mode in *. destruct (counted y); cbn in *; auto. }
    cbn [mc_count]. destruct (Z.of_nat (length (filter counted (mc_modes st))) =? 0) eqn:C0.
    + apply Z.eqb_eq in C0. unfold mc_clear. cbn [mc_locked]. split.
      * constructor; cbn [mc_locked mc_count mc_modes mc_err]; auto; try discriminate. intros _. lia.
      * unfold done_spec. cbn. rewrite Hbe. cbn. lia.
    + apply Z.eqb_neq in C0. split.
      * constructor; cbn [mc_locked mc_count mc_modes mc_err]; auto; try discriminate. intros _. split; lia.
      * unfold done_spec. cbn. rewrite Hbe. cbn. lia.
Qed.

(* the controller's wait is outstanding exactly as long as a mode it asked to stop has not finished stopping *)
Lemma locked_iff st : MInv st ->
  (mc_locked st = true <-> exists m, In m (mc_modes st) /\ gm_cbs m = 1%nat /\ gm_phase m = MStopping).
Proof.
  intros [S F O P E]. split.
  - intros L. destruct (S L) as [Sc Sp]. rewrite Sc in Sp. destruct (sumc_pos _ Sp) as [m [Hm C]].
    exists m. split; auto. split; [pose proof (O m Hm); lia|auto].
  - intros [m [Hm [C _]]]. destruct (mc_locked st) eqn:L; auto.
    pose proof (sumc_zero _ (F eq_refl) m Hm). lia.
Qed.

(* _ball_ending asks every running game mode with stop_on_ball_end - active OR already stopping - and waits for it *)
Lemma be_counts st i m :
  MInv st -> mc_locked st = false -> nth_error (mc_modes st) i = Some m -> counted m = true ->
  let st' := mc_op st OpBallEnding in
  mc_locked st' = true /\ mc_done st' = mc_done st /\
  exists m', nth_error (mc_modes st') i = Some m' /\ gm_cbs m' = 1%nat /\ gm_phase m' = MStopping.
Proof.
  intros I L Hn C. pose proof I as [S F O P E]. cbn [mc_op]. unfold op_ball_ending. rewrite L. cbn [mc_count].
  assert (N : Z.of_nat (length (filter counted (mc_modes st))) =? 0 = false).
  { apply Z.eqb_neq. assert (In m (filter counted (mc_modes st))) by (apply filter_In; split; auto; eapply nth_error_In; eauto).
    destruct (filter counted (mc_modes st)); [contradiction|cbn; lia]. }
  rewrite N. cbn. split; auto. split; auto.
  exists (be_mode m). split; [exact (map_nth_error be_mode i (mc_modes st) Hn)|]. unfold be_mode. rewrite C. cbn.
  rewrite (sumc_zero _ (F L) m) by (eapply nth_error_In; eauto). auto.
Qed.

Definition op_ok (st : mcstate) (o : mcop) : Prop := o = OpBallEnding -> mc_locked st = false.

Inductive mc_reach (cfg : list (bool * bool)) : mcstate -> Prop :=
| mr_init : mc_reach cfg (mc_init cfg)
| mr_step : forall st o, mc_reach cfg st -> op_ok st o -> mc_reach cfg (mc_op st o).

Lemma mc_reach_inv cfg st : mc_reach cfg st -> MInv st.
Proof. induction 1; [apply minv_init|]. apply mc_op_inv; auto. Qed.

Lemma ballend_waits_for_modes_l cfg st :
  mc_reach cfg st ->
  mc_err st = false /\
  (mc_locked st = true <-> exists m, In m (mc_modes st) /\ gm_cbs m = 1%nat /\ gm_phase m = MStopping) /\
  (forall o, op_ok st o -> done_spec st (mc_op st o) o) /\
  (mc_locked st = false -> forall i m, nth_error (mc_modes st) i = Some m -> counted m = true ->
     let st' := mc_op st OpBallEnding in
     mc_locked st' = true /\ mc_done st' = mc_done st /\
     exists m', nth_error (mc_modes st') i = Some m' /\ gm_cbs m' = 1%nat /\ gm_phase m' = MStopping).
Proof.
  intros R. pose proof (mc_reach_inv _ _ R) as I. split; [apply I|]. split; [apply locked_iff; exact I|]. split.
  - intros o Ok. apply mc_op_inv; auto.
  - intros L i m Hn C. exact (be_counts st i m I L Hn C).
Qed.

(* the driver of the correspondence run stays inside mc_reach as long as it does not post ball_ending while the
   controller still holds the previous one *)
Lemma settle_from_reach cfg holds : forall n i st, mc_reach cfg st -> mc_reach cfg (settle_from holds i n st).
Proof.
  induction n as [|n IH]; intros i st R; cbn [settle_from]; auto. apply IH.
  destruct (nth_error (mc_modes st) i) as [m|]; auto. destruct (nth_error holds i) as [[|]|]; auto.
  destruct (gm_phase m); auto. apply (mr_step cfg st (OpStopped i)); auto. intros X; discriminate.
Qed.

Lemma be_step_reach cfg holds st o :
  mc_reach cfg st -> (o = BBallEnding -> mc_locked st = false) -> mc_reach cfg (be_step holds st o).
Proof.
  intros R H. unfold be_step, settle. apply settle_from_reach.
  destruct o; apply mr_step; auto; intros X; try discriminate X. apply H. reflexivity.
Qed.

(* example: mode 0 is already stopping (held) when the ball ends, mode 1 is active, mode 2 is not a game mode *)
Definition ex_mc_cfg : list (bool * bool) := [(true, true); (true, true); (false, true)].
Definition ex_mc_ops : list beop := [BStart 0; BStart 1; BStart 2; BStop 0; BBallEnding].

Lemma ex_ballend :
  let st := fold_left (be_step [true; false; false]) ex_mc_ops (mc_init ex_mc_cfg) in
  mc_locked st = true /\ mc_count st = 1 /\ mc_done st = 0%nat /\
  map (fun m => phase_code (gm_phase m)) (mc_modes st) = [2; 0; 1] /\
  (let st2 := be_step [true; false; false] st (BRelease 0) in
   mc_locked st2 = false /\ mc_done st2 = 1%nat /\ mc_err st2 = false /\
   map (fun m => phase_code (gm_phase m)) (mc_modes st2) = [0; 0; 1]).
Proof. vm_compute. repeat split; reflexivity. Qed.
