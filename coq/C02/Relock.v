(* C02/Relock.v — one sequential dispatcher (_run_handlers_sequential) against QueuedEvent.wait / clear calls that come
   from OUTSIDE the handlers, on queue objects the handlers kept, at any time relative to the dispatcher task's wake-ups.

   events.py:   handler.callback(queue=queue, ..)
                while queue.waiter:                    (* [recheck = true]:  fixes/C02-dispatcher-rechecks-wait.patch *)
                    queue.event = asyncio.Event()      (* [recheck = false]: `if queue.waiter:` - the code as it was    *)
                    await queue.event.wait()
   QueuedEvent.clear(): waiter = False; if self.event: self.event.set()   - the task sleeping on that Event is woken
   through call_soon, i.e. it runs in a LATER loop iteration: between the clear and the wake-up anybody may lock the
   queue again (`queue.clear(); queue.wait()`: the first job is done, the second one starts).

   The machine of Model.v hands every handler a fresh queue and only the handler itself (AWait) or the adapter locks
   it, so a re-lock from outside is not expressible there; this file covers exactly that.
   Queue i is the QueuedEvent handed to handler i; [hs]: handler i calls queue.wait() before it returns. *)
From Common Require Import Prelude.
Open Scope Z_scope.

Inductive kdisp := KRun | KAwait | KWoken | KFinished.
Inductive kobs := KoInv (i : nat) | KoCb | KoWait (i : nat) | KoClear (i : nat) | KoErr.
Inductive kop := KWait (i : nat) | KClear (i : nat) | KLoop.

Record kstate := mkK {
  k_waiter : list bool;        (* queue i: QueuedEvent.waiter *)
  k_next : nat;                (* handlers invoked so far; the dispatcher's current queue is k_next - 1 *)
  k_disp : kdisp;              (* KAwait: the task sleeps on the current queue's Event; KWoken: wake-up scheduled *)
  k_log : list kobs;           (* newest first *)
  k_bad : bool;                (* monitor: the dispatcher went on while the current queue was locked *)
  k_err : bool }.

Definition cur_locked (st : kstate) : bool := nth (pred (k_next st)) (k_waiter st) false.

Fixpoint set_b (n : nat) (x : bool) (l : list bool) : list bool :=
  match l, n with
  | [], _ => []
  | _ :: l', O => x :: l'
  | y :: l', S n' => y :: set_b n' x l'
  end.

(* the for loop, from handler number k_next on; [rem]: the handlers not yet invoked *)
Fixpoint k_advance (rem : list bool) (st : kstate) : kstate :=
  match rem with
  | [] => mkK (k_waiter st) (k_next st) KFinished (KoCb :: k_log st) (k_bad st || cur_locked st) (k_err st)
  | w :: rem' =>
      let st1 := mkK (k_waiter st ++ [w]) (S (k_next st)) KRun
                     ((if w then [KoWait (k_next st)] else []) ++ KoInv (k_next st) :: k_log st)
                     (k_bad st || cur_locked st) (k_err st) in
      if w then mkK (k_waiter st1) (k_next st1) KAwait (k_log st1) (k_bad st1) (k_err st1)
      else k_advance rem' st1
  end.

(* the loop runs until it is idle *)
Definition k_loop (recheck : bool) (hs : list bool) (st : kstate) : kstate :=
  match k_disp st with
  | KRun => k_advance (skipn (k_next st) hs) st
  | KWoken =>
      if recheck && cur_locked st
      then mkK (k_waiter st) (k_next st) KAwait (k_log st) (k_bad st) (k_err st)     (* new Event, sleep again *)
      else k_advance (skipn (k_next st) hs) st
  | _ => st
  end.

Definition k_op (recheck : bool) (hs : list bool) (st : kstate) (o : kop) : kstate :=
  if k_err st then st else
  match o with
  | KLoop => k_loop recheck hs st
  | KWait i =>
      if (i <? k_next st)%nat then
        if nth i (k_waiter st) false
        then mkK (k_waiter st) (k_next st) (k_disp st) (KoErr :: k_log st) (k_bad st) true        (* Double lock *)
        else mkK (set_b i true (k_waiter st)) (k_next st) (k_disp st) (KoWait i :: k_log st) (k_bad st) false
      else st
  | KClear i =>
      if (i <? k_next st)%nat then
        if nth i (k_waiter st) false
        then mkK (set_b i false (k_waiter st)) (k_next st)
                 (match k_disp st with
                  | KAwait => if Nat.eqb (S i) (k_next st) then KWoken else KAwait     (* Event.set() *)
                  | d => d
                  end)
                 (KoClear i :: k_log st) (k_bad st) false
        else mkK (k_waiter st) (k_next st) (k_disp st) (KoErr :: k_log st) (k_bad st) true        (* Not locked *)
      else st
  end.

Definition k_init : kstate := mkK [] 0 KRun [] false false.

(* post_queue, one loop run, the operations, one more loop run *)
Definition relock_states (recheck : bool) (hs : list bool) (ops : list kop) : kstate :=
  fold_left (k_op recheck hs) (ops ++ [KLoop]) (k_loop recheck hs k_init).

Definition disp_code (d : kdisp) : Z := match d with KRun => 0 | KAwait => 1 | KWoken => 2 | KFinished => 3 end.

Definition relock_run (inp : list bool * list kop) : list kobs * bool * Z * bool :=
  let st := relock_states true (fst inp) (snd inp) in
  (rev (k_log st), k_bad st, disp_code (k_disp st), k_err st).

Definition relock_run_orig (inp : list bool * list kop) : list kobs * bool * Z * bool :=
  let st := relock_states false (fst inp) (snd inp) in
  (rev (k_log st), k_bad st, disp_code (k_disp st), k_err st).

Definition kobs_eqb (a b : kobs) : bool :=
  match a, b with
  | KoInv i, KoInv j | KoWait i, KoWait j | KoClear i, KoClear j => Nat.eqb i j
  | KoCb, KoCb | KoErr, KoErr => true
  | _, _ => false
  end.

Definition relock_out_eqb (a b : list kobs * bool * Z * bool) : bool :=
  list_eqb kobs_eqb (fst (fst (fst a))) (fst (fst (fst b))) && Bool.eqb (snd (fst (fst a))) (snd (fst (fst b)))
  && Bool.eqb (snd (fst a) =? 3) (snd (fst b) =? 3)      (* finished or not: all the implementation shows *)
  && Bool.eqb (snd a) (snd b).
