(* C02/LemQueue.v — the invariant of the queue-event machine (Part 1 of the model). *)
From Common Require Import Prelude.
From C02 Require Import Model.
Open Scope Z_scope.

(* ---------------------------------------------------------------------------------------------- *)
(* fresh queues: no script passes the queue object it was given on into another queue event *)
Definition fresh_action (a : action) : bool := match a with APostQ _ true _ => false | _ => true end.
Definition fresh_h (h : handler) : bool :=
  match h_kwq h with Some _ => false | None => true end &&
  match h_body h with HSync acts => forallb fresh_action acts | HAsync _ => true end.

Definition covered (q : nat) (s : state) : Prop :=
  In (OWait q) (outst s) \/ In (OFut q) (outst s) \/ (exists aw, In (RCoroStart q aw) (ready s)) \/
  In (RCoroWake q) (ready s) \/ In (RCoroDone q) (ready s).

Definition runnable (st : dstate) : Prop := st = DNew \/ exists q, st = DReady q.
Definition refers (st : dstate) (q : nat) : Prop := st = DReady q \/ exists e, st = DSleep q e.

Record Inv (k : option nat) (s : state) : Prop := mkInv {
  inv_reg : forall ev hs, In (ev, hs) (reg s) -> forallb fresh_h hs = true;
  inv_rem : forall d, In d (disps s) -> forallb fresh_h (d_rem d) = true /\ d_kwq d = None;
  inv_post : forall p, In p (evq s ++ pend s) -> p_kwq p = None;
  inv_run : forall i d, nth_error (disps s) i = Some d -> Some i <> k -> runnable (d_st d) -> In (RDisp i) (ready s);
  inv_sleep : forall i d q e, nth_error (disps s) i = Some d -> d_st d = DSleep q e ->
                              nth_error (heap s) q = Some (mkQ true (Some e));
  inv_cov : forall q o, nth_error (heap s) q = Some o -> q_waiter o = true -> covered q s;
  inv_rdy : forall i d q, nth_error (disps s) i = Some d -> Some i <> k -> d_st d = DReady q -> waiter_of q s = false;
  inv_bnd : forall d q, In d (disps s) -> refers (d_st d) q -> (q < length (heap s))%nat;
  inv_ev : forall q o e, nth_error (heap s) q = Some o -> q_event o = Some e -> (e < nev s)%nat;
  inv_inj : forall q1 q2 o1 o2 e, nth_error (heap s) q1 = Some o1 -> nth_error (heap s) q2 = Some o2 ->
                                  q_event o1 = Some e -> q_event o2 = Some e -> q1 = q2;
  inv_peq : inpeq s = false -> pend s = [] /\ cbq s = [] /\ (evq s <> [] -> In RPeq (ready s)) }.

(* the queue object [q] handed to the handler that is executing is referred to by no dispatcher *)
Definition own_ok (own : option nat) (s : state) : Prop :=
  forall q, own = Some q -> (q < length (heap s))%nat /\ forall d, In d (disps s) -> ~ refers (d_st d) q.

Ltac sst := cbn [heap disps ready outst reg evq pend cbq inpeq nev npsn log err upd_reg upd_evq upd_cbq upd_pend
                  upd_inpeq upd_ready upd_heap upd_disps upd_outst upd_nev upd_npsn add_log fail push_ready].

(* ---------------------------------------------------------------------------------------------- *)
(* list helpers *)
Lemma length_set_nth {A} n (x : A) l : length (set_nth n x l) = length l.
Proof. revert n; induction l; destruct n; cbn; auto. Qed.

Lemma nth_set_eq {A} n (x : A) l : (n < length l)%nat -> nth_error (set_nth n x l) n = Some x.
Proof. revert n; induction l; destruct n; cbn; intros; try lia; auto. apply IHl. lia. Qed.

Lemma nth_set_neq {A} n m (x : A) l : n <> m -> nth_error (set_nth n x l) m = nth_error l m.
Proof. revert n m; induction l; destruct n, m; cbn; intros; try congruence; auto. Qed.

Lemma nth_set_inv {A} n m (x y : A) l :
  nth_error (set_nth n x l) m = Some y -> (n = m /\ y = x) \/ (n <> m /\ nth_error l m = Some y).
Proof.
  intros H. destruct (Nat.eq_dec n m) as [->|N].
  - left. split; auto. assert (m < length l)%nat.
    { assert (X : (m < length (set_nth m x l))%nat) by (apply nth_error_Some; congruence).
      rewrite length_set_nth in X. exact X. }
    rewrite nth_set_eq in H by assumption. congruence.
  - right. rewrite nth_set_neq in H by assumption. auto.
Qed.

Lemma In_set_nth {A} n (x y : A) l : In y (set_nth n x l) -> y = x \/ In y l.
Proof.
  intros H. apply In_nth_error in H as [m H]. apply nth_set_inv in H as [[_ ->]|[_ H]]; auto.
  right. eapply nth_error_In; eauto.
Qed.

Lemma oitem_eqb_eq a b : oitem_eqb a b = true <-> a = b.
Proof.
  destruct a, b; cbn; split; intros H; try discriminate; try (apply Nat.eqb_eq in H; congruence);
    inversion H; apply Nat.eqb_refl.
Qed.

Lemma In_remove_first x y l : In x l -> x <> y -> In x (remove_first y l).
Proof.
  induction l as [|z l IH]; cbn; intros H N; auto.
  destruct (oitem_eqb y z) eqn:E.
  - apply oitem_eqb_eq in E. subst. destruct H; congruence.
  - destruct H; [left; auto | right; auto].
Qed.

Lemma In_remove_nth {A} (x y : A) i l : In x l -> nth_error l i = Some y -> x <> y -> In x (remove_nth i l).
Proof.
  revert i; induction l as [|z l IH]; intros i H Hn N; cbn in *; [contradiction|].
  destruct i; cbn in *.
  - inversion Hn; subst. destruct H; congruence.
  - destruct H; [left; auto | right; eauto].
Qed.

Lemma reg_get_In ev r hs : reg_get ev r = Some hs -> exists e, In (e, hs) r.
Proof.
  induction r as [|[e h] r IH]; cbn; intros H; [discriminate|].
  destruct (e =? ev); [inversion H; subst; eexists; left; reflexivity|].
  destruct (IH H) as [e' ?]. eexists; right; eauto.
Qed.

Lemma forallb_filter {A} (p f : A -> bool) l : forallb p l = true -> forallb p (filter f l) = true.
Proof.
  induction l; cbn; auto. intros H. apply andb_true_iff in H as [H1 H2].
  destruct (f a); cbn; auto. rewrite H1. auto.
Qed.

Lemma reg_remove_In h r ev hs' :
  In (ev, hs') (reg_remove h r) -> exists hs, In (ev, hs) r /\ hs' = drop_h h hs.
Proof.
  induction r as [|[e hs] r IH]; cbn; [contradiction|].
  destruct (drop_h h hs) eqn:E.
  - intros H. destruct (IH H) as [x [? ?]]. eexists; split; [right|]; eauto.
  - intros [H|H].
    + inversion H; subst. eexists; split; [left; reflexivity|]. congruence.
    + destruct (IH H) as [x [? ?]]. eexists; split; [right|]; eauto.
Qed.

(* ---------------------------------------------------------------------------------------------- *)
(* frame lemma: heap, dispatchers, registry unchanged; ready / outstanding only grow *)
Lemma covered_mono q s s' :
  incl (outst s) (outst s') -> incl (ready s) (ready s') -> covered q s -> covered q s'.
Proof.
  intros Ho Hr [H|[H|[[aw H]|[H|H]]]]; unfold covered; auto 6.
  right; right; left; exists aw; auto.
Qed.

Lemma inv_grow k s s' :
  Inv k s ->
  reg s' = reg s -> disps s' = disps s -> heap s' = heap s -> nev s' = nev s ->
  pend s' = pend s -> cbq s' = cbq s -> inpeq s' = inpeq s ->
  incl (outst s) (outst s') -> incl (ready s) (ready s') ->
  (forall p, In p (evq s' ++ pend s') -> In p (evq s ++ pend s) \/ p_kwq p = None) ->
  (inpeq s' = false -> evq s' <> [] -> In RPeq (ready s')) ->
  Inv k s'.
Proof.
  intros [] Hreg Hd Hh Hn Hp Hc Hi Ho Hr Hpost Hpeq.
  constructor.
  - rewrite Hreg. auto.
  - rewrite Hd. auto.
  - intros p Hin. destruct (Hpost p Hin); auto.
  - rewrite Hd. intros. apply Hr. eauto.
  - rewrite Hd, Hh. auto.
  - rewrite Hh. intros q o H1 H2. eapply covered_mono; eauto.
  - rewrite Hd. unfold waiter_of. rewrite Hh. exact inv_rdy0.
  - rewrite Hd, Hh. auto.
  - rewrite Hh, Hn. auto.
  - rewrite Hh. auto.
  - rewrite Hi, Hp, Hc. intros H. destruct (inv_peq0 H) as [A [B C]]. repeat split; auto.
    apply Hpeq. congruence.
Qed.

Lemma own_ok_same own s s' :
  own_ok own s -> (length (heap s) <= length (heap s'))%nat ->
  (forall d', In d' (disps s') -> forall q, refers (d_st d') q -> exists d, In d (disps s) /\ refers (d_st d) q) ->
  own_ok own s'.
Proof.
  intros H Hl Hd q E. destruct (H q E) as [A B]. split; [lia|].
  intros d' Hin R. destruct (Hd d' Hin q R) as [d [X Y]]. exact (B d X Y).
Qed.

(* ---------------------------------------------------------------------------------------------- *)
(* wake *)
Lemma wake_ds_spec e : forall ds i0 j d',
  nth_error (fst (wake_ds e i0 ds)) j = Some d' ->
  exists d, nth_error ds j = Some d /\
    ((d' = d /\ forall q, d_st d <> DSleep q e) \/
     (exists q, d_st d = DSleep q e /\ d' = set_st d (DReady q) /\ In (RDisp (i0 + j)) (snd (wake_ds e i0 ds)))).
Proof.
  induction ds as [|d ds IH]; intros i0 j d' H.
  - destruct j; discriminate.
  - cbn [wake_ds] in *.
    destruct (d_st d) as [|q0|q0 e0|] eqn:St.
    1,2,4: cbn [fst snd] in *; destruct j as [|j]; cbn in H;
      [inversion H; subst; exists d'; split; [reflexivity|left; split; [reflexivity|intros; congruence]]
      | destruct (IH (S i0) j d' H) as [x [A B]]; exists x; split; [exact A|];
        replace (i0 + S j)%nat with (S i0 + j)%nat by lia; exact B].
    destruct (Nat.eqb e e0) eqn:Ee; cbn [fst snd] in *.
    + apply Nat.eqb_eq in Ee. subst e0. destruct j as [|j]; cbn in H.
      * inversion H; subst. exists d. split; [reflexivity|]. right. exists q0. repeat split; auto.
        left. f_equal. lia.
      * destruct (IH (S i0) j d' H) as [x [A B]]. exists x. split; [exact A|].
        replace (i0 + S j)%nat with (S i0 + j)%nat by lia.
        destruct B as [B|[q [B1 [B2 B3]]]]; [left; exact B|]. right. exists q. repeat split; auto. right. exact B3.
    + apply Nat.eqb_neq in Ee. destruct j as [|j]; cbn in H.
      * inversion H; subst. exists d'. split; [reflexivity|]. left. split; [reflexivity|]. intros; congruence.
      * destruct (IH (S i0) j d' H) as [x [A B]]. exists x. split; [exact A|].
        replace (i0 + S j)%nat with (S i0 + j)%nat by lia. exact B.
Qed.

Lemma wake_ds_length e : forall ds i0, length (fst (wake_ds e i0 ds)) = length ds.
Proof.
  induction ds as [|d ds IH]; intros i0; cbn [wake_ds]; [reflexivity|].
  destruct (d_st d); try destruct (Nat.eqb e e0); cbn [fst length]; rewrite IH; reflexivity.
Qed.

Lemma wake_ds_nth_some e ds i0 j d :
  nth_error ds j = Some d -> exists d', nth_error (fst (wake_ds e i0 ds)) j = Some d'.
Proof.
  intros H. destruct (nth_error (fst (wake_ds e i0 ds)) j) eqn:E; [eauto|].
  apply nth_error_None in E. rewrite wake_ds_length in E.
  assert (j < length ds)%nat by (apply nth_error_Some; congruence). lia.
Qed.

Lemma set_st_rem d st : d_rem (set_st d st) = d_rem d /\ d_kwq (set_st d st) = d_kwq d /\ d_st (set_st d st) = st.
Proof. destruct d; cbn; auto. Qed.

(* QueuedEvent.clear on queue q, the outstanding list replaced by l' (which keeps everything but OWait q) *)
Lemma do_clear_inv k s q l' :
  Inv k s ->
  (forall x, In x (outst s) -> x <> OWait q -> In x l') ->
  Inv k (do_clear q (upd_outst s l')).
Proof.
  intros I Hl.
  assert (Hcov : forall q' s', q' <> q -> outst s' = l' -> incl (ready s) (ready s') -> covered q' s -> covered q' s').
  { intros q' s' N Eo Hr [H|[H|[[aw H]|[H|H]]]]; unfold covered; rewrite Eo.
    - left. apply Hl; auto. congruence.
    - right; left. apply Hl; auto. congruence.
    - right; right; left; exists aw; auto.
    - auto 6.
    - auto 6. }
  unfold do_clear. cbn [heap upd_outst].
  destruct (nth_error (heap s) q) as [o|] eqn:Hq.
  2: { destruct I. constructor; cbn; eauto.
       intros q' o' H1 H2. apply Hcov; cbn; auto using incl_refl. congruence. eauto. }
  destruct (q_waiter o) eqn:W.
  2: { destruct I. constructor; cbn; eauto.
       intros q' o' H1 H2. apply Hcov; cbn; auto using incl_refl. congruence. eauto. }
  assert (Hlen : (q < length (heap s))%nat) by (apply nth_error_Some; congruence).
  set (h' := set_nth q (mkQ false (q_event o)) (heap s)).
  assert (Hh' : forall q' o', nth_error h' q' = Some o' ->
                 (q' = q /\ o' = mkQ false (q_event o)) \/ (q' <> q /\ nth_error (heap s) q' = Some o')).
  { intros q' o' H. apply nth_set_inv in H as [[A B]|[A B]]; auto. }
  destruct (q_event o) as [e|] eqn:Ev.
  - (* somebody may sleep on event e *)
    unfold wake. cbn [disps ready add_log upd_heap upd_outst upd_disps upd_ready].
    set (r := wake_ds e 0 (disps s)).
    assert (Hsp : forall j d', nth_error (fst r) j = Some d' ->
               exists d, nth_error (disps s) j = Some d /\
                 ((d' = d /\ forall q0, d_st d <> DSleep q0 e) \/
                  (d_st d = DSleep q e /\ d' = set_st d (DReady q) /\ In (RDisp j) (snd r)))).
    { intros j d' H. destruct (wake_ds_spec e _ _ _ _ H) as [d [A [B|[q0 [B1 [B2 B3]]]]]]; exists d; split; auto.
      right. assert (q0 = q).
      { pose proof (inv_sleep _ _ I _ _ _ _ A B1) as X.
        eapply (inv_inj _ _ I q0 q _ _ e); eauto. }
      subst q0. auto. }
    destruct I. constructor; cbn; eauto.
    + intros d' Hin. apply In_nth_error in Hin as [j Hj]. destruct (Hsp j d' Hj) as [d [A [[-> _]|[_ [-> _]]]]].
      * apply inv_rem0. eapply nth_error_In; eauto.
      * destruct (set_st_rem d (DReady q)) as [-> [-> _]]. apply inv_rem0. eapply nth_error_In; eauto.
    + intros j d' Hj Hk R. destruct (Hsp j d' Hj) as [d [A [[-> _]|[_ [-> B]]]]].
      * apply in_or_app. left. eapply inv_run0; eauto.
      * apply in_or_app. right. exact B.
    + intros j d' q0 e0 Hj St. destruct (Hsp j d' Hj) as [d [A [[-> B]|[_ [-> _]]]]].
      * pose proof (inv_sleep0 _ _ _ _ A St) as X. destruct (Nat.eq_dec q0 q) as [->|N].
        -- rewrite Hq in X. inversion X; subst. cbn in Ev. inversion Ev; subst. exfalso. eapply B; eauto.
        -- unfold h'. rewrite nth_set_neq by auto. exact X.
      * destruct (set_st_rem d (DReady q)) as [_ [_ X]]. rewrite X in St. discriminate.
    + intros q' o' H1 H2. destruct (Hh' _ _ H1) as [[-> ->]|[N H3]]; [discriminate|].
      apply Hcov; cbn; auto using incl_appl, incl_refl. eauto.
    + intros j d' q0 Hj Hk St. unfold waiter_of. sst.
      destruct (Hsp j d' Hj) as [d [A [[-> _]|[_ [-> _]]]]].
      * pose proof (inv_rdy0 _ _ _ A Hk St) as X. unfold waiter_of in X.
        destruct (Nat.eq_dec q0 q) as [->|N].
        -- unfold h'. rewrite nth_set_eq by auto. reflexivity.
        -- unfold h'. rewrite nth_set_neq by auto. exact X.
      * destruct (set_st_rem d (DReady q)) as [_ [_ X]]. rewrite X in St. inversion St; subst.
        unfold h'. rewrite nth_set_eq by auto. reflexivity.
    + intros d' q0 Hin R. unfold h'. rewrite length_set_nth.
      apply In_nth_error in Hin as [j Hj]. destruct (Hsp j d' Hj) as [d [A [[-> _]|[B [-> _]]]]].
      * eapply inv_bnd0; eauto. eapply nth_error_In; eauto.
      * destruct (set_st_rem d (DReady q)) as [_ [_ X]]. unfold refers in R. rewrite X in R.
        destruct R as [R|[? R]]; [inversion R; subst; auto | discriminate].
    + intros q' o' e' H1 H2. destruct (Hh' _ _ H1) as [[-> ->]|[N H3]]; cbn in H2; eauto.
      eapply inv_ev0; eauto. rewrite Ev. exact H2.
    + intros q1 q2 o1 o2 e' H1 H2 E1 E2.
      assert (X1 : exists o1', nth_error (heap s) q1 = Some o1' /\ q_event o1' = Some e').
      { destruct (Hh' _ _ H1) as [[-> ->]|[N H3]]; eauto. exists o. cbn in E1. split; auto. congruence. }
      assert (X2 : exists o2', nth_error (heap s) q2 = Some o2' /\ q_event o2' = Some e').
      { destruct (Hh' _ _ H2) as [[-> ->]|[N H3]]; eauto. exists o. cbn in E2. split; auto. congruence. }
      destruct X1 as [? [? ?]], X2 as [? [? ?]]. eapply inv_inj0; eauto.
    + intros H. destruct (inv_peq0 H) as [A [B C]]. repeat split; auto. intros. apply in_or_app. left. auto.
  - (* nobody sleeps on q *)
    destruct I. constructor; cbn; eauto.
    + intros j d q0 e0 Hj St. pose proof (inv_sleep0 _ _ _ _ Hj St) as X.
      destruct (Nat.eq_dec q0 q) as [->|N].
      * rewrite Hq in X. inversion X; subst. discriminate.
      * fold h'. unfold h'. rewrite nth_set_neq by auto. exact X.
    + intros q' o' H1 H2. destruct (Hh' _ _ H1) as [[-> ->]|[N H3]]; [discriminate|].
      apply Hcov; cbn; auto using incl_refl. eauto.
    + intros j d q0 Hj Hk St. unfold waiter_of. sst.
      pose proof (inv_rdy0 _ _ _ Hj Hk St) as X. unfold waiter_of in X.
      destruct (Nat.eq_dec q0 q) as [->|N].
      * fold h'. unfold h'. rewrite nth_set_eq by auto. reflexivity.
      * fold h'. unfold h'. rewrite nth_set_neq by auto. exact X.
    + intros d q0 Hin R. fold h'. unfold h'. rewrite length_set_nth. eauto.
    + intros q' o' e' H1 H2. destruct (Hh' _ _ H1) as [[-> ->]|[N H3]]; cbn in H2; [discriminate|eauto].
    + intros q1 q2 o1 o2 e' H1 H2 E1 E2.
      destruct (Hh' _ _ H1) as [[-> ->]|[N1 H3]]; [discriminate|].
      destruct (Hh' _ _ H2) as [[-> ->]|[N2 H4]]; [discriminate|]. eauto.
Qed.

Lemma do_clear_refers q s d' q0 :
  In d' (disps (do_clear q s)) -> refers (d_st d') q0 -> exists d, In d (disps s) /\ refers (d_st d) q0.
Proof.
  unfold do_clear. destruct (nth_error (heap s) q) as [o|]; [|cbn; eauto].
  destruct (q_waiter o); [|cbn; eauto].
  destruct (q_event o) as [e|]; [|cbn; eauto].
  unfold wake. cbn. intros Hin R. apply In_nth_error in Hin as [j Hj].
  destruct (wake_ds_spec e _ _ _ _ Hj) as [d [A [[-> _]|[q1 [B1 [-> _]]]]]].
  - exists d. split; auto. eapply nth_error_In; eauto.
  - exists d. split; [eapply nth_error_In; eauto|].
    destruct (set_st_rem d (DReady q1)) as [_ [_ X]]. unfold refers in *. rewrite X in R.
    destruct R as [R|[? R]]; [inversion R; subst|discriminate]. right. eauto.
Qed.

Lemma do_clear_heap_len q s : length (heap (do_clear q s)) = length (heap s).
Proof.
  unfold do_clear. destruct (nth_error (heap s) q) as [o|]; [|reflexivity].
  destruct (q_waiter o); [|reflexivity].
  destruct (q_event o); unfold wake; cbn; apply length_set_nth.
Qed.

Lemma do_clear_disps_len q s : length (disps (do_clear q s)) = length (disps s).
Proof.
  unfold do_clear. destruct (nth_error (heap s) q) as [o|]; [|reflexivity].
  destruct (q_waiter o); [|reflexivity].
  destruct (q_event o); unfold wake; cbn; auto. apply wake_ds_length.
Qed.

(* ---------------------------------------------------------------------------------------------- *)
(* QueuedEvent.wait on the own (unreferenced) queue *)
Lemma do_wait_inv k s q :
  Inv k s -> own_ok (Some q) s ->
  Inv k (do_wait q true s).
Proof.
  intros I Ho. destruct (Ho q eq_refl) as [Hlen Hno].
  unfold do_wait. destruct (nth_error (heap s) q) as [o|] eqn:Hq.
  2: { eapply inv_grow; eauto; cbn; auto using incl_refl. destruct I. intros H; apply inv_peq0; auto. }
  destruct (q_waiter o) eqn:W.
  { eapply inv_grow; eauto; cbn; auto using incl_refl. destruct I. intros H; apply inv_peq0; auto. }
  set (h' := set_nth q (mkQ true (q_event o)) (heap s)).
  assert (Hh' : forall q' o', nth_error h' q' = Some o' ->
                 (q' = q /\ o' = mkQ true (q_event o)) \/ (q' <> q /\ nth_error (heap s) q' = Some o')).
  { intros q' o' H. apply nth_set_inv in H as [[A B]|[A B]]; auto. }
  assert (Hnr : forall j d q0, nth_error (disps s) j = Some d -> refers (d_st d) q0 -> q0 <> q).
  { intros j d q0 Hj R ->. eapply Hno; eauto. eapply nth_error_In; eauto. }
  destruct I. constructor; cbn; eauto.
  - intros j d q0 e0 Hj St. fold h'. unfold h'. rewrite nth_set_neq; eauto.
    intros ->. eapply Hnr; eauto. right; eauto.
  - intros q' o' H1 H2. destruct (Hh' _ _ H1) as [[-> ->]|[N H3]].
    + left. cbn. apply in_or_app. right. left. reflexivity.
    + eapply covered_mono; [| |eapply inv_cov0; eauto]; cbn; auto using incl_appl, incl_refl.
  - intros j d q0 Hj Hk St. unfold waiter_of. sst. fold h'. unfold h'. rewrite nth_set_neq.
    + eapply inv_rdy0; eauto.
    + intros ->. eapply Hnr; eauto. left; auto.
  - intros d q0 Hin R. fold h'. unfold h'. rewrite length_set_nth. eauto.
  - intros q' o' e' H1 H2. destruct (Hh' _ _ H1) as [[-> ->]|[N H3]]; cbn in H2; eauto.
  - intros q1 q2 o1 o2 e' H1 H2 E1 E2.
    assert (X1 : exists o1', nth_error (heap s) q1 = Some o1' /\ q_event o1' = Some e').
    { destruct (Hh' _ _ H1) as [[-> ->]|[N H3]]; eauto. }
    assert (X2 : exists o2', nth_error (heap s) q2 = Some o2' /\ q_event o2' = Some e').
    { destruct (Hh' _ _ H2) as [[-> ->]|[N H3]]; eauto. }
    destruct X1 as [? [? ?]], X2 as [? [? ?]]. eapply inv_inj0; eauto.
Qed.

Lemma do_wait_frame q hold s :
  disps (do_wait q hold s) = disps s /\ length (heap (do_wait q hold s)) = length (heap s).
Proof.
  unfold do_wait. destruct (nth_error (heap s) q) as [o|]; [|auto].
  destruct (q_waiter o); [auto|]. destruct hold; cbn; rewrite length_set_nth; auto.
Qed.

(* EventManager._async_handler_coroutine on the own queue *)
Lemma adapter_inv k s q aw :
  Inv k s -> own_ok (Some q) s -> Inv k (async_adapter q aw s).
Proof.
  intros I Ho. destruct (Ho q eq_refl) as [Hlen Hno].
  assert (Hfail : forall c, Inv k (fail s c)).
  { intros c. eapply inv_grow; eauto; cbn; auto using incl_refl. destruct I. intros H; apply inv_peq0; auto. }
  unfold async_adapter. destruct (waiter_of q s) eqn:Wq; [apply Hfail|].
  unfold do_wait. unfold waiter_of in Wq. destruct (nth_error (heap s) q) as [o|] eqn:Hq.
  2: { eapply inv_grow; eauto; cbn; auto using incl_refl, incl_appl.
       destruct I. intros H X. apply in_or_app. left. apply inv_peq0; auto. }
  rewrite Wq.
  set (h' := set_nth q (mkQ true (q_event o)) (heap s)).
  assert (Hh' : forall q' o', nth_error h' q' = Some o' ->
                 (q' = q /\ o' = mkQ true (q_event o)) \/ (q' <> q /\ nth_error (heap s) q' = Some o')).
  { intros q' o' H. apply nth_set_inv in H as [[A B]|[A B]]; auto. }
  assert (Hnr : forall j d q0, nth_error (disps s) j = Some d -> refers (d_st d) q0 -> q0 <> q).
  { intros j d q0 Hj R ->. eapply Hno; eauto. eapply nth_error_In; eauto. }
  destruct I. constructor; cbn; eauto.
  - intros j d Hj Hk R. apply in_or_app. left. eauto.
  - intros j d q0 e0 Hj St. fold h'. unfold h'. rewrite nth_set_neq; eauto.
    intros ->. eapply Hnr; eauto. right; eauto.
  - intros q' o' H1 H2. destruct (Hh' _ _ H1) as [[-> ->]|[N H3]].
    + right; right; left. exists aw. cbn. apply in_or_app. right. left. reflexivity.
    + eapply covered_mono; [| |eapply inv_cov0; eauto]; cbn; auto using incl_appl, incl_refl.
  - intros j d q0 Hj Hk St. unfold waiter_of. sst. fold h'. unfold h'. rewrite nth_set_neq.
    + eapply inv_rdy0; eauto.
    + intros ->. eapply Hnr; eauto. left; auto.
  - intros d q0 Hin R. fold h'. unfold h'. rewrite length_set_nth. eauto.
  - intros q' o' e' H1 H2. destruct (Hh' _ _ H1) as [[-> ->]|[N H3]]; cbn in H2; eauto.
  - intros q1 q2 o1 o2 e' H1 H2 E1 E2.
    assert (X1 : exists o1', nth_error (heap s) q1 = Some o1' /\ q_event o1' = Some e').
    { destruct (Hh' _ _ H1) as [[-> ->]|[N H3]]; eauto. }
    assert (X2 : exists o2', nth_error (heap s) q2 = Some o2' /\ q_event o2' = Some e').
    { destruct (Hh' _ _ H2) as [[-> ->]|[N H3]]; eauto. }
    destruct X1 as [? [? ?]], X2 as [? [? ?]]. eapply inv_inj0; eauto.
  - intros H. destruct (inv_peq0 H) as [A [B C]]. repeat split; auto. intros. apply in_or_app. left. auto.
Qed.

Lemma adapter_frame q aw s :
  disps (async_adapter q aw s) = disps s /\ length (heap (async_adapter q aw s)) = length (heap s).
Proof.
  unfold async_adapter. destruct (waiter_of q s); [auto|]. unfold push_ready. sst.
  apply do_wait_frame.
Qed.

(* EventManager._post with fresh kwargs *)
Lemma post_inv k ev isq kw s : Inv k s -> Inv k (post ev isq None kw s).
Proof.
  intros I. unfold post.
  assert (Hpush : forall s0 : state, reg s0 = reg s -> disps s0 = disps s -> heap s0 = heap s -> nev s0 = nev s ->
            pend s0 = pend s -> cbq s0 = cbq s -> inpeq s0 = inpeq s -> outst s0 = outst s -> ready s0 = ready s ->
            evq s0 = evq s ->
            Inv k (upd_evq match evq s0 with [] => push_ready s0 RPeq | _ :: _ => s0 end
                     (evq match evq s0 with [] => push_ready s0 RPeq | _ :: _ => s0 end
                      ++ [mkP (npsn s) ev isq None kw]))).
  { intros s0 E1 E2 E3 E4 E5 E6 E7 E8 E9 E10.
    set (m := match evq s0 with [] => push_ready s0 RPeq | _ :: _ => s0 end).
    assert (M : reg m = reg s0 /\ disps m = disps s0 /\ heap m = heap s0 /\ nev m = nev s0 /\ pend m = pend s0 /\
                cbq m = cbq s0 /\ inpeq m = inpeq s0 /\ outst m = outst s0 /\ evq m = evq s0 /\
                incl (ready s0) (ready m) /\ (evq s0 = [] -> In RPeq (ready m))).
    { unfold m. destruct (evq s0) eqn:Q; cbn; repeat split; intros; auto using incl_refl, incl_appl; try discriminate.
      apply in_or_app. right. left. reflexivity. }
    destruct M as [M1 [M2 [M3 [M4 [M5 [M6 [M7 [M8 [M9 [M10 M11]]]]]]]]]].
    apply (inv_grow k s _ I); sst.
    - congruence.
    - congruence.
    - congruence.
    - congruence.
    - congruence.
    - congruence.
    - congruence.
    - rewrite M8, E8. apply incl_refl.
    - rewrite <- E9. exact M10.
    - intros p Hin. rewrite M9, M5, E10, E5 in Hin. rewrite <- app_assoc in Hin.
      apply in_app_or in Hin as [Hin|Hin]; [left; apply in_or_app; auto|].
      cbn in Hin. destruct Hin as [<-|Hin]; [right; reflexivity|]. left; apply in_or_app; auto.
    - intros H _. destruct (evq s0) eqn:Q; [apply M11; reflexivity|]. apply M10. rewrite E9.
      destruct (inv_peq _ _ I) as [_ [_ C]]; [congruence|]. apply C. rewrite <- E10. discriminate. }
  destruct isq; cbn [negb andb].
  - apply Hpush; reflexivity.
  - destruct (reg_has ev _); cbn [negb].
    + apply Hpush; reflexivity.
    + eapply inv_grow; eauto; sst; auto using incl_refl.
      intros H X. destruct (inv_peq _ _ I) as [_ [_ C]]; auto.
Qed.

Lemma post_frame ev isq kw kd s :
  disps (post ev isq kw kd s) = disps s /\ heap (post ev isq kw kd s) = heap s.
Proof.
  unfold post. destruct isq; cbn;
    repeat match goal with |- context [if ?c then _ else _] => destruct c | |- context [match ?c with [] => _ | _ => _ end] => destruct c end;
    cbn; auto.
Qed.

(* ---------------------------------------------------------------------------------------------- *)
Ltac grow I := apply (inv_grow _ _ _ I); sst;
  try reflexivity; try apply incl_refl; try (apply incl_appl; apply incl_refl);
  try (intros ? ?; left; assumption);
  try (let Hx := fresh in let Xx := fresh in let Cx := fresh in
       intros Hx Xx; destruct (inv_peq _ _ I Hx) as [_ [_ Cx]]; try (apply in_or_app; left); auto).

Lemma fail_inv k s c : Inv k s -> Inv k (fail s c).
Proof. intros I. grow I. Qed.
Lemma add_log_inv k s o : Inv k s -> Inv k (add_log s o).
Proof. intros I. grow I. Qed.
Lemma push_ready_inv k s r : Inv k s -> Inv k (push_ready s r).
Proof. intros I. grow I. Qed.

(* an outstanding coroutine future is resolved: OFut q leaves the list, RCoroWake q enters the ready queue *)
Lemma resolve_inv k s i q :
  Inv k s -> nth_error (outst s) i = Some (OFut q) ->
  Inv k (push_ready (upd_outst s (remove_nth i (outst s))) (RCoroWake q)).
Proof.
  intros I N. destruct I. constructor; sst; eauto.
  - intros j d Hj Hk R. apply in_or_app. left. eauto.
  - intros q' o' H1 H2. destruct (inv_cov0 _ _ H1 H2) as [H|[H|[[aw H]|[H|H]]]]; unfold covered; sst.
    + left. eapply In_remove_nth; eauto. discriminate.
    + destruct (Nat.eq_dec q' q) as [->|Nq].
      * right; right; right; left. apply in_or_app. right. left. reflexivity.
      * right; left. eapply In_remove_nth; eauto. congruence.
    + right; right; left. exists aw. apply in_or_app; auto.
    + right; right; right; left. apply in_or_app; auto.
    + right; right; right; right. apply in_or_app; auto.
  - intros H. destruct (inv_peq0 H) as [A [B C]]. repeat split; auto. intros. apply in_or_app. left. auto.
Qed.

Lemma clear_nth_inv k n s : Inv k s -> Inv k (clear_nth n s).
Proof.
  intros I. unfold clear_nth. destruct (outst s) as [|x l] eqn:O; [exact I|]. rewrite <- O.
  set (i := Nat.modulo n (length (outst s))).
  destruct (nth_error (outst s) i) as [[q|q]|] eqn:N; [| |exact I].
  - apply do_clear_inv; auto. intros y Hin Ny. eapply In_remove_nth; eauto.
  - apply resolve_inv; auto.
Qed.

Lemma cancel_nth_inv k n s : Inv k s -> Inv k (cancel_nth n s).
Proof.
  intros I. unfold cancel_nth. destruct (outst s) as [|x l] eqn:O; [exact I|]. rewrite <- O.
  set (i := Nat.modulo n (length (outst s))).
  destruct (nth_error (outst s) i) as [[q|q]|] eqn:N; [exact I| |exact I].
  apply resolve_inv; auto.
Qed.

Definition frame (s s' : state) : Prop :=
  length (heap s') = length (heap s) /\ length (disps s') = length (disps s) /\
  forall d' q0, In d' (disps s') -> refers (d_st d') q0 -> exists d, In d (disps s) /\ refers (d_st d) q0.

Lemma frame_refl s : frame s s.
Proof. repeat split; eauto. Qed.

Lemma frame_trans a b c : frame a b -> frame b c -> frame a c.
Proof.
  intros [A1 [A2 A3]] [B1 [B2 B3]]. repeat split; try congruence.
  intros d' q0 H R. destruct (B3 _ _ H R) as [d [X Y]]. eauto.
Qed.

Lemma frame_same s s' : heap s' = heap s -> disps s' = disps s -> frame s s'.
Proof. intros A B. unfold frame. rewrite A, B. repeat split; eauto. Qed.

Lemma frame_clear q s l' : frame s (do_clear q (upd_outst s l')).
Proof.
  repeat split.
  - rewrite do_clear_heap_len. reflexivity.
  - rewrite do_clear_disps_len. reflexivity.
  - intros d' q0 H R. destruct (do_clear_refers _ _ _ _ H R) as [d [X Y]]. eauto.
Qed.

Lemma own_ok_frame own s s' : own_ok own s -> frame s s' -> own_ok own s'.
Proof.
  intros H [A [B C]]. eapply own_ok_same; eauto. lia.
Qed.

Lemma clear_nth_frame n s : frame s (clear_nth n s).
Proof.
  unfold clear_nth. destruct (outst s) as [|x l] eqn:O; [apply frame_refl|]. rewrite <- O.
  destruct (nth_error (outst s) _) as [[q|q]|]; [apply frame_clear|apply frame_same; reflexivity|apply frame_refl].
Qed.

Lemma cancel_nth_frame n s : frame s (cancel_nth n s).
Proof.
  unfold cancel_nth. destruct (outst s) as [|x l] eqn:O; [apply frame_refl|]. rewrite <- O.
  destruct (nth_error (outst s) _) as [[q|q]|]; [apply frame_refl|apply frame_same; reflexivity|apply frame_refl].
Qed.

Lemma exec_action_inv k own a s :
  Inv k s -> own_ok own s -> fresh_action a = true ->
  Inv k (exec_action own a s) /\ frame s (exec_action own a s).
Proof.
  intros I Ho Hf. destruct a as [| |n|q|n|ev share kw|ev|h]; cbn [exec_action].
  - destruct own as [q|]; [|split; [exact I|apply frame_refl]].
    split; [apply do_wait_inv; auto|]. destruct (do_wait_frame q true s) as [A B].
    repeat split; try congruence. rewrite A. eauto.
  - destruct own as [q|]; [|split; [exact I|apply frame_refl]].
    split; [|apply frame_clear]. apply do_clear_inv; auto. intros x Hin N. apply In_remove_first; auto.
  - split; [apply clear_nth_inv; auto|apply clear_nth_frame].
  - destruct (held q s); [|split; [exact I|apply frame_refl]].
    split; [|apply frame_clear]. apply do_clear_inv; auto. intros x Hin N. apply In_remove_first; auto.
  - split; [apply cancel_nth_inv; auto|apply cancel_nth_frame].
  - destruct share; [discriminate|]. split; [apply post_inv; auto|].
    destruct (post_frame ev true None (kw_norm kw) s). apply frame_same; auto.
  - split; [apply post_inv; auto|]. destruct (post_frame ev false None [] s). apply frame_same; auto.
  - split; [|apply frame_same; reflexivity].
    destruct I. constructor; sst; eauto.
    intros ev hs' Hin. destruct (reg_remove_In _ _ _ _ Hin) as [hs [A ->]].
    unfold drop_h. apply forallb_filter. eauto.
Qed.

Lemma exec_actions_inv k own acts : forall s,
  Inv k s -> own_ok own s -> forallb fresh_action acts = true ->
  Inv k (exec_actions own acts s) /\ frame s (exec_actions own acts s).
Proof.
  induction acts as [|a acts IH]; intros s I Ho Hf; cbn [exec_actions].
  - split; [exact I|apply frame_refl].
  - cbn in Hf. apply andb_true_iff in Hf as [F1 F2].
    destruct (exec_action_inv k own a s I Ho F1) as [I1 Fr1].
    destruct (IH _ I1 (own_ok_frame _ _ _ Ho Fr1) F2) as [I2 Fr2].
    split; [exact I2|eapply frame_trans; eauto].
Qed.

Lemma own_ok_none s : own_ok None s.
Proof. intros q E. discriminate. Qed.

(* ---------------------------------------------------------------------------------------------- *)
(* a fresh QueuedEvent for the next handler *)
Lemma nth_app_one {A} (l : list A) x q o :
  nth_error (l ++ [x]) q = Some o -> ((q < length l)%nat /\ nth_error l q = Some o) \/ (q = length l /\ o = x).
Proof.
  intros H. destruct (Nat.lt_ge_cases q (length l)).
  - left. rewrite nth_error_app1 in H by assumption. auto.
  - right. rewrite nth_error_app2 in H by assumption.
    destruct (q - length l)%nat eqn:E; cbn in H; [inversion H; split; [lia|reflexivity]|].
    destruct n; discriminate.
Qed.

Lemma alloc_inv k s :
  Inv k s ->
  Inv k (upd_heap s (heap s ++ [mkQ false None])) /\
  own_ok (Some (length (heap s))) (upd_heap s (heap s ++ [mkQ false None])).
Proof.
  intros I. split.
  - destruct I. constructor; sst; eauto.
    + intros j d q e Hj St. pose proof (inv_sleep0 _ _ _ _ Hj St) as X.
      rewrite nth_error_app1; auto. apply nth_error_Some. congruence.
    + intros q o H1 H2. destruct (nth_app_one _ _ _ _ H1) as [[A B]|[A ->]]; [|discriminate].
      destruct (inv_cov0 _ _ B H2) as [H|[H|[[aw H]|[H|H]]]]; unfold covered; sst; eauto 6.
    + intros j d q Hj Hk St. pose proof (inv_rdy0 _ _ _ Hj Hk St) as X. unfold waiter_of in *. sst.
      assert (q < length (heap s))%nat by (eapply inv_bnd0; [eapply nth_error_In; eauto|left; auto]).
      rewrite nth_error_app1; auto.
    + intros d q Hin R. rewrite app_length. cbn. pose proof (inv_bnd0 _ _ Hin R). lia.
    + intros q o e H1 H2. destruct (nth_app_one _ _ _ _ H1) as [[A B]|[A ->]]; [eauto|discriminate].
    + intros q1 q2 o1 o2 e H1 H2 E1 E2.
      destruct (nth_app_one _ _ _ _ H1) as [[A1 B1]|[A1 ->]]; [|discriminate].
      destruct (nth_app_one _ _ _ _ H2) as [[A2 B2]|[A2 ->]]; [|discriminate]. eauto.
  - intros q E. inversion E; subst. sst. split; [rewrite app_length; cbn; lia|].
    intros d Hin R. pose proof (inv_bnd _ _ I _ _ Hin R). lia.
Qed.

(* the dispatcher goes to sleep on a new asyncio.Event stored in its own queue *)
Lemma sleep_inv i s q d' :
  Inv (Some i) s -> own_ok (Some q) s -> (i < length (disps s))%nat -> waiter_of q s = true ->
  forallb fresh_h (d_rem d') = true -> d_kwq d' = None -> d_st d' = DSleep q (nev s) ->
  Inv None (set_disp i d'
     (upd_nev (upd_heap s (set_nth q (mkQ (q_waiter match nth_error (heap s) q with Some o => o | None => mkQ true None end)
                                          (Some (nev s))) (heap s))) (S (nev s)))).
Proof.
  intros I Ho Hi W Hrem Hkw Hst. destruct (Ho q eq_refl) as [Hlen Hno].
  unfold waiter_of in W. destruct (nth_error (heap s) q) as [o|] eqn:Hq; [|discriminate]. rewrite W.
  set (h' := set_nth q (mkQ true (Some (nev s))) (heap s)).
  assert (Hh' : forall q' o', nth_error h' q' = Some o' ->
                 (q' = q /\ o' = mkQ true (Some (nev s))) \/ (q' <> q /\ nth_error (heap s) q' = Some o')).
  { intros q' o' H. apply nth_set_inv in H as [[A B]|[A B]]; auto. }
  assert (Hd : forall j d, nth_error (set_nth i d' (disps s)) j = Some d ->
               (j = i /\ d = d') \/ (j <> i /\ nth_error (disps s) j = Some d)).
  { intros j d H. apply nth_set_inv in H as [[A B]|[A B]]; auto. }
  assert (Hnr : forall j d q0, nth_error (disps s) j = Some d -> refers (d_st d) q0 -> q0 <> q).
  { intros j d q0 Hj R ->. eapply Hno; eauto. eapply nth_error_In; eauto. }
  destruct I. unfold set_disp. constructor; sst; eauto.
  - intros d Hin. apply In_set_nth in Hin as [->|Hin]; auto.
  - intros j d Hj _ R. destruct (Hd _ _ Hj) as [[-> ->]|[N H]].
    + rewrite Hst in R. destruct R as [R|[? R]]; discriminate.
    + eapply inv_run0; eauto. congruence.
  - intros j d q0 e0 Hj St. destruct (Hd _ _ Hj) as [[-> ->]|[N H]].
    + rewrite Hst in St. inversion St; subst. fold h'. unfold h'. apply nth_set_eq. auto.
    + fold h'. unfold h'. rewrite nth_set_neq; eauto. intros ->. eapply Hnr; eauto. right; eauto.
  - intros q' o' H1 H2. destruct (Hh' _ _ H1) as [[-> ->]|[N H3]].
    + destruct (inv_cov0 _ _ Hq W) as [H|[H|[[aw H]|[H|H]]]]; unfold covered; sst; eauto 6.
    + destruct (inv_cov0 _ _ H3 H2) as [H|[H|[[aw H]|[H|H]]]]; unfold covered; sst; eauto 6.
  - intros j d q0 Hj _ St. destruct (Hd _ _ Hj) as [[-> ->]|[N H]].
    + rewrite Hst in St. discriminate.
    + unfold waiter_of. sst. fold h'. unfold h'. rewrite nth_set_neq.
      * eapply inv_rdy0; eauto. congruence.
      * intros ->. eapply Hnr; eauto. left; auto.
  - intros d q0 Hin R. fold h'. unfold h'. rewrite length_set_nth.
    apply In_set_nth in Hin as [->|Hin]; eauto.
    rewrite Hst in R. destruct R as [R|[? R]]; inversion R; subst; auto.
  - intros q' o' e' H1 H2. destruct (Hh' _ _ H1) as [[-> ->]|[N H3]]; cbn in H2.
    + inversion H2; subst. lia.
    + pose proof (inv_ev0 _ _ _ H3 H2). lia.
  - intros q1 q2 o1 o2 e' H1 H2 E1 E2.
    destruct (Hh' _ _ H1) as [[-> ->]|[N1 H3]]; destruct (Hh' _ _ H2) as [[-> ->]|[N2 H4]]; cbn in *; auto.
    + inversion E1; subst. pose proof (inv_ev0 _ _ _ H4 E2). lia.
    + inversion E2; subst. pose proof (inv_ev0 _ _ _ H3 E1). lia.
    + eauto.
Qed.

(* the dispatcher finishes (DDone) *)
Lemma done_inv i s d' :
  Inv (Some i) s -> forallb fresh_h (d_rem d') = true -> d_kwq d' = None -> d_st d' = DDone ->
  Inv None (set_disp i d' s).
Proof.
  intros I Hrem Hkw Hst.
  assert (Hd : forall j d, nth_error (set_nth i d' (disps s)) j = Some d ->
               (j = i /\ d = d') \/ (j <> i /\ nth_error (disps s) j = Some d)).
  { intros j d H. apply nth_set_inv in H as [[A B]|[A B]]; auto. }
  destruct I. unfold set_disp. constructor; sst; eauto.
  - intros d Hin. apply In_set_nth in Hin as [->|Hin]; auto.
  - intros j d Hj _ R. destruct (Hd _ _ Hj) as [[-> ->]|[N H]].
    + rewrite Hst in R. destruct R as [R|[? R]]; discriminate.
    + eapply inv_run0; eauto. congruence.
  - intros j d q0 e0 Hj St. destruct (Hd _ _ Hj) as [[-> ->]|[N H]]; [rewrite Hst in St; discriminate|eauto].
  - intros j d q0 Hj _ St. destruct (Hd _ _ Hj) as [[-> ->]|[N H]]; [rewrite Hst in St; discriminate|].
    eapply inv_rdy0; eauto. congruence.
  - intros d q0 Hin R. apply In_set_nth in Hin as [->|Hin]; eauto.
    rewrite Hst in R. destruct R as [R|[? R]]; discriminate.
Qed.

Lemma run_hs_inv i : forall rem d s,
  Inv (Some i) s -> (i < length (disps s))%nat -> forallb fresh_h rem = true -> d_kwq d = None ->
  Inv None (run_hs i d rem s).
Proof.
  induction rem as [|h rem IH]; intros d s I Hi Hf Hkw; cbn [run_hs].
  - apply add_log_inv. apply done_inv; auto.
  - cbn in Hf. apply andb_true_iff in Hf as [F1 F2].
    destruct (negb (cond_ok (h_cond h) (merged_kw d h))); [apply IH; auto|].
    unfold fresh_h in F1. apply andb_true_iff in F1 as [F0 F1].
    assert (Hq : merged_queue d h = None).
    { unfold merged_queue. destruct (h_kwq h); [discriminate|exact Hkw]. }
    rewrite Hq.
    destruct (alloc_inv _ _ I) as [I1 O1].
    set (q := length (heap s)) in *.
    set (s1 := upd_heap s (heap s ++ [mkQ false None])) in *.
    set (s2 := add_log (add_log s1 (LInvoke (d_psn d) (h_id h) q)) (LArgs (merged_kw d h))).
    assert (I2 : Inv (Some i) s2) by (apply add_log_inv; apply add_log_inv; exact I1).
    assert (O2 : own_ok (Some q) s2) by (eapply own_ok_frame; [exact O1|apply frame_same; reflexivity]).
    set (s3 := match h_body h with
               | HSync acts => exec_actions (Some q) acts s2
               | HAsync aw => async_adapter q aw s2
               end).
    assert (X : Inv (Some i) s3 /\ frame s2 s3).
    { unfold s3. destruct (h_body h) as [acts|aw].
      - apply exec_actions_inv; auto.
      - split; [apply adapter_inv; auto|]. destruct (adapter_frame q aw s2) as [A B].
        repeat split; try congruence. rewrite A. eauto. }
    destruct X as [I3 Fr3].
    assert (O3 : own_ok (Some q) s3) by (eapply own_ok_frame; eauto).
    assert (Hi3 : (i < length (disps s3))%nat).
    { destruct Fr3 as [_ [L _]]. rewrite L. unfold s2, s1. sst. exact Hi. }
    destruct (waiter_of q s3) eqn:W.
    + apply sleep_inv; auto.
    + apply IH; auto.
Qed.

(* ---------------------------------------------------------------------------------------------- *)
(* frame lemma where the ready queue may lose its head *)
Lemma inv_frame k k' s s' :
  Inv k s ->
  reg s' = reg s -> disps s' = disps s -> heap s' = heap s -> nev s' = nev s ->
  (forall j, Some j <> k' -> Some j <> k) ->
  (forall q, covered q s -> covered q s') ->
  (forall j, Some j <> k' -> In (RDisp j) (ready s) -> In (RDisp j) (ready s')) ->
  (forall p, In p (evq s' ++ pend s') -> In p (evq s ++ pend s) \/ p_kwq p = None) ->
  (inpeq s' = false -> pend s' = [] /\ cbq s' = [] /\ (evq s' <> [] -> In RPeq (ready s'))) ->
  Inv k' s'.
Proof.
  intros [] Hreg Hd Hh Hn Hk Hcov Hr Hpost Hpeq.
  constructor.
  - rewrite Hreg. auto.
  - rewrite Hd. auto.
  - intros p Hin. destruct (Hpost p Hin); auto.
  - rewrite Hd. intros. apply Hr; auto. eauto.
  - rewrite Hd, Hh. auto.
  - rewrite Hh. intros q o H1 H2. eauto.
  - rewrite Hd. unfold waiter_of. rewrite Hh. intros. eapply inv_rdy0; eauto.
  - rewrite Hd, Hh. auto.
  - rewrite Hh, Hn. auto.
  - rewrite Hh. auto.
  - exact Hpeq.
Qed.

Lemma inv_unskip i s :
  Inv (Some i) s -> (forall d, nth_error (disps s) i = Some d -> ~ runnable (d_st d)) -> Inv None s.
Proof.
  intros [] H. constructor; eauto.
  - intros j d Hj _ R. destruct (Nat.eq_dec j i) as [->|N]; [exfalso; eapply H; eauto|].
    eapply inv_run0; eauto. congruence.
  - intros j d q Hj _ St. destruct (Nat.eq_dec j i) as [->|N].
    + exfalso; eapply H; eauto. right; eauto.
    + eapply inv_rdy0; eauto. congruence.
Qed.

Lemma covered_pop q s r rs (s' : state) :
  ready s = r :: rs -> outst s' = outst s -> ready s' = rs ->
  covered q s -> (forall aw, r <> RCoroStart q aw) -> r <> RCoroWake q -> r <> RCoroDone q -> covered q s'.
Proof.
  intros Hr Ho Hr' C N1 N2 N3. unfold covered in *. rewrite Ho, Hr'. rewrite Hr in C.
  destruct C as [H|[H|[[aw H]|[H|H]]]]; auto.
  - destruct H as [H|H]; [exfalso; eapply N1; eauto|]. right; right; left; eauto.
  - destruct H as [H|H]; [congruence|]. auto 6.
  - destruct H as [H|H]; [congruence|]. auto 6.
Qed.

Lemma pop_disp_inv s i rs : Inv None s -> ready s = RDisp i :: rs -> Inv (Some i) (upd_ready s rs).
Proof.
  intros I Hr. apply (inv_frame None (Some i) s _ I); sst; auto.
  - intros j _. discriminate.
  - intros q C. eapply covered_pop; eauto; sst; auto; intros; discriminate.
  - intros j N H. rewrite Hr in H. destruct H as [H|H]; [congruence|auto].
  - intros H. destruct (inv_peq _ _ I H) as [A [B C]]. repeat split; auto.
    intros X. specialize (C X). rewrite Hr in C. destruct C as [C|C]; [discriminate|auto].
Qed.

Lemma do_clear_eta q s l : do_clear q (upd_outst (upd_outst s l) (outst s)) = do_clear q s.
Proof.
  unfold do_clear. sst. destruct (nth_error (heap s) q) as [o|]; [|reflexivity].
  destruct (q_waiter o); [|reflexivity]. destruct (q_event o); reflexivity.
Qed.

Lemma inpeq_do_clear q s : inpeq (do_clear q s) = inpeq s.
Proof.
  unfold do_clear. destruct (nth_error (heap s) q) as [o|]; [|reflexivity].
  destruct (q_waiter o); [|reflexivity]. destruct (q_event o); reflexivity.
Qed.

Lemma inpeq_exec_action own a s : inpeq (exec_action own a s) = inpeq s.
Proof.
  destruct a; cbn [exec_action].
  - destruct own; auto. unfold do_wait. destruct (nth_error _ _) as [o|]; auto. destruct (q_waiter o); auto.
  - destruct own; auto. rewrite inpeq_do_clear. reflexivity.
  - unfold clear_nth. destruct (outst s) eqn:O; auto. destruct (nth_error _ _) as [[q|q]|]; auto.
    rewrite inpeq_do_clear. reflexivity.
  - destruct (held q s); auto. rewrite inpeq_do_clear. reflexivity.
  - unfold cancel_nth. destruct (outst s) eqn:O; auto. destruct (nth_error _ _) as [[q|q]|]; auto.
  - unfold post. cbn [negb andb]. sst. destruct (evq s); reflexivity.
  - unfold post. destruct (negb false && _); sst; auto. destruct (evq s); reflexivity.
  - reflexivity.
Qed.

Lemma inpeq_exec_actions own acts : forall s, inpeq (exec_actions own acts s) = inpeq s.
Proof.
  induction acts; intros s; cbn [exec_actions]; auto. rewrite IHacts. apply inpeq_exec_action.
Qed.

Lemma inpeq_run_plain psn hs : forall s, inpeq (run_plain psn hs s) = inpeq s.
Proof.
  induction hs as [|h hs IH]; intros s; cbn [run_plain]; auto. rewrite IH.
  destruct (h_body h); [rewrite inpeq_exec_actions|]; reflexivity.
Qed.

Lemma inpeq_process p s : inpeq (process p s) = inpeq s.
Proof.
  unfold process. destruct (p_queue p).
  - destruct (reg_has _ _); reflexivity.
  - destruct (reg_get _ _); auto. apply inpeq_run_plain.
Qed.

Lemma run_plain_inv k psn hs : forall s,
  Inv k s -> forallb fresh_h hs = true -> Inv k (run_plain psn hs s).
Proof.
  induction hs as [|h hs IH]; intros s I Hf; cbn [run_plain]; auto.
  cbn in Hf. apply andb_true_iff in Hf as [F1 F2]. apply IH; auto.
  unfold fresh_h in F1. apply andb_true_iff in F1 as [_ F1]. destruct (h_body h).
  - apply exec_actions_inv; auto using own_ok_none. apply add_log_inv; auto.
  - apply fail_inv. apply add_log_inv; auto.
Qed.

Lemma process_inv p s :
  Inv None s -> inpeq s = true -> p_kwq p = None -> Inv None (process p s).
Proof.
  intros I Hin Hkw. unfold process. destruct (p_queue p).
  - destruct (reg_has (p_ev p) (reg s)).
    + unfold push_ready. sst. destruct I. constructor; sst; eauto.
      * intros d Hd. apply in_app_or in Hd as [Hd|[<-|[]]]; auto.
      * intros j d Hj _ R. apply nth_app_one in Hj as [[A B]|[-> ->]].
        -- apply in_or_app. left. eapply inv_run0; eauto. discriminate.
        -- apply in_or_app. right. left. reflexivity.
      * intros j d q e Hj St. apply nth_app_one in Hj as [[A B]|[-> ->]]; [eauto|discriminate].
      * intros q o H1 H2. destruct (inv_cov0 _ _ H1 H2) as [H|[H|[[aw H]|[H|H]]]]; unfold covered; sst; auto 6.
        -- right; right; left; exists aw; apply in_or_app; auto.
        -- right; right; right; left; apply in_or_app; auto.
        -- right; right; right; right; apply in_or_app; auto.
      * intros j d q Hj _ St. apply nth_app_one in Hj as [[A B]|[-> ->]]; [|discriminate].
        eapply inv_rdy0; eauto. discriminate.
      * intros d q Hd R. apply in_app_or in Hd as [Hd|[<-|[]]]; eauto.
        destruct R as [R|[? R]]; discriminate.
      * intros H. congruence.
    + destruct I. constructor; sst; eauto. intros H. congruence.
  - destruct (reg_get (p_ev p) (reg s)) as [hs|] eqn:G; auto.
    apply run_plain_inv; auto. destruct (reg_get_In _ _ _ G) as [e Hin']. eapply inv_reg; eauto.
Qed.

Lemma peq_step_inv s : Inv None s -> inpeq s = true -> Inv None (peq_step s).
Proof.
  intros I Hin. unfold peq_step. destruct (pend s) as [|p ps] eqn:P.
  - destruct (evq s) as [|x l] eqn:Q.
    + destruct (rev (cbq s)) eqn:C.
      * destruct I. constructor; sst; eauto. intros _. repeat split; auto.
        -- destruct (cbq s); auto. cbn in C. destruct (rev l); discriminate.
        -- intros X. congruence.
      * destruct I. constructor; sst; eauto. intros H. congruence.
    + destruct I. constructor; sst; eauto.
      * intros p' H. cbn in H. apply inv_post0. rewrite Q, P, app_nil_r. exact H.
      * intros H. congruence.
  - assert (I0 : Inv None (upd_pend s ps)).
    { destruct I. constructor; sst; eauto.
      - intros p' H. apply inv_post0. rewrite P. apply in_app_or in H as [H|H]; apply in_or_app; auto.
        right. right. exact H.
      - intros H. congruence. }
    assert (Hp : p_kwq p = None).
    { apply (inv_post _ _ I). rewrite P. apply in_or_app. right. left. reflexivity. }
    pose proof (process_inv p _ I0 Hin Hp) as I1.
    pose proof (inpeq_process p (upd_pend s ps)) as Ei. sst. cbn [inpeq upd_pend] in Ei.
    set (s1 := process p (upd_pend s ps)) in *.
    destruct I1. constructor; sst; eauto.
    intros H. congruence.
Qed.

Lemma disp_step_inv lost i s :
  Inv (Some i) s ->
  (forall d q, nth_error (disps s) i = Some d -> d_st d = DReady q -> waiter_of q s = false) ->
  Inv None (disp_step lost i s).
Proof.
  intros I Hw. unfold disp_step. destruct (nth_error (disps s) i) as [d|] eqn:Hd.
  2: { apply (inv_unskip i); auto. intros d H. congruence. }
  assert (Hi : (i < length (disps s))%nat) by (apply nth_error_Some; congruence).
  destruct (inv_rem _ _ I d (nth_error_In _ _ Hd)) as [Hrem Hkw].
  destruct (d_st d) eqn:St.
  - destruct (reg_get (d_ev d) (reg s)) as [hs|] eqn:G.
    + apply run_hs_inv; auto. destruct (reg_get_In _ _ _ G) as [e Hin]. eapply inv_reg; eauto.
    + assert (X : Inv None (set_disp i (set_st d DDone) s)).
      { destruct (set_st_rem d DDone) as [A [B C]].
        apply done_inv; try congruence. }
      destruct lost; [exact X|apply add_log_inv; exact X].
  - rewrite (Hw d q eq_refl St). apply run_hs_inv; auto.
  - apply (inv_unskip i); auto. intros d' H [R|[? R]]; congruence.
  - apply (inv_unskip i); auto. intros d' H [R|[? R]]; congruence.
Qed.

Definition about (r : ritem) (q : nat) : Prop :=
  (exists aw, r = RCoroStart q aw) \/ r = RCoroWake q \/ r = RCoroDone q.

Lemma about_dec r q : about r q \/ ((forall aw, r <> RCoroStart q aw) /\ r <> RCoroWake q /\ r <> RCoroDone q).
Proof.
  unfold about. destruct r as [|i|q' aw|q'|q']; try (right; repeat split; intros; discriminate);
    destruct (Nat.eq_dec q' q) as [->|N]; eauto;
    right; repeat split; intros; congruence.
Qed.

Lemma pop_cover_inv s r rs s' :
  Inv None s -> ready s = r :: rs -> r <> RPeq -> (forall i, r <> RDisp i) ->
  reg s' = reg s -> disps s' = disps s -> heap s' = heap s -> nev s' = nev s ->
  evq s' = evq s -> pend s' = pend s -> cbq s' = cbq s -> inpeq s' = inpeq s ->
  incl rs (ready s') -> incl (outst s) (outst s') ->
  (forall q, about r q -> covered q s') ->
  Inv None s'.
Proof.
  intros I Hr N1 N2 E1 E2 E3 E4 E5 E6 E7 E8 Hrs Ho Hab.
  apply (inv_frame None None s _ I); auto.
  - intros q C. destruct (about_dec r q) as [A|[A1 [A2 A3]]]; [auto|].
    assert (C' : covered q (upd_ready s rs)) by (eapply covered_pop; eauto).
    eapply covered_mono; [| |exact C']; sst; auto.
  - intros j _ H. rewrite Hr in H. destruct H as [H|H]; [exfalso; eapply N2; eauto|auto].
  - intros p H. rewrite E5, E6 in H. auto.
  - rewrite E8, E6, E7, E5. intros H. destruct (inv_peq _ _ I H) as [A [B C]]. repeat split; auto.
    intros X. specialize (C X). rewrite Hr in C. destruct C as [C|C]; [congruence|auto].
Qed.

Lemma step_inv lost s s' : Inv None s -> step lost s = Some s' -> Inv None s'.
Proof.
  intros I H. unfold step in H. destruct (err s); [discriminate|]. destruct (inpeq s) eqn:P.
  - inversion H; subst. apply peq_step_inv; auto.
  - destruct (ready s) as [|r rs] eqn:R; [discriminate|]. inversion H; subst; clear H.
    destruct r as [|i|q aw|q|q].
    + apply (inv_frame None None s _ I); sst; auto.
      * intros q C. eapply covered_pop; eauto; sst; auto; intros; discriminate.
      * intros j _ H. rewrite R in H. destruct H as [H|H]; [discriminate|auto].
      * intros H. discriminate.
    + apply disp_step_inv; [apply pop_disp_inv; auto|].
      intros d q Hd St. unfold waiter_of. sst. apply (inv_rdy _ _ I _ _ _ Hd ltac:(discriminate) St).
    + destruct aw.
      * eapply (pop_cover_inv s _ rs); eauto; sst; auto using incl_refl, incl_appl; try discriminate.
        intros q' [[aw E]|[E|E]]; inversion E; subst. right; left. sst. apply in_or_app. right. left. reflexivity.
      * eapply (pop_cover_inv s _ rs); eauto; sst; auto using incl_refl, incl_appl; try discriminate.
        intros q' [[aw E]|[E|E]]; inversion E; subst. right; right; right; right. sst. apply in_or_app. right. left. reflexivity.
    + eapply (pop_cover_inv s _ rs); eauto; sst; auto using incl_refl, incl_appl; try discriminate.
      intros q' [[aw E]|[E|E]]; inversion E; subst. right; right; right; right. sst. apply in_or_app. right. left. reflexivity.
    + set (s0 := upd_ready s rs).
      assert (I0 : Inv None (upd_outst s0 (OWait q :: outst s0))).
      { eapply (pop_cover_inv s _ rs); eauto; unfold s0; sst; auto using incl_refl, incl_tl; try discriminate.
        intros q' [[aw E]|[E|E]]; inversion E; subst. left. sst. left. reflexivity. }
      rewrite <- (do_clear_eta q s0 (OWait q :: outst s0)).
      apply do_clear_inv; auto. sst. intros x [<-|Hx] Nx; [congruence|exact Hx].
Qed.

(* ---------------------------------------------------------------------------------------------- *)
(* reachable states: any registrations, any environment scripts at any time, any number of steps *)
Inductive reachable (lost : bool) : state -> Prop :=
| r_init : forall regs, forallb (fun eh => fresh_h (snd eh)) regs = true -> reachable lost (init_state regs)
| r_env : forall s acts, reachable lost s -> forallb fresh_action acts = true ->
                         reachable lost (exec_actions None acts s)
| r_step : forall s s', reachable lost s -> step lost s = Some s' -> reachable lost s'
(* add_handler between two loop slices (a mode that starts registers the handlers of its config players) *)
| r_add : forall s ev h, reachable lost s -> fresh_h h = true -> reachable lost (upd_reg s (reg_add ev h (reg s))).

Lemma insert_h_fresh h l : fresh_h h = true -> forallb fresh_h l = true -> forallb fresh_h (insert_h h l) = true.
Proof.
  intros Hh. induction l as [|x l IH]; cbn; intros H.
  - rewrite Hh. reflexivity.
  - apply andb_true_iff in H as [H1 H2]. destruct (h_prio x <? h_prio h); cbn; rewrite ?Hh, ?H1, ?H2; auto.
Qed.

Lemma reg_add_fresh ev h r :
  fresh_h h = true -> (forall e hs, In (e, hs) r -> forallb fresh_h hs = true) ->
  forall e hs, In (e, hs) (reg_add ev h r) -> forallb fresh_h hs = true.
Proof.
  intros Hh. induction r as [|[e0 hs0] r IH]; cbn; intros Hr e hs Hin.
  - destruct Hin as [Hin|[]]. inversion Hin; subst. cbn. rewrite Hh. reflexivity.
  - destruct (e0 =? ev).
    + destruct Hin as [Hin|Hin]; [|eauto]. inversion Hin; subst. apply insert_h_fresh; eauto.
    + destruct Hin as [Hin|Hin]; [inversion Hin; subst; eauto|]. eapply IH; eauto.
Qed.

Lemma init_reg_fresh regs : forall r,
  forallb (fun eh => fresh_h (snd eh)) regs = true ->
  (forall e hs, In (e, hs) r -> forallb fresh_h hs = true) ->
  forall e hs, In (e, hs) (fold_left (fun r eh => reg_add (fst eh) (snd eh) r) regs r) -> forallb fresh_h hs = true.
Proof.
  induction regs as [|[ev h] regs IH]; cbn; intros r Hf Hr; [exact Hr|].
  apply andb_true_iff in Hf as [F1 F2]. apply IH; auto. apply reg_add_fresh; auto.
Qed.

Lemma nth_repeat {A} (x : A) n q o : nth_error (repeat x n) q = Some o -> o = x.
Proof. intros H. apply nth_error_In in H. apply repeat_spec in H. exact H. Qed.

Lemma init_inv regs : forallb (fun eh => fresh_h (snd eh)) regs = true -> Inv None (init_state regs).
Proof.
  intros Hf. unfold init_state. constructor; sst.
  - unfold init_reg. apply init_reg_fresh; auto.
  - intros d [].
  - intros p [].
  - intros j d H. destruct j; discriminate.
  - intros j d q e H. destruct j; discriminate.
  - intros q o H W. apply nth_repeat in H. subst. discriminate.
  - intros j d q H. destruct j; discriminate.
  - intros d q [].
  - intros q o e H E. apply nth_repeat in H. subst. discriminate.
  - intros q1 q2 o1 o2 e H _ E. apply nth_repeat in H. subst. discriminate.
  - intros _. repeat split; auto. intros H. congruence.
Qed.

Lemma reachable_inv lost s : reachable lost s -> Inv None s.
Proof.
  induction 1.
  - apply init_inv; auto.
  - apply exec_actions_inv; auto using own_ok_none.
  - eapply step_inv; eauto.
  - destruct IHreachable as [I1 I2 I3 I4 I5 I6 I7 I8 I9 I10 I11]. constructor; sst; auto.
    apply reg_add_fresh; auto.
Qed.

(* every state produced by the harness-style driver is reachable *)
Lemma run_fuel_reachable lost n : forall s, reachable lost s -> reachable lost (run_fuel lost n s).
Proof.
  induction n; intros s H; cbn; auto. destruct (step lost s) eqn:E; auto. apply IHn. eapply r_step; eauto.
Qed.

Lemma env_run_reachable lost fuel bs : forall s,
  reachable lost s -> forallb (forallb fresh_action) bs = true -> reachable lost (env_run lost fuel bs s).
Proof.
  induction bs as [|b bs IH]; intros s H Hf; cbn; auto.
  cbn in Hf. apply andb_true_iff in Hf as [F1 F2]. apply IH; auto.
  unfold env_batch. destruct (err s); auto. apply run_fuel_reachable. apply r_env; auto.
Qed.

(* ---------------------------------------------------------------------------------------------- *)
(* the theorems *)

(* sequential: a dispatcher that is about to continue finds the queue of its previous handler unlocked; while the
   wait is outstanding it sleeps, and a sleeping dispatcher cannot run a handler *)
Lemma queue_handlers_sequential_l lost s i d q :
  reachable lost s -> nth_error (disps s) i = Some d ->
  (d_st d = DReady q -> waiter_of q s = false) /\
  (forall e, d_st d = DSleep q e -> waiter_of q s = true /\ disp_step lost i s = s).
Proof.
  intros R Hd. pose proof (reachable_inv _ _ R) as I. split.
  - intros St. eapply inv_rdy; eauto. discriminate.
  - intros e St. split.
    + unfold waiter_of. rewrite (inv_sleep _ _ I _ _ _ _ Hd St). reflexivity.
    + unfold disp_step. rewrite Hd, St. reflexivity.
Qed.

Definition idle (lost : bool) (s : state) : Prop := err s = false /\ step lost s = None.

Lemma queue_all_complete_l lost s :
  reachable lost s -> idle lost s -> outst s = [] ->
  (forall d, In d (disps s) -> d_st d = DDone) /\ evq s = [] /\ pend s = [] /\ cbq s = [].
Proof.
  intros R [He Hs] Ho. pose proof (reachable_inv _ _ R) as I.
  unfold step in Hs. rewrite He in Hs. destruct (inpeq s) eqn:P; [discriminate|].
  destruct (ready s) as [|r rs] eqn:Hr; [|discriminate].
  destruct (inv_peq _ _ I P) as [A [B C]].
  assert (Q : evq s = []).
  { destruct (evq s) eqn:Q; auto. exfalso. rewrite Hr in C. apply C. discriminate. }
  repeat split; auto.
  intros d Hin. apply In_nth_error in Hin as [i Hi].
  destruct (d_st d) as [|q|q e|] eqn:St; auto; exfalso.
  - pose proof (inv_run _ _ I _ _ Hi ltac:(discriminate) ltac:(left; auto)) as X. rewrite Hr in X. exact X.
  - pose proof (inv_run _ _ I _ _ Hi ltac:(discriminate) ltac:(right; eauto)) as X. rewrite Hr in X. exact X.
  - pose proof (inv_sleep _ _ I _ _ _ _ Hi St) as X.
    destruct (inv_cov _ _ I _ _ X eq_refl) as [H|[H|[[aw H]|[H|H]]]]; rewrite ?Ho, ?Hr in H; exact H.
Qed.
