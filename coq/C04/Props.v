(* C04/Props.v — property theorems only (each closed by [exact] of a lemma of Lemmas.v, followed by
   Print Assumptions, which the check parses: must be "Closed under the global context").

   Property C04, full statement: however balls physically move, whenever the ball devices have come to
   rest each device's count equals the balls physically in it, the playfield count equals the balls
   physically loose, all counts sum to num_balls_known; no count is ever negative or above capacity;
   MPF never fires a ball towards a device that has no room.

   What is proved here is the BOOKKEEPING layer, for every trace the ledger of Model.v accepts (any
   topology with one playfield, any length, any interleaving): [reach c ds pf pre m] = "m is the ledger
   state after the prefix [pre] of a run that started from the balanced snapshot (ds, pf)".
   Not proved (validated on sampled runs by the harness, see NOTES.md): that the real coroutines emit
   only accepted traces, and that the switch counters turn physical activity into the right LCount
   values; therefore "counted = physically inside" appears as a hypothesis of the playfield clause.
   Refuted: playfield.balls >= 0 (pf_balls_nonneg_refuted; reproduced on the code, known finding). *)
From Common Require Import Prelude.
From C04 Require Import Model Lemmas Counter CounterLemmas Compose.
Open Scope Z_scope.

(* step invariant behind everything: sum(counted) + pf.balls = known + pending bookings, sum(available)
   + pf.available + pending = known, physical balls are conserved; bounds of the counts *)
Theorem ledger_step_invariant :
  forall c x l y, NoDup (devs c) -> inv c x -> bd_inv c x -> step c x l = Some y -> inv c y /\ bd_inv c y.
Proof. intros c x l y ND I B H. split; [exact (step_inv c x l y ND I H) | exact (step_bd c x l y B H)]. Qed.
Print Assumptions ledger_step_invariant.

Theorem ledger_conservation :
  forall c ds pf pre m,
    NoDup (devs c) -> reach c ds pf pre m -> books_closedb c m = true ->
       sumf (f m fC) (devs c) + z m zB = z m zK                       (* counts sum to num_balls_known *)
    /\ sumf (f m fA) (devs c) + z m zPA = z m zK + z m zXS   (* so do the available balls, up to the excess zXS of
                                                               the known defect below (available_sum_refuted) *)
    /\ ((forall d, In d (devs c) -> blfc (f m fS d) = false) ->
          sumf (balls m) (devs c) + z m zB = z m zK)                  (* ... also as device.balls *)
    /\ ((forall d, In d (devs c) -> f m fC d = f m fPH d) -> z m zTR = 0 ->
          z m zB + (z m zTOT - z m zK) = z m zLOOSE).                 (* playfield.balls = balls loose, up to
                                                                         balls MPF has never seen *)
Proof. exact ledger_conservation_l. Qed.
Print Assumptions ledger_conservation.

Theorem counts_in_bounds :
  forall c ds pf pre m d,
    NoDup (devs c) -> reach c ds pf pre m -> In d (devs c) ->
    0 <= f m fC d <= cap c d + 1 /\ (f m fDEC d = 0 -> 0 <= balls m d <= cap c d).
Proof. exact counts_in_bounds_l. Qed.
Print Assumptions counts_in_bounds.

(* every accepted snapshot is taken at a point where no device is between the -1 of end_eject and the state
   change that follows it, and it reproduces the real counters: so the bounds hold at every observation *)
Theorem snapshot_observable :
  forall c x ds pf y d cn av s ic,
    step c x (LSnap ds pf) = Some y -> In [d; cn; av; s; ic] ds ->
    y = x /\ f x fC d = cn /\ f x fA d = av /\ f x fS d = s /\ f x fDEC d = 0.
Proof. exact snapshot_observable_l. Qed.
Print Assumptions snapshot_observable.

(* the coil fires only in state ejecting (ball_left for an entrance-counted device whose pulse the driver delayed)
   and only after the readiness check of this attempt was passed and announced ... *)
Theorem eject_only_if_room :
  forall c x d y,
    step c x (LPulse d) = Some y ->
    y = x /\ (f x fS d = EJECTING \/ f x fS d = BL) /\ f x fRDY d = 1.
Proof. exact eject_only_if_room_l. Qed.
Print Assumptions eject_only_if_room.

(* ... the announcement (balldevice_d_ejecting_ball, posted directly after target.wait_for_ready_to_receive returned)
   is accepted for a device target only while capacity - counted exceeds the balls the target expects from other
   sources (MPF's own numbers at the check; the coil fires a few ms later) ... *)
Theorem ready_only_if_room :
  forall c x d t n y,
    step c x (LEjecting d t n) = Some y ->
    f y fRDY d = 1 /\ f y fTG d = t /\
    (t <> PF -> isdev c t = true /\ Z.of_nat (length (others d (inc x t))) < cap c t - f x fC t
                /\ (f x fKIND t = 1 -> f x fPH t < cap c t)).   (* switch-counted target: a seat physically free *)
Proof. exact ready_only_if_room_l. Qed.
Print Assumptions ready_only_if_room.

(* ... and nothing else sets the flag (a new attempt / idle clears it) *)
Theorem ready_flag_only_from_ejecting :
  forall c x l y d,
    step c x l = Some y -> f x fRDY d <> 1 -> f y fRDY d = 1 -> exists t n, l = LEjecting d t n.
Proof. exact ready_flag_only_from_ejecting_l. Qed.
Print Assumptions ready_flag_only_from_ejecting.

Theorem chain_needs_available_ball :
  forall c x s t y, step c x (LChain s t) = Some y -> 1 <= f x fA s.
Proof. exact chain_needs_available_l. Qed.
Print Assumptions chain_needs_available_ball.

Theorem accepted_prefix_reachable :
  forall c ds pf pre post, accepts c ds pf (pre ++ post) = true -> exists m, reach c ds pf pre m.
Proof. exact accepts_prefix_reach. Qed.
Print Assumptions accepted_prefix_reachable.

(* full statement "playfield.balls is never negative" is FALSE of the faithful ledger: *)
Theorem pf_balls_nonneg_refuted :
  exists c ds pf pre post m,
    NoDup (devs c) /\ accepts c ds pf (pre ++ post) = true /\ reach c ds pf pre m /\ z m zB = -1.
Proof. exact pf_balls_nonneg_refuted_l. Qed.
Print Assumptions pf_balls_nonneg_refuted.

(* satisfiability: a non-trivial run (eject to the playfield, drain captured before the confirm, books closed at
   the end) is accepted, so the hypotheses of the theorems above are inhabited *)
Example accepted_run_exists : accepts cfgW dsW pfW (preW ++ postW) = true.
Proof. exact witness_accepted. Qed.
Print Assumptions accepted_run_exists.

(* ---------------------------------------------------------------------------------------------- *)
(* external eject confirmation (confirm_eject_type switch / event), incoming balls that time out *)

(* an arriving ball is matched only with an expected ball that has passed its confirm switch / event; the match
   takes that ball off the list of expected balls and books it for its source *)
Theorem expected_arrival_is_confirmed :
  forall c x d y,
    step c x (LEnter d 0) = Some y ->
    exists s r, pop_conf (inc x d) = Some (s, r) /\ s < UNCONF /\ In s (inc x d) /\ inc y d = r
                /\ f y fCF s = f x fCF s + 1.
Proof. exact expected_arrival_is_confirmed_l. Qed.
Print Assumptions expected_arrival_is_confirmed.

(* a ball is booked as lost (ball_missing_timeout at the target) only while it is still on the list: once booked
   as arrived it cannot be booked as lost as well *)
Theorem incoming_lost_only_if_expected :
  forall c x t s y,
    step c x (LIncTimeout t s) = Some y ->
    In s (inc x t) /\ length (inc x t) = S (length (inc y t)) /\ f y fLI t = f x fLI t + 1.
Proof. exact incoming_lost_only_if_expected_l. Qed.
Print Assumptions incoming_lost_only_if_expected.

Theorem incoming_lost_needs_timeout :
  forall c x t s y, step c x (LIncLost t s) = Some y -> 1 <= f x fLI t.
Proof. exact incoming_lost_needs_timeout_l. Qed.
Print Assumptions incoming_lost_needs_timeout.

Theorem confirmed_once :
  forall c x d t y, step c x (LConfirmed d t) = Some y -> step c y (LConfirmed d t) = None.
Proof. exact confirmed_once_l. Qed.
Print Assumptions confirmed_once.

(* satisfiability: confirmed ball late -> booked lost -> arrives after all (captured), books closed *)
Example late_confirmed_run_accepted : accepts cfgX dsX pfX (preX ++ lostX) = true.
Proof. exact witnessX_accepted. Qed.
Print Assumptions late_confirmed_run_accepted.

(* ... and the run in which the same ball is booked as arrived and then as lost is rejected at the timeout label *)
Example late_ball_booked_twice_rejected :
  c04_run (cfgX, (dsX, pfX), preX ++ twiceX) = Z.of_nat (length preX) + 4.
Proof. exact booked_twice_rejected_l. Qed.
Print Assumptions late_ball_booked_twice_rejected.

(* ---------------------------------------------------------------------------------------------- *)
(* the counting layer (Counter.v): SwitchCounter / EntranceSwitchCounter of a device that is not ejecting,
   for ALL switch timelines *)

(* counted balls are never negative and never exceed the number of switches (= capacity, + 1 with a jam switch) *)
Theorem switch_count_in_range :
  forall c evs, 0 <= last (crun c (cinit c) evs) <= Z.of_nat (nsw c).
Proof. exact switch_count_in_range_l. Qed.
Print Assumptions switch_count_in_range.

(* a switch state that has been stable for at least the count delays is reported exactly (with a jam switch:
   unless only the jam switch is active, and then the counter flags its count as unreliable) *)
Theorem stable_state_reported :
  forall c evs t,
    let s := crun c (cinit c) evs in
    ready_at c (sws s) <= t ->
    let s' := settle c s t in
    sws s' = sws s /\ (last s' = nactive (sws s) \/ (jam_only c s' = true /\ unrel s' = true)).
Proof. exact stable_state_reported_l. Qed.
Print Assumptions stable_state_reported.

Theorem stable_state_reported_nojam :
  forall c evs t,
    c_jam c = false ->
    let s := crun c (cinit c) evs in
    ready_at c (sws s) <= t -> last (settle c s t) = nactive (sws s).
Proof. exact stable_state_reported_nojam_l. Qed.
Print Assumptions stable_state_reported_nojam.

(* no count change without a switch change *)
Theorem quiet_run_keeps_count :
  forall c s evs,
    dirty s = false -> forallb (fun e => negb (is_sw e)) evs = true ->
    let s' := crun c s evs in
    last s' = last s /\ sws s' = sws s /\ unrel s' = unrel s /\ dirty s' = false.
Proof. exact quiet_run_keeps_count_l. Qed.
Print Assumptions quiet_run_keeps_count.

Theorem count_change_needs_switch_change :
  forall c s e, last (cstep c s e) <> last s -> dirty s = true.
Proof. exact count_change_needs_dirty_l. Qed.
Print Assumptions count_change_needs_switch_change.

(* entrance-switch counter: 0 <= count <= ball_capacity whatever rolls over the entrance switch *)
Theorem entrance_count_in_range :
  forall c evs, 0 <= e_cap c -> 0 <= e_last (erun c einit evs) <= e_cap c.
Proof. exact entrance_count_in_range_l. Qed.
Print Assumptions entrance_count_in_range.

(* satisfiability / non-triviality of the counter statements: two balls drop in 125 ms apart (one count window),
   one bounces; after the delays the counter reports 2 then 1 *)
Example counter_run_example :
  ctrace (mkc 3 false 500 500 5000) (cinit (mkc 3 false 500 500 5000))
         [CSw 0 0 true; CSw 125 1 true; CTick 500; CTick 625; CSw 1000 1 false; CSw 1125 1 true; CSw 1250 1 false;
          CTick 1700; CTick 1750]
  = [[0;0;0;0;0;0]; [0;0;0;0;0;0]; [0;0;0;0;0;0]; [2;0;0;2;0;0]; [2;0;0;2;0;0]; [2;0;0;2;0;0]; [2;0;0;2;0;0];
     [2;0;0;2;0;0]; [1;0;1;2;0;0]].
Proof. exact counter_run_example_l. Qed.
Print Assumptions counter_run_example.

(* ledger on top of the counters: the playfield clause of ledger_conservation without the hypothesis
   "counted = physically inside" *)
Theorem conservation_with_counters :
  forall c ds pf pre m (cc : Z -> ccfg) (ce : Z -> list cev) (t : Z),
    NoDup (devs c) -> reach c ds pf pre m -> books_closedb c m = true -> z m zTR = 0 ->
    (forall d, In d (devs c) ->
       let s := crun (cc d) (cinit (cc d)) (ce d) in
       c_jam (cc d) = false /\ ready_at (cc d) (sws s) <= t /\
       f m fC d = last (settle (cc d) s t) /\
       f m fPH d = nactive (sws s)) ->
       (forall d, In d (devs c) -> f m fC d = f m fPH d)
    /\ z m zB + (z m zTOT - z m zK) = z m zLOOSE
    /\ sumf (f m fC) (devs c) + z m zB = z m zK.
Proof. exact conservation_with_counters_l. Qed.
Print Assumptions conservation_with_counters.

Theorem counter_report_in_ledger_range :
  forall (c : cfg) (d : Z) (cc : ccfg) (evs : list cev),
    c_jam cc = false -> 0 <= c_n cc -> c_n cc = cap c d ->
    0 <= last (crun cc (cinit cc) evs) <= cap c d.
Proof. exact counter_report_in_ledger_range_l. Qed.
Print Assumptions counter_report_in_ledger_range.

(* ---------------------------------------------------------------------------------------------- *)
(* available balls.  Full statement: whenever no booking is pending the available balls sum to num_balls_known.
   FALSE of the faithful ledger and of the code (known finding
   available-balls-excess-after-unrestorable-incoming-loss): lost_incoming_ball at a device that has no eject to
   cancel and no available ball ("Failed to restore the path") books +1 to the playfield and -1 nowhere.  The BALL
   COUNTS stay right (last conjunct). *)
Theorem available_sum_refuted :
  exists c ds pf pre m,
    NoDup (devs c) /\ reach c ds pf pre m /\ z m zQ = 0 /\ z m zW = 0 /\
    sumf (f m fA) (devs c) + z m zPA = z m zK + 1 /\ sumf (f m fC) (devs c) + z m zB = z m zK.
Proof. exact available_sum_refuted_l. Qed.
Print Assumptions available_sum_refuted.

(* partial statement (clause 2 of ledger_conservation): the sum is off by exactly zXS, and zXS moves only in that one
   situation: an incoming-ball loss being booked (zILT) at a device without an available ball, with no path restore
   pending *)
Theorem available_excess_only_from_unrestored_loss :
  forall c x l y,
    step c x l = Some y -> z y zXS <> z x zXS ->
    l = LMissingToPf /\ z x zW <= 0 /\
    isdev c (z x zILT) = true /\ f x fA (z x zILT) <= 0 /\ z y zXS = z x zXS + 1.
Proof. exact available_excess_only_from_unrestored_loss_l. Qed.
Print Assumptions available_excess_only_from_unrestored_loss.

(* ---------------------------------------------------------------------------------------------- *)
(* fourth pass *)

(* third clause of the readiness check in the ledger: satisfiability / non-triviality of the new conjunct of
   ready_only_if_room -- the same announcement is rejected when the (switch-counted) target is physically full
   although its own count still shows room, accepted when nothing is known about its seats *)
Example ejecting_towards_physically_full_target_rejected :
  c04_run (cfgP, (dsP, pfP), lsP 1) = 4 /\ c04_run (cfgP, (dsP, pfP), lsP 0) = -1.
Proof. exact full_target_rejected_l. Qed.
Print Assumptions ejecting_towards_physically_full_target_rejected.

(* ball search: a search pulse (phase 1) only at a device that is idle and counts no ball *)
Theorem search_pulse_only_at_empty_idle_device :
  forall c x d y, step c x (LSearchPulse d) = Some y -> y = x /\ f x fS d = IDLE /\ f x fC d = 0.
Proof. exact search_pulse_guard_l. Qed.
Print Assumptions search_pulse_only_at_empty_idle_device.

(* giving up writes off exactly the balls believed loose: num_balls_known, playfield.balls and
   playfield.available_balls all go down by playfield.balls, nothing else moves, the written-off balls become balls
   MPF does not know (total - known grows by that number) *)
Theorem give_up_writes_off_loose_balls :
  forall c x dk db da y,
    step c x (LGiveUp dk db da) = Some y ->
    dk = z x zB /\ db = z x zB /\ da = z x zB /\ 0 <= z x zB /\
    z y zB = 0 /\ z y zK = z x zK - z x zB /\ z y zPA = z x zPA - z x zB /\
    z y zTOT - z y zK = (z x zTOT - z x zK) + z x zB /\ z y zLOOSE = z x zLOOSE /\ f y = f x.
Proof. exact give_up_l. Qed.
Print Assumptions give_up_writes_off_loose_balls.

Theorem known_changes_only_by_new_ball_or_give_up :
  forall c x l y,
    step c x l = Some y -> z y zK <> z x zK -> l = LFoundNew \/ exists dk db da, l = LGiveUp dk db da.
Proof. exact known_only_changes_l. Qed.
Print Assumptions known_changes_only_by_new_ball_or_give_up.

(* (ledger_step_invariant / ledger_conservation cover the new labels: the sums survive a give-up.)
   Full statement for the code as it is in /repo WITHOUT fixes/C04-give-up-keeps-promised-balls.patch
   (playfield.available_balls = 0 instead of -= lost_balls): "giving up preserves sum(available) = known" is FALSE
   when a ball is promised to the playfield but not loose yet; the ball COUNTS stay right (last conjunct) *)
Theorem give_up_zeroing_available_refuted :
  exists c ds pf pre m,
    NoDup (devs c) /\ reach c ds pf pre m /\ avail_inv c m /\ ~ avail_inv c (giveup_unfixed m) /\
    sumf (f (giveup_unfixed m) fC) (devs c) + z (giveup_unfixed m) zB = z (giveup_unfixed m) zK.
Proof. exact give_up_zeroing_available_refuted_l. Qed.
Print Assumptions give_up_zeroing_available_refuted.

Example give_up_run_accepted : accepts cfgG dsG pfG (preG ++ postG) = true.
Proof. exact give_up_run_accepted_l. Qed.
Print Assumptions give_up_run_accepted.

(* counting layer: a device in which some switch has been active for the count delays is never reported empty (a lone
   ball resting on the jam switch of an empty device is counted) *)
Theorem stable_nonempty_counted :
  forall c evs t,
    let s := crun c (cinit c) evs in
    ready_at c (sws s) <= t -> 1 <= nactive (sws s) -> 1 <= last (settle c s t).
Proof. exact stable_nonempty_counted_l. Qed.
Print Assumptions stable_nonempty_counted.

Theorem lone_ball_counted :
  forall c s now, last s = 0 -> nactive (sws s) = 1 -> last (recount c s now) = 1 /\ unrel (recount c s now) = false.
Proof. exact lone_ball_counted_l. Qed.
Print Assumptions lone_ball_counted.

(* entrance counter with several entrances: balls that come in through pairwise different entrances (entrance
   switches, the entrance event) are all counted up to the capacity, however close together and whatever the ignore
   window; a hit is swallowed only by the window of its OWN entrance *)
Theorem distinct_entrances_all_counted :
  forall c evs,
    NoDup (map ename evs) -> Z.of_nat (length evs) <= e_cap c -> e_last (erun c einit evs) = Z.of_nat (length evs).
Proof. exact distinct_entrances_all_counted_l. Qed.
Print Assumptions distinct_entrances_all_counted.

Theorem entrance_hit_counted_outside_own_window :
  forall c s t k,
    in_window (e_win s) k t = false -> e_last s < e_cap c -> e_last (ehit c s t k) = e_last s + 1.
Proof. exact ehit_counts. Qed.
Print Assumptions entrance_hit_counted_outside_own_window.

Example two_entrances_inside_window_example :
  etrace (mke 3 3000) einit [EHit 0 0; EHit 500 1; EEvent 625; EHit 1000 0; EHit 3000 0]
  = [[1; 1]; [2; 2]; [3; 3]; [3; 3]; [3; 3]].
Proof. exact two_entrances_example_l. Qed.
Print Assumptions two_entrances_inside_window_example.
