(* C04/Props.v — property theorems only (each closed by [exact] of a lemma of Lemmas.v, followed by
   Print Assumptions, which the check parses: must be "Closed under the global context").

   Property C04, full statement: however balls physically move, whenever the ball devices have come to
   rest each device's count equals the balls physically in it, the playfield count equals the balls
   physically loose, all counts sum to num_balls_known; no count is ever negative or above capacity;
   MPF never fires a ball towards a device that has no room.

   What is proved here is the BOOKKEEPING layer, for every trace the ledger of Model.v accepts (any
   topology with one playfield, any length, any interleaving): [reach c ds pf pre m] = "m is the ledger
   state after the prefix [pre] of a run that started from the balanced snapshot (ds, pf)".
   Not proved (validated on sampled runs by the harness, see NOTES.md): that the real coroutines emit
   only accepted traces, and that the switch counters turn physical activity into the right LCount
   values; therefore "counted = physically inside" appears as a hypothesis of the playfield clause.
   Refuted: playfield.balls >= 0 (pf_balls_nonneg_refuted; reproduced on the code, known finding). *)
From Common Require Import Prelude.
From C04 Require Import Model Lemmas.
Open Scope Z_scope.

(* step invariant behind everything: sum(counted) + pf.balls = known + pending bookings, sum(available)
   + pf.available + pending = known, physical balls are conserved; bounds of the counts *)
Theorem ledger_step_invariant :
  forall c x l y, NoDup (devs c) -> inv c x -> bd_inv c x -> step c x l = Some y -> inv c y /\ bd_inv c y.
Proof. intros c x l y ND I B H. split; [exact (step_inv c x l y ND I H) | exact (step_bd c x l y B H)]. Qed.
Print Assumptions ledger_step_invariant.

Theorem ledger_conservation :
  forall c ds pf pre m,
    NoDup (devs c) -> reach c ds pf pre m -> books_closedb c m = true ->
       sumf (f m fC) (devs c) + z m zB = z m zK                       (* counts sum to num_balls_known *)
    /\ sumf (f m fA) (devs c) + z m zPA = z m zK                      (* so do the available balls *)
    /\ ((forall d, In d (devs c) -> blfc (f m fS d) = false) ->
          sumf (balls m) (devs c) + z m zB = z m zK)                  (* ... also as device.balls *)
    /\ ((forall d, In d (devs c) -> f m fC d = f m fPH d) -> z m zTR = 0 ->
          z m zB + (z m zTOT - z m zK) = z m zLOOSE).                 (* playfield.balls = balls loose, up to
                                                                         balls MPF has never seen *)
Proof. exact ledger_conservation_l. Qed.
Print Assumptions ledger_conservation.

Theorem counts_in_bounds :
  forall c ds pf pre m d,
    NoDup (devs c) -> reach c ds pf pre m -> In d (devs c) ->
    0 <= f m fC d <= cap c d + 1 /\ (f m fDEC d = 0 -> 0 <= balls m d <= cap c d).
Proof. exact counts_in_bounds_l. Qed.
Print Assumptions counts_in_bounds.

(* every accepted snapshot is taken at a point where no device is between the -1 of end_eject and the state
   change that follows it, and it reproduces the real counters: so the bounds hold at every observation *)
Theorem snapshot_observable :
  forall c x ds pf y d cn av s ic,
    step c x (LSnap ds pf) = Some y -> In [d; cn; av; s; ic] ds ->
    y = x /\ f x fC d = cn /\ f x fA d = av /\ f x fS d = s /\ f x fDEC d = 0.
Proof. exact snapshot_observable_l. Qed.
Print Assumptions snapshot_observable.

Theorem eject_only_if_room :
  forall c x d y,
    step c x (LPulse d) = Some y ->
    y = x /\ (f x fS d = EJECTING \/ f x fS d = BL) /\
    (f x fTG d <> PF ->
       isdev c (f x fTG d) = true /\
       Z.of_nat (length (others d (inc x (f x fTG d)))) < cap c (f x fTG d) - f x fC (f x fTG d)).
Proof. exact eject_only_if_room_l. Qed.
Print Assumptions eject_only_if_room.

Theorem chain_needs_available_ball :
  forall c x s t y, step c x (LChain s t) = Some y -> 1 <= f x fA s.
Proof. exact chain_needs_available_l. Qed.
Print Assumptions chain_needs_available_ball.

Theorem accepted_prefix_reachable :
  forall c ds pf pre post, accepts c ds pf (pre ++ post) = true -> exists m, reach c ds pf pre m.
Proof. exact accepts_prefix_reach. Qed.
Print Assumptions accepted_prefix_reachable.

(* full statement "playfield.balls is never negative" is FALSE of the faithful ledger: *)
Theorem pf_balls_nonneg_refuted :
  exists c ds pf pre post m,
    NoDup (devs c) /\ accepts c ds pf (pre ++ post) = true /\ reach c ds pf pre m /\ z m zB = -1.
Proof. exact pf_balls_nonneg_refuted_l. Qed.
Print Assumptions pf_balls_nonneg_refuted.

(* satisfiability: a non-trivial run (eject to the playfield, drain captured before the confirm, books closed at
   the end) is accepted, so the hypotheses of the theorems above are inhabited *)
Example accepted_run_exists : accepts cfgW dsW pfW (preW ++ postW) = true.
Proof. exact witness_accepted. Qed.
Print Assumptions accepted_run_exists.
