(* C04/Compose.v — the ledger on top of the counting layer: at a rest point whose device counts are what the switch
   counters report for a switch state that has been stable for the count delays, the playfield clause of
   ledger_conservation holds without assuming "counted = physically inside". *)
From Common Require Import Prelude.
From C04 Require Import Model Lemmas Counter CounterLemmas.
Open Scope Z_scope.

Lemma conservation_with_counters_l :
  forall c ds pf pre m (cc : Z -> ccfg) (ce : Z -> list cev) (t : Z),
    NoDup (devs c) -> reach c ds pf pre m -> books_closedb c m = true -> z m zTR = 0 ->
    (forall d, In d (devs c) ->
       let s := crun (cc d) (cinit (cc d)) (ce d) in
       c_jam (cc d) = false /\ ready_at (cc d) (sws s) <= t /\
       f m fC d = last (settle (cc d) s t) /\        (* the ledger's count is the counter's report at time t *)
       f m fPH d = nactive (sws s)) ->               (* every ball inside sits on a ball switch *)
       (forall d, In d (devs c) -> f m fC d = f m fPH d)
    /\ z m zB + (z m zTOT - z m zK) = z m zLOOSE
    /\ sumf (f m fC) (devs c) + z m zB = z m zK.
Proof.
  intros c ds pf pre m cc ce t ND R BC TR H.
  assert (E : forall d, In d (devs c) -> f m fC d = f m fPH d).
  { intros d Hd. destruct (H d Hd) as [J [Hr [Hc Hp]]]. rewrite Hc, Hp.
    apply stable_state_reported_nojam_l; assumption. }
  destruct (ledger_conservation_l c ds pf pre m ND R BC) as [S1 [_ [_ S4]]].
  split; [exact E | split; [apply S4; assumption | exact S1]].
Qed.

(* the counter's reports are always inside the range the ledger accepts for LCount *)
Lemma counter_report_in_ledger_range_l :
  forall (c : cfg) (d : Z) (cc : ccfg) (evs : list cev),
    c_jam cc = false -> 0 <= c_n cc -> c_n cc = cap c d ->
    0 <= last (crun cc (cinit cc) evs) <= cap c d.
Proof.
  intros c d cc evs J N C. pose proof (switch_count_in_range_l cc evs) as H. cbn zeta in H.
  rewrite nsw_cap in H by assumption. rewrite J in H. lia.
Qed.
