(* C04/Counter.v — the debounce / counting layer below the ledger: executable models of
   mpf/devices/ball_device/switch_counter.py (SwitchCounter._run, _count_switches_sync, is_jammed,
   received_entrance_event) and mpf/devices/ball_device/entrance_switch_counter.py
   (_entrance_switch_handler: ignore window, capacity clamp) for a device that is not ejecting.

   Time is in integer milliseconds.  A switch counter recounts when a timed switch handler fires, i.e. at
   (last change of a switch) + entrance_count_delay (switch active) / exit_count_delay (inactive); the recount
   succeeds only if EVERY switch has been in its state for at least its delay (otherwise ValueError: "Count not
   stable yet"), hence exactly at  ready_at = max over the switches of (since + delay)  provided nothing changes
   before.  [settle t] performs that recount if it is due at or before t. *)
From Common Require Import Prelude.
Open Scope Z_scope.

(* ---------------------------------------------------------------------------------------------- *)
(* switch counter *)
Record ccfg := mkc {
  c_n : Z;          (* number of ball switches = capacity *)
  c_jam : bool;     (* a jam switch exists: it is the switch with index c_n *)
  c_ent : Z;        (* entrance_count_delay, ms *)
  c_exit : Z;       (* exit_count_delay, ms *)
  c_evto : Z        (* entrance_event_timeout, ms *)
}.

Record cst := mkcs {
  sws : list (bool * Z);    (* per switch: active?, time of its last change *)
  last : Z;                 (* PhysicalBallCounter._last_count *)
  unrel : bool;             (* SwitchCounter._is_unreliable *)
  dirty : bool;             (* a switch changed since the last successful recount *)
  entr : list Z;            (* SwitchCounter._entrances: times of entrance events *)
  n_lost : Z; n_unk : Z; n_ent : Z; n_ret : Z   (* activities recorded so far, per class *)
}.

Definition delay (c : ccfg) (b : bool) : Z := if b then c_ent c else c_exit c.

Fixpoint ready_at (c : ccfg) (l : list (bool * Z)) : Z :=
  match l with
  | [] => -1000000000
  | (b, t) :: l' => Z.max (t + delay c b) (ready_at c l')
  end.

Fixpoint nactive (l : list (bool * Z)) : Z :=
  match l with [] => 0 | (b, _) :: l' => (if b then 1 else 0) + nactive l' end.

Definition jam_on (c : ccfg) (s : cst) : bool :=
  c_jam c && fst (nth (Z.to_nat (c_n c)) (sws s) (false, 0)).

(* only the jam switch is active and the device was not empty: the count is kept and flagged *)
Definition jam_only (c : ccfg) (s : cst) : bool :=
  jam_on c s && (nactive (sws s) =? 1) && negb (last s =? 0).

(* new balls: an entrance event at most entrance_event_timeout ago makes it an entrance, otherwise "unknown" *)
Fixpoint classify (evto now : Z) (k : nat) (en : list Z) (ne nu : Z) : list Z * Z * Z :=
  match k with
  | O => (en, ne, nu)
  | S k' => match en with
            | e :: en' => if now - evto <? e then classify evto now k' en' (ne + 1) nu
                          else classify evto now k' en' ne (nu + 1)
            | [] => classify evto now k' [] ne (nu + 1)
            end
  end.

(* one successful recount at time now (body of SwitchCounter._run after _recount returned) *)
Definition recount (c : ccfg) (s : cst) (now : Z) : cst :=
  let new := nactive (sws s) in
  if jam_only c s then
    mkcs (sws s) (last s) true false (entr s) (n_lost s) (n_unk s) (n_ent s)
         (if unrel s then n_ret s else n_ret s + 1)
  else if new =? last s then
    mkcs (sws s) (last s) false false (entr s) (n_lost s) (n_unk s) (n_ent s) (n_ret s)
  else if last s <? new then
    let '(en, ne, nu) := classify (c_evto c) now (Z.to_nat (new - last s)) (entr s) (n_ent s) (n_unk s) in
    mkcs (sws s) new false false en (n_lost s) nu ne (n_ret s)
  else
    mkcs (sws s) new false false (entr s) (n_lost s + (last s - new)) (n_unk s) (n_ent s) (n_ret s).

Definition settle (c : ccfg) (s : cst) (t : Z) : cst :=
  if dirty s && (ready_at c (sws s) <=? t) then recount c s (ready_at c (sws s)) else s.

Fixpoint set_sw (l : list (bool * Z)) (k : nat) (b : bool) (t : Z) : list (bool * Z) :=
  match l, k with
  | [], _ => []
  | (_, _) :: l', O => (b, t) :: l'
  | e :: l', S k' => e :: set_sw l' k' b t
  end.

Inductive cev :=
| CSw (t : Z) (k : Z) (b : bool)     (* switch k goes active / inactive at time t *)
| CEnt (t : Z)                       (* entrance event (BallDevice.event_entrance) *)
| CTick (t : Z).                     (* time passes until t *)

Definition with_sws (s : cst) (l : list (bool * Z)) (d : bool) : cst :=
  mkcs l (last s) (unrel s) d (entr s) (n_lost s) (n_unk s) (n_ent s) (n_ret s).
Definition with_entr (s : cst) (l : list Z) : cst :=
  mkcs (sws s) (last s) (unrel s) (dirty s) l (n_lost s) (n_unk s) (n_ent s) (n_ret s).

Definition cstep (c : ccfg) (s : cst) (e : cev) : cst :=
  match e with
  | CSw t k b =>
      let s1 := settle c s t in
      if Bool.eqb (fst (nth (Z.to_nat k) (sws s1) (b, 0))) b then s1      (* no change (or no such switch) *)
      else with_sws s1 (set_sw (sws s1) (Z.to_nat k) b t) true
  | CEnt t =>
      let s1 := settle c s t in
      with_entr s1 (filter (fun e => t - c_evto c <? e) (entr s1) ++ [t])
  | CTick t => settle c s t
  end.

Definition is_sw (e : cev) : bool := match e with CSw _ _ _ => true | _ => false end.

Fixpoint crun (c : ccfg) (s : cst) (l : list cev) : cst :=
  match l with [] => s | e :: l' => crun c (cstep c s e) l' end.

(* what the harness samples after every event *)
Definition cobs (s : cst) : list Z :=
  [last s; if unrel s then 1 else 0; n_lost s; n_unk s; n_ent s; n_ret s].

Fixpoint ctrace (c : ccfg) (s : cst) (l : list cev) : list (list Z) :=
  match l with [] => [] | e :: l' => let s' := cstep c s e in cobs s' :: ctrace c s' l' end.

(* a device that has been empty and quiet for a long time *)
Definition nsw (c : ccfg) : nat := Z.to_nat (c_n c) + (if c_jam c then 1 else 0).
Definition cinit (c : ccfg) : cst :=
  mkcs (repeat (false, -1000000) (nsw c)) 0 false false [] 0 0 0 0.

(* ---------------------------------------------------------------------------------------------- *)
(* entrance switch counter (ball_capacity k, any number of entrance switches + the entrance event, no
   entrance_switch_full_timeout).  The ignore window (entrance_switch_ignore_window_ms) is kept PER ENTRANCE NAME
   (recycle_clear_time[switch_name]; "event" is a name of its own): a ball rattling on one entrance switch is one ball,
   a ball coming in through another entrance is another ball. *)
Record ecfg := mke { e_cap : Z; e_ignore : Z (* entrance_switch_ignore_window_ms *) }.
Record est := mkes { e_last : Z;                (* _last_count *)
                     e_win : list (Z * Z);      (* entrance name -> hits before this time are ignored (newest first) *)
                     e_nent : Z }.              (* BallEntranceActivity recorded so far *)

Definition EVENT_NAME : Z := -1.
Inductive eev :=
| EHit (t k : Z)      (* entrance switch k (0, 1, ..) active at t *)
| EEvent (t : Z).     (* entrance event at t (received_entrance_event -> _entrance_switch_handler("event")) *)
Definition ename (e : eev) : Z := match e with EHit _ k => k | EEvent _ => EVENT_NAME end.
Definition etime (e : eev) : Z := match e with EHit t _ => t | EEvent t => t end.

Fixpoint wlook (k : Z) (w : list (Z * Z)) : option Z :=
  match w with [] => None | (k', u) :: w' => if k' =? k then Some u else wlook k w' end.
Definition in_window (w : list (Z * Z)) (k t : Z) : bool :=
  match wlook k w with Some u => t <? u | None => false end.

(* _entrance_switch_handler(switch_name = k) at time t *)
Definition ehit (c : ecfg) (s : est) (t k : Z) : est :=
  if in_window (e_win s) k t then s
  else
    let w := if 0 <? e_ignore c then (k, t + e_ignore c) :: e_win s else e_win s in
    if e_cap c <=? e_last s then mkes (e_last s) w (e_nent s)          (* "Device received balls but is already full!" *)
    else mkes (e_last s + 1) w (e_nent s + 1).

Definition estep (c : ecfg) (s : est) (e : eev) : est := ehit c s (etime e) (ename e).

Fixpoint erun (c : ecfg) (s : est) (l : list eev) : est :=
  match l with [] => s | e :: l' => erun c (estep c s e) l' end.

Fixpoint etrace (c : ecfg) (s : est) (l : list eev) : list (list Z) :=
  match l with
  | [] => []
  | e :: l' => let s' := estep c s e in [e_last s'; e_nent s'] :: etrace c s' l'
  end.

Definition einit : est := mkes 0 [] 0.

(* ---------------------------------------------------------------------------------------------- *)
(* correspondence entry points *)
Definition counter_run (i : (ccfg * list cev) * (ecfg * list eev)) : list (list Z) * list (list Z) :=
  let '((c, l), (ec, el)) := i in (ctrace c (cinit c) l, etrace ec einit el).

Definition counter_out_eqb (a b : list (list Z) * list (list Z)) : bool :=
  list_eqb (list_eqb Z.eqb) (fst a) (fst b) && list_eqb (list_eqb Z.eqb) (snd a) (snd b).
