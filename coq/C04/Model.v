(* C04/Model.v — the "ball ledger": an event-labelled transition system over the numbers the property
   is made of (per device: counted_balls, available_balls, state; playfield: balls, available_balls,
   num_balls_requested; ball_controller.num_balls_known) plus the physical placement of the balls.

   It is NOT a transcription of the dozen coroutines of a ball device.  One label = one observable
   bookkeeping step of mpf/devices/ball_device/*.py, mpf/devices/playfield.py, mpf/core/ball_controller.py
   (an assignment to one of the counters together with the event posted next to it, or a posted
   balldevice_* event), or one physical move of the simulated world.  [step] applies the effect of the
   label and checks the double-entry discipline of the code: every change of a counter must be matched
   by its cause ("pending" counters, all zero when the books are closed).  [accepts] replays a recorded
   run; the harness feeds it the exact program-order log of the real code (harness/props/balls_common.py)
   together with snapshots of the real counters, which the ledger must reproduce. *)
From Common Require Import Prelude.
Open Scope Z_scope.

(* ---------------------------------------------------------------------------------------------- *)
(* identifiers *)
Definition PF : Z := 9.                       (* the playfield as an eject target *)
Definition NONE : Z := -1.

(* device states (BallDevice._state) *)
Definition IDLE := 0. Definition WFB := 1. Definition WTR := 2. Definition EJECTING := 3.
Definition BL := 4.   Definition FC := 5.  Definition BROKEN := 6.

(* per-device fields *)
Definition fC := 0.   (* counted_balls *)
Definition fA := 1.   (* available_balls *)
Definition fS := 2.   (* state *)
Definition fTG := 3.  (* target of the current eject (from balldevice_X_ejecting_ball) *)
Definition fU := 4.   (* pending: balls counted but not yet classified by ball_arrived (signed) *)
Definition fCF := 5.  (* pending: +1 booked elsewhere for the ball this device ejected, own count not yet -1 *)
Definition fM := 6.   (* pending: count dropped while idle, loss not yet booked to the playfield *)
Definition fDEC := 7. (* 1 between the -1 of end_eject and the state change that follows it (not observable) *)
Definition fPH := 8.  (* balls physically in the device *)
Definition fXC := 9.  (* confirm of the current eject: 0 = by the target's count (confirm_eject_type target),
                         1 = external confirm switch/event awaited, 2 = externally confirmed: the ball is still
                         expected at the target although the source's eject is over *)
Definition fLI := 10. (* pending: incoming balls whose ball_missing_timeout expired (taken off the list),
                         lost_incoming_ball not yet called *)
Definition fRDY := 11. (* 1: the readiness check of the current eject attempt has been passed and announced
                          (balldevice_d_ejecting_ball posted right after wait_for_ready_to_receive returned) *)
Definition fKIND := 12. (* how the device counts: 1 = ball switches (one seat per switch: SwitchCounter.is_ready_to_receive
                           looks at the debounced switches), 0 = entrance switch / unknown; set by the configuration
                           label LKind at the start of a run *)
Definition UNCONF : Z := 100.   (* list entry s + UNCONF: ball of source s that has not passed its confirm
                                   switch/event yet (IncomingBall.can_arrive = False) *)

(* scalar fields *)
Definition zB := 0.     (* playfield.balls *)
Definition zPA := 1.    (* playfield.available_balls *)
Definition zR := 2.     (* playfield.num_balls_requested *)
Definition zK := 3.     (* ball_controller.num_balls_known *)
Definition zREM := 4.   (* pending: removed from playfield, unexpected ball not yet entered *)
Definition zQ := 5.     (* pending: playfield.available -1 done, device.available +1 not yet *)
Definition zW := 6.     (* pending: target.available -1 (path restore), playfield.available +1 not yet *)
Definition zCAPP := 7.  (* pending: captured_from_playfield posted, playfield not yet decremented *)
Definition zREQP := 8.  (* pending: ejecting_ball to playfield posted, num_balls_requested +1 not yet *)
Definition zREQM := 9.  (* pending: eject_success/failed to playfield posted, num_balls_requested -1 not yet *)
Definition zLASTF := 10. (* device whose ejected ball is being booked as lost (or NONE) *)
Definition zLOOSE := 11. (* balls physically loose on the playfield *)
Definition zTR := 12.    (* balls physically in transit between places *)
Definition zTOT := 13.   (* balls that physically exist *)
Definition zXS := 14.    (* DEFECT (known finding): available balls booked to the playfield by lost_incoming_ball's
                            "Failed to restore the path" branch without taking one away anywhere; never closed *)
Definition zILT := 15.   (* device whose lost_incoming_ball call is being booked (or NONE) *)

Record st := mk {
  f : Z -> Z -> Z;          (* field -> device -> value *)
  z : Z -> Z;               (* scalar field -> value *)
  inc : Z -> list Z;        (* device -> sources of the balls it expects (IncomingBallsHandler._incoming_balls) *)
  pfq : list Z              (* sources whose eject_success to the playfield is posted but not yet booked *)
}.

Definition upd2 (g : Z -> Z -> Z) (fld d v : Z) : Z -> Z -> Z :=
  fun fld' d' => if (fld' =? fld) && (d' =? d) then v else g fld' d'.
Definition upd1 {A} (g : Z -> A) (k : Z) (v : A) : Z -> A :=
  fun k' => if k' =? k then v else g k'.

Definition setf (x : st) fld d v := mk (upd2 (f x) fld d v) (z x) (inc x) (pfq x).
Definition setz (x : st) k v := mk (f x) (upd1 (z x) k v) (inc x) (pfq x).
Definition setinc (x : st) d l := mk (f x) (z x) (upd1 (inc x) d l) (pfq x).
Definition setpfq (x : st) l := mk (f x) (z x) (inc x) l.
Definition addf x fld d v := setf x fld d (f x fld d + v).
Definition addz x k v := setz x k (z x k + v).

(* configuration: devices with capacity *)
Definition cfg := list (Z * Z).
Definition devs (c : cfg) : list Z := map fst c.
Fixpoint cap (c : cfg) (d : Z) : Z :=
  match c with [] => 0 | (d', n) :: c' => if d' =? d then n else cap c' d end.
Definition isdev (c : cfg) (d : Z) : bool := existsb (Z.eqb d) (devs c).

Fixpoint sumf (g : Z -> Z) (l : list Z) : Z :=
  match l with [] => 0 | d :: l' => g d + sumf g l' end.

Fixpoint remove1 (d : Z) (l : list Z) : list Z :=
  match l with [] => [] | e :: l' => if e =? d then l' else e :: remove1 d l' end.
Definition memz (d : Z) (l : list Z) : bool := existsb (Z.eqb d) l.

(* expected incoming balls of other sources (an entrance-counted source has registered its own ball already) *)
Definition others (d : Z) (l : list Z) : list Z :=
  filter (fun s => negb ((s =? d) || (s =? d + UNCONF))) l.

(* first entry that can arrive (ball_arrived skips balls that still wait for their external confirm) *)
Fixpoint pop_conf (l : list Z) : option (Z * list Z) :=
  match l with
  | [] => None
  | e :: l' => if e <? UNCONF then Some (e, l')
               else match pop_conf l' with Some (s, r) => Some (s, e :: r) | None => None end
  end.

(* replace the first / the last occurrence of a by b *)
Fixpoint replace1 (a b : Z) (l : list Z) : list Z :=
  match l with [] => [] | e :: l' => if e =? a then b :: l' else e :: replace1 a b l' end.
Definition replace_last (a b : Z) (l : list Z) : list Z := rev (replace1 a b (rev l)).

Definition blfc (s : Z) : bool := (s =? BL) || (s =? FC).

(* device.balls as BallDevice.balls computes it *)
Definition balls (x : st) (d : Z) : Z := if blfc (f x fS d) then f x fC d - 1 else f x fC d.

(* ---------------------------------------------------------------------------------------------- *)
Inductive label :=
| LCount (d n : Z)          (* _set_ball_count(n): counted_balls := n + balldevice_d_ball_count_changed *)
| LState (d s : Z)          (* set_eject_state *)
| LChain (s t : Z)          (* setup_eject_chain: s.available -1, final target .available +1 *)
| LEnter (d unclaimed : Z)  (* balldevice_d_ball_enter posted: 0 = expected ball, 1 = unexpected ball *)
| LCaptured                 (* balldevice_captured_from_playfield posted *)
| LPfRemoved                (* Playfield._ball_removed_handler2: balls -1, available -1 *)
| LAdded (d : Z)            (* _balls_added_callback(1, ..): d.available +1 *)
| LEntered (d n : Z)        (* balldevice_d_ball_entered *)
| LAttempt (d t n : Z)      (* balldevice_d_ball_eject_attempt *)
| LEjecting (d t n : Z)     (* balldevice_d_ejecting_ball *)
| LPfReq (delta : Z)        (* playfield.num_balls_requested +-1 *)
| LSuccess (d t : Z)        (* balldevice_d_ball_eject_success *)
| LFailed (d t retry n : Z) (* balldevice_d_ball_eject_failed *)
| LPfAdded                  (* Playfield._source_device_eject_success: balls +1 *)
| LAvailDec (t : Z)         (* lost_ejected_ball, path restore: target.available -1 *)
| LMissingToPf              (* add_missing_balls after LAvailDec: playfield available +1, balls +1 *)
| LCancelMissing            (* cancel_path_if_target_is + add_missing_balls: available -1 +1, balls +1 *)
| LLost (d : Z)             (* d.available -1; playfield available +1, balls +1 (lost_idle_ball, or path
                               restore at the device that waited for the lost ball) *)
| LFoundNew                 (* found_new_ball: known +1, playfield balls +1, available +1 *)
| LMissingEv (d : Z)        (* balldevice_d_ball_missing *)
| LBroken (d : Z)           (* balldevice_d_broken *)
| LPulse (d : Z)            (* eject coil of d pulsed at the platform *)
| LExtWait (d : Z)          (* IncomingBall.add_external_confirm_switch/event: the ball d has just sent off must pass
                               d's confirm switch / event before it can arrive *)
| LConfirmed (d t : Z)      (* IncomingBall._external_confirm: it did; ball_missing_timeout runs at the target *)
| LIncTimeout (t s : Z)     (* IncomingBallsHandler._run: the confirmed ball of s did not arrive at t in time *)
| LIncLost (t s : Z)        (* BallDevice.lost_incoming_ball(source = s) called at t *)
| LKind (d k : Z)           (* configuration: d counts its balls with ball switches (k = 1) / an entrance switch (0) *)
| LSearchPulse (d : Z)      (* ball search, phase 1 (DefaultBallSearch.ball_search): the eject coil of d is fired to shake
                               a stuck ball loose; only a device that is idle and holds no ball *)
| LGiveUp (dk db da : Z)    (* BallSearch.give_up: num_balls_known -dk, playfield.balls -db, playfield.available_balls -da
                               (the balls MPF believed loose are written off) *)
| SLeave (s t : Z)          (* physical: a ball leaves s (device or PF) towards t; t = s: it will fall back *)
| SArrive (s t : Z)         (* physical: it arrives in device t *)
| SBounce (s t : Z)         (* physical: t is full, the ball ends up loose on the playfield *)
| SLeak (d : Z)             (* physical: a ball jumps out of idle device d onto the playfield *)
| SNop                      (* physical: playfield switch hit / coil too weak: no ball changes place *)
| LSnap (ds : list (list Z)) (pf : list Z)   (* observed: per device [id; counted; available; state; incoming],
                                                [balls; available; requested; known] *)
| LTruth (ds : list (list Z)) (loose : Z)    (* simulator truth: per device [id; balls inside], loose balls *)
| LRest                     (* the harness declares a rest point: the books must be closed *)
| LStray.                   (* anything the parser could not attribute: never accepted *)

Definition guard (b : bool) (x : st) : option st := if b then Some x else None.

Definition books_closedb (c : cfg) (x : st) : bool :=
  forallb (fun d => (f x fU d =? 0) && (f x fCF d =? 0) && (f x fM d =? 0) && (f x fDEC d =? 0)
                    && (f x fLI d =? 0)) (devs c)
  && (z x zREM =? 0) && (z x zQ =? 0) && (z x zW =? 0).

Definition snap_dev_ok (x : st) (l : list Z) : bool :=
  match l with
  | [d; cn; av; s; ic] =>
      (f x fC d =? cn) && (f x fA d =? av) && (f x fS d =? s) && (Z.of_nat (length (inc x d)) =? ic)
      && (f x fDEC d =? 0)
  | _ => false
  end.

Definition truth_dev_ok (x : st) (l : list Z) : bool :=
  match l with [d; n] => f x fPH d =? n | _ => false end.

Definition step (c : cfg) (x : st) (l : label) : option st :=
  match l with
  | LCount d n =>
      (* an entrance-counted device may count capacity + 1 while its own ejected ball is still counted *)
      let extra := if blfc (f x fS d) && (f x fDEC d =? 0) then 1 else 0 in
      if negb (isdev c d && (0 <=? n) && (n <=? cap c d + extra)) then None else
      let old := f x fC d in
      let x1 := setf x fC d n in
      if old <=? n then Some (addf x1 fU d (n - old))
      else if blfc (f x fS d) then
        guard ((n =? old - 1) && ((1 <=? f x fCF d) || (f x fXC d =? 2)) && (f x fDEC d =? 0))
              (setf (addf x1 fCF d (-1)) fDEC d 1)
      else Some (addf x1 fM d (old - n))
  | LState d s =>
      if negb (isdev c d) then None else
      let old := f x fS d in
      let x0 := if (s =? IDLE) || (s =? WFB) || (s =? WTR) then setf x fRDY d 0 else x in
      let x1 := setf (setf x0 fS d s) fDEC d 0 in
      if s =? BL then
        let t := f x fTG d in
        if negb ((1 <=? f x fC d) && negb (blfc old)) then None
        else if t =? PF then Some x1
        else guard (isdev c t) (setinc x1 t (inc x t ++ [d]))
      else if s =? FC then guard (old =? BL) (setf x fS d s)
      else if blfc old then
        (* the eject is over: the booked ball must have been taken off the own count (a source with an external
           confirm may still have a confirmed ball on its way: its booking comes with the arrival or the loss) *)
        if negb (((f x fCF d =? 0) || negb (f x fXC d =? 0)) && negb (memz d (pfq x)) && (f x fC d <=? cap c d))
        then None else
        let t := f x fTG d in
        let x2 := setf x1 fXC d 0 in
        if t =? PF then Some x2
        else if f x fXC d =? 2 then Some x2
        else if f x fXC d =? 1 then Some (setinc x2 t (remove1 (d + UNCONF) (inc x t)))
        else Some (setinc x2 t (remove1 d (inc x t)))
      else Some x1
  | LChain s t =>
      if negb (isdev c s && (1 <=? f x fA s)) then None else
      let x1 := addf x fA s (-1) in
      if t =? PF then Some (addz x1 zPA 1) else guard (isdev c t) (addf x1 fA t 1)
  | LEnter d un =>
      if negb (isdev c d) then None else
      if un =? 0 then
        match pop_conf (inc x d) with
        | None => None
        | Some (src, rest) => guard (isdev c src) (addf (addf (setinc x d rest) fCF src 1) fU d (-1))
        end
      else guard (1 <=? z x zREM) (addf (addz x zREM (-1)) fU d (-1))
  | LCaptured => Some (addz x zCAPP 1)
  | LPfRemoved =>
      guard (1 <=? z x zCAPP)
            (addz (addz (addz (addz (addz x zCAPP (-1)) zB (-1)) zPA (-1)) zREM 1) zQ 1)
  | LAdded d => guard (isdev c d && (1 <=? z x zQ)) (addf (addz x zQ (-1)) fA d 1)
  | LEntered d _ => guard (isdev c d) x
  | LAttempt d _ _ => guard (isdev c d) x
  | LEjecting d t _ =>
      (* posted directly after target.wait_for_ready_to_receive(d) returned (no await in between): the target must
         have a free place beyond the balls it expects from other sources -- MPF's own numbers AT THE CHECK; the coil
         fires a few ms later (count settle, PSU arbitration), when another source may already have registered *)
      if negb (isdev c d && ((t =? PF) || isdev c t)) then None else
      let x1 := setf (setf x fTG d t) fRDY d 1 in
      if t =? PF then Some (addz x1 zREQP 1)
      else guard ((Z.of_nat (length (others d (inc x t))) <? cap c t - f x fC t)
                  (* ... and, third clause of the readiness check (counter.is_ready_to_receive of a switch counter:
                     every switch debounced and not all of them active), a seat physically free at that moment *)
                  && (negb (f x fKIND t =? 1) || (f x fPH t <? cap c t))) x1
  | LPfReq delta =>
      if delta =? 1 then guard (1 <=? z x zREQP) (addz (addz x zREQP (-1)) zR 1)
      else if delta =? -1 then guard (1 <=? z x zREQM) (addz (addz x zREQM (-1)) zR (-1))
      else None
  | LSuccess d t =>
      if negb (isdev c d) then None else
      if t =? PF then guard (blfc (f x fS d)) (setpfq (addz x zREQM 1) (pfq x ++ [d])) else Some x
  | LFailed d t _ _ =>
      if negb (isdev c d) then None else
      if t =? PF then Some (addz x zREQM 1)
      else if f x fS d =? FC then
        Some (setz (setinc x t (remove1 (if f x fXC d =? 1 then d + UNCONF else d) (inc x t))) zLASTF d)
      else Some x
  | LPfAdded =>
      match pfq x with
      | [] => None
      | src :: rest => guard (isdev c src) (addz (addf (setpfq x rest) fCF src 1) zB 1)
      end
  | LAvailDec t => guard (isdev c t) (addz (addf x fA t (-1)) zW 1)
  | LMissingToPf =>
      let s := z x zLASTF in
      if 1 <=? z x zW then
        guard (isdev c s)
              (setz (setz (addf (addz (addz (addz x zW (-1)) zPA 1) zB 1) fCF s 1) zLASTF NONE) zILT NONE)
      else
        (* lost_incoming_ball at a device t that has neither a current eject to cancel nor an available ball of its own
           ("No eject and no available_balls. Path went nowhere." / "Failed to restore the path"): add_missing_balls(1)
           alone.  Modelled faithfully: the available balls now sum to known + zXS *)
        let t := z x zILT in
        guard (isdev c s && isdev c t && (f x fA t <=? 0))
              (setz (setz (addz (addf (addz (addz x zPA 1) zB 1) fCF s 1) zXS 1) zLASTF NONE) zILT NONE)
  | LCancelMissing =>
      let s := z x zLASTF in
      guard (isdev c s) (setz (setz (addf (addz x zB 1) fCF s 1) zLASTF NONE) zILT NONE)
  | LLost d =>
      if negb (isdev c d) then None else
      let x1 := addz (addz (addf x fA d (-1)) zPA 1) zB 1 in
      if 1 <=? f x fM d then Some (addf x1 fM d (-1))
      else let s := z x zLASTF in
           if isdev c s then Some (setz (setz (addf x1 fCF s 1) zLASTF NONE) zILT NONE)
           else Some (addf x1 fM d (-1))   (* double eject: _eject_ball books lost_idle_ball BEFORE it sets the
                                              recounted value, so the pending count goes negative first *)
  | LFoundNew => Some (addz (addz (addz x zK 1) zB 1) zPA 1)
  | LMissingEv d => guard (isdev c d) x
  | LBroken d => guard (isdev c d) x
  | LPulse d =>
      (* (an entrance-counted device is in ball_left 10 ms after the command; the driver may delay the pulse) *)
      guard (isdev c d && ((f x fS d =? EJECTING) || (f x fS d =? BL)) && (f x fRDY d =? 1)) x
  | LExtWait d =>
      let t := f x fTG d in
      guard (isdev c d && isdev c t && (f x fS d =? BL) && (f x fXC d =? 0) && memz d (inc x t))
            (setf (setinc x t (replace_last d (d + UNCONF) (inc x t))) fXC d 1)
  | LConfirmed d t =>
      guard (isdev c d && isdev c t && blfc (f x fS d) && (f x fXC d =? 1) && (f x fTG d =? t)
             && memz (d + UNCONF) (inc x t))
            (setf (setinc x t (replace1 (d + UNCONF) d (inc x t))) fXC d 2)
  | LIncTimeout t s =>
      guard (isdev c t && isdev c s && memz s (inc x t)) (addf (setinc x t (remove1 s (inc x t))) fLI t 1)
  | LIncLost t s =>
      guard (isdev c t && isdev c s && (1 <=? f x fLI t)) (setz (setz (addf x fLI t (-1)) zLASTF s) zILT t)
  | LKind d k => guard (isdev c d) (setf x fKIND d k)
  | LSearchPulse d => guard (isdev c d && (f x fS d =? IDLE) && (f x fC d =? 0)) x
  | LGiveUp dk db da =>
      (* lost_balls = playfield.balls; num_balls_known -= lost_balls; playfield.balls = 0;
         playfield.available_balls -= lost_balls (FIXED code, fixes/C04-give-up-keeps-promised-balls.patch; the
         unfixed code sets available_balls = 0: giveup_unfixed below) *)
      let n := z x zB in
      guard ((0 <=? n) && (dk =? n) && (db =? n) && (da =? n))
            (addz (addz (addz x zK (- n)) zB (- n)) zPA (- n))
  | SLeave s t =>
      if s =? PF then
        guard (isdev c t && (1 <=? z x zLOOSE)) (addz (addz x zLOOSE (-1)) zTR 1)
      else if negb (isdev c s && (1 <=? f x fPH s)) then None
      else if t =? PF then Some (addz (addf x fPH s (-1)) zLOOSE 1)
      else guard (isdev c t) (addz (addf x fPH s (-1)) zTR 1)
  | SArrive _ t =>
      guard (isdev c t && (1 <=? z x zTR) && (f x fPH t <? cap c t)) (addf (addz x zTR (-1)) fPH t 1)
  | SBounce _ _ => guard (1 <=? z x zTR) (addz (addz x zTR (-1)) zLOOSE 1)
  | SLeak d => guard (isdev c d && (1 <=? f x fPH d)) (addz (addf x fPH d (-1)) zLOOSE 1)
  | SNop => Some x
  | LSnap ds pf =>
      guard (forallb (snap_dev_ok x) ds &&
             match pf with
             | [b; pa; r; k] => (z x zB =? b) && (z x zPA =? pa) && (z x zR =? r) && (z x zK =? k)
             | _ => false
             end) x
  | LTruth ds loose => guard (forallb (truth_dev_ok x) ds && (z x zLOOSE =? loose)) x
  | LRest => guard (books_closedb c x) x
  | LStray => None
  end.

(* BallSearch.give_up as it is WITHOUT the fix: playfield.available_balls = 0 *)
Definition giveup_unfixed (x : st) : st :=
  let n := z x zB in setz (addz (addz x zK (- n)) zB (- n)) zPA 0.

(* ---------------------------------------------------------------------------------------------- *)
(* replay *)
Fixpoint run_from (c : cfg) (x : st) (ls : list label) : option st :=
  match ls with
  | [] => Some x
  | l :: ls' => match step c x l with Some x' => run_from c x' ls' | None => None end
  end.

(* index of the first label that is not accepted (-1: all accepted) *)
Fixpoint first_reject (c : cfg) (x : st) (ls : list label) (i : Z) : Z :=
  match ls with
  | [] => -1
  | l :: ls' => match step c x l with Some x' => first_reject c x' ls' (i + 1) | None => i end
  end.

(* initial state from the first snapshot of a run: per device [id; counted; available; state; physical],
   playfield [balls; available; requested; known; loose] ; transit 0 *)
Fixpoint init_devs (x : st) (ds : list (list Z)) : st :=
  match ds with
  | [d; cn; av; s; ph] :: ds' =>
      init_devs (setf (setf (setf (setf (setf x fC d cn) fA d av) fS d s) fPH d ph) fTG d NONE) ds'
  | _ => x
  end.

Definition empty : st := mk (fun _ _ => 0) (fun _ => 0) (fun _ => []) [].

Definition init (c : cfg) (ds : list (list Z)) (pf : list Z) : option st :=
  match pf with
  | [b; pa; r; k; loose] =>
      let x := init_devs empty ds in
      let x := setz (setz (setz (setz (setz (setz x zB b) zPA pa) zR r) zK k) zLOOSE loose) zLASTF NONE in
      let x := setz (setz x zILT NONE) zTOT (sumf (f x fPH) (devs c) + loose) in
      guard ((sumf (f x fC) (devs c) + b =? k) && (sumf (f x fA) (devs c) + pa =? k)
             && forallb (fun d => (0 <=? f x fC d) && (f x fC d <=? cap c d) && negb (blfc (f x fS d))) (devs c)) x
  | _ => None
  end.

Definition accepts (c : cfg) (ds : list (list Z)) (pf : list Z) (ls : list label) : bool :=
  match init c ds pf with
  | Some x => match run_from c x ls with Some _ => true | None => false end
  | None => false
  end.

(* correspondence entry point: -1 = the whole recorded run is accepted and every snapshot reproduced,
   -2 = the initial snapshot is not balanced, i >= 0 = index of the first label rejected *)
Definition c04_run (i : cfg * (list (list Z) * list Z) * list label) : Z :=
  let '(c, (ds, pf), ls) := i in
  match init c ds pf with
  | Some x => first_reject c x ls 0
  | None => -2
  end.
Definition c04_out_eqb (a b : Z) : bool := a =? b.
