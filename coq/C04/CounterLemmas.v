(* C04/CounterLemmas.v — proofs about the counting layer of Counter.v *)
From Common Require Import Prelude.
From C04 Require Import Counter.
Open Scope Z_scope.

Lemma nactive_bounds l : 0 <= nactive l <= Z.of_nat (length l).
Proof.
  induction l as [|[b t] l IH]; cbn [nactive length]; [lia|].
  rewrite Nat2Z.inj_succ. destruct b; lia.
Qed.

Lemma nactive_repeat_false t n : nactive (repeat (false, t) n) = 0.
Proof. induction n; cbn [repeat nactive]; [reflexivity | rewrite IHn; reflexivity]. Qed.

Lemma set_sw_length l k b t : length (set_sw l k b t) = length l.
Proof.
  revert k. induction l as [|[b' t'] l IH]; intros k; cbn [set_sw]; [destruct k; reflexivity|].
  destruct k; cbn [length]; [reflexivity | rewrite IH; reflexivity].
Qed.

(* ---------------------------------------------------------------------------------------------- *)
(* what a recount does to the fields the theorems speak about *)
Lemma recount_sws c s now : sws (recount c s now) = sws s.
Proof.
  unfold recount. destruct (jam_only c s); [reflexivity|].
  destruct (nactive (sws s) =? last s); [reflexivity|].
  destruct (last s <? nactive (sws s)); [|reflexivity].
  destruct (classify _ _ _ _ _ _) as [[en ne] nu]. reflexivity.
Qed.

Lemma recount_dirty c s now : dirty (recount c s now) = false.
Proof.
  unfold recount. destruct (jam_only c s); [reflexivity|].
  destruct (nactive (sws s) =? last s); [reflexivity|].
  destruct (last s <? nactive (sws s)); [|reflexivity].
  destruct (classify _ _ _ _ _ _) as [[en ne] nu]. reflexivity.
Qed.

Lemma jam_only_ext c s s' : sws s' = sws s -> last s' = last s -> jam_only c s' = jam_only c s.
Proof. intros H1 H2. unfold jam_only, jam_on. rewrite H1, H2. reflexivity. Qed.

(* after a recount the count is the number of active switches, or only the jam switch is active and the
   counter says so *)
Lemma recount_exact c s now :
  let s' := recount c s now in
  last s' = nactive (sws s') \/ (jam_only c s' = true /\ unrel s' = true).
Proof.
  cbn zeta. unfold recount. destruct (jam_only c s) eqn:J.
  - right. split; [|reflexivity]. rewrite <- J. apply jam_only_ext; reflexivity.
  - destruct (nactive (sws s) =? last s) eqn:E.
    + left. apply Z.eqb_eq in E. cbn [last sws]. lia.
    + destruct (last s <? nactive (sws s)).
      * destruct (classify _ _ _ _ _ _) as [[en ne] nu]. left. reflexivity.
      * left. reflexivity.
Qed.

Lemma recount_last c s now : last (recount c s now) = last s \/ last (recount c s now) = nactive (sws s).
Proof.
  unfold recount. destruct (jam_only c s); [left; reflexivity|].
  destruct (nactive (sws s) =? last s); [left; reflexivity|].
  destruct (last s <? nactive (sws s)); [|right; reflexivity].
  destruct (classify _ _ _ _ _ _) as [[en ne] nu]. right. reflexivity.
Qed.

Lemma settle_sws c s t : sws (settle c s t) = sws s.
Proof. unfold settle. destruct (dirty s && _); [apply recount_sws | reflexivity]. Qed.

Lemma settle_clean c s t : dirty s = false -> settle c s t = s.
Proof. intros H. unfold settle. rewrite H. reflexivity. Qed.

(* ---------------------------------------------------------------------------------------------- *)
(* invariants of reachable states *)
Definition range_inv (s : cst) : Prop := 0 <= last s <= Z.of_nat (length (sws s)).

Definition exact_inv (c : ccfg) (s : cst) : Prop :=
  dirty s = false -> last s = nactive (sws s) \/ (jam_only c s = true /\ unrel s = true).

Lemma settle_range c s t : range_inv s -> range_inv (settle c s t).
Proof.
  unfold range_inv, settle. intros H. destruct (dirty s && _); [|assumption].
  rewrite recount_sws. destruct (recount_last c s (ready_at c (sws s))) as [E|E]; rewrite E; [assumption|].
  apply nactive_bounds.
Qed.

Lemma settle_exact c s t : exact_inv c s -> exact_inv c (settle c s t).
Proof.
  unfold exact_inv, settle. intros H. destruct (dirty s && _); [|assumption].
  intros _. apply recount_exact.
Qed.

Lemma cstep_range c s e : range_inv s -> range_inv (cstep c s e).
Proof.
  intros H. destruct e as [t k b|t|t]; cbn [cstep].
  - pose proof (settle_range c s t H) as H1. destruct (Bool.eqb _ b); [assumption|].
    unfold range_inv, with_sws in *. cbn [last sws]. rewrite set_sw_length. assumption.
  - pose proof (settle_range c s t H) as H1. unfold range_inv, with_entr in *. cbn [last sws]. assumption.
  - apply settle_range; assumption.
Qed.

Lemma cstep_exact c s e : exact_inv c s -> exact_inv c (cstep c s e).
Proof.
  intros H. destruct e as [t k b|t|t]; cbn [cstep].
  - pose proof (settle_exact c s t H) as H1. destruct (Bool.eqb _ b); [assumption|].
    unfold exact_inv, with_sws. cbn [dirty]. discriminate.
  - pose proof (settle_exact c s t H) as H1. unfold exact_inv, with_entr in *. cbn [dirty last sws unrel].
    intros D. destruct (H1 D) as [E|[E1 E2]]; [left; assumption|]. right. split; [|assumption].
    rewrite <- E1. apply jam_only_ext; reflexivity.
  - apply settle_exact; assumption.
Qed.

Lemma cstep_length c s e : length (sws (cstep c s e)) = length (sws s).
Proof.
  destruct e as [t k b|t|t]; cbn [cstep].
  - destruct (Bool.eqb _ b); [rewrite settle_sws; reflexivity|].
    unfold with_sws. cbn [sws]. rewrite set_sw_length, settle_sws. reflexivity.
  - unfold with_entr. cbn [sws]. rewrite settle_sws. reflexivity.
  - rewrite settle_sws. reflexivity.
Qed.

Lemma crun_inv c s l : range_inv s -> exact_inv c s ->
  range_inv (crun c s l) /\ exact_inv c (crun c s l) /\ length (sws (crun c s l)) = length (sws s).
Proof.
  revert s. induction l as [|e l IH]; intros s R E; cbn [crun]; [auto|].
  destruct (IH (cstep c s e) (cstep_range c s e R) (cstep_exact c s e E)) as [A [B C]].
  rewrite cstep_length in C. auto.
Qed.

Lemma cinit_inv c : range_inv (cinit c) /\ exact_inv c (cinit c) /\ length (sws (cinit c)) = nsw c.
Proof.
  unfold range_inv, exact_inv, cinit. cbn [last sws dirty]. rewrite repeat_length, nactive_repeat_false.
  repeat split; try lia.
Qed.

(* ---------------------------------------------------------------------------------------------- *)
(* property-level statements *)

(* counted balls never exceed the number of switches (capacity, + 1 with a jam switch), never negative *)
Lemma switch_count_in_range_l c evs :
  let s := crun c (cinit c) evs in
  0 <= last s <= Z.of_nat (nsw c).
Proof.
  cbn zeta. destruct (cinit_inv c) as [R [E L]]. destruct (crun_inv c _ evs R E) as [R' [_ L']].
  unfold range_inv in R'. rewrite L', L in R'. assumption.
Qed.

Lemma nsw_cap c : 0 <= c_n c -> Z.of_nat (nsw c) = c_n c + (if c_jam c then 1 else 0).
Proof. intros H. unfold nsw. rewrite Nat2Z.inj_add, Z2Nat.id by assumption. destruct (c_jam c); reflexivity. Qed.

(* a physical state that has been stable for at least the count delays is reported exactly *)
Lemma stable_state_reported_l c evs t :
  let s := crun c (cinit c) evs in
  ready_at c (sws s) <= t ->
  let s' := settle c s t in
  sws s' = sws s /\
  (last s' = nactive (sws s) \/ (jam_only c s' = true /\ unrel s' = true)).
Proof.
  cbn zeta. intros Hr. split; [apply settle_sws|].
  destruct (cinit_inv c) as [R [E _]]. destruct (crun_inv c _ evs R E) as [_ [E' _]].
  remember (crun c (cinit c) evs) as s. unfold settle.
  destruct (dirty s) eqn:D; cbn [andb].
  - apply Z.leb_le in Hr. rewrite Hr.
    pose proof (recount_exact c s (ready_at c (sws s))) as X. cbn zeta in X. rewrite recount_sws in X. exact X.
  - apply E'. assumption.
Qed.

Lemma jam_only_nojam c s : c_jam c = false -> jam_only c s = false.
Proof. intros H. unfold jam_only, jam_on. rewrite H. reflexivity. Qed.

Lemma stable_state_reported_nojam_l c evs t :
  c_jam c = false ->
  let s := crun c (cinit c) evs in
  ready_at c (sws s) <= t -> last (settle c s t) = nactive (sws s).
Proof.
  cbn zeta. intros J Hr. destruct (stable_state_reported_l c evs t Hr) as [_ [E|[E _]]]; [assumption|].
  rewrite jam_only_nojam in E by assumption. discriminate.
Qed.

(* no count change without a switch change: from a state whose last recount is done, any sequence of ticks and
   entrance events leaves count, switches and flags alone *)
Lemma quiet_run_keeps_count_l c s evs :
  dirty s = false -> forallb (fun e => negb (is_sw e)) evs = true ->
  let s' := crun c s evs in
  last s' = last s /\ sws s' = sws s /\ unrel s' = unrel s /\ dirty s' = false.
Proof.
  cbn zeta. revert s. induction evs as [|e evs IH]; intros s D H; cbn [crun]; [auto|].
  cbn [forallb] in H. apply andb_true_iff in H as [He H].
  destruct e as [t k b|t|t]; cbn [is_sw negb] in He; [discriminate| |]; cbn [cstep]; rewrite settle_clean by assumption.
  - destruct (IH (with_entr s (filter (fun e => t - c_evto c <? e) (entr s) ++ [t])) D H) as [A [B [C E]]].
    auto.
  - apply IH; assumption.
Qed.

(* the count only moves in a recount that a real switch change made necessary *)
Lemma count_change_needs_dirty_l c s e : last (cstep c s e) <> last s -> dirty s = true.
Proof.
  intros H. destruct (dirty s) eqn:D; [reflexivity|]. exfalso. apply H.
  destruct e as [t k b|t|t]; cbn [cstep]; rewrite settle_clean by assumption.
  - destruct (Bool.eqb _ b); reflexivity.
  - reflexivity.
  - reflexivity.
Qed.

(* a device in which a switch has been active for the count delays is never reported empty: in particular a lone ball
   that comes to rest on the jam switch of an EMPTY device is counted (the "keep the previous count" rule of the
   only-jam-switch case applies to a previous count other than 0 only) *)
Lemma stable_nonempty_counted_l c evs t :
  let s := crun c (cinit c) evs in
  ready_at c (sws s) <= t -> 1 <= nactive (sws s) -> 1 <= last (settle c s t).
Proof.
  cbn zeta. intros Hr Hn. destruct (stable_state_reported_l c evs t Hr) as [_ [E|[E _]]]; [lia|].
  unfold jam_only in E. apply andb_true_iff in E as [_ E]. apply negb_true_iff in E. apply Z.eqb_neq in E.
  destruct (cinit_inv c) as [R [X _]]. destruct (crun_inv c _ evs R X) as [R' _].
  pose proof (settle_range c _ t R') as Q. unfold range_inv in Q. lia.
Qed.

Lemma lone_ball_counted_l c s now :
  last s = 0 -> nactive (sws s) = 1 -> last (recount c s now) = 1 /\ unrel (recount c s now) = false.
Proof.
  intros L N. unfold recount. unfold jam_only. rewrite L, N. cbn [Z.eqb negb andb].
  rewrite andb_false_r. cbn [Z.ltb Z.compare Z.sub Z.to_nat Z.add Z.opp Z.pos_sub].
  match goal with |- context [classify ?a ?b ?k ?d ?e ?g] => destruct (classify a b k d e g) as [[en ne] nu] end.
  cbn [last unrel]. split; reflexivity.
Qed.

(* ---------------------------------------------------------------------------------------------- *)
(* entrance counter *)
Definition erange (c : ecfg) (s : est) : Prop := 0 <= e_last s <= e_cap c.

Lemma ehit_range c s t k : erange c s -> erange c (ehit c s t k).
Proof.
  unfold erange. intros H. unfold ehit. destruct (in_window (e_win s) k t); [assumption|].
  destruct (e_cap c <=? e_last s) eqn:E; cbn [e_last]; [assumption|]. apply Z.leb_gt in E. lia.
Qed.

Lemma entrance_count_in_range_l c evs : 0 <= e_cap c -> erange c (erun c einit evs).
Proof.
  intros H. assert (G : forall s, erange c s -> erange c (erun c s evs)).
  { induction evs as [|e evs IH]; intros s R; cbn [erun]; [assumption|]. apply IH. unfold estep. apply ehit_range, R. }
  apply G. unfold erange, einit. cbn [e_last]. lia.
Qed.

(* every counted ball was an accepted hit: count = number of entrance activities *)
Lemma ehit_acts c s t k : e_last s = e_nent s -> e_last (ehit c s t k) = e_nent (ehit c s t k).
Proof.
  intros H. unfold ehit. destruct (in_window (e_win s) k t); [assumption|].
  destruct (e_cap c <=? e_last s); cbn [e_last e_nent]; lia.
Qed.

(* a hit through an entrance whose OWN window is not open is counted while there is room, whatever the windows of the
   other entrances *)
Lemma ehit_counts c s t k :
  in_window (e_win s) k t = false -> e_last s < e_cap c -> e_last (ehit c s t k) = e_last s + 1.
Proof.
  intros W R. unfold ehit. rewrite W. destruct (e_cap c <=? e_last s) eqn:E; [apply Z.leb_le in E; lia|]. reflexivity.
Qed.

(* a hit opens / keeps the window of its own entrance only *)
Lemma ehit_win_other c s t k k' : k' <> k -> wlook k' (e_win (ehit c s t k)) = wlook k' (e_win s).
Proof.
  intros N. unfold ehit. destruct (in_window (e_win s) k t); [reflexivity|].
  assert (Q : (k =? k') = false) by (apply Z.eqb_neq; congruence).
  destruct (0 <? e_ignore c); destruct (e_cap c <=? e_last s); cbn [e_win wlook]; rewrite ?Q; reflexivity.
Qed.

(* balls that come in through pairwise different entrances are all counted (up to the capacity), however close together
   and whatever the ignore window *)
Lemma distinct_entrances_all_counted_l c evs :
  NoDup (map ename evs) -> Z.of_nat (length evs) <= e_cap c ->
  e_last (erun c einit evs) = Z.of_nat (length evs).
Proof.
  assert (G : forall s, (forall e, In e evs -> wlook (ename e) (e_win s) = None) -> NoDup (map ename evs) ->
                        e_last s + Z.of_nat (length evs) <= e_cap c ->
                        e_last (erun c s evs) = e_last s + Z.of_nat (length evs)).
  { induction evs as [|e evs IH]; intros s W ND L; cbn [erun length]; [cbn; lia|].
    cbn [map] in ND. inversion ND as [|? ? Hn ND']; subst.
    cbn [length] in L. rewrite Nat2Z.inj_succ in *.
    assert (Wn : in_window (e_win s) (ename e) (etime e) = false).
    { unfold in_window. rewrite (W e) by (left; reflexivity). reflexivity. }
    rewrite IH; [| | assumption |].
    - unfold estep. rewrite ehit_counts by (assumption || lia). lia.
    - intros e' He'. unfold estep. rewrite ehit_win_other.
      + apply W. right; assumption.
      + intros Q. apply Hn. rewrite <- Q. apply in_map. assumption.
    - unfold estep. rewrite ehit_counts by (assumption || lia). lia. }
  intros ND L. rewrite G; [reflexivity | reflexivity | assumption | cbn [einit e_last]; lia].
Qed.

Lemma two_entrances_example_l :
  etrace (mke 3 3000) einit [EHit 0 0; EHit 500 1; EEvent 625; EHit 1000 0; EHit 3000 0]
  = [[1; 1]; [2; 2]; [3; 3]; [3; 3]; [3; 3]].
Proof. vm_compute. reflexivity. Qed.

Lemma counter_run_example_l :
  ctrace (mkc 3 false 500 500 5000) (cinit (mkc 3 false 500 500 5000))
         [CSw 0 0 true; CSw 125 1 true; CTick 500; CTick 625; CSw 1000 1 false; CSw 1125 1 true; CSw 1250 1 false;
          CTick 1700; CTick 1750]
  = [[0;0;0;0;0;0]; [0;0;0;0;0;0]; [0;0;0;0;0;0]; [2;0;0;2;0;0]; [2;0;0;2;0;0]; [2;0;0;2;0;0]; [2;0;0;2;0;0];
     [2;0;0;2;0;0]; [1;0;1;2;0;0]].
Proof. vm_compute. reflexivity. Qed.
