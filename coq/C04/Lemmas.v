(* C04/Lemmas.v — proofs about the ledger of Model.v *)
From Common Require Import Prelude.
From C04 Require Import Model.
Open Scope Z_scope.

(* ---------------------------------------------------------------------------------------------- *)
(* sums over the device list *)
Lemma sumf_ext g h l : (forall d, In d l -> g d = h d) -> sumf g l = sumf h l.
Proof.
  induction l as [|e l IH]; cbn; intros H; [reflexivity|].
  rewrite (H e) by (left; reflexivity). rewrite IH; [reflexivity|]. intros; apply H; right; assumption.
Qed.

Lemma sumf_upd_notin g d v l : ~ In d l -> sumf (fun e => if e =? d then v else g e) l = sumf g l.
Proof.
  intros H. apply sumf_ext. intros e He. destruct (e =? d) eqn:E; [|reflexivity].
  apply Z.eqb_eq in E; subst. contradiction.
Qed.

Lemma sumf_upd_in g d v l : NoDup l -> In d l ->
  sumf (fun e => if e =? d then v else g e) l = sumf g l - g d + v.
Proof.
  induction l as [|e l IH]; cbn; intros ND HI; [contradiction|].
  inversion ND as [|? ? Hn ND']; subst.
  destruct HI as [->|HI].
  - rewrite Z.eqb_refl. rewrite sumf_upd_notin by assumption. lia.
  - destruct (e =? d) eqn:E.
    + apply Z.eqb_eq in E; subst. contradiction.
    + rewrite IH by assumption. lia.
Qed.

Lemma isdev_In c d : isdev c d = true -> In d (devs c).
Proof.
  unfold isdev. intros H. apply existsb_exists in H as [e [He E]]. apply Z.eqb_eq in E; subst; assumption.
Qed.

(* ---------------------------------------------------------------------------------------------- *)
(* projections of the setters *)
Lemma f_setz x k v : f (setz x k v) = f x. Proof. reflexivity. Qed.
Lemma f_addz x k v : f (addz x k v) = f x. Proof. reflexivity. Qed.
Lemma f_setinc x d l : f (setinc x d l) = f x. Proof. reflexivity. Qed.
Lemma f_setpfq x l : f (setpfq x l) = f x. Proof. reflexivity. Qed.
Lemma z_setf x a d v : z (setf x a d v) = z x. Proof. reflexivity. Qed.
Lemma z_addf x a d v : z (addf x a d v) = z x. Proof. reflexivity. Qed.
Lemma z_setinc x d l : z (setinc x d l) = z x. Proof. reflexivity. Qed.
Lemma z_setpfq x l : z (setpfq x l) = z x. Proof. reflexivity. Qed.

Lemma z_setz_same x k v : z (setz x k v) k = v.
Proof. unfold setz, upd1; cbn. rewrite Z.eqb_refl. reflexivity. Qed.
Lemma z_setz_other x k k' v : (k' =? k) = false -> z (setz x k v) k' = z x k'.
Proof. intros H. unfold setz, upd1; cbn. rewrite H. reflexivity. Qed.
Lemma z_addz_same x k v : z (addz x k v) k = z x k + v.
Proof. unfold addz. apply z_setz_same. Qed.
Lemma z_addz_other x k k' v : (k' =? k) = false -> z (addz x k v) k' = z x k'.
Proof. unfold addz. apply z_setz_other. Qed.

Lemma f_setf_otherfield x a a' d v e : (a' =? a) = false -> f (setf x a d v) a' e = f x a' e.
Proof. intros H. unfold setf, upd2; cbn. rewrite H. reflexivity. Qed.
Lemma f_setf_same x a d v : f (setf x a d v) a d = v.
Proof. unfold setf, upd2; cbn. rewrite !Z.eqb_refl. reflexivity. Qed.
Lemma f_setf_otherdev x a d v e : (e =? d) = false -> f (setf x a d v) a e = f x a e.
Proof. intros H. unfold setf, upd2; cbn. rewrite H, andb_false_r. reflexivity. Qed.
Lemma f_addf_otherfield x a a' d v e : (a' =? a) = false -> f (addf x a d v) a' e = f x a' e.
Proof. unfold addf. apply f_setf_otherfield. Qed.
Lemma f_addf_same x a d v : f (addf x a d v) a d = f x a d + v.
Proof. unfold addf. apply f_setf_same. Qed.
Lemma f_addf_otherdev x a d v e : (e =? d) = false -> f (addf x a d v) a e = f x a e.
Proof. unfold addf. apply f_setf_otherdev. Qed.

Lemma sum_setf_other x a a' d v l : (a' =? a) = false -> sumf (f (setf x a d v) a') l = sumf (f x a') l.
Proof. intros H. apply sumf_ext. intros e _. apply f_setf_otherfield; assumption. Qed.
Lemma sum_addf_other x a a' d v l : (a' =? a) = false -> sumf (f (addf x a d v) a') l = sumf (f x a') l.
Proof. unfold addf. apply sum_setf_other. Qed.
Lemma sum_setf_same x a d v l : NoDup l -> In d l ->
  sumf (f (setf x a d v) a) l = sumf (f x a) l - f x a d + v.
Proof.
  intros ND HI. rewrite <- (sumf_upd_in (f x a) d v l ND HI). apply sumf_ext. intros e _.
  unfold setf, upd2; cbn. rewrite Z.eqb_refl. reflexivity.
Qed.
Lemma sum_addf_same x a d v l : NoDup l -> In d l ->
  sumf (f (addf x a d v) a) l = sumf (f x a) l + v.
Proof. intros ND HI. unfold addf. rewrite sum_setf_same by assumption. lia. Qed.

(* ---------------------------------------------------------------------------------------------- *)
(* the step invariants *)
Definition sum_inv (c : cfg) (x : st) : Prop :=
  sumf (f x fC) (devs c) + z x zB =
  z x zK + sumf (f x fU) (devs c) + sumf (f x fCF) (devs c) - z x zREM - sumf (f x fM) (devs c).

Definition avail_inv (c : cfg) (x : st) : Prop :=
  sumf (f x fA) (devs c) + z x zPA + z x zQ + z x zW = z x zK + z x zXS.

Definition phys_inv (c : cfg) (x : st) : Prop :=
  sumf (f x fPH) (devs c) + z x zLOOSE + z x zTR = z x zTOT.

Definition inv (c : cfg) (x : st) : Prop := sum_inv c x /\ avail_inv c x /\ phys_inv c x.

Ltac fld := reflexivity.

Ltac norm :=
  repeat first
    [ rewrite f_setz | rewrite f_addz | rewrite f_setinc | rewrite f_setpfq
    | rewrite z_setf | rewrite z_addf | rewrite z_setinc | rewrite z_setpfq
    | rewrite z_setz_same | rewrite z_addz_same
    | rewrite z_setz_other by fld | rewrite z_addz_other by fld
    | rewrite sum_addf_same by assumption
    | rewrite sum_setf_same by assumption
    | rewrite sum_addf_other by fld
    | rewrite sum_setf_other by fld
    | rewrite f_addf_same | rewrite f_setf_same
    | rewrite f_addf_otherfield by fld | rewrite f_setf_otherfield by fld ].

(* turn the boolean guards in the context into facts *)
Ltac boolfacts :=
  repeat match goal with
  | H : negb _ = false |- _ => apply negb_false_iff in H
  | H : negb _ = true |- _ => apply negb_true_iff in H
  | H : _ && _ = true |- _ => apply andb_true_iff in H; destruct H
  | H : (_ <=? _) = true |- _ => apply Z.leb_le in H
  | H : (_ <? _) = true |- _ => apply Z.ltb_lt in H
  | H : (_ <=? _) = false |- _ => apply Z.leb_gt in H
  | H : (_ =? _) = true |- _ => apply Z.eqb_eq in H
  | H : isdev _ _ = true |- _ => apply isdev_In in H
  end.

Ltac split_ifs H :=
  repeat match type of H with
  | context [if ?b then _ else _] => let E := fresh "E" in destruct b eqn:E
  | context [match ?l with [] => _ | _ :: _ => _ end] => let E := fresh "E" in destruct l eqn:E
  | context [match ?o with Some _ => _ | None => _ end] =>
      let E := fresh "E" in destruct o as [[? ?]|] eqn:E
  end; try discriminate H.

Lemma step_inv c x l y : NoDup (devs c) -> inv c x -> step c x l = Some y -> inv c y.
Proof.
  intros ND [Hs [Ha Hp]] H. unfold sum_inv, avail_inv, phys_inv in *.
  destruct l; cbn [step] in H; unfold guard in H; split_ifs H;
    try (inversion H; subst y; clear H); boolfacts; subst;
    unfold inv, sum_inv, avail_inv, phys_inv; norm; try (repeat split; lia).
Qed.

(* ---------------------------------------------------------------------------------------------- *)
(* bounds *)
Definition bd_inv (c : cfg) (x : st) : Prop :=
  forall d, In d (devs c) ->
    0 <= f x fC d <= cap c d + 1
    /\ (blfc (f x fS d) = true -> f x fDEC d = 0 -> 1 <= f x fC d)
    /\ (f x fC d = cap c d + 1 -> blfc (f x fS d) = true /\ f x fDEC d = 0).

Lemma upd2_other_field g a d v a' e : (a' =? a) = false -> upd2 g a d v a' e = g a' e.
Proof. intros H. unfold upd2. rewrite H. reflexivity. Qed.

(* labels other than LCount / LState leave counted, state and the dec flag alone *)
Definition keeps (x y : st) : Prop :=
  forall e, f y fC e = f x fC e /\ f y fS e = f x fS e /\ f y fDEC e = f x fDEC e.

Lemma keeps_bd c x y : keeps x y -> bd_inv c x -> bd_inv c y.
Proof.
  intros K B d Hd. destruct (K d) as [-> [-> ->]]. apply B; assumption.
Qed.

Ltac keeps_tac := intros e; repeat split; norm; reflexivity.

Lemma blfc_cases s : blfc s = true -> s = BL \/ s = FC.
Proof.
  unfold blfc. intros H. apply orb_true_iff in H as [H|H]; apply Z.eqb_eq in H; auto.
Qed.

Ltac expose :=
  unfold addf, setf, setz, addz, setinc, setpfq, upd2, fC, fS, fDEC, fU, fCF, fM, fA, fTG, fPH, fXC, fLI, fRDY, fKIND in *;
  cbn [f z inc pfq Z.eqb Pos.eqb andb] in *.

Ltac bcase x d :=
  destruct (blfc (f x 2 d)) eqn:Eb; destruct (f x 7 d =? 0) eqn:Ez; cbn [andb] in *;
  [apply Z.eqb_eq in Ez | apply Z.eqb_neq in Ez | apply Z.eqb_eq in Ez | apply Z.eqb_neq in Ez].

Ltac bsolve := intuition (try lia; try congruence; try discriminate).

Lemma step_bd_count c x d n y : bd_inv c x -> step c x (LCount d n) = Some y -> bd_inv c y.
Proof.
  intros B H. cbn [step] in H; unfold guard in H.
  split_ifs H; inversion H; subst y; clear H; boolfacts; intros e He; specialize (B e He);
    destruct B as [B1 [B2 B3]].
  all: expose.
  all: destruct (e =? d) eqn:Ed; [apply Z.eqb_eq in Ed; subst e|];
    try (split; [exact B1 | split; [exact B2 | exact B3]]).
  all: bcase x d; bsolve.
Qed.

Lemma step_bd_state c x d s y : bd_inv c x -> step c x (LState d s) = Some y -> bd_inv c y.
Proof.
  intros B H. cbn [step] in H; unfold guard in H.
  split_ifs H; inversion H; subst y; clear H; boolfacts; intros e He; specialize (B e He);
    destruct B as [B1 [B2 B3]].
  all: expose.
  all: destruct (e =? d) eqn:Ed; [apply Z.eqb_eq in Ed; subst e|];
    try (split; [exact B1 | split; [exact B2 | exact B3]]).
  all: try (assert (Hs : blfc s = false) by (unfold blfc; rewrite ?E0, ?E1, ?E2, ?E3; reflexivity)).
  all: try (bcase x d; bsolve; try (subst s; reflexivity);
            try (exfalso; match goal with E : f _ 2 _ = BL, Eb' : blfc (f _ 2 _) = false |- _ =>
                                    rewrite E in Eb'; discriminate Eb' end)).
Qed.

Lemma step_bd c x l y : bd_inv c x -> step c x l = Some y -> bd_inv c y.
Proof.
  intros B H.
  destruct l; try (eapply step_bd_count; eassumption); try (eapply step_bd_state; eassumption);
    cbn [step] in H; unfold guard in H;
    split_ifs H; try (inversion H; subst y; clear H);
    solve [ assumption | apply (keeps_bd c x); [keeps_tac | assumption] ].
Qed.

(* ---------------------------------------------------------------------------------------------- *)
(* runs *)
Lemma run_from_app c x l1 l2 y :
  run_from c x (l1 ++ l2) = Some y -> exists m, run_from c x l1 = Some m /\ run_from c m l2 = Some y.
Proof.
  revert x. induction l1 as [|l l1 IH]; cbn; intros x H.
  - exists x. split; [reflexivity | assumption].
  - destruct (step c x l) as [x'|]; [|discriminate]. apply IH; assumption.
Qed.

Lemma run_inv c x ls y : NoDup (devs c) -> inv c x -> bd_inv c x -> run_from c x ls = Some y ->
  inv c y /\ bd_inv c y.
Proof.
  intros ND. revert x. induction ls as [|l ls IH]; cbn; intros x I B H.
  - inversion H; subst. split; assumption.
  - destruct (step c x l) as [x'|] eqn:E; [|discriminate].
    apply (IH x'); [eapply step_inv; eassumption | eapply step_bd; eassumption | assumption].
Qed.

(* ---------------------------------------------------------------------------------------------- *)
(* the initial state *)
Lemma init_devs_z x ds : z (init_devs x ds) = z x.
Proof.
  revert x. induction ds as [|r ds IH]; intros x; cbn; [reflexivity|].
  destruct r as [|d [|cn [|av [|s [|ph [|? ?]]]]]]; try reflexivity. rewrite IH. reflexivity.
Qed.

Lemma init_devs_field x ds a e :
  (a =? fC) = false -> (a =? fA) = false -> (a =? fS) = false -> (a =? fPH) = false -> (a =? fTG) = false ->
  f (init_devs x ds) a e = f x a e.
Proof.
  intros H1 H2 H3 H4 H5. revert x. induction ds as [|r ds IH]; intros x; cbn; [reflexivity|].
  destruct r as [|d [|cn [|av [|s [|ph [|? ?]]]]]]; try reflexivity. rewrite IH.
  rewrite !f_setf_otherfield by assumption. reflexivity.
Qed.

Lemma sumf_zero_on g l : (forall e, In e l -> g e = 0) -> sumf g l = 0.
Proof.
  induction l as [|e l IH]; cbn; intros H; [reflexivity|].
  rewrite (H e) by (left; reflexivity). rewrite IH; [reflexivity|]. intros; apply H; right; assumption.
Qed.

Lemma sumf_zero g l : (forall e, g e = 0) -> sumf g l = 0.
Proof. intros H. induction l; cbn; [reflexivity|]. rewrite H, IHl. reflexivity. Qed.

Lemma init_inv c ds pf x : init c ds pf = Some x -> inv c x /\ bd_inv c x.
Proof.
  unfold init. destruct pf as [|b [|pa [|r [|k [|loose [|? ?]]]]]]; try discriminate.
  unfold guard.
  match goal with |- context [if ?g then _ else _] => destruct g eqn:G end; [|discriminate].
  intros H; inversion H; subst x; clear H.
  apply andb_true_iff in G as [G G3]. apply andb_true_iff in G as [G1 G2].
  apply Z.eqb_eq in G1, G2.
  repeat rewrite ?f_setz in G1, G2.
  split; [split; [|split]|].
  - unfold sum_inv. norm. rewrite init_devs_z.
    rewrite (sumf_zero (f (init_devs empty ds) fU)) by (intros; rewrite init_devs_field by reflexivity; reflexivity).
    rewrite (sumf_zero (f (init_devs empty ds) fCF)) by (intros; rewrite init_devs_field by reflexivity; reflexivity).
    rewrite (sumf_zero (f (init_devs empty ds) fM)) by (intros; rewrite init_devs_field by reflexivity; reflexivity).
    cbn [empty z]. lia.
  - unfold avail_inv. norm. rewrite init_devs_z. cbn [empty z]. lia.
  - unfold phys_inv. norm. rewrite init_devs_z. cbn [empty z]. lia.
  - intros d Hd. rewrite forallb_forall in G3. specialize (G3 d Hd).
    apply andb_true_iff in G3 as [G3 G5]. apply andb_true_iff in G3 as [G3 G4].
    apply Z.leb_le in G3, G4. apply negb_true_iff in G5.
    repeat rewrite ?f_setz in G3, G4, G5. norm.
    split; [lia|]. split; [intros Hb; congruence|]. intros Q. lia.
Qed.

(* ---------------------------------------------------------------------------------------------- *)
(* property-level statements *)
Definition reach (c : cfg) (ds : list (list Z)) (pf : list Z) (pre : list label) (m : st) : Prop :=
  exists x, init c ds pf = Some x /\ run_from c x pre = Some m.

Lemma reach_inv c ds pf pre m : NoDup (devs c) -> reach c ds pf pre m -> inv c m /\ bd_inv c m.
Proof.
  intros ND [x [Hi Hr]]. destruct (init_inv _ _ _ _ Hi) as [I B]. eapply run_inv; eassumption.
Qed.

Lemma accepts_prefix_reach c ds pf pre post :
  accepts c ds pf (pre ++ post) = true -> exists m, reach c ds pf pre m.
Proof.
  unfold accepts, reach. destruct (init c ds pf) as [x|] eqn:Ei; [|discriminate].
  destruct (run_from c x (pre ++ post)) as [y|] eqn:Er; [|discriminate]. intros _.
  apply run_from_app in Er as [m [H1 _]]. exists m, x. split; [reflexivity | assumption].
Qed.

Lemma books_closed_facts c m : books_closedb c m = true ->
  (forall d, In d (devs c) -> f m fU d = 0 /\ f m fCF d = 0 /\ f m fM d = 0 /\ f m fDEC d = 0)
  /\ z m zREM = 0 /\ z m zQ = 0 /\ z m zW = 0.
Proof.
  unfold books_closedb. intros H.
  apply andb_true_iff in H as [H H4]. apply andb_true_iff in H as [H H3]. apply andb_true_iff in H as [H1 H2].
  apply Z.eqb_eq in H2, H3, H4. rewrite forallb_forall in H1.
  split; [|auto]. intros d Hd. specialize (H1 d Hd).
  apply andb_true_iff in H1 as [H1 Hd5].
  apply andb_true_iff in H1 as [H1 Hd4]. apply andb_true_iff in H1 as [H1 Hd3]. apply andb_true_iff in H1 as [Hd1 Hd2].
  apply Z.eqb_eq in Hd1, Hd2, Hd3, Hd4. auto.
Qed.

Lemma ledger_conservation_l c ds pf pre m :
  NoDup (devs c) -> reach c ds pf pre m -> books_closedb c m = true ->
     sumf (f m fC) (devs c) + z m zB = z m zK
  /\ sumf (f m fA) (devs c) + z m zPA = z m zK + z m zXS
  /\ ((forall d, In d (devs c) -> blfc (f m fS d) = false) -> sumf (balls m) (devs c) + z m zB = z m zK)
  /\ ((forall d, In d (devs c) -> f m fC d = f m fPH d) -> z m zTR = 0 ->
        z m zB + (z m zTOT - z m zK) = z m zLOOSE).
Proof.
  intros ND R BC. destruct (reach_inv _ _ _ _ _ ND R) as [[Is [Ia Ip]] _].
  destruct (books_closed_facts _ _ BC) as [Hd [Hr [Hq Hw]]].
  unfold sum_inv, avail_inv, phys_inv in *.
  rewrite (sumf_zero_on (f m fU)) in Is by (intros; apply Hd; assumption).
  rewrite (sumf_zero_on (f m fCF)) in Is by (intros; apply Hd; assumption).
  rewrite (sumf_zero_on (f m fM)) in Is by (intros; apply Hd; assumption).
  repeat split; try lia.
  - intros Hs. rewrite (sumf_ext (balls m) (f m fC)); [lia|].
    intros d Hi. unfold balls. rewrite (Hs d Hi). reflexivity.
  - intros Hc Ht. rewrite (sumf_ext (f m fC) (f m fPH)) in Is by assumption. lia.
Qed.

Lemma counts_in_bounds_l c ds pf pre m d :
  NoDup (devs c) -> reach c ds pf pre m -> In d (devs c) ->
  0 <= f m fC d <= cap c d + 1 /\ (f m fDEC d = 0 -> 0 <= balls m d <= cap c d).
Proof.
  intros ND R Hd. destruct (reach_inv _ _ _ _ _ ND R) as [_ B]. destruct (B d Hd) as [B1 [B2 B3]].
  split; [assumption|]. intros Hz. unfold balls. destruct (blfc (f m fS d)) eqn:E.
  - specialize (B2 eq_refl Hz). lia.
  - split; [lia|]. destruct (Z.eq_dec (f m fC d) (cap c d + 1)) as [Q|Q]; [|lia].
    destruct (B3 Q) as [Q1 _]. discriminate Q1.
Qed.

Lemma snapshot_observable_l c x ds pf y d cn av s ic :
  step c x (LSnap ds pf) = Some y -> In [d; cn; av; s; ic] ds ->
  y = x /\ f x fC d = cn /\ f x fA d = av /\ f x fS d = s /\ f x fDEC d = 0.
Proof.
  cbn [step]. unfold guard.
  match goal with |- context [if ?g then _ else _] => destruct g eqn:G end; [|discriminate].
  intros H Hin. inversion H; subst y. apply andb_true_iff in G as [G _].
  rewrite forallb_forall in G. specialize (G _ Hin). cbn [snap_dev_ok] in G.
  repeat (apply andb_true_iff in G as [G ?]). boolfacts. auto.
Qed.

Lemma eject_only_if_room_l c x d y :
  step c x (LPulse d) = Some y ->
  y = x /\ (f x fS d = EJECTING \/ f x fS d = BL) /\ f x fRDY d = 1.
Proof.
  cbn [step]. unfold guard. intros H.
  match type of H with (if ?g then _ else _) = _ => destruct g eqn:G end; [|discriminate].
  inversion H; subst y; clear H.
  apply andb_true_iff in G as [G R]. apply andb_true_iff in G as [_ G]. apply Z.eqb_eq in R.
  apply orb_true_iff in G. split; [reflexivity|]. split; [|assumption].
  destruct G as [G|G]; apply Z.eqb_eq in G; auto.
Qed.

(* the readiness flag is only ever set by an accepted balldevice_d_ejecting_ball, and that is accepted for a device
   target only while it has a free place beyond the balls it expects from other sources *)
Lemma ready_only_if_room_l c x d t n y :
  step c x (LEjecting d t n) = Some y ->
  f y fRDY d = 1 /\ f y fTG d = t /\
  (t <> PF -> isdev c t = true /\ Z.of_nat (length (others d (inc x t))) < cap c t - f x fC t
              /\ (f x fKIND t = 1 -> f x fPH t < cap c t)).
Proof.
  cbn [step]. unfold guard. intros H.
  destruct (negb (isdev c d && ((t =? PF) || isdev c t))) eqn:E; [discriminate|].
  apply negb_false_iff in E. apply andb_true_iff in E as [_ E].
  destruct (t =? PF) eqn:T.
  - inversion H; subst y; clear H. apply Z.eqb_eq in T.
    split; [rewrite f_addz; apply f_setf_same|]. split.
    + rewrite f_addz. rewrite f_setf_otherfield by reflexivity. apply f_setf_same.
    + intros N. contradiction.
  - cbn [orb] in E.
    match type of H with (if ?g then _ else _) = _ => destruct g eqn:R end; [|discriminate].
    inversion H; subst y; clear H. apply andb_true_iff in R as [R R2]. apply Z.ltb_lt in R.
    split; [apply f_setf_same|]. split.
    + rewrite f_setf_otherfield by reflexivity. apply f_setf_same.
    + intros _. split; [assumption|]. split; [assumption|].
      intros K. rewrite K in R2. cbn in R2. apply Z.ltb_lt in R2. assumption.
Qed.

Lemma ready_flag_only_from_ejecting_l c x l y d :
  step c x l = Some y -> f x fRDY d <> 1 -> f y fRDY d = 1 -> exists t n, l = LEjecting d t n.
Proof.
  intros H N Y.
  destruct l; try (exfalso; apply N; rewrite <- Y; clear N Y;
    cbn [step] in H; unfold guard in H; split_ifs H; inversion H; subst y; clear H;
    repeat first [ rewrite f_setz | rewrite f_addz | rewrite f_setinc | rewrite f_setpfq
                 | rewrite f_addf_otherfield by reflexivity | rewrite f_setf_otherfield by reflexivity ];
    reflexivity).
  - (* LState *)
    exfalso. cbn [step] in H; unfold guard in H.
    destruct (Z.eq_dec d0 d) as [->|Nd].
    + split_ifs H; inversion H; subst y; clear H;
        repeat first [ rewrite f_setz in Y | rewrite f_addz in Y | rewrite f_setinc in Y | rewrite f_setpfq in Y
                     | rewrite f_addf_otherfield in Y by reflexivity | rewrite f_setf_otherfield in Y by reflexivity ];
        try (rewrite f_setf_same in Y; discriminate Y); try (apply N; exact Y).
    + assert (Q : (d =? d0) = false) by (apply Z.eqb_neq; congruence).
      split_ifs H; inversion H; subst y; clear H;
        repeat first [ rewrite f_setz in Y | rewrite f_addz in Y | rewrite f_setinc in Y | rewrite f_setpfq in Y
                     | rewrite f_addf_otherfield in Y by reflexivity | rewrite f_setf_otherfield in Y by reflexivity
                     | rewrite f_setf_otherdev in Y by exact Q ];
        apply N; exact Y.
  - (* LEjecting *)
    destruct (Z.eq_dec d0 d) as [->|Nd]; [eauto|]. exfalso.
    assert (Q : (d =? d0) = false) by (apply Z.eqb_neq; congruence).
    cbn [step] in H; unfold guard in H.
    split_ifs H; inversion H; subst y; clear H;
      repeat first [ rewrite f_setz in Y | rewrite f_addz in Y
                   | rewrite f_setf_otherfield in Y by reflexivity
                   | rewrite f_setf_otherdev in Y by exact Q ];
      apply N; exact Y.
Qed.

(* ball search *)
Lemma search_pulse_guard_l c x d y :
  step c x (LSearchPulse d) = Some y -> y = x /\ f x fS d = IDLE /\ f x fC d = 0.
Proof.
  cbn [step]. unfold guard. intros H.
  match type of H with (if ?g then _ else _) = _ => destruct g eqn:G end; [|discriminate].
  inversion H; subst y; clear H. boolfacts. auto.
Qed.

Lemma give_up_l c x dk db da y :
  step c x (LGiveUp dk db da) = Some y ->
  dk = z x zB /\ db = z x zB /\ da = z x zB /\ 0 <= z x zB /\
  z y zB = 0 /\ z y zK = z x zK - z x zB /\ z y zPA = z x zPA - z x zB /\
  z y zTOT - z y zK = (z x zTOT - z x zK) + z x zB /\ z y zLOOSE = z x zLOOSE /\ f y = f x.
Proof.
  cbn [step]. unfold guard. intros H.
  match type of H with (if ?g then _ else _) = _ => destruct g eqn:G end; [|discriminate].
  inversion H; subst y; clear H. boolfacts. subst.
  repeat split; norm; try lia; reflexivity.
Qed.

(* num_balls_known moves only when a new ball is found (+1) or the ball search gives up *)
Lemma known_only_changes_l c x l y :
  step c x l = Some y -> z y zK <> z x zK -> l = LFoundNew \/ exists dk db da, l = LGiveUp dk db da.
Proof.
  intros H N.
  destruct l; try (exfalso; apply N; clear N;
    cbn [step] in H; unfold guard in H; split_ifs H; inversion H; subst y; clear H; norm; reflexivity).
  - left; reflexivity.
  - right; eauto.
Qed.

(* BallSearch.give_up WITHOUT the fix (playfield.available_balls = 0): a ball promised to the playfield (eject chain
   set up, not yet arrived) loses its available ball *)
Definition cfgG : cfg := [(0, 2); (1, 1)].
Definition dsG : list (list Z) := [[0; 1; 1; 0; 1]; [1; 0; 0; 0; 0]].
Definition pfG : list Z := [1; 1; 0; 2; 1].
Definition preG : list label := [LKind 0 1; LKind 1 1; LChain 0 9; LSnap [[0; 1; 0; 0; 0]; [1; 0; 0; 0; 0]] [1; 2; 0; 2]].
Definition postG : list label :=
  [LGiveUp 1 1 1; LSnap [[0; 1; 0; 0; 0]; [1; 0; 0; 0; 0]] [0; 1; 0; 1]; LTruth [[0; 1]; [1; 0]] 1].

Definition availb (c : cfg) (x : st) : bool :=
  sumf (f x fA) (devs c) + z x zPA + z x zQ + z x zW =? z x zK + z x zXS.

Lemma witnessG :
  match init cfgG dsG pfG with
  | Some x0 => match run_from cfgG x0 preG with
               | Some m => availb cfgG m && negb (availb cfgG (giveup_unfixed m))
                           && (sumf (f (giveup_unfixed m) fC) (devs cfgG) + z (giveup_unfixed m) zB
                               =? z (giveup_unfixed m) zK)
               | None => false end
  | None => false end = true.
Proof. vm_compute. reflexivity. Qed.

Lemma give_up_run_accepted_l : accepts cfgG dsG pfG (preG ++ postG) = true.
Proof. vm_compute. reflexivity. Qed.

Lemma give_up_zeroing_available_refuted_l :
  exists c ds pf pre m,
    NoDup (devs c) /\ reach c ds pf pre m /\ avail_inv c m /\ ~ avail_inv c (giveup_unfixed m) /\
    sumf (f (giveup_unfixed m) fC) (devs c) + z (giveup_unfixed m) zB = z (giveup_unfixed m) zK.
Proof.
  exists cfgG, dsG, pfG, preG.
  pose proof witnessG as W.
  destruct (init cfgG dsG pfG) as [x0|] eqn:Ei; [|discriminate].
  destruct (run_from cfgG x0 preG) as [m|] eqn:Er; [|discriminate].
  exists m.
  apply andb_true_iff in W as [W W3]. apply andb_true_iff in W as [W1 W2].
  apply negb_true_iff in W2. unfold availb in W1, W2. apply Z.eqb_eq in W1, W3. apply Z.eqb_neq in W2.
  assert (ND : NoDup (devs cfgG)) by (cbn; repeat constructor; cbn; intuition lia).
  assert (R : reach cfgG dsG pfG preG m) by (exists x0; split; [exact Ei | exact Er]).
  repeat split; try assumption.
Qed.

(* a source is not announced ready towards a switch-counted target whose seats are all physically taken, even if the
   target's own count still shows room (the ball that filled it has not been counted yet) *)
Definition cfgP : cfg := [(0, 2); (1, 2)].
Definition dsP : list (list Z) := [[0; 1; 1; 0; 1]; [1; 1; 0; 0; 2]].
Definition pfP : list Z := [1; 2; 0; 3; 0].
Definition lsP (k : Z) : list label := [LKind 1 k; LState 0 WTR; LAttempt 0 1 0; LState 0 EJECTING; LEjecting 0 1 0].

Lemma full_target_rejected_l : c04_run (cfgP, (dsP, pfP), lsP 1) = 4 /\ c04_run (cfgP, (dsP, pfP), lsP 0) = -1.
Proof. vm_compute. split; reflexivity. Qed.

Lemma chain_needs_available_l c x s t y : step c x (LChain s t) = Some y -> 1 <= f x fA s.
Proof.
  cbn [step]. unfold guard. intros H. split_ifs H;
    apply negb_false_iff in E; apply andb_true_iff in E as [_ E]; apply Z.leb_le in E; assumption.
Qed.

(* witness: the plunger's ball drains (is captured by the trough) before any playfield switch confirmed the eject *)
Definition cfgW : cfg := [(0, 2); (1, 1)].
Definition dsW : list (list Z) := [[0; 0; 0; 0; 0]; [1; 1; 0; 0; 1]].
Definition pfW : list Z := [0; 1; 0; 1; 0].
Definition preW : list label :=
  [LState 1 WTR; LAttempt 1 PF 0; LState 1 EJECTING; LEjecting 1 PF 0; LPfReq 1; LPulse 1; SLeave 1 PF;
   LState 1 BL; SLeave PF 0; SArrive PF 0; LCount 0 1; LCaptured; LPfRemoved;
   LSnap [[0; 1; 0; 0; 0]; [1; 1; 0; 4; 0]] [-1; 0; 1; 1]].
Definition postW : list label :=
  [LEnter 0 1; LAdded 0; LEntered 0 1; LSuccess 1 PF; LPfAdded; LPfReq (-1); LCount 1 0; LState 1 EJECTING;
   LState 1 IDLE; LSnap [[0; 1; 1; 0; 0]; [1; 0; 0; 0; 0]] [0; 0; 0; 1]; LTruth [[0; 1]; [1; 0]] 0; LRest].

Lemma witness_accepted : accepts cfgW dsW pfW (preW ++ postW) = true.
Proof. vm_compute. reflexivity. Qed.

Lemma pf_balls_nonneg_refuted_l :
  exists c ds pf pre post m,
    NoDup (devs c) /\ accepts c ds pf (pre ++ post) = true /\ reach c ds pf pre m /\ z m zB = -1.
Proof.
  exists cfgW, dsW, pfW, preW, postW.
  destruct (init cfgW dsW pfW) as [x|] eqn:Ei; [|vm_compute in Ei; discriminate].
  destruct (run_from cfgW x preW) as [m|] eqn:Er.
  - exists m. split; [|split; [exact witness_accepted | split]].
    + cbn. repeat constructor; cbn; intuition lia.
    + exists x. split; [exact Ei | assumption].
    + assert (Hx : Some x = init cfgW dsW pfW) by (symmetry; assumption).
      assert (G : option_map (fun y => z y zB) (match init cfgW dsW pfW with Some x0 => run_from cfgW x0 preW | None => None end) = Some (-1))
        by (vm_compute; reflexivity).
      rewrite Ei, Er in G. cbn in G. inversion G. reflexivity.
  - exfalso.
    assert (G : (match init cfgW dsW pfW with Some x0 => run_from cfgW x0 preW | None => None end) <> None)
      by (vm_compute; discriminate).
    rewrite Ei, Er in G. apply G. reflexivity.
Qed.

(* ---------------------------------------------------------------------------------------------- *)
(* external eject confirmation (confirm_eject_type switch / event) and incoming balls that time out *)
Lemma pop_conf_confirmed l s r : pop_conf l = Some (s, r) -> s < UNCONF /\ In s l /\ length l = S (length r).
Proof.
  revert s r. induction l as [|e l IH]; intros s r H; cbn [pop_conf] in H; [discriminate|].
  destruct (e <? UNCONF) eqn:E.
  - inversion H; subst. apply Z.ltb_lt in E. split; [assumption | split; [left; reflexivity | reflexivity]].
  - destruct (pop_conf l) as [[s' r']|] eqn:P; [|discriminate]. inversion H; subst.
    destruct (IH s r' eq_refl) as [A [B C]]. split; [assumption | split; [right; assumption | cbn [length]; lia]].
Qed.

(* an arrival is only ever matched with a ball that can arrive (has passed its confirm switch / event), and it takes
   exactly that ball off the list *)
Lemma expected_arrival_is_confirmed_l c x d y :
  step c x (LEnter d 0) = Some y ->
  exists s r, pop_conf (inc x d) = Some (s, r) /\ s < UNCONF /\ In s (inc x d) /\ inc y d = r
              /\ f y fCF s = f x fCF s + 1.
Proof.
  cbn [step]. unfold guard. intros H.
  destruct (negb (isdev c d)); [discriminate|]. rewrite Z.eqb_refl in H.
  destruct (pop_conf (inc x d)) as [[s r]|] eqn:P; [|discriminate].
  destruct (isdev c s); [|discriminate]. inversion H; subst y; clear H.
  destruct (pop_conf_confirmed _ _ _ P) as [A [B _]].
  exists s, r. repeat split; try assumption.
  - unfold addf, setf, setinc, upd1; cbn [inc]. rewrite Z.eqb_refl. reflexivity.
  - rewrite f_addf_otherfield by reflexivity. rewrite f_addf_same. rewrite f_setinc. reflexivity.
Qed.

Lemma memz_In d l : memz d l = true -> In d l.
Proof.
  unfold memz. intros H. apply existsb_exists in H as [e [He E]]. apply Z.eqb_eq in E; subst; assumption.
Qed.

(* a ball is reported lost only while it is still expected: after it has been booked as arrived (taken off the list
   by LEnter) its timeout cannot be booked any more *)
Lemma incoming_lost_only_if_expected_l c x t s y :
  step c x (LIncTimeout t s) = Some y ->
  In s (inc x t) /\ length (inc x t) = S (length (inc y t)) /\ f y fLI t = f x fLI t + 1.
Proof.
  cbn [step]. unfold guard. intros H.
  destruct (isdev c t && isdev c s && memz s (inc x t)) eqn:G; [|discriminate].
  apply andb_true_iff in G as [_ G]. apply memz_In in G. inversion H; subst y; clear H.
  repeat split; [assumption | |].
  - unfold addf, setf, setinc, upd1; cbn [inc]. rewrite Z.eqb_refl.
    clear - G. induction (inc x t) as [|e l IH]; [contradiction|]. cbn [remove1].
    destruct (e =? s) eqn:E; [reflexivity|]. cbn [length]. f_equal. apply IH.
    destruct G as [->|G]; [rewrite Z.eqb_refl in E; discriminate | assumption].
  - unfold addf, setf, upd2; cbn [f]. rewrite !Z.eqb_refl. reflexivity.
Qed.

Lemma incoming_lost_needs_timeout_l c x t s y : step c x (LIncLost t s) = Some y -> 1 <= f x fLI t.
Proof.
  cbn [step]. unfold guard. intros H.
  destruct (isdev c t && isdev c s && (1 <=? f x fLI t)) eqn:G; [|discriminate].
  apply andb_true_iff in G as [_ G]. apply Z.leb_le in G. assumption.
Qed.

(* an external confirmation is accepted once per eject *)
Lemma confirmed_once_l c x d t y : step c x (LConfirmed d t) = Some y -> step c y (LConfirmed d t) = None.
Proof.
  cbn [step]. unfold guard. intros H.
  match type of H with (if ?g then _ else _) = _ => destruct g eqn:G end; [|discriminate].
  inversion H; subst y; clear H.
  assert (X : f (setf (setinc x t (replace1 (d + UNCONF) d (inc x t))) fXC d 2) fXC d = 2) by apply f_setf_same.
  rewrite X. replace (2 =? 1) with false by reflexivity. rewrite !andb_false_r. reflexivity.
Qed.

(* witness: a drained ball is ejected by the outhole, passes the confirm switch, dawdles beyond ball_missing_timeout,
   is booked as lost and then drops into the trough after all (recorded from the real code, snapshots thinned out) *)
Definition cfgX : cfg := [(0, 2); (1, 1); (3, 1)].
Definition dsX : list (list Z) := [[0; 1; 1; 0; 1]; [1; 0; 0; 0; 0]; [3; 0; 0; 0; 0]].
Definition pfX : list Z := [1; 1; 0; 2; 1].
Definition preX : list label :=
  [SLeave 9 3; SArrive 9 3; LCount 3 1; LCaptured; LPfRemoved; LEnter 3 1; LAdded 3; LChain 3 0; LEntered 3 1;
   LSnap [[0;1;2;0;0];[1;0;0;0;0];[3;1;0;0;0]] [0;0;0;2];
   LState 3 2; LAttempt 3 0 0; LState 3 3; LEjecting 3 0 0; LPulse 3; SLeave 3 0; LState 3 4; LExtWait 3; SNop;
   LConfirmed 3 0; LSuccess 3 0;
   LSnap [[0;1;2;0;1];[1;0;0;0;0];[3;1;0;4;0]] [0;0;0;2];
   LCount 3 0; LState 3 3; LState 3 0;
   LSnap [[0;1;2;0;1];[1;0;0;0;0];[3;0;0;0;0]] [0;0;0;2]].
Definition lostX : list label :=
  [LIncTimeout 0 3; LIncLost 0 3; LLost 0; LMissingEv 0;
   LSnap [[0;1;1;0;0];[1;0;0;0;0];[3;0;0;0;0]] [1;1;0;2];
   SArrive 3 0; LCount 0 2; LCaptured; LPfRemoved; LEnter 0 1; LAdded 0; LEntered 0 1;
   LSnap [[0;2;2;0;0];[1;0;0;0;0];[3;0;0;0;0]] [0;0;0;2]; LTruth [[0;2];[1;0];[3;0]] 0; LRest].
(* the same ball booked as arrived AND as lost (what a timeout list computed before waiting for the lock does) *)
Definition twiceX : list label :=
  [SArrive 3 0; LCount 0 2; LEnter 0 0; LEntered 0 0; LIncTimeout 0 3; LIncLost 0 3; LLost 0; LMissingEv 0].

Lemma witnessX_accepted : accepts cfgX dsX pfX (preX ++ lostX) = true.
Proof. vm_compute. reflexivity. Qed.

Lemma booked_twice_rejected_l : c04_run (cfgX, (dsX, pfX), preX ++ twiceX) = Z.of_nat (length preX) + 4.
Proof. vm_compute. reflexivity. Qed.

(* ---------------------------------------------------------------------------------------------- *)
(* DEFECT modelled faithfully (known finding available-balls-excess-after-unrestorable-incoming-loss):
   lost_incoming_ball at a device that has no current eject to cancel and no available ball of its own ("Failed to
   restore the path") books the lost ball to the playfield without taking an available ball away anywhere *)
Lemma unrestored_booking_guard_l c x y :
  step c x LMissingToPf = Some y -> z x zW <= 0 ->
  isdev c (z x zILT) = true /\ f x fA (z x zILT) <= 0 /\ z y zXS = z x zXS + 1.
Proof.
  cbn [step]. unfold guard. intros H W.
  destruct (1 <=? z x zW) eqn:E; [apply Z.leb_le in E; lia|].
  match type of H with (if ?g then _ else _) = _ => destruct g eqn:G end; [|discriminate].
  inversion H; subst y; clear H.
  apply andb_true_iff in G as [G A]. apply andb_true_iff in G as [_ G]. apply Z.leb_le in A.
  split; [assumption|]. split; [assumption|].
  norm. reflexivity.
Qed.

Lemma restored_booking_keeps_xs_l c x y :
  step c x LMissingToPf = Some y -> 1 <= z x zW -> z y zXS = z x zXS.
Proof.
  cbn [step]. unfold guard. intros H W.
  destruct (1 <=? z x zW) eqn:E; [|apply Z.leb_gt in E; lia].
  destruct (isdev c (z x zLASTF)); [|discriminate]. inversion H; subst y; clear H.
  norm. reflexivity.
Qed.

(* nothing else changes the excess *)
Lemma xs_only_from_unrestored_l c x l y :
  step c x l = Some y -> z y zXS <> z x zXS -> l = LMissingToPf /\ z x zW <= 0.
Proof.
  intros H N.
  destruct l; try (exfalso; apply N; clear N;
    cbn [step] in H; unfold guard in H; split_ifs H; inversion H; subst y; clear H; norm; reflexivity).
  split; [reflexivity|].
  destruct (Z_le_gt_dec (z x zW) 0) as [L|G]; [assumption|].
  exfalso. apply N. apply (restored_booking_keeps_xs_l c x y H). lia.
Qed.

Definition cfgS : cfg := [(0,4);(1,2);(2,2)].
Definition dsS : list (list Z) := [[0;4;4;0;4];[1;0;0;0;0];[2;0;0;0;0]].
Definition pfS : list Z := [0;0;0;4;0].
Definition preS : list label :=
  [LChain 0 9;
   LState 0 2;
   LAttempt 0 1 0;
   LState 1 1;
   LState 0 3;
   LEjecting 0 1 0;
   LPulse 0;
   SLeave 0 0;
   LState 0 4;
   LExtWait 0;
   SArrive 0 0;
   LChain 0 9;
   LState 0 5;
   LState 0 3;
   LFailed 0 1 1 1;
   LState 0 2;
   LAttempt 0 1 1;
   LState 0 3;
   LEjecting 0 1 1;
   LPulse 0;
   SLeave 0 1;
   LState 0 4;
   LExtWait 0;
   SNop;
   LConfirmed 0 1;
   LSuccess 0 1;
   LCount 0 3;
   LState 0 3;
   LState 0 0;
   LState 0 2;
   LAttempt 0 1 0;
   LState 0 3;
   LEjecting 0 1 0;
   LPulse 0;
   SLeave 0 1;
   LState 0 4;
   LExtWait 0;
   SNop;
   LConfirmed 0 1;
   LSuccess 0 1;
   LCount 0 2;
   LState 0 3;
   LState 0 0;
   SArrive 0 1;
   LEnter 1 0;
   LEntered 1 0;
   LCount 1 1;
   LState 1 2;
   LAttempt 1 9 0;
   LState 1 3;
   LEjecting 1 9 0;
   LPfReq 1;
   LPulse 1;
   SLeave 1 9;
   LState 1 4;
   LState 1 5;
   LSuccess 1 9;
   LPfAdded;
   LPfReq (-1);
   LCount 1 0;
   LState 1 3;
   LState 1 0;
   LIncTimeout 1 0;
   LIncLost 1 0;
   LMissingToPf;
   LMissingEv 1;
   LSnap [[0;2;2;0;0];[1;0;0;0;0];[2;0;0;0;0]] [2;3;0;4]].

Lemma witnessS_excess :
  match init cfgS dsS pfS with
  | Some x0 => match run_from cfgS x0 preS with
               | Some m => (z m zXS =? 1) && (sumf (f m fA) (devs cfgS) + z m zPA =? z m zK + 1)
                           && (sumf (f m fC) (devs cfgS) + z m zB =? z m zK)
                           && (z m zQ =? 0) && (z m zW =? 0)
               | None => false end
  | None => false end = true.
Proof. vm_compute. reflexivity. Qed.

(* "the available balls sum to num_balls_known whenever no booking is pending" is FALSE of the faithful ledger *)
Lemma available_sum_refuted_l :
  exists c ds pf pre m,
    NoDup (devs c) /\ reach c ds pf pre m /\ z m zQ = 0 /\ z m zW = 0 /\
    sumf (f m fA) (devs c) + z m zPA = z m zK + 1 /\ sumf (f m fC) (devs c) + z m zB = z m zK.
Proof.
  exists cfgS, dsS, pfS, preS.
  pose proof witnessS_excess as W.
  destruct (init cfgS dsS pfS) as [x0|] eqn:Ei; [|discriminate].
  destruct (run_from cfgS x0 preS) as [m|] eqn:Er; [|discriminate].
  exists m.
  apply andb_true_iff in W as [W W5]. apply andb_true_iff in W as [W W4].
  apply andb_true_iff in W as [W W3]. apply andb_true_iff in W as [W1 W2].
  apply Z.eqb_eq in W1, W2, W3, W4, W5.
  assert (ND : NoDup (devs cfgS)) by (cbn; repeat constructor; cbn; intuition lia).
  assert (R : reach cfgS dsS pfS preS m) by (exists x0; split; [exact Ei | exact Er]).
  repeat split; assumption.
Qed.

Lemma available_excess_only_from_unrestored_loss_l :
  forall c x l y,
    step c x l = Some y -> z y zXS <> z x zXS ->
    l = LMissingToPf /\ z x zW <= 0 /\
    isdev c (z x zILT) = true /\ f x fA (z x zILT) <= 0 /\ z y zXS = z x zXS + 1.
Proof.
  intros c x l y H N. destruct (xs_only_from_unrestored_l c x l y H N) as [-> W].
  destruct (unrestored_booking_guard_l c x y H W) as [A [B C]]. auto.
Qed.
