(* C16/Model.v — executable model of template evaluation in mpf/core/placeholder_manager.py
   (BasePlaceholderManager._eval*, BaseTemplate.evaluate / evaluate_and_subscribe, the *Placeholder
   classes and what their subscribe / subscribe_attribute wait for) and of the re-evaluate /
   re-subscribe loop of ConfigPlayer._update_subscription over a store of machine variables,
   settings, monitored device attributes, the players of the running game (current_player hand-over,
   players[n]), mode and game attributes.

   The three operator tables and the node-class dispatch table are NOT written here: gen/Tables.v is
   regenerated from the dict literals OPERATORS / BOOL_OPERATORS / COMPARISONS and from
   BasePlaceholderManager.__init__'s _eval_methods of the module on every run (harness/props/c16.py,
   translate()).

   The model is of the code WITH the proposed fixes fixes/C16-*.patch applied (see NOTES.md):
   unary operators convert TypeError into TemplateEvalError like the binary ones; IfExp keeps the
   subscriptions of its test when the taken branch fails; removing a machine variable posts
   machine_var_<name>; current_player / players placeholders are also woken when the game mode has
   stopped (mode_game_stopped).  The unfixed game-end behaviour is kept as [announced_unfixed].

   Definitions only; proofs are in Lemmas.v. *)
From Common Require Import Prelude.
From Coq Require Import QArith Qround.
From C16 Require Export Syntax.
From C16.gen Require Export Tables.
Open Scope Z_scope.

(* ---- cells and channels ------------------------------------------------------------------------
   A [loc] names a CELL of the machine state a template can read and/or a CHANNEL a template can wait
   on (an event name or a DeviceMonitor attribute future).  For machine variables, settings and device
   attributes cell and channel coincide.  A player variable is the cell [LPlayerI g i x] (variable x
   of player index i of the g-th game since boot: every game creates new Player objects); its channel
   is [LPlayerEv x] (event player_<x>, posted for a change of ANY player's x).  [LTurn] is the cell
   "which player is up / is there a game" and the channel player_turn_ended|player_turn_started
   (|mode_game_stopped); [LPlayers] the cell "how many players / is there a game" and the channel
   player_added|game_ended(|mode_game_stopped).  Mode and game attributes are cells without a channel:
   ModePlaceholder and the Game object have no subscribe(). *)
Inductive loc :=
  | LMachine (n : str)                 (* machine.n *)
  | LSetting (n : str)                 (* settings.n *)
  | LDevice (c d a : str)              (* device.c.d.a *)
  | LTurn
  | LPlayers
  | LPlayerI (g i : Z) (x : str)
  | LPlayerEv (x : str)                (* channel only *)
  | LMode (m a : str)                  (* mode.m.a *)
  | LGame (a : str).                   (* game.a *)

Definition loc_eqb (x y : loc) : bool :=
  match x, y with
  | LMachine a, LMachine b | LSetting a, LSetting b | LPlayerEv a, LPlayerEv b | LGame a, LGame b => zs_eqb a b
  | LDevice a b c, LDevice a' b' c' => zs_eqb a a' && zs_eqb b b' && zs_eqb c c'
  | LTurn, LTurn | LPlayers, LPlayers => true
  | LPlayerI g i a, LPlayerI g' i' a' => (g =? g') && (i =? i') && zs_eqb a a'
  | LMode a b, LMode a' b' => zs_eqb a a' && zs_eqb b b'
  | _, _ => false
  end.

(* the channel on which a change of the cell is announced *)
Definition chan_of (l : loc) : loc :=
  match l with LPlayerI _ _ x => LPlayerEv x | _ => l end.

(* what reading a cell gives: a value, ValueError (player outside a game, unknown device attribute,
   unknown mode, game outside a game), or another exception (unknown setting / device: AssertionError,
   unknown game attribute: AttributeError) *)
Inductive rd := RVal (v : value) | RValErr | RCrash.

Record env := mkEnv {
  params : list (str * value);         (* the [parameters] dict handed to evaluate() *)
  store : list (loc * rd);             (* explicit cell contents *)
  games : Z;                           (* number of games started since boot *)
  game : option (Z * Z) }.             (* running game: (index of the player who is up, number of players) *)

Fixpoint lookup_loc (l : loc) (s : list (loc * rd)) : option rd :=
  match s with
  | [] => None
  | (k, v) :: s' => if loc_eqb l k then Some v else lookup_loc l s'
  end.

Definition sread (e : env) (l : loc) : rd :=
  match l with
  | LMachine _ => match lookup_loc l (store e) with Some r => r | None => RVal VNone end
  | LSetting _ | LDevice _ _ _ => match lookup_loc l (store e) with Some r => r | None => RCrash end
  | LTurn => match game e with
             | Some (c, _) => RVal (VTuple [VInt (games e); VInt c])
             | None => RValErr                                    (* "Not in a game" *)
             end
  | LPlayers => match game e with
                | Some (_, n) => RVal (VTuple [VInt (games e); VInt n])
                | None => RValErr
                end
  | LPlayerI _ _ _ => match lookup_loc l (store e) with Some r => r | None => RVal (VInt 0) end   (* Player.__getattr__ *)
  | LPlayerEv _ => RCrash                                         (* not a cell *)
  | LMode _ _ => match lookup_loc l (store e) with Some r => r | None => RValErr end   (* not a valid mode name *)
  | LGame _ => match lookup_loc l (store e) with Some r => r | None => RCrash end   (* AttributeError *)
  end.

(* ---- what a template can name ------------------------------------------------------------------- *)
Inductive rdesc :=
  | RCell (l : loc)                    (* machine.n, settings.n, device.c.d.a, mode.m.a, game.a *)
  | RCur (x : str)                     (* current_player.x *)
  | RPlayerN (i : Z) (x : str).        (* players[i].x, constant i >= 0 *)

Definition rread (e : env) (r : rdesc) : rd :=
  match r with
  | RCell (LGame a) => match game e with
                       | Some _ => sread e (LGame a)
                       | None => RValErr                          (* Missing variable game *)
                       end
  | RCell l => sread e l
  | RCur x => match game e with
              | Some (c, _) => sread e (LPlayerI (games e) c x)
              | None => RValErr
              end
  | RPlayerN i x => match game e with
                    | Some (_, n) => if (0 <=? i) && (i <? n) then sread e (LPlayerI (games e) i x)
                                     else if i <? 0 then RCrash else RValErr      (* "Player not in game" *)
                    | None => RValErr
                    end
  end.

(* the cells Python's evaluation of the name reads *)
Definition rcells (e : env) (r : rdesc) : list loc :=
  match r with
  | RCell l => [l]
  | RCur x => LTurn :: match game e with Some (c, _) => [LPlayerI (games e) c x] | None => [] end
  | RPlayerN i x => LPlayers :: match game e with
                                | Some (_, n) => if (0 <=? i) && (i <? n) then [LPlayerI (games e) i x] else []
                                | None => []
                                end
  end.

(* the futures MPF's walk collects for it (futures that never complete are left out: machine.subscribe(),
   settings.subscribe(), Device*Placeholder.subscribe()) *)
Definition rsubs (r : rdesc) : list loc :=
  match r with
  | RCell l => [l]
  | RCur x => [LTurn; LPlayerEv x]
  | RPlayerN _ x => [LPlayers; LPlayerEv x]
  end.

Definition unsubscribable (r : rdesc) : bool :=
  match r with RCell (LMode _ _) | RCell (LGame _) => true | _ => false end.

(* ---- expressions ---------------------------------------------------------------------------- *)
(* BoolOp with n operands is the left-nested binary form: MPF folds [values] from the left after
   evaluating each operand in turn, which is exactly the evaluation order of the nested form.
   A tuple display (a, b, c) is ETupCons a (ETupCons b (ETupCons c ETupNil)): elements are evaluated
   left to right and the first exception wins, in Python and in MPF's _eval_tuple alike. *)
Inductive expr :=
  | ENum (z : Z) | EFlt (n : Z) (d : positive) | EStr (s : str) | ENone | EBoolC (b : bool)
  | EName (x : str)
  | ERead (r : rdesc)
  | EBin (o : opkey) (a b : expr)
  | EUn (o : opkey) (a : expr)
  | ECmp (o : cmpkey) (a b : expr)
  | EBool (o : boolkey) (a b : expr)
  | EIf (c a b : expr)
  | ETupNil
  | ETupCons (a rest : expr)
  | EIndex (a i : expr).               (* a[i] *)

Fixpoint is_tuple_expr (e : expr) : bool :=
  match e with ETupNil => true | ETupCons _ r => is_tuple_expr r | _ => false end.

Definition supported_read (r : rdesc) : bool :=
  match r with
  | RCell (LMachine _) | RCell (LSetting _) | RCell (LDevice _ _ _) | RCell (LMode _ _) | RCell (LGame _) => true
  | RCell _ => false
  | RCur _ => true
  | RPlayerN i _ => 0 <=? i
  end.

Fixpoint supported (e : expr) : bool :=
  match e with
  | ERead r => supported_read r
  | EBin o a b => supported_bin o && supported a && supported b
  | EUn o a => supported_un o && supported a
  | ECmp o a b => supported_cmp o && supported a && supported b
  | EBool _ a b => supported a && supported b
  | EIf c a b => supported c && supported a && supported b
  | ETupCons a r => is_tuple_expr r && supported a && supported r
  | EIndex a i => supported a && supported i
  | _ => true
  end.

(* no mode.* / game.* inside: the only names evaluate_and_subscribe cannot subscribe to *)
Fixpoint subscribable (e : expr) : bool :=
  match e with
  | ERead r => negb (unsubscribable r)
  | EBin _ a b | ECmp _ a b | EBool _ a b | ETupCons a b | EIndex a b => subscribable a && subscribable b
  | EUn _ a => subscribable a
  | EIf c a b => subscribable c && subscribable a && subscribable b
  | _ => true
  end.

(* ---- reference: Python's evaluation (all BoolOp operands evaluated) --------------------------- *)
Inductive pres :=
  | PVal (v : value) | PTypeErr | PZeroDiv | PIndexErr
  | PNameErr          (* a name that is not a parameter *)
  | PReadErr          (* the name cannot be read (ValueError) *)
  | PCrash            (* unknown setting / device / game attribute *)
  | PUnsup.

Definition pres_of (r : res) : pres :=
  match r with Val v => PVal v | TypeErr => PTypeErr | ZeroDiv => PZeroDiv | IndexErr => PIndexErr | Unsup => PUnsup end.

Definition pbind (r : pres) (k : value -> pres) : pres := match r with PVal v => k v | _ => r end.

Fixpoint py_eval (en : env) (e : expr) : pres :=
  match e with
  | ENum z => PVal (VInt z)
  | EFlt n d => PVal (VFloat n d)
  | EStr s => PVal (VStr s)
  | ENone => PVal VNone
  | EBoolC b => PVal (VBool b)
  | EName x => match assoc_z x (params en) with Some v => PVal v | None => PNameErr end
  | ERead r => match rread en r with RVal v => PVal v | RValErr => PReadErr | RCrash => PCrash end
  | EBin o a b => pbind (py_eval en a) (fun va => pbind (py_eval en b) (fun vb => pres_of (py_binop o va vb)))
  | EUn o a => pbind (py_eval en a) (fun va => pres_of (py_unop o va))
  | ECmp o a b => pbind (py_eval en a) (fun va => pbind (py_eval en b) (fun vb => pres_of (py_cmp o va vb)))
  | EBool o a b => pbind (py_eval en a) (fun va => pbind (py_eval en b) (fun vb => PVal (py_boolop o va vb)))
  | EIf c a b => pbind (py_eval en c) (fun vc => if truthy vc then py_eval en a else py_eval en b)
  | ETupNil => PVal (VTuple [])
  | ETupCons a r => pbind (py_eval en a) (fun va => pbind (py_eval en r) (fun vr =>
                      match vr with VTuple l => PVal (VTuple (va :: l)) | _ => PUnsup end))
  | EIndex a i => pbind (py_eval en a) (fun va => pbind (py_eval en i) (fun vi => pres_of (py_getitem va vi)))
  end.

(* the cells Python's evaluation reads *)
Fixpoint reads (en : env) (e : expr) : list loc :=
  match e with
  | ERead r => rcells en r
  | EBin _ a b | ECmp _ a b | EBool _ a b | ETupCons a b | EIndex a b =>
      match py_eval en a with PVal _ => reads en a ++ reads en b | _ => reads en a end
  | EUn _ a => reads en a
  | EIf c a b =>
      match py_eval en c with
      | PVal vc => reads en c ++ (if truthy vc then reads en a else reads en b)
      | _ => reads en c
      end
  | _ => []
  end.

(* ---- MPF's walk: value-or-exception and the list of subscriptions ----------------------------- *)
Inductive tres :=
  | TVal (v : value)
  | TEvalErr          (* TemplateEvalError (carries the subscription list) *)
  | TValueErr         (* ValueError *)
  | TCrash            (* any other exception: KeyError, ZeroDivisionError, IndexError, AssertionError, TypeError *)
  | TUnsup.

(* result of calling a table entry inside  try: ... except TypeError: raise TemplateEvalError(subs) *)
Definition of_res (r : res) (subs : list loc) : tres * list loc :=
  match r with
  | Val v => (TVal v, subs)
  | TypeErr => (TEvalErr, subs)
  | ZeroDiv | IndexErr => (TCrash, [])
  | Unsup => (TUnsup, [])
  end.

Definition tbind (r : tres * list loc) (k : value -> list loc -> tres * list loc) : tres * list loc :=
  match r with (TVal v, s) => k v s | _ => r end.

(* IfExp (fixed): an exception that carries subscriptions gets the test's subscriptions prepended *)
Definition with_subs (s : list loc) (r : tres * list loc) : tres * list loc :=
  match r with
  | (TVal v, s') => (TVal v, s ++ s')
  | (TEvalErr, s') => (TEvalErr, s ++ s')
  | _ => r
  end.

(* _eval dispatches on type(node) through self._eval_methods (translated: node_methods); a node class
   that is missing, or mapped to another walker, fails *)
Definition dispatch (k : nodekey) (m : method) (r : tres * list loc) : tres * list loc :=
  match node_methods k with
  | Some m' => if method_eqb m m' then r else (TCrash, [])
  | None => (TCrash, [])                                       (* raise TypeError(type(node)) *)
  end.

Definition read_walk (sub : bool) (en : env) (r : rdesc) : tres * list loc :=
  match r with
  | RCell (LMode _ _) =>
      if sub then (TValueErr, [])           (* ModePlaceholder.subscribe -> "subscribe is not a valid mode name" *)
      else match rread en r with RVal v => (TVal v, []) | RValErr => (TValueErr, []) | RCrash => (TCrash, []) end
  | RCell (LGame _) =>
      match game en with
      | None => (TValueErr, [])             (* Missing variable game *)
      | Some _ =>
          if sub then (TCrash, [])          (* 'Game' object has no attribute 'subscribe' *)
          else match rread en r with RVal v => (TVal v, []) | RValErr => (TValueErr, []) | RCrash => (TCrash, []) end
      end
  | _ =>
      match rread en r with
      | RVal v => (TVal v, if sub then rsubs r else [])
      | RValErr => if sub then (TEvalErr, rsubs r) else (TValueErr, [])
      | RCrash => (TCrash, [])
      end
  end.

Fixpoint tmpl_eval (sub : bool) (en : env) (e : expr) : tres * list loc :=
  match e with
  | ENum z => dispatch NConstant M_eval_constant (TVal (VInt z), [])
  | EFlt n d => dispatch NConstant M_eval_constant (TVal (VFloat n d), [])
  | EStr s => dispatch NConstant M_eval_constant (TVal (VStr s), [])
  | ENone => dispatch NConstant M_eval_constant (TVal VNone, [])
  | EBoolC b => dispatch NConstant M_eval_constant (TVal (VBool b), [])
  | EName x => dispatch NName M_eval_name
                 (match assoc_z x (params en) with Some v => (TVal v, []) | None => (TValueErr, []) end)
  | ERead r =>
      dispatch NName M_eval_name
        (dispatch NAttribute M_eval_attribute
           (match r with
            | RPlayerN _ _ => dispatch NSubscript M_eval_subscript (dispatch NConstant M_eval_constant (read_walk sub en r))
            | _ => read_walk sub en r
            end))
  | EBin o a b =>
      dispatch NBinOp M_eval_bin_op
      (tbind (tmpl_eval sub en a) (fun va sa =>
       tbind (tmpl_eval sub en b) (fun vb sb =>
         match operators o with
         | Some p => of_res (prim_call2 p va vb) (sa ++ sb)
         | None => (TCrash, [])                               (* KeyError *)
         end)))
  | EUn o a =>
      dispatch NUnaryOp M_eval_unary_op
      (tbind (tmpl_eval sub en a) (fun va sa =>
         match operators o with
         | Some p => of_res (prim_call1 p va) sa
         | None => (TCrash, [])
         end))
  | ECmp o a b =>
      dispatch NCompare M_eval_compare
      (tbind (tmpl_eval sub en a) (fun va sa =>
       tbind (tmpl_eval sub en b) (fun vb sb =>
         match comparisons o with
         | Some p => of_res (prim_call2 p va vb) (sa ++ sb)
         | None => (TCrash, [])
         end)))
  | EBool o a b =>
      dispatch NBoolOp M_eval_bool_op
      (tbind (tmpl_eval sub en a) (fun va sa =>
       tbind (tmpl_eval sub en b) (fun vb sb =>
         match bool_operators o with
         | Some p => (TVal (bprim_call p va vb), sa ++ sb)
         | None => (TCrash, [])
         end)))
  | EIf c a b =>
      dispatch NIfExp M_eval_if
      (tbind (tmpl_eval sub en c) (fun vc sc =>
         with_subs sc (if truthy vc then tmpl_eval sub en a else tmpl_eval sub en b)))
  | ETupNil => dispatch NTuple M_eval_tuple (TVal (VTuple []), [])
  | ETupCons a r =>
      dispatch NTuple M_eval_tuple
      (tbind (tmpl_eval sub en a) (fun va sa =>
       tbind (tmpl_eval sub en r) (fun vr sr =>
         match vr with VTuple l => (TVal (VTuple (va :: l)), sa ++ sr) | _ => (TUnsup, []) end)))
  | EIndex a i =>
      dispatch NSubscript M_eval_subscript
      (tbind (tmpl_eval sub en a) (fun va sa =>
       tbind (tmpl_eval sub en i) (fun vi si => of_res (py_getitem va vi) (sa ++ si))))
  end.

(* ---- typed templates --------------------------------------------------------------------------- *)
Inductive kind := KRaw | KBoolT | KIntT | KFloatT.
Inductive outcome :=
  | OVal (v : value)
  | OAssert            (* an exception escapes (AssertionError / ValueError / TypeError / AttributeError) *)
  | OUnsup.

Definition convert (k : kind) (v : value) : outcome :=
  match k with
  | KRaw => OVal v
  | KBoolT => OVal (VBool (truthy v))
  | KIntT => match v with
             | VBool b => OVal (VInt (b2z b))
             | VInt z => OVal (VInt z)
             | VFloat n d => OVal (VInt (Qtrunc (n # d)))
             | VNone | VTuple _ => OAssert    (* int(None): TypeError *)
             | VStr _ => OUnsup               (* int("..."): text parsing is not modelled *)
             end
  | KFloatT => match v with
               | VFloat _ _ => OVal v
               | VNone | VTuple _ => OAssert
               | VStr _ => OUnsup
               | _ => match as_num v with
                      | Some x => match num_fl x with
                                  | Some q => OVal (VFloat (Qnum q) (Qden q))
                                  | None => OUnsup
                                  end
                      | None => OAssert
                      end
               end
  end.

(* BaseTemplate.evaluate(parameters): the default is returned as it is *)
Definition evaluate (k : kind) (dflt : value) (en : env) (e : expr) : outcome :=
  match fst (tmpl_eval false en e) with
  | TVal VNone => OVal dflt
  | TVal v => convert k v
  | TEvalErr | TValueErr => OVal dflt
  | TCrash => OAssert
  | TUnsup => OUnsup
  end.

(* BaseTemplate.evaluate_and_subscribe(parameters): the default goes through convert_result;
   a ValueError (missing parameter) is turned into AssertionError *)
Definition evaluate_and_subscribe (k : kind) (dflt : value) (en : env) (e : expr) : outcome * list loc :=
  match tmpl_eval true en e with
  | (TVal VNone, s) | (TEvalErr, s) => (convert k dflt, s)
  | (TVal v, s) => (convert k v, s)
  | (TValueErr, _) | (TCrash, _) => (OAssert, [])
  | (TUnsup, _) => (OUnsup, [])
  end.

(* ---- change histories and the subscriber loop ---------------------------------------------------
   A setting is read from the machine variable configured for it; the value read is resolved by the
   harness (valid values only) and supplied in the operation. *)
Inductive change :=
  | CSetMachine (n : str) (v : value)
  | CRemoveMachine (n : str)
  | CSetSetting (n : str) (v : value)
  | CSetDevice (c d a : str) (v : value)
  | CSetPlayerVar (i : Z) (x : str) (v : value)     (* player index i of the running game *)
  | CStartGame                                      (* no game -> a game with one player whose first ball started *)
  | CAddPlayer
  | CNextTurn                                       (* the ball ended: the next player (or the same one) starts a ball *)
  | CEndGame (slow : bool).                         (* slow: a queue handler delays mode_game_stopping *)

Definition s_score : str := [115; 99; 111; 114; 101].
Definition s_number : str := [110; 117; 109; 98; 101; 114].
Definition s_index : str := [105; 110; 100; 101; 120].
Definition s_ball : str := [98; 97; 108; 108].

Definition cell_int (en : env) (l : loc) : Z :=
  match sread en l with RVal (VInt z) => z | _ => 0 end.

(* the cells a change writes, with their new content *)
Definition writes (en : env) (c : change) : list (loc * rd) :=
  match c with
  | CSetMachine n v => [(LMachine n, RVal v)]
  | CRemoveMachine _ => []                                       (* handled by remove_loc *)
  | CSetSetting n v => [(LSetting n, RVal v)]
  | CSetDevice c d a v => [(LDevice c d a, RVal v)]
  | CSetPlayerVar i x v =>
      match game en with
      | Some (_, n) => if (0 <=? i) && (i <? n) then [(LPlayerI (games en) i x, RVal v)] else []
      | None => []
      end
  | CStartGame =>
      match game en with
      | Some _ => []
      | None => let g := games en + 1 in
                [(LPlayerI g 0 s_index, RVal (VInt 0)); (LPlayerI g 0 s_number, RVal (VInt 1));
                 (LPlayerI g 0 s_score, RVal (VInt 0)); (LPlayerI g 0 s_ball, RVal (VInt 1))]
      end
  | CAddPlayer =>
      match game en with
      | Some (_, n) => let g := games en in
                       [(LPlayerI g n s_index, RVal (VInt n)); (LPlayerI g n s_number, RVal (VInt (n + 1)));
                        (LPlayerI g n s_score, RVal (VInt 0))]
      | None => []
      end
  | CNextTurn =>
      match game en with
      | Some (c, n) => let c' := (c + 1) mod n in
                       [(LPlayerI (games en) c' s_ball, RVal (VInt (cell_int en (LPlayerI (games en) c' s_ball) + 1)))]
      | None => []
      end
  | CEndGame _ => []
  end.

Definition new_game (en : env) (c : change) : Z * option (Z * Z) :=
  match c, game en with
  | CStartGame, None => (games en + 1, Some (0, 1))
  | CAddPlayer, Some (c, n) => (games en, Some (c, n + 1))
  | CNextTurn, Some (c, n) => (games en, Some ((c + 1) mod n, n))
  | CEndGame _, Some _ => (games en, None)
  | _, g => (games en, g)
  end.

Fixpoint remove_loc (l : loc) (s : list (loc * rd)) : list (loc * rd) :=
  match s with
  | [] => []
  | (k, v) :: s' => if loc_eqb l k then remove_loc l s' else (k, v) :: remove_loc l s'
  end.

Definition apply_change (en : env) (c : change) : env :=
  let st := match c with
            | CRemoveMachine n => remove_loc (LMachine n) (store en)
            | _ => writes en c ++ store en
            end in
  let '(g, gm) := new_game en c in
  mkEnv (params en) st g gm.

(* the cells whose content a change may alter *)
Definition changed_locs (en : env) (c : change) : list loc :=
  match c with
  | CRemoveMachine n => [LMachine n]
  | CStartGame | CAddPlayer | CNextTurn | CEndGame _ => LTurn :: LPlayers :: map fst (writes en c)
  | _ => map fst (writes en c)
  end.

Definition rd_py_eqb (a b : rd) : bool :=
  match a, b with
  | RVal x, RVal y => py_eqb x y
  | RValErr, RValErr | RCrash, RCrash => true
  | _, _ => false
  end.

(* machine_vars.set_machine_var / Player.__setattr__:  change = value - prev  (TypeError: prev != value) *)
Definition change_truthy (p v : value) : bool :=
  match py_sub v p with
  | Val d => truthy d
  | _ => negb (py_eqb p v)
  end.

(* isinstance(value, (int, str, float)) *)
Definition event_type (v : value) : bool :=
  match v with VBool _ | VInt _ | VStr _ | VFloat _ _ => true | _ => false end.

(* the channels a change completes, AFTER the cells have their new content.
   machine variables, settings: machine_var_<n> is posted iff  value - prev  (or value != prev) is
   truthy or the variable is new; removal (fixed) posts iff the variable existed;
   player variables: iff (changed or new) and the value is an int/str/float;
   device attributes: iff old != value;
   game start: player_added, player_<x> for every initial variable (enable_events sends them all),
   player_ball, player_turn_started;  add player: player_added + the new player's variables;
   ball end: player_turn_ended, player_ball, player_turn_started;
   game end (fixed): mode_game_stopped wakes both the current_player and the players placeholder. *)
Definition announced_gen (fixed : bool) (en : env) (c : change) : list loc :=
  match c with
  | CSetMachine n v =>
      match lookup_loc (LMachine n) (store en) with
      | Some (RVal p) => if change_truthy p v then [LMachine n] else []
      | _ => [LMachine n]
      end
  | CSetSetting n v =>
      match lookup_loc (LSetting n) (store en) with
      | Some (RVal p) => if change_truthy p v then [LSetting n] else []
      | _ => [LSetting n]
      end
  | CRemoveMachine n =>
      match lookup_loc (LMachine n) (store en) with Some _ => [LMachine n] | None => [] end
  | CSetDevice c d a v =>
      if rd_py_eqb (sread en (LDevice c d a)) (RVal v) then [] else [LDevice c d a]
  | CSetPlayerVar i x v =>
      match game en with
      | Some (_, n) =>
          if (0 <=? i) && (i <? n) then
            if (match lookup_loc (LPlayerI (games en) i x) (store en) with
                | Some (RVal p) => change_truthy p v
                | Some _ => true
                | None => true                                   (* new entry *)
                end) && event_type v
            then [LPlayerEv x] else []
          else []
      | None => []
      end
  | CStartGame =>
      match game en with
      | None => [LPlayers; LPlayerEv s_index; LPlayerEv s_number; LPlayerEv s_score; LPlayerEv s_ball; LTurn]
      | Some _ => []
      end
  | CAddPlayer =>
      match game en with
      | Some _ => [LPlayers; LPlayerEv s_index; LPlayerEv s_number; LPlayerEv s_score]
      | None => []
      end
  | CNextTurn =>
      match game en with
      | Some _ => [LTurn; LPlayerEv s_ball]
      | None => []
      end
  | CEndGame slow =>
      match game en with
      | Some _ => if fixed then [LTurn; LPlayers]
                  else if slow then [] else [LPlayers]           (* game_ended arrives before / after machine.game = None *)
      | None => []
      end
  end.
Definition announced := announced_gen true.
Definition announced_unfixed := announced_gen false.

(* the subscriber of ConfigPlayer._update_subscription: holds the last delivered value and the
   subscription list of the last evaluation *)
Record subscriber := mkSub { last : outcome; subs : list loc }.

Definition outcome_eqb (a b : outcome) : bool :=
  match a, b with
  | OVal x, OVal y => value_eqb x y
  | OAssert, OAssert => true
  | _, _ => false
  end.

Definition subscribe_now (k : kind) (dflt : value) (en : env) (e : expr) : subscriber :=
  let '(o, s) := evaluate_and_subscribe k dflt en e in mkSub o s.

Definition woken (ann sb : list loc) : bool :=
  existsb (fun a => existsb (loc_eqb a) sb) ann.

(* one change: returns the new environment, the new subscriber and whether it was re-evaluated *)
Definition hstep_gen (ann : env -> change -> list loc) (k : kind) (dflt : value) (e : expr)
           (st : env * subscriber) (c : change) : env * subscriber * bool :=
  let '(en, sb) := st in
  let en' := apply_change en c in
  if woken (ann en c) (subs sb)
  then (en', subscribe_now k dflt en' e, true)
  else (en', sb, false).
Definition hstep := hstep_gen announced.

Fixpoint hrun_gen (ann : env -> change -> list loc) (k : kind) (dflt : value) (e : expr)
         (st : env * subscriber) (cs : list change) : list (bool * outcome) :=
  match cs with
  | [] => []
  | c :: cs' =>
      let '(en', sb', fired) := hstep_gen ann k dflt e st c in
      (fired, last sb') :: hrun_gen ann k dflt e (en', sb') cs'
  end.
Definition hrun := hrun_gen announced.

(* ---- entry points for the correspondence files ------------------------------------------------- *)
Inductive opcase := OBin (o : opkey) (a b : value) | OUn (o : opkey) (a : value)
                  | OCmp (o : cmpkey) (a b : value) | OBool (o : boolkey) (a b : value)
                  | OIndex (a i : value).
Definition ops_run (c : opcase) : res :=
  match c with
  | OBin o a b => py_binop o a b
  | OUn o a => py_unop o a
  | OCmp o a b => py_cmp o a b
  | OBool o a b => Val (py_boolop o a b)
  | OIndex a i => py_getitem a i
  end.

(* expression case: (kind, default, env, expr) -> (evaluate, evaluate_and_subscribe's value, python) *)
Definition expr_run (i : kind * value * env * expr) : outcome * outcome * pres :=
  let '(k, d, en, e) := i in
  (evaluate k d en e, fst (evaluate_and_subscribe k d en e), py_eval en e).

Definition pres_eqb (a b : pres) : bool :=
  match a, b with
  | PVal x, PVal y => value_eqb x y
  | PTypeErr, PTypeErr | PZeroDiv, PZeroDiv | PIndexErr, PIndexErr | PNameErr, PNameErr
  | PReadErr, PReadErr | PCrash, PCrash => true
  | _, _ => false
  end.
Definition expr_out_eqb (a b : outcome * outcome * pres) : bool :=
  let '(a1, a2, a3) := a in let '(b1, b2, b3) := b in
  outcome_eqb a1 b1 && outcome_eqb a2 b2 && pres_eqb a3 b3.

(* the "fired" flag is [None] (not compared) where the harness does not observe it reliably: after a
   game-lifecycle step the real loop may hold the subscriptions of an evaluation made in a transient state
   inside that step; the delivered values are compared at every step *)
Definition hist_run (i : kind * value * env * expr * list change) : outcome * list (option bool * outcome) :=
  let '(k, d, en, e, cs) := i in
  let sb := subscribe_now k d en e in
  (last sb, map (fun p => (Some (fst p), snd p)) (hrun k d e (en, sb) cs)).
Definition fired_eqb (x y : option bool) : bool :=
  match x, y with Some a, Some b => Bool.eqb a b | _, _ => true end.
Definition hist_out_eqb (a b : outcome * list (option bool * outcome)) : bool :=
  outcome_eqb (fst a) (fst b) &&
  list_eqb (fun x y => fired_eqb (fst x) (fst y) && outcome_eqb (snd x) (snd y)) (snd a) (snd b).
