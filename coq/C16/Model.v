(* C16/Model.v — executable model of template evaluation in mpf/core/placeholder_manager.py
   (BasePlaceholderManager._eval*, BaseTemplate.evaluate / evaluate_and_subscribe) and of the
   re-evaluate / re-subscribe loop of ConfigPlayer._update_subscription over a store of machine
   variables, settings, player variables and monitored device attributes.

   The three operator tables are NOT written here: gen/Tables.v is regenerated from the dict
   literals OPERATORS / BOOL_OPERATORS / COMPARISONS of the module on every run (harness/props/c16.py,
   translate()).

   The model is of the code WITH the proposed fixes fixes/C16-*.patch applied (see NOTES.md):
   unary operators convert TypeError into TemplateEvalError like the binary ones; IfExp keeps the
   subscriptions of its test when the taken branch fails; removing a machine variable posts
   machine_var_<name>.

   Definitions only; proofs are in Lemmas.v. *)
From Common Require Import Prelude.
From C16 Require Export Syntax.
From C16.gen Require Export Tables.
Open Scope Z_scope.

(* ---- store locations a template can read ---------------------------------------------------- *)
Inductive loc :=
  | LMachine (n : str)                 (* machine.n  /  machine["n"] *)
  | LSetting (n : str)                 (* settings.n *)
  | LPlayer (n : str)                  (* current_player.n *)
  | LDevice (c d a : str).             (* device.c.d.a *)

Definition loc_eqb (x y : loc) : bool :=
  match x, y with
  | LMachine a, LMachine b | LSetting a, LSetting b | LPlayer a, LPlayer b => zs_eqb a b
  | LDevice a b c, LDevice a' b' c' => zs_eqb a a' && zs_eqb b b' && zs_eqb c c'
  | _, _ => false
  end.

(* what reading a location gives: a value, ValueError (player outside a game, unknown device
   attribute), or another exception (unknown setting / device: AssertionError) *)
Inductive rd := RVal (v : value) | RValErr | RCrash.

Record env := mkEnv {
  params : list (str * value);         (* the [parameters] dict handed to evaluate() *)
  store : list (loc * rd);             (* explicit entries *)
  in_game : bool }.

Fixpoint lookup_loc (l : loc) (s : list (loc * rd)) : option rd :=
  match s with
  | [] => None
  | (k, v) :: s' => if loc_eqb l k then Some v else lookup_loc l s'
  end.

Definition sread (e : env) (l : loc) : rd :=
  match l with
  | LPlayer _ =>
      if in_game e then match lookup_loc l (store e) with Some r => r | None => RVal (VInt 0) end
      else RValErr                                   (* PlayerPlaceholder: "Not in a game" *)
  | LMachine _ => match lookup_loc l (store e) with Some r => r | None => RVal VNone end
  | _ => match lookup_loc l (store e) with Some r => r | None => RCrash end
  end.

(* ---- expressions ---------------------------------------------------------------------------- *)
(* BoolOp with n operands is the left-nested binary form: MPF folds [values] from the left after
   evaluating each operand in turn, which is exactly the evaluation order of the nested form. *)
Inductive expr :=
  | ENum (z : Z) | EStr (s : str) | ENone | EBoolC (b : bool)
  | EName (x : str)
  | ERead (l : loc)
  | EBin (o : opkey) (a b : expr)
  | EUn (o : opkey) (a : expr)
  | ECmp (o : cmpkey) (a b : expr)
  | EBool (o : boolkey) (a b : expr)
  | EIf (c a b : expr).

Fixpoint supported (e : expr) : bool :=
  match e with
  | EBin o a b => supported_bin o && supported a && supported b
  | EUn o a => supported_un o && supported a
  | ECmp o a b => supported_cmp o && supported a && supported b
  | EBool _ a b => supported a && supported b
  | EIf c a b => supported c && supported a && supported b
  | _ => true
  end.

(* ---- reference: Python's evaluation (all BoolOp operands evaluated) --------------------------- *)
Inductive pres :=
  | PVal (v : value) | PTypeErr | PZeroDiv
  | PNameErr          (* a name that is not a parameter *)
  | PReadErr          (* the location cannot be read (ValueError) *)
  | PCrash            (* unknown setting / device *)
  | PUnsup.

Definition pres_of (r : res) : pres :=
  match r with Val v => PVal v | TypeErr => PTypeErr | ZeroDiv => PZeroDiv | Unsup => PUnsup end.

Definition pbind (r : pres) (k : value -> pres) : pres := match r with PVal v => k v | _ => r end.

Fixpoint py_eval (en : env) (e : expr) : pres :=
  match e with
  | ENum z => PVal (VInt z)
  | EStr s => PVal (VStr s)
  | ENone => PVal VNone
  | EBoolC b => PVal (VBool b)
  | EName x => match assoc_z x (params en) with Some v => PVal v | None => PNameErr end
  | ERead l => match sread en l with RVal v => PVal v | RValErr => PReadErr | RCrash => PCrash end
  | EBin o a b => pbind (py_eval en a) (fun va => pbind (py_eval en b) (fun vb => pres_of (py_binop o va vb)))
  | EUn o a => pbind (py_eval en a) (fun va => pres_of (py_unop o va))
  | ECmp o a b => pbind (py_eval en a) (fun va => pbind (py_eval en b) (fun vb => pres_of (py_cmp o va vb)))
  | EBool o a b => pbind (py_eval en a) (fun va => pbind (py_eval en b) (fun vb => PVal (py_boolop o va vb)))
  | EIf c a b => pbind (py_eval en c) (fun vc => if truthy vc then py_eval en a else py_eval en b)
  end.

(* the locations Python's evaluation reads *)
Fixpoint reads (en : env) (e : expr) : list loc :=
  match e with
  | ERead l => [l]
  | EBin _ a b | ECmp _ a b | EBool _ a b =>
      match py_eval en a with PVal _ => reads en a ++ reads en b | _ => reads en a end
  | EUn _ a => reads en a
  | EIf c a b =>
      match py_eval en c with
      | PVal vc => reads en c ++ (if truthy vc then reads en a else reads en b)
      | _ => reads en c
      end
  | _ => []
  end.

(* ---- MPF's walk: value-or-exception and the list of subscriptions ----------------------------- *)
Inductive tres :=
  | TVal (v : value)
  | TEvalErr          (* TemplateEvalError (carries the subscription list) *)
  | TValueErr         (* ValueError *)
  | TCrash            (* any other exception: KeyError, ZeroDivisionError, AssertionError, TypeError *)
  | TUnsup.

(* result of calling a table entry inside  try: ... except TypeError: raise TemplateEvalError(subs) *)
Definition of_res (r : res) (subs : list loc) : tres * list loc :=
  match r with
  | Val v => (TVal v, subs)
  | TypeErr => (TEvalErr, subs)
  | ZeroDiv => (TCrash, [])
  | Unsup => (TUnsup, [])
  end.

Definition tbind (r : tres * list loc) (k : value -> list loc -> tres * list loc) : tres * list loc :=
  match r with (TVal v, s) => k v s | _ => r end.

(* IfExp (fixed): an exception that carries subscriptions gets the test's subscriptions prepended *)
Definition with_subs (s : list loc) (r : tres * list loc) : tres * list loc :=
  match r with
  | (TVal v, s') => (TVal v, s ++ s')
  | (TEvalErr, s') => (TEvalErr, s ++ s')
  | _ => r
  end.

Fixpoint tmpl_eval (sub : bool) (en : env) (e : expr) : tres * list loc :=
  match e with
  | ENum z => (TVal (VInt z), [])
  | EStr s => (TVal (VStr s), [])
  | ENone => (TVal VNone, [])
  | EBoolC b => (TVal (VBool b), [])
  | EName x => match assoc_z x (params en) with Some v => (TVal v, []) | None => (TValueErr, []) end
  | ERead l =>
      match sread en l with
      | RVal v => (TVal v, if sub then [l] else [])
      | RValErr => if sub then (TEvalErr, [l]) else (TValueErr, [])
      | RCrash => (TCrash, [])
      end
  | EBin o a b =>
      tbind (tmpl_eval sub en a) (fun va sa =>
      tbind (tmpl_eval sub en b) (fun vb sb =>
        match operators o with
        | Some p => of_res (prim_call2 p va vb) (sa ++ sb)
        | None => (TCrash, [])                               (* KeyError *)
        end))
  | EUn o a =>
      tbind (tmpl_eval sub en a) (fun va sa =>
        match operators o with
        | Some p => of_res (prim_call1 p va) sa
        | None => (TCrash, [])
        end)
  | ECmp o a b =>
      tbind (tmpl_eval sub en a) (fun va sa =>
      tbind (tmpl_eval sub en b) (fun vb sb =>
        match comparisons o with
        | Some p => of_res (prim_call2 p va vb) (sa ++ sb)
        | None => (TCrash, [])
        end))
  | EBool o a b =>
      tbind (tmpl_eval sub en a) (fun va sa =>
      tbind (tmpl_eval sub en b) (fun vb sb =>
        match bool_operators o with
        | Some p => (TVal (bprim_call p va vb), sa ++ sb)
        | None => (TCrash, [])
        end))
  | EIf c a b =>
      tbind (tmpl_eval sub en c) (fun vc sc =>
        with_subs sc (if truthy vc then tmpl_eval sub en a else tmpl_eval sub en b))
  end.

(* ---- typed templates --------------------------------------------------------------------------- *)
Inductive kind := KRaw | KBoolT | KIntT.
Inductive outcome :=
  | OVal (v : value)
  | OAssert            (* an exception escapes (AssertionError / ValueError / TypeError) *)
  | OUnsup.

Definition convert (k : kind) (v : value) : outcome :=
  match k with
  | KRaw => OVal v
  | KBoolT => OVal (VBool (truthy v))
  | KIntT => match v with
             | VBool b => OVal (VInt (b2z b))
             | VInt z => OVal (VInt z)
             | VNone => OAssert               (* int(None): TypeError *)
             | VStr _ => OUnsup               (* int("..."): text parsing is not modelled *)
             end
  end.

(* BaseTemplate.evaluate(parameters): the default is returned as it is *)
Definition evaluate (k : kind) (dflt : value) (en : env) (e : expr) : outcome :=
  match fst (tmpl_eval false en e) with
  | TVal VNone => OVal dflt
  | TVal v => convert k v
  | TEvalErr | TValueErr => OVal dflt
  | TCrash => OAssert
  | TUnsup => OUnsup
  end.

(* BaseTemplate.evaluate_and_subscribe(parameters): the default goes through convert_result;
   a ValueError (missing parameter) is turned into AssertionError *)
Definition evaluate_and_subscribe (k : kind) (dflt : value) (en : env) (e : expr) : outcome * list loc :=
  match tmpl_eval true en e with
  | (TVal VNone, s) | (TEvalErr, s) => (convert k dflt, s)
  | (TVal v, s) => (convert k v, s)
  | (TValueErr, _) | (TCrash, _) => (OAssert, [])
  | (TUnsup, _) => (OUnsup, [])
  end.

(* ---- change histories and the subscriber loop ---------------------------------------------------
   A setting is read from the machine variable configured for it; in the model the harness names
   that variable like the setting, i.e. LSetting n is backed by machine variable n (the real rig
   is configured the same way), and the value read is resolved by the harness (invalid -> default)
   and supplied in the operation. *)
Inductive change :=
  | CSetMachine (n : str) (v : value)
  | CRemoveMachine (n : str)
  | CSetSetting (n : str) (v : value)
  | CSetPlayer (n : str) (v : value)
  | CSetDevice (c d a : str) (v : value).

Definition changed_loc (c : change) : loc :=
  match c with
  | CSetMachine n _ | CRemoveMachine n => LMachine n
  | CSetSetting n _ => LSetting n
  | CSetPlayer n _ => LPlayer n
  | CSetDevice c d a _ => LDevice c d a
  end.

Definition new_rd (c : change) : rd :=
  match c with
  | CSetMachine _ v | CSetSetting _ v | CSetPlayer _ v | CSetDevice _ _ _ v => RVal v
  | CRemoveMachine _ => RVal VNone
  end.

Definition set_store (l : loc) (r : rd) (en : env) : env :=
  mkEnv (params en) ((l, r) :: store en) (in_game en).

Definition rd_py_eqb (a b : rd) : bool :=
  match a, b with
  | RVal x, RVal y => py_eqb x y
  | RValErr, RValErr | RCrash, RCrash => true
  | _, _ => false
  end.

(* is the change announced (event posted / attribute future completed)?
   machine variables, settings: machine_var_<n> is posted iff  value - prev  (or value != prev) is
   truthy, i.e. iff not (prev == value); removal (fixed) posts iff the variable existed;
   player variables: iff the value changed (or the variable is new) and the value is an int/str;
   device attributes: iff old != value. *)
Definition announces (en : env) (c : change) : bool :=
  let l := changed_loc c in
  match c with
  | CSetMachine _ v | CSetSetting _ v =>
      match lookup_loc l (store en) with
      | Some (RVal p) => negb (py_eqb p v)
      | _ => true
      end
  | CRemoveMachine _ =>
      match lookup_loc l (store en) with Some _ => true | None => false end
  | CSetPlayer _ v =>
      (match lookup_loc l (store en) with
       | Some (RVal p) => negb (py_eqb p v)
       | _ => true
       end) && (match v with VNone => false | _ => true end)
  | CSetDevice _ _ _ v => negb (rd_py_eqb (sread en l) (RVal v))
  end.

Fixpoint remove_loc (l : loc) (s : list (loc * rd)) : list (loc * rd) :=
  match s with
  | [] => []
  | (k, v) :: s' => if loc_eqb l k then remove_loc l s' else (k, v) :: remove_loc l s'
  end.

Definition apply_change (en : env) (c : change) : env :=
  match c with
  | CRemoveMachine n => mkEnv (params en) (remove_loc (LMachine n) (store en)) (in_game en)
  | _ => set_store (changed_loc c) (new_rd c) en
  end.

(* the subscriber of ConfigPlayer._update_subscription: holds the last delivered value and the
   subscription list of the last evaluation *)
Record subscriber := mkSub { last : outcome; subs : list loc }.

Definition outcome_eqb (a b : outcome) : bool :=
  match a, b with
  | OVal x, OVal y => value_eqb x y
  | OAssert, OAssert => true
  | _, _ => false
  end.

Definition subscribe_now (k : kind) (dflt : value) (en : env) (e : expr) : subscriber :=
  let '(o, s) := evaluate_and_subscribe k dflt en e in mkSub o s.

(* one change: returns the new environment, the new subscriber and whether it was re-evaluated *)
Definition hstep (k : kind) (dflt : value) (e : expr) (st : env * subscriber) (c : change)
  : env * subscriber * bool :=
  let '(en, sb) := st in
  let en' := apply_change en c in
  if announces en c && existsb (loc_eqb (changed_loc c)) (subs sb)
  then (en', subscribe_now k dflt en' e, true)
  else (en', sb, false).

Fixpoint hrun (k : kind) (dflt : value) (e : expr) (st : env * subscriber) (cs : list change)
  : list (bool * outcome) :=
  match cs with
  | [] => []
  | c :: cs' =>
      let '(en', sb', fired) := hstep k dflt e st c in
      (fired, last sb') :: hrun k dflt e (en', sb') cs'
  end.

(* ---- entry points for the correspondence files ------------------------------------------------- *)
Definition binop_run (i : opkey * value * value) : res := let '(o, a, b) := i in py_binop o a b.
Definition unop_run (i : opkey * value) : res := let '(o, a) := i in py_unop o a.
Definition cmp_run (i : cmpkey * value * value) : res := let '(o, a, b) := i in py_cmp o a b.

Inductive opcase := OBin (o : opkey) (a b : value) | OUn (o : opkey) (a : value)
                  | OCmp (o : cmpkey) (a b : value) | OBool (o : boolkey) (a b : value).
Definition ops_run (c : opcase) : res :=
  match c with
  | OBin o a b => py_binop o a b
  | OUn o a => py_unop o a
  | OCmp o a b => py_cmp o a b
  | OBool o a b => Val (py_boolop o a b)
  end.

(* expression case: (kind, default, env, expr) -> (evaluate, evaluate_and_subscribe's value, python) *)
Definition expr_run (i : kind * value * env * expr) : outcome * outcome * pres :=
  let '(k, d, en, e) := i in
  (evaluate k d en e, fst (evaluate_and_subscribe k d en e), py_eval en e).

Definition pres_eqb (a b : pres) : bool :=
  match a, b with
  | PVal x, PVal y => value_eqb x y
  | PTypeErr, PTypeErr | PZeroDiv, PZeroDiv | PNameErr, PNameErr | PReadErr, PReadErr | PCrash, PCrash => true
  | _, _ => false
  end.
Definition expr_out_eqb (a b : outcome * outcome * pres) : bool :=
  let '(a1, a2, a3) := a in let '(b1, b2, b3) := b in
  outcome_eqb a1 b1 && outcome_eqb a2 b2 && pres_eqb a3 b3.

Definition hist_run (i : kind * value * env * expr * list change) : outcome * list (bool * outcome) :=
  let '(k, d, en, e, cs) := i in
  let sb := subscribe_now k d en e in
  (last sb, hrun k d e (en, sb) cs).
Definition hist_out_eqb (a b : outcome * list (bool * outcome)) : bool :=
  outcome_eqb (fst a) (fst b) &&
  list_eqb (fun x y => Bool.eqb (fst x) (fst y) && outcome_eqb (snd x) (snd y)) (snd a) (snd b).
