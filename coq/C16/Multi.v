(* C16/Multi.v — several condition-driven config-player entries ("{condition}": keys of event_player,
   variable_player, show_player ...: ConfigPlayer.register_player_events / _create_subscription /
   _update_subscription / unload_player_events in mpf/core/config_player.py) living at the same time on the
   same machine state: machine-wide entries and entries of modes, created when the mode starts and cancelled
   (future.cancel() on the entry's subscription) when the mode stops or the player is unloaded.

   Every entry runs its own re-evaluate / re-subscribe loop (Model.hstep) on futures of its own:
   DeviceMonitor.subscribe_attribute and EventManager.wait_for_event create a NEW future per call, a change
   completes ALL pending futures of the channel, cancelling an entry cancels only that entry's futures.  So
   the entries do not interact: cancelling one never silences another.

   Definitions only; proofs are in MultiLemmas.v. *)
From Common Require Import Prelude.
From C16 Require Export Model.
Open Scope Z_scope.

Inductive mstep :=
  | MChange (c : change)
  | MStart (ids : list Z)          (* register_player_events of a group of entries (mode start / machine-wide) *)
  | MCancel (ids : list Z).        (* unload_player_events: the group's subscriptions are cancelled (mode stop) *)

Record msub := mkMS { ms_id : Z; ms_expr : expr; ms_alive : bool; ms_sub : subscriber }.

Definition mem_z (x : Z) (l : list Z) : bool := existsb (Z.eqb x) l.

(* one entry, one step: (new state, was the consumer called) *)
Definition msub_step (k : kind) (d : value) (en : env) (s : mstep) (m : msub) : msub * bool :=
  match s with
  | MChange c =>
      if ms_alive m then
        let '(_, sb', fired) := hstep k d (ms_expr m) (en, ms_sub m) c in
        (mkMS (ms_id m) (ms_expr m) true sb', fired)
      else (m, false)
  | MStart ids =>
      if mem_z (ms_id m) ids
      then (mkMS (ms_id m) (ms_expr m) true (subscribe_now k d en (ms_expr m)), true)
      else (m, false)
  | MCancel ids =>
      if mem_z (ms_id m) ids then (mkMS (ms_id m) (ms_expr m) false (ms_sub m), false) else (m, false)
  end.

Definition menv_step (en : env) (s : mstep) : env :=
  match s with MChange c => apply_change en c | _ => en end.

Definition mstep_all (k : kind) (d : value) (st : env * list msub) (s : mstep) : env * list msub :=
  (menv_step (fst st) s, map (fun m => fst (msub_step k d (fst st) s m)) (snd st)).

Fixpoint mfinal (k : kind) (d : value) (st : env * list msub) (ss : list mstep) : env * list msub :=
  match ss with
  | [] => st
  | s :: r => mfinal k d (mstep_all k d st s) r
  end.

(* observation after every step, per entry: None = not living; Some (consumer called in this step, value last
   delivered to the consumer) *)
Definition mobs (k : kind) (d : value) (en : env) (s : mstep) (m : msub) : Z * option (bool * outcome) :=
  let '(m', fired) := msub_step k d en s m in
  (ms_id m', if ms_alive m' then Some (fired, last (ms_sub m')) else None).

Fixpoint mrun (k : kind) (d : value) (st : env * list msub) (ss : list mstep) : list (list (Z * option (bool * outcome))) :=
  match ss with
  | [] => []
  | s :: r => map (mobs k d (fst st) s) (snd st) :: mrun k d (mstep_all k d st s) r
  end.

(* ---- entry point for the correspondence file ----------------------------------------------------- *)
Definition dead_sub : subscriber := mkSub OAssert [].

Definition multi_run (i : env * list (Z * expr) * list mstep) : list (list (Z * option (bool * outcome))) :=
  let '(en, es, ss) := i in
  mrun KRaw VNone (en, map (fun p => mkMS (fst p) (snd p) false dead_sub) es) ss.

Definition mobs_eqb (a b : Z * option (bool * outcome)) : bool :=
  (fst a =? fst b) &&
  match snd a, snd b with
  | Some (f, o), Some (f', o') => Bool.eqb f f' && outcome_eqb o o'
  | None, None => true
  | _, _ => false
  end.

Definition multi_out_eqb (a b : list (list (Z * option (bool * outcome)))) : bool :=
  list_eqb (list_eqb mobs_eqb) a b.
