(* C16/CondLemmas.v — proofs about conditional event handlers (Cond.v). *)
From Common Require Import Prelude.
From C16 Require Import Model Lemmas Cond.
Open Scope Z_scope.

Lemma truthy_bool b : truthy (VBool b) = b.
Proof. destruct b; reflexivity. Qed.

(* the decision taken by the dispatcher is Python's verdict on the condition, on the state and kwargs handed in *)
Lemma cond_now_python en kw h c : h_cond h = Some c -> supported c = true ->
  cond_now en kw h = decision_of (py_eval (with_params en (merged kw h)) c).
Proof.
  intros Hc S. unfold cond_now. rewrite Hc. unfold evaluate.
  rewrite (tmpl_matches_python false (with_params en (merged kw h)) c S (or_introl eq_refl)).
  destruct (py_eval (with_params en (merged kw h)) c) as [v| | | | | | |]; cbn [expected decision_of]; try reflexivity.
  destruct v; cbn [convert]; try reflexivity; rewrite truthy_bool; reflexivity.
Qed.

Definition verdict (t : turn) : cdec :=
  match h_cond (t_h t) with
  | None => DRun
  | Some c => decision_of (py_eval (with_params (t_env t) (merged (t_kw t) (t_h t))) c)
  end.

Lemma crun_verdict ty : forall hs en kw t, forallb handler_supported hs = true ->
  In t (crun ty en kw hs) -> t_dec t = verdict t.
Proof.
  induction hs as [|h r IH]; intros en kw t S I; cbn [crun] in I; [contradiction|].
  cbn [forallb] in S. apply andb_true_iff in S as [Sh Sr].
  destruct I as [E | I].
  - subst t. unfold verdict. cbn [t_dec t_h t_env t_kw].
    unfold handler_supported in Sh. destruct (h_cond h) as [c|] eqn:Hc.
    + apply cond_now_python; assumption.
    + unfold cond_now. rewrite Hc. reflexivity.
  - destruct (cond_now en kw h); try contradiction.
    + destruct (stops ty h); [contradiction|]. eapply IH; eassumption.
    + eapply IH; eassumption.
Qed.

(* what has happened to the machine state / the kwargs when a turn is over *)
Definition turn_effects (ty : evtype) (t : turn) : list change :=
  match t_dec t with DRun => effects ty (t_h t) | _ => [] end.
Definition turn_kwargs (ty : evtype) (kw : list (str * value)) (t : turn) : list (str * value) :=
  match t_dec t with DRun => next_kwargs ty (t_h t) kw | _ => kw end.

Lemma apply_changes_app en a b : apply_changes en (a ++ b) = apply_changes (apply_changes en a) b.
Proof. unfold apply_changes. apply fold_left_app. Qed.

Lemma crun_turn_state ty : forall hs en kw ts1 t ts2, crun ty en kw hs = ts1 ++ t :: ts2 ->
  t_env t = apply_changes en (flat_map (turn_effects ty) ts1) /\
  t_kw t = fold_left (turn_kwargs ty) ts1 kw.
Proof.
  induction hs as [|h r IH]; intros en kw ts1 t ts2 E; cbn [crun] in E.
  - destruct ts1; discriminate.
  - destruct ts1 as [|t0 ts1].
    + cbn [app] in E. inversion E; subst. cbn. split; reflexivity.
    + cbn [app] in E. injection E as E0 E1. subst t0.
      cbn [flat_map fold_left]. rewrite apply_changes_app.
      unfold turn_effects at 1. unfold turn_kwargs at 2. cbn [t_dec t_h].
      destruct (cond_now en kw h).
      * destruct (stops ty h); [destruct ts1; discriminate|]. apply (IH _ _ _ _ _ E1).
      * cbn [apply_changes fold_left]. apply (IH _ _ _ _ _ E1).
      * destruct ts1; discriminate.
      * destruct ts1; discriminate.
Qed.

(* the handlers get their turn in the order of the (sorted) list, none is passed over *)
Lemma crun_order ty : forall hs en kw, map t_h (crun ty en kw hs) = firstn (length (crun ty en kw hs)) hs.
Proof.
  induction hs as [|h r IH]; intros en kw; cbn [crun]; [reflexivity|].
  cbn [map length firstn t_h]. f_equal.
  destruct (cond_now en kw h); try reflexivity.
  - destruct (stops ty h); [reflexivity|]. apply IH.
  - apply IH.
Qed.

Lemma crun_complete ty : forall hs en kw,
  forallb (fun t => match t_dec t with DRun => negb (stops ty (t_h t)) | DSkip => true | _ => false end)
          (crun ty en kw hs) = true ->
  map t_h (crun ty en kw hs) = hs.
Proof.
  induction hs as [|h r IH]; intros en kw; cbn [crun]; [reflexivity|].
  cbn [map forallb t_h t_dec]. intro F. f_equal.
  destruct (cond_now en kw h); try discriminate.
  - destruct (stops ty h); [discriminate|]. apply IH. exact F.
  - apply IH. exact F.
Qed.

(* insert_handler keeps the list sorted (highest priority first) *)
Fixpoint prio_sorted (l : list handler) : bool :=
  match l with
  | [] => true
  | x :: r => forallb (fun y => h_prio y <=? h_prio x) r && prio_sorted r
  end.

Lemma insert_sorted h : forall l, prio_sorted l = true -> prio_sorted (insert_handler h l) = true.
Proof.
  induction l as [|x r IH]; intro S; cbn [insert_handler]; [reflexivity|].
  cbn [prio_sorted] in S. apply andb_true_iff in S as [Sx Sr].
  destruct (h_prio x <? h_prio h) eqn:L.
  - apply Z.ltb_lt in L. cbn [prio_sorted forallb]. apply andb_true_iff. split.
    + apply andb_true_iff. split; [apply Z.leb_le; lia|].
      rewrite forallb_forall in *. intros y Iy. specialize (Sx y Iy). apply Z.leb_le in Sx. apply Z.leb_le. lia.
    + apply andb_true_iff. split; assumption.
  - apply Z.ltb_ge in L. cbn [prio_sorted]. apply andb_true_iff. split; [|apply IH; exact Sr].
    rewrite forallb_forall. intros y Iy.
    assert (In y (insert_handler h r) -> y = h \/ In y r) as Q.
    { clear. induction r as [|z r IH]; cbn [insert_handler]; intro I.
      - destruct I as [<-|[]]; left; reflexivity.
      - destruct (h_prio z <? h_prio h).
        + destruct I as [<-|I]; [left; reflexivity|right; exact I].
        + destruct I as [<-|I]; [right; left; reflexivity|].
          destruct (IH I) as [->|I']; [left; reflexivity|right; right; exact I']. }
    destruct (Q Iy) as [->|I']; [apply Z.leb_le; exact L|].
    rewrite forallb_forall in Sx. apply Sx. exact I'.
Qed.

Lemma sort_handlers_sorted hs : prio_sorted (sort_handlers hs) = true.
Proof.
  unfold sort_handlers.
  assert (forall acc, prio_sorted acc = true -> prio_sorted (fold_left (fun a h => insert_handler h a) hs acc) = true) as G.
  { induction hs as [|h r IH]; intros acc S; cbn [fold_left]; [exact S|]. apply IH. apply insert_sorted. exact S. }
  apply G. reflexivity.
Qed.

(* ---- witness: deciding all conditions at the time of the post is a different dispatcher ------------ *)
Definition w_a : str := [97].
Definition w_env := mkEnv [] [(LMachine w_a, RVal (VInt 1))] 0 None.
Definition w_cond := ECmp CEq (ERead (RCell (LMachine w_a))) (ENum 1).
Definition w_handlers :=
  [mkH 0 10 None [] [] RNothing (Some [CSetMachine w_a (VInt 0)]);      (* holds the queue; the value changes meanwhile *)
   mkH 1 1 (Some w_cond) [] [] RNothing None].

Lemma snapshot_refuted_ex :
  forallb handler_supported w_handlers = true /\
  map (fun t => h_id (t_h t)) (filter (fun t => cdec_eqb (t_dec t) DRun) (crun TQueue w_env [] w_handlers)) = [0] /\
  map (fun t => h_id (t_h t)) (filter (fun t => cdec_eqb (t_dec t) DRun) (crun_snapshot TQueue w_env w_env [] [] w_handlers)) = [0; 1].
Proof. vm_compute. repeat split; reflexivity. Qed.

Lemma ex_cond_run :
  cond_run (TQueue, w_env, [], [mkH 1 1 (Some w_cond) [] [] RNothing None;
                                mkH 0 10 None [] [] RNothing (Some [CSetMachine w_a (VInt 0)])])
  = ([(0, [None; None; None; None])], false).
Proof. vm_compute. reflexivity. Qed.
