(* C16/Cond.v — conditional event handlers (add_handler("event{condition}")) in mpf/core/events.py:
   EventManager._run_handlers (plain, boolean and relay events) and _run_handlers_sequential (queue events).

   The handlers registered for the event are called one after the other in priority order (the list is
   re-sorted, stably, highest priority first, on every add_handler).  For EACH handler, immediately before its
   own call: the post's kwargs are merged with the handler's registered kwargs (the handler's win), the
   handler's condition (a BoolTemplate, default False) is evaluated over the merged kwargs on the machine
   state OF THAT MOMENT, and the handler is skipped when the result is false.  Between the post and a
   handler's turn the state may have changed: earlier handlers write variables; an earlier handler of a
   queue event may hold the queue with queue.wait() for an arbitrary time during which anything can change;
   an earlier handler of a relay event may replace kwargs.  A boolean event stops at the first handler that
   returns False.

   Definitions only; proofs are in CondLemmas.v. *)
From Common Require Import Prelude.
From C16 Require Export Model.
Open Scope Z_scope.

Inductive evtype := TPlain | TBoolean | TRelay | TQueue.

(* what the callback returns *)
Inductive hret := RNothing | RFalse | RDict (d : list (str * value)).

Record handler := mkH {
  h_id : Z;
  h_prio : Z;                              (* priority + the ".N" suffix of the event string *)
  h_cond : option expr;                    (* the {condition} *)
  h_kwargs : list (str * value);           (* kwargs registered with the handler *)
  h_acts : list change;                    (* what the callback does to the machine state *)
  h_ret : hret;
  h_wait : option (list change) }.         (* the callback calls queue.wait(); what changes until queue.clear() *)

(* registered_handlers[event].append(h); .sort(key=priority, reverse=True): stable, so a new handler comes
   after every handler whose priority is >= its own *)
Fixpoint insert_handler (h : handler) (l : list handler) : list handler :=
  match l with
  | [] => [h]
  | x :: r => if h_prio x <? h_prio h then h :: l else x :: insert_handler h r
  end.
Definition sort_handlers (hs : list handler) : list handler :=
  fold_left (fun acc h => insert_handler h acc) hs [].

Definition with_params (en : env) (p : list (str * value)) : env :=
  mkEnv p (store en) (games en) (game en).

(* dict(list(kwargs.items()) + list(handler.kwargs.items())) *)
Definition merged (kw : list (str * value)) (h : handler) : list (str * value) := h_kwargs h ++ kw.

Inductive cdec :=
  | DRun | DSkip
  | DCrash            (* the evaluation raises: the exception escapes from the dispatcher *)
  | DUnsup.

Definition cdec_eqb (a b : cdec) : bool :=
  match a, b with DRun, DRun | DSkip, DSkip | DCrash, DCrash | DUnsup, DUnsup => true | _, _ => false end.

(* handler.condition is not None and not handler.condition.evaluate(merged_kwargs)  ->  continue *)
Definition cond_now (en : env) (kw : list (str * value)) (h : handler) : cdec :=
  match h_cond h with
  | None => DRun
  | Some c =>
      match evaluate KBoolT (VBool false) (with_params en (merged kw h)) c with
      | OVal v => if truthy v then DRun else DSkip
      | OAssert => DCrash
      | OUnsup => DUnsup
      end
  end.

Definition apply_changes (en : env) (cs : list change) : env := fold_left apply_change cs en.

(* everything that happens to the machine state between the beginning of a handler's call and the turn
   of the next handler *)
Definition effects (ty : evtype) (h : handler) : list change :=
  h_acts h ++ match ty, h_wait h with TQueue, Some w => w | _, _ => [] end.

Definition stops (ty : evtype) (h : handler) : bool :=
  match ty, h_ret h with TBoolean, RFalse => true | _, _ => false end.

(* relay: kwargs.update(result) *)
Definition next_kwargs (ty : evtype) (h : handler) (kw : list (str * value)) : list (str * value) :=
  match ty, h_ret h with TRelay, RDict d => d ++ kw | _, _ => kw end.

Record turn := mkT { t_h : handler; t_env : env; t_kw : list (str * value); t_dec : cdec }.

Fixpoint crun (ty : evtype) (en : env) (kw : list (str * value)) (hs : list handler) : list turn :=
  match hs with
  | [] => []
  | h :: r =>
      let d := cond_now en kw h in
      mkT h en kw d ::
      match d with
      | DRun => if stops ty h then [] else crun ty (apply_changes en (effects ty h)) (next_kwargs ty h kw) r
      | DSkip => crun ty en kw r
      | _ => []
      end
  end.

(* the refactoring this property forbids: all conditions decided on the state at the time of the post,
   the handlers called afterwards *)
Fixpoint crun_snapshot (ty : evtype) (en0 en : env) (kw0 kw : list (str * value)) (hs : list handler) : list turn :=
  match hs with
  | [] => []
  | h :: r =>
      let d := cond_now en0 kw0 h in
      mkT h en kw d ::
      match d with
      | DRun => if stops ty h then []
                else crun_snapshot ty en0 (apply_changes en (effects ty h)) kw0 (next_kwargs ty h kw) r
      | DSkip => crun_snapshot ty en0 en kw0 kw r
      | _ => []
      end
  end.

(* Python's own verdict on a condition: the handler acts iff the expression has a true value NOW;
   type-incompatible operands, a missing kwarg or an unreadable variable count as false *)
Definition decision_of (p : pres) : cdec :=
  match p with
  | PVal v => if truthy v then DRun else DSkip
  | PTypeErr | PNameErr | PReadErr => DSkip
  | PZeroDiv | PIndexErr | PCrash => DCrash
  | PUnsup => DUnsup
  end.

Definition handler_supported (h : handler) : bool :=
  match h_cond h with Some c => supported c | None => true end.

(* ---- entry point for the correspondence file -----------------------------------------------------
   observed per call: the handler's id and the kwargs it received (for the generated parameter names) *)
Definition s_p : str := [112].
Definition s_q : str := [113].
Definition s_r : str := [114].
Definition s_s : str := [115].

Definition seen_kwargs (kw : list (str * value)) : list (option value) :=
  map (fun n => assoc_z n kw) [s_p; s_q; s_r; s_s].

Definition calls_of (ts : list turn) : list (Z * list (option value)) :=
  flat_map (fun t => match t_dec t with
                     | DRun => [(h_id (t_h t), seen_kwargs (merged (t_kw t) (t_h t)))]
                     | _ => []
                     end) ts.

Definition crashed (ts : list turn) : bool :=
  existsb (fun t => match t_dec t with DCrash | DUnsup => true | _ => false end) ts.

Definition cond_run (i : evtype * env * list (str * value) * list handler) : list (Z * list (option value)) * bool :=
  let '(ty, en, kw, hs) := i in
  let ts := crun ty en kw (sort_handlers hs) in
  (calls_of ts, crashed ts).

Definition optval_eqb (a b : option value) : bool :=
  match a, b with Some x, Some y => value_eqb x y | None, None => true | _, _ => false end.

Definition cond_out_eqb (a b : list (Z * list (option value)) * bool) : bool :=
  list_eqb (fun x y => (fst x =? fst y) && list_eqb optval_eqb (snd x) (snd y)) (fst a) (fst b) &&
  Bool.eqb (snd a) (snd b).
