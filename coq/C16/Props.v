(* C16/Props.v — property theorems only.  Each is closed by [exact] of a lemma of Lemmas.v and
   followed by Print Assumptions (parsed by the check: must be "Closed under the global context").

   Property C16: evaluating a template yields exactly the value the expression has under Python's
   operator semantics for the supported grammar, missing variables / type-incompatible operands give
   the template's default, and a subscribed template is notified after every change of anything it
   read, so it never keeps a stale value.

   Domain of the theorems: expressions of [expr] (constants incl. floats, parameters, reads of machine
   variables / settings / device attributes / current_player.x / players[i].x / mode.m.a / game.a,
   BinOp, UnaryOp, single Compare, BoolOp, IfExp, tuple displays, subscripts) over the values
   None / bool / int / float / str / tuple.  Floats are exact rationals with explicit binary64 rounding
   (normal range; float ** , inf, nan, '%' formatting are [Unsup] and never fed to the model).
   [operators], [comparisons], [bool_operators], [node_methods] are gen/Tables.v, regenerated from
   mpf/core/placeholder_manager.py on every run.

   The model is of the code with fixes/C16-*.patch applied.  Two parts of the full statement stay false
   of the faithful model and are kept as witnesses:
   * a change that is not announced (a player variable set to None posts no player_<name> event) leaves the
     subscriber stale - [stale_after_unannounced_change_refuted]; [no_stale_value_partial] is the statement
     guarded by exactly that class ([honest_run]: every cell a change alters keeps its content or is
     announced), [no_stale_value_plain] is the FULL statement for int/str valued stores and
     [lifecycle_and_removal_always_announced] says only value-setting changes can be unannounced;
   * evaluate_and_subscribe with a missing PARAMETER raises (by design) - [missing_parameter_subscribed_refuted].
   The game-end defect repaired by fixes/C16-player-placeholder-game-end.patch is
   [stale_after_game_end_unfixed_refuted]. *)
From Common Require Import Prelude.
From C16 Require Import Model Lemmas Cond CondLemmas Multi MultiLemmas.
Open Scope Z_scope.

(* MPF's walk with the translated tables computes Python's value, for every supported expression,
   every environment, with and without subscription (when subscribing: no mode.* / game.* inside). *)
Theorem eval_equals_python_allops :
  forall (sub : bool) (en : env) (e : expr) (v : value),
    supported e = true -> (sub = false \/ subscribable e = true) ->
    py_eval en e = PVal v -> fst (tmpl_eval sub en e) = TVal v.
Proof. exact eval_equals_python_allops_l. Qed.
Print Assumptions eval_equals_python_allops.
Example eval_equals_python_allops_sat :
  (supported ex_expr = true /\ subscribable ex_expr = true) /\ py_eval ex_env ex_expr = PVal (VInt 14).
Proof. exact (conj ex_supported ex_value). Qed.
Print Assumptions eval_equals_python_allops_sat.
Example eval_equals_python_allops_sat_float :
  py_eval ex_env (EBin KAdd (EFlt 3602879701896397 36028797018963968) (EFlt 3602879701896397 18014398509481984))
  = PVal (VFloat 1351079888211149 4503599627370496).
Proof. exact ex_float. Qed.
Print Assumptions eval_equals_python_allops_sat_float.
Example eval_equals_python_allops_sat_tuple :
  supported ex_tuple_expr = true /\ py_eval ex_env ex_tuple_expr = PVal (VFloat 5 2) /\
  tmpl_eval true ex_env ex_tuple_expr = (TVal (VFloat 5 2), []).
Proof. exact ex_tuple. Qed.
Print Assumptions eval_equals_python_allops_sat_tuple.

(* ... and in every other case MPF's walk ends in exactly the exception class that corresponds to
   Python's (TypeError -> TemplateEvalError, missing parameter -> ValueError, IndexError -> crash ...). *)
Theorem walk_matches_python_in_all_cases :
  forall sub en e, supported e = true -> (sub = false \/ subscribable e = true) ->
    fst (tmpl_eval sub en e) = expected sub (py_eval en e).
Proof. exact tmpl_matches_python. Qed.
Print Assumptions walk_matches_python_in_all_cases.

(* the dispatch on type(node) reaches the walker of every node class of the grammar *)
Theorem dispatch_reaches_every_walker :
  forall k m, In (k, m) [(NConstant, M_eval_constant); (NName, M_eval_name); (NAttribute, M_eval_attribute);
                         (NSubscript, M_eval_subscript); (NBinOp, M_eval_bin_op); (NUnaryOp, M_eval_unary_op);
                         (NCompare, M_eval_compare); (NBoolOp, M_eval_bool_op); (NIfExp, M_eval_if);
                         (NTuple, M_eval_tuple)] ->
  forall r, dispatch k m r = r.
Proof. exact dispatch_table_ok. Qed.
Print Assumptions dispatch_reaches_every_walker.

(* a value returned by the walk is Python's value, without any guard on what is subscribable *)
Theorem walk_value_is_python_value :
  forall sub en e v s, supported e = true -> tmpl_eval sub en e = (TVal v, s) -> py_eval en e = PVal v.
Proof. exact val_inv. Qed.
Print Assumptions walk_value_is_python_value.

(* typed templates (raw / bool / int / float): evaluate() delivers the converted Python value, the default for None *)
Theorem evaluate_equals_python :
  forall k d en e v, supported e = true -> py_eval en e = PVal v -> evaluate k d en e = deliver k d v.
Proof. exact evaluate_equals_python_l. Qed.
Print Assumptions evaluate_equals_python.

Theorem subscribed_evaluation_equals_python :
  forall k d en e v, supported e = true -> subscribable e = true -> py_eval en e = PVal v ->
    fst (evaluate_and_subscribe k d en e) = match v with VNone => convert k d | _ => convert k v end.
Proof. exact subscribed_equals_python_l. Qed.
Print Assumptions subscribed_evaluation_equals_python.

(* type-incompatible operands, a missing parameter or an unreadable variable give the default *)
Theorem type_error_gives_default :
  forall k d en e, supported e = true ->
    (py_eval en e = PTypeErr \/ py_eval en e = PNameErr \/ py_eval en e = PReadErr) ->
    evaluate k d en e = OVal d.
Proof. exact type_error_gives_default_l. Qed.
Print Assumptions type_error_gives_default.
Example type_error_gives_default_sat :
  py_eval ex_env (EUn KUSub (ERead (RCell (LMachine [98])))) = PTypeErr.
Proof. exact ex_type_error. Qed.
Print Assumptions type_error_gives_default_sat.

(* evaluate_and_subscribe: COMPLETE characterisation of the delivered outcome by Python's result *)
Theorem subscribed_outcome_characterised :
  forall k d en e, supported e = true -> subscribable e = true ->
    fst (evaluate_and_subscribe k d en e) = outcome_of k d (expected true (py_eval en e)).
Proof. exact subscribed_outcome_l. Qed.
Print Assumptions subscribed_outcome_characterised.

(* FULL statement would be: TypeError, unreadable variable AND missing parameter give the (converted) default.
   Proved for the first two; the third is false of the code by design (next theorem): what remains is exactly
   py_eval = PNameErr. *)
Theorem type_error_gives_default_subscribed_partial :
  forall k d en e, supported e = true -> subscribable e = true ->
    (py_eval en e = PTypeErr \/ py_eval en e = PReadErr) ->
    fst (evaluate_and_subscribe k d en e) = convert k d.
Proof. exact type_error_gives_default_subscribed_l. Qed.
Print Assumptions type_error_gives_default_subscribed_partial.

Theorem missing_parameter_subscribed_raises :
  forall k d en e, supported e = true -> subscribable e = true -> py_eval en e = PNameErr ->
    fst (evaluate_and_subscribe k d en e) = OAssert.
Proof. exact missing_parameter_subscribed_l. Qed.
Print Assumptions missing_parameter_subscribed_raises.
Theorem missing_parameter_subscribed_refuted :
  exists k d en e, supported e = true /\ subscribable e = true /\ py_eval en e = PNameErr /\
    fst (evaluate_and_subscribe k d en e) = OAssert /\ evaluate k d en e = OVal d.
Proof. exact missing_parameter_subscribed_refuted_ex. Qed.
Print Assumptions missing_parameter_subscribed_refuted.

(* mode.* and game.* have no subscribe(): a subscribed evaluation raises, it never returns a (possibly stale) value *)
Theorem unsubscribable_read_raises :
  forall k d en r, unsubscribable r = true -> evaluate_and_subscribe k d en (ERead r) = (OAssert, []).
Proof. exact unsubscribable_read_raises_l. Qed.
Print Assumptions unsubscribable_read_raises.

(* every cell Python's evaluation reads is behind a channel of the returned subscription list *)
Theorem subscriptions_cover_reads :
  forall en e v s, supported e = true -> tmpl_eval true en e = (TVal v, s) ->
    forall l, In l (reads en e) -> In (chan_of l) s.
Proof. exact subscriptions_cover_reads_l. Qed.
Print Assumptions subscriptions_cover_reads.
Example subscriptions_cover_reads_sat :
  tmpl_eval true ex_env ex_expr = (TVal (VInt 14), [LSetting [115]; LMachine [97]]).
Proof. exact ex_tmpl. Qed.
Print Assumptions subscriptions_cover_reads_sat.

(* ... and those are real channels: a subscribed evaluation that returns a value read no mode / game attribute *)
Theorem subscribed_value_reads_subscribable :
  forall en e v s, supported e = true -> tmpl_eval true en e = (TVal v, s) ->
    forall l, In l (reads en e) -> is_channel (chan_of l) = true.
Proof. exact subscribed_value_reads_subscribable_l. Qed.
Print Assumptions subscribed_value_reads_subscribable.

(* also when the result is the default after a TemplateEvalError: as long as no cell behind a subscribed
   channel changes, a re-evaluation gives the same outcome (or raises) *)
Theorem outcome_determined_by_subscriptions :
  forall e en en' r s, supported e = true ->
    tmpl_eval true en e = (r, s) -> tres_ok r = true -> agree_on s en en' ->
    fst (tmpl_eval true en' e) = r \/ tres_ok (fst (tmpl_eval true en' e)) = false.
Proof. exact outcome_determined_by_subscriptions_l. Qed.
Print Assumptions outcome_determined_by_subscriptions.

(* FULL statement: for every history of changes (values written to machine variables, settings, device
   attributes, any player's variables; removal; game start, add player, turn hand-over, game end), the value
   last delivered to the consumer of the re-evaluate / re-subscribe loop equals the evaluation on the current
   store.  False of the faithful model for changes that are not announced (refuted below); proved for every
   history whose changes are announced or leave the cells they write unchanged. *)
Theorem no_stale_value_partial :
  forall k d e en cs, supported e = true -> honest_run en cs = true ->
    let st := hfinal k d e (en, subscribe_now k d en e) cs in
    (forall v, last (snd st) <> OVal v)
    \/ fst (evaluate_and_subscribe k d (fst st) e) = last (snd st)
    \/ (forall v, fst (evaluate_and_subscribe k d (fst st) e) <> OVal v).
Proof. exact no_stale_value_l. Qed.
Print Assumptions no_stale_value_partial.
Example no_stale_value_partial_sat :
  honest_run ex_env ex_changes = true /\
  hrun KRaw (VInt 77) ex_expr (ex_env, subscribe_now KRaw (VInt 77) ex_env ex_expr) ex_changes
  = [(true, OVal (VInt 16)); (true, OVal (VInt 77)); (true, OVal (VInt (-9))); (true, OVal (VInt 77)); (false, OVal (VInt 77))].
Proof. exact (conj ex_honest ex_history). Qed.
Print Assumptions no_stale_value_partial_sat.

(* the guard narrowed: game-lifecycle changes and removals are ALWAYS announced; only a value written to a
   variable / attribute can go unannounced ... *)
Theorem lifecycle_and_removal_always_announced :
  forall en c, (lifecycle c = true \/ exists n, c = CRemoveMachine n) -> honest en c = true.
Proof. exact lifecycle_and_removal_honest. Qed.
Print Assumptions lifecycle_and_removal_always_announced.

(* ... and it cannot when the store holds ints and strings: the FULL statement, no guard on the history *)
Theorem no_stale_value_plain :
  forall k d e en cs, supported e = true -> plain_store en = true -> forallb plain_change cs = true ->
    let st := hfinal k d e (en, subscribe_now k d en e) cs in
    (forall v, last (snd st) <> OVal v)
    \/ fst (evaluate_and_subscribe k d (fst st) e) = last (snd st)
    \/ (forall v, fst (evaluate_and_subscribe k d (fst st) e) <> OVal v).
Proof. exact no_stale_value_plain_l. Qed.
Print Assumptions no_stale_value_plain.
Example no_stale_value_plain_sat :
  supported game_expr = true /\ plain_store game_env = true /\ forallb plain_change game_changes = true /\
  hrun KRaw (VInt 77) game_expr (game_env, subscribe_now KRaw (VInt 77) game_env game_expr) game_changes
  = [(true, OVal (VInt 77)); (true, OVal (VInt 77)); (true, OVal (VInt 104)); (true, OVal (VInt 1100));
     (true, OVal (VInt 1005)); (false, OVal (VInt 1005)); (true, OVal (VInt 77))].
Proof. exact ex_game. Qed.
Print Assumptions no_stale_value_plain_sat.

Theorem stale_after_unannounced_change_refuted :
  exists k d e en cs,
    let st := hfinal k d e (en, subscribe_now k d en e) cs in
    supported e = true /\ honest_run en cs = false /\
    last (snd st) = OVal (VInt 5) /\ fst (evaluate_and_subscribe k d (fst st) e) = OVal (VInt 77).
Proof. exact stale_after_unannounced_change_refuted_ex. Qed.
Print Assumptions stale_after_unannounced_change_refuted.

(* the code without fixes/C16-player-placeholder-game-end.patch ([announced_unfixed]): an int-valued history
   (so [no_stale_value_plain] would apply) after which current_player.score still delivers 70 while the
   template evaluates to its default 77; the fixed model delivers 77 *)
Theorem stale_after_game_end_unfixed_refuted :
  exists k d e en cs,
    let st := hfinal_gen announced_unfixed k d e (en, subscribe_now k d en e) cs in
    supported e = true /\ forallb plain_change cs = true /\ plain_store en = true /\
    last (snd st) = OVal (VInt 70) /\ fst (evaluate_and_subscribe k d (fst st) e) = OVal (VInt 77) /\
    last (snd (hfinal k d e (en, subscribe_now k d en e) cs)) = OVal (VInt 77).
Proof. exact stale_after_game_end_unfixed_refuted_ex. Qed.
Print Assumptions stale_after_game_end_unfixed_refuted.

(* ==== conditional event handlers: add_handler("event{condition}") on plain / boolean / relay / queue events ====
   (EventManager._run_handlers and _run_handlers_sequential; model: Cond.crun over the sorted handler list)

   "A conditional handler never acts on a stale value": for EVERY event type, handler list, state and kwargs,
   every handler that gets its turn is called iff its condition has a true value under Python's semantics
   ([verdict]: py_eval over the handler's merged kwargs) ON THE STATE OF ITS OWN TURN ... *)
Theorem conditional_handler_acts_on_current_value :
  forall ty hs en kw t, forallb handler_supported hs = true ->
    In t (crun ty en kw hs) -> t_dec t = verdict t.
Proof. exact crun_verdict. Qed.
Print Assumptions conditional_handler_acts_on_current_value.

(* ... and the state / kwargs of a handler's turn are the posted ones after EVERYTHING that happened in the turns
   before it: the writes of every earlier handler that ran, the changes made while an earlier handler held the
   queue (queue.wait() ... queue.clear()), the kwargs replaced by earlier relay handlers. *)
Theorem handler_turn_sees_all_earlier_effects :
  forall ty hs en kw ts1 t ts2, crun ty en kw hs = ts1 ++ t :: ts2 ->
    t_env t = apply_changes en (flat_map (turn_effects ty) ts1) /\
    t_kw t = fold_left (turn_kwargs ty) ts1 kw.
Proof. exact crun_turn_state. Qed.
Print Assumptions handler_turn_sees_all_earlier_effects.
Example conditional_handler_sat :
  cond_run (TQueue, w_env, [], [mkH 1 1 (Some w_cond) [] [] RNothing None;
                                mkH 0 10 None [] [] RNothing (Some [CSetMachine w_a (VInt 0)])])
  = ([(0, [None; None; None; None])], false).
Proof. exact ex_cond_run. Qed.
Print Assumptions conditional_handler_sat.

(* the turns follow the registered (sorted) list without gaps; nobody is passed over unless a boolean event was
   stopped by a handler returning False (or an evaluation raised) *)
Theorem handlers_take_turns_in_list_order :
  forall ty hs en kw, map t_h (crun ty en kw hs) = firstn (length (crun ty en kw hs)) hs.
Proof. exact crun_order. Qed.
Print Assumptions handlers_take_turns_in_list_order.
Theorem no_handler_passed_over :
  forall ty hs en kw,
    forallb (fun t => match t_dec t with DRun => negb (stops ty (t_h t)) | DSkip => true | _ => false end)
            (crun ty en kw hs) = true ->
    map t_h (crun ty en kw hs) = hs.
Proof. exact crun_complete. Qed.
Print Assumptions no_handler_passed_over.
Theorem registered_handlers_sorted_by_priority :
  forall hs, prio_sorted (sort_handlers hs) = true.
Proof. exact sort_handlers_sorted. Qed.
Print Assumptions registered_handlers_sorted_by_priority.

(* the forbidden dispatcher (all conditions decided when the event is posted, handlers called afterwards) is a
   different function: a queue handler holds the queue while machine.a goes 1 -> 0; {machine.a == 1} must not run *)
Theorem conditions_decided_at_post_time_refuted :
  exists ty en kw hs, forallb handler_supported hs = true /\
    map (fun t => h_id (t_h t)) (filter (fun t => cdec_eqb (t_dec t) DRun) (crun ty en kw hs)) = [0] /\
    map (fun t => h_id (t_h t)) (filter (fun t => cdec_eqb (t_dec t) DRun) (crun_snapshot ty en en kw kw hs)) = [0; 1].
Proof. exists TQueue, w_env, [], w_handlers. exact snapshot_refuted_ex. Qed.
Print Assumptions conditions_decided_at_post_time_refuted.

(* ==== several condition-driven config-player entries at the same time (Multi.v) ======================
   registering, starting, cancelling or unloading OTHER entries (mode stop, unload_player_events) never changes
   what an entry holds: the state of the whole population is the concatenation of the single-entry runs *)
Theorem entries_do_not_interact :
  forall k d ss en ms1 m ms2,
    snd (mfinal k d (en, ms1 ++ m :: ms2) ss) =
    snd (mfinal k d (en, ms1) ss) ++ snd (mfinal k d (en, [m]) ss) ++ snd (mfinal k d (en, ms2) ss).
Proof. exact entries_independent_l. Qed.
Print Assumptions entries_do_not_interact.

(* FULL statement: after any interleaving of changes with entries being registered and cancelled, EVERY living
   entry holds the value its template has now.  As for a single subscriber it is false for unannounced changes
   ([stale_after_unannounced_change_refuted]); proved under the same guard ... *)
Theorem no_stale_value_every_living_entry_partial :
  forall k d ss en ms,
    forallb (fun m => supported (ms_expr m)) ms = true ->
    forallb (fun m => negb (ms_alive m)) ms = true ->
    mhonest en ss = true ->
    let st := mfinal k d (en, ms) ss in
    forall m, In m (snd st) -> ms_alive m = true ->
      (forall v, last (ms_sub m) <> OVal v)
      \/ fst (evaluate_and_subscribe k d (fst st) (ms_expr m)) = last (ms_sub m)
      \/ (forall v, fst (evaluate_and_subscribe k d (fst st) (ms_expr m)) <> OVal v).
Proof. exact no_stale_entries_l. Qed.
Print Assumptions no_stale_value_every_living_entry_partial.

(* ... and without any guard on the history for int / str valued stores *)
Theorem no_stale_value_every_living_entry_plain :
  forall k d ss en ms,
    forallb (fun m => supported (ms_expr m)) ms = true ->
    forallb (fun m => negb (ms_alive m)) ms = true ->
    plain_store en = true -> mplain ss = true ->
    let st := mfinal k d (en, ms) ss in
    forall m, In m (snd st) -> ms_alive m = true ->
      (forall v, last (ms_sub m) <> OVal v)
      \/ fst (evaluate_and_subscribe k d (fst st) (ms_expr m)) = last (ms_sub m)
      \/ (forall v, fst (evaluate_and_subscribe k d (fst st) (ms_expr m)) <> OVal v).
Proof. exact no_stale_entries_plain_l. Qed.
Print Assumptions no_stale_value_every_living_entry_plain.
Example no_stale_value_every_living_entry_sat :
  multi_run (mx_env, mx_entries, mx_steps)
  = [[(0, Some (true, OVal (VBool false))); (1, None)];
     [(0, Some (false, OVal (VBool false))); (1, Some (true, OVal (VBool false)))];
     [(0, Some (true, OVal (VBool false))); (1, Some (true, OVal (VBool true)))];
     [(0, Some (false, OVal (VBool false))); (1, None)];
     [(0, Some (true, OVal (VBool true))); (1, None)]]
  /\ mplain mx_steps = true /\ plain_store mx_env = true.
Proof. exact ex_multi. Qed.
Print Assumptions no_stale_value_every_living_entry_sat.
