(* C16/Props.v — property theorems only.  Each is closed by [exact] of a lemma of Lemmas.v and
   followed by Print Assumptions (parsed by the check: must be "Closed under the global context").

   Property C16: evaluating a template yields exactly the value the expression has under Python's
   operator semantics for the supported grammar, missing variables / type-incompatible operands give
   the template's default, and a subscribed template is notified after every change of anything it
   read, so it never keeps a stale value.

   Domain of the theorems: expressions of [expr] (constants, parameters, reads of machine variables /
   settings / player variables / device attributes, BinOp, UnaryOp, single Compare, BoolOp, IfExp)
   over the values None / bool / int / str.  Floats, tuples, subscripts and '%' formatting are not in
   the Coq model (they are exercised on the implementation by the oracle-only suite; NOTES.md).
   [operators], [comparisons], [bool_operators] are gen/Tables.v, regenerated from the dict literals
   of mpf/core/placeholder_manager.py on every run.

   The model is of the code with fixes/C16-*.patch applied.  One part of the full statement stays
   false of the faithful model: a change that is not announced (a player variable set to None posts no
   player_<name> event) leaves the subscriber stale - [stale_after_unannounced_change_refuted];
   [no_stale_value_partial] is the statement guarded by exactly that class ([honest_run]). *)
From Common Require Import Prelude.
From C16 Require Import Model Lemmas.
Open Scope Z_scope.

(* MPF's walk with the translated tables computes Python's value, for every supported expression,
   every environment, with and without subscription. *)
Theorem eval_equals_python_allops :
  forall (sub : bool) (en : env) (e : expr) (v : value),
    supported e = true -> py_eval en e = PVal v -> fst (tmpl_eval sub en e) = TVal v.
Proof. exact eval_equals_python_allops_l. Qed.
Print Assumptions eval_equals_python_allops.
Example eval_equals_python_allops_sat :
  supported ex_expr = true /\ py_eval ex_env ex_expr = PVal (VInt 14).
Proof. exact (conj ex_supported ex_value). Qed.
Print Assumptions eval_equals_python_allops_sat.

(* ... and in every other case MPF's walk ends in exactly the exception class that corresponds to
   Python's (TypeError -> TemplateEvalError, missing parameter -> ValueError, ...). *)
Theorem walk_matches_python_in_all_cases :
  forall sub en e, supported e = true -> fst (tmpl_eval sub en e) = expected sub (py_eval en e).
Proof. exact tmpl_matches_python. Qed.
Print Assumptions walk_matches_python_in_all_cases.

(* typed templates (raw / bool / int): evaluate() delivers the converted Python value, the default for None *)
Theorem evaluate_equals_python :
  forall k d en e v, supported e = true -> py_eval en e = PVal v -> evaluate k d en e = deliver k d v.
Proof. exact evaluate_equals_python_l. Qed.
Print Assumptions evaluate_equals_python.

Theorem subscribed_evaluation_equals_python :
  forall k d en e v, supported e = true -> py_eval en e = PVal v ->
    fst (evaluate_and_subscribe k d en e) = match v with VNone => convert k d | _ => convert k v end.
Proof. exact subscribed_equals_python_l. Qed.
Print Assumptions subscribed_evaluation_equals_python.

(* type-incompatible operands, a missing parameter or an unreadable variable give the default *)
Theorem type_error_gives_default :
  forall k d en e, supported e = true ->
    (py_eval en e = PTypeErr \/ py_eval en e = PNameErr \/ py_eval en e = PReadErr) ->
    evaluate k d en e = OVal d.
Proof. exact type_error_gives_default_l. Qed.
Print Assumptions type_error_gives_default.
Example type_error_gives_default_sat :
  py_eval ex_env (EUn KUSub (ERead (LMachine [98]))) = PTypeErr.
Proof. exact ex_type_error. Qed.
Print Assumptions type_error_gives_default_sat.

(* Full statement for evaluate_and_subscribe would include PNameErr; the code deliberately raises
   AssertionError for a missing parameter when subscribing (evaluate_and_subscribe_template), which the
   model reproduces: proved for TypeError and unreadable variables. *)
Theorem type_error_gives_default_subscribed_partial :
  forall k d en e, supported e = true ->
    (py_eval en e = PTypeErr \/ py_eval en e = PReadErr) ->
    fst (evaluate_and_subscribe k d en e) = convert k d.
Proof. exact type_error_gives_default_subscribed_l. Qed.
Print Assumptions type_error_gives_default_subscribed_partial.

(* every location Python's evaluation reads has a subscription in the returned list *)
Theorem subscriptions_cover_reads :
  forall en e v s, supported e = true -> tmpl_eval true en e = (TVal v, s) -> incl (reads en e) s.
Proof. exact subscriptions_cover_reads_l. Qed.
Print Assumptions subscriptions_cover_reads.
Example subscriptions_cover_reads_sat :
  tmpl_eval true ex_env ex_expr = (TVal (VInt 14), [LSetting [115]; LMachine [97]]).
Proof. exact ex_tmpl. Qed.
Print Assumptions subscriptions_cover_reads_sat.

(* also when the result is the default after a TemplateEvalError: as long as no subscribed location
   changes, a re-evaluation gives the same outcome (or raises) *)
Theorem outcome_determined_by_subscriptions :
  forall e en en' r s,
    tmpl_eval true en e = (r, s) -> tres_ok r = true -> agree_on s en en' ->
    fst (tmpl_eval true en' e) = r \/ tres_ok (fst (tmpl_eval true en' e)) = false.
Proof. exact outcome_determined_by_subscriptions_l. Qed.
Print Assumptions outcome_determined_by_subscriptions.

(* FULL statement: for every history of changes, the value last delivered to the consumer of the
   re-evaluate / re-subscribe loop equals the evaluation on the current store.
   False of the faithful model for changes that are not announced (next theorem); proved for every
   history whose changes are announced or leave the value read at the location unchanged. *)
Theorem no_stale_value_partial :
  forall k d e en cs, honest_run en cs = true ->
    let st := hfinal k d e (en, subscribe_now k d en e) cs in
    (forall v, last (snd st) <> OVal v)
    \/ fst (evaluate_and_subscribe k d (fst st) e) = last (snd st)
    \/ (forall v, fst (evaluate_and_subscribe k d (fst st) e) <> OVal v).
Proof. exact no_stale_value_l. Qed.
Print Assumptions no_stale_value_partial.
Example no_stale_value_partial_sat :
  honest_run ex_env ex_changes = true /\
  hrun KRaw (VInt 77) ex_expr (ex_env, subscribe_now KRaw (VInt 77) ex_env ex_expr) ex_changes
  = [(true, OVal (VInt 16)); (true, OVal (VInt 77)); (true, OVal (VInt (-9))); (true, OVal (VInt 77)); (false, OVal (VInt 77))].
Proof. exact (conj ex_honest ex_history). Qed.
Print Assumptions no_stale_value_partial_sat.

Theorem stale_after_unannounced_change_refuted :
  exists k d e en cs,
    let st := hfinal k d e (en, subscribe_now k d en e) cs in
    honest_run en cs = false /\
    last (snd st) = OVal (VInt 5) /\ fst (evaluate_and_subscribe k d (fst st) e) = OVal (VInt 77).
Proof. exact stale_after_unannounced_change_refuted_ex. Qed.
Print Assumptions stale_after_unannounced_change_refuted.
